#!/bin/bash
# Runs the repository's pinned suite (guard off) on /repo (or $1) and compares with BASELINE.json's stable_pass list.
R="${1:-/repo}"
export GOFLAGS=-mod=mod GOPROXY=off
OUT="$(mktemp)"
for m in . core da sequencers/single sequencers/based apps/testapp; do (cd "$R/$m" && go test -json -vet=off -count=1 -timeout 25m ./... 2>/dev/null); done > "$OUT"
python3 - "$OUT" <<'PY'
import json,sys
base=json.load(open('/root/.vp/BASELINE.json'))
stable=set(base['stable_pass'])
passed=set(); failed=set()
for l in open(sys.argv[1]):
    try: e=json.loads(l)
    except: continue
    if e.get('Test') and e.get('Action') in ('pass','fail'):
        k=e['Package']+'::'+e['Test']
        (passed if e['Action']=='pass' else failed).add(k)
print('pass',len(passed),'fail',len(failed))
print('stable missing:',sorted(stable-passed))
print('failed:',sorted(failed))
sys.exit(1 if stable-passed else 0)
PY
rc=$?; rm -f "$OUT"; exit $rc
