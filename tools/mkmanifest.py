#!/usr/bin/env python3
"""Regenerates /verif/MANIFEST.json from the table below (one entry per claimed property)."""
import json, os
ROOT = os.path.dirname(os.path.dirname(os.path.abspath(__file__)))
ids = [json.loads(l)['id'] for l in open(os.path.join(ROOT, 'properties.jsonl'))]

BASELINE_OFF = ("cd /repo && export GOFLAGS=-mod=mod GOPROXY=off && for m in . core da sequencers/single sequencers/based apps/testapp; do "
                "(cd /repo/$m && go test -json -vet=off -count=1 -timeout 25m ./...); done")

C = {}
def claim(pid, category, technique, text, note, design_ref, engine):
    C[pid] = dict(category=category, technique=technique, text=text, note=note, design_ref=design_ref, engine=engine)

claim('C14', 'model_checking', 'explicit-state BFS over operation histories of the real DefaultStore against a map reference model, crash at every durable-write boundary',
      'All operation histories up to the depth bound (save block at 2-3 heights in three variants, set height, update state, set metadata on the node\'s key shapes, reopen, crash before the k-th durable write of a write operation followed by reopen) are executed on the real store over a logging datastore double; every getter is compared with a map model after every history; states are merged on the durable image. Exhaustive within the bound. The merge key includes the in-memory fields of the store object (reflection), taken before the getters run.',
      'Trusted: go-datastore contract (single put and batch commit atomic+durable) as modelled by the KV double; small scope (heights<=3, depth<=5/6).',
      'DESIGN.md section 5 C14', 'bfs')

claim('C01', 'model_checking', 'stateless exhaustive enumeration of sequencing/execution/restart answer sequences on the real production step, deviation-bounded',
      'Every sequence of sequencing-layer answers (10-element menu: fresh/empty/absent/error/nil batch, timestamps +1s/0/-1s, repeated transactions), execution outcomes and clean restarts over 4-5 production steps within per-class deviation budgets, for initial heights 1 and 3, is run on the real Manager.publishBlock over the real store; after every step the whole committed chain is re-read from the store and checked (height +0/+1, hash link, time order, data commitment, batch mapping, app hash = reference root, proposer signature and address, stored signature, recorded state, broadcast = committed, execution inputs); 3 well-formed steps afterwards must add a block.',
      'Trusted: executor/sequencer doubles (hash-chain root), datastore double; small scope (<=5 steps, <=3 deviations). Full-node acceptance of the produced chain is exercised in C02/C13 worlds.',
      'DESIGN.md section 5 C01', 'explore')
claim('C04', 'fault_enumeration', 'exhaustive crash-point enumeration over the real durable-write log (datastore double + os shim for cache files), nested crashes, reboot on the image',
      'Every durable datastore write of a whole run (first start-up, 4-5 production steps over all empty/non-empty chain contents, recovery start-ups and the steps after them) is a crash point; all subsets of up to 2 (quick) / 3 (thorough) crash points are enumerated, the node is rebooted on the exact image, and after every step/reboot the chain, the recorded state, the pinned hashes of committed/published heights and liveness (3 well-formed steps add a block) are checked. Second part: every prefix of the REAL file-operation log of SaveCache (os shim) and torn writes, then start-up and production on that image.',
      'Trusted: datastore atomicity contract; file operations are durable in program order (no fsync reordering model); doubles as C01.',
      'DESIGN.md section 5 C04', 'explore')
claim('C10', 'model_checking', 'explicit-state BFS over submit/next/reload/crash histories of the real single sequencer against a FIFO slice model',
      'All operation histories to a fixpoint (depth 8 quick / 12 thorough) over {submit A/B/C(/D), identical resubmission, empty, foreign chain id, next, reload, crash before the k-th durable write of submit/next + reload} with queue sizes 2-3 (1-4) on the real single.Sequencer over the logging datastore; answers are compared with a slice model (order, exactly-once, durability, rejected-leaves-no-trace, bound).  Concurrent part: two submitters and a consumer on the real sequencer under the cooperative scheduler (queue mutex through the lock shim, datastore operations as gates), all interleavings within the delay bound for queue sizes 1-3, each history (+ reload + drain) checked for linearizability with porcupine.',
      'Trusted: datastore double with sorted iteration like badger; delay-bounded interleavings of 2 submitters + 1 consumer.',
      'DESIGN.md section 5 C10', 'bfs')

claim('C06', 'model_checking', 'stateless exhaustive enumeration of DA answers and crash points against the unmodified submission loops under virtual time (testing/synctest)',
      'The real HeaderSubmissionLoop and DataSubmissionLoop run unmodified in a synctest bubble; every sequence of DA answers (8-element menu per Submit: accept, prefix, timed out, in mempool, too big, error, stored-but-ack-lost, cancelled) and crash points (before each Submit, before each durable write of the loops) within the deviation budgets, over all empty/non-empty chain contents, initial heights 1 and 3 and both loop start orders, with a block committed mid-way; oracles from the DA double ground truth: blobs decode to the committed items and verify, first acceptance in height order, one call in increasing order, no resubmission below the recorded watermark, watermarks monotone/sound/durable, completion once the DA accepts.',
      'Trusted: synctest virtual time; DA/executor/sequencer doubles; loops started 1 ms apart so their timers never coincide (both orders explored); small scope (<=5 blocks, <=2-3 DA faults, <=1-2 crashes).',
      'DESIGN.md section 5 C06', 'explore')
claim('C08', 'model_checking', 'exhaustive enumeration of produce/DA-block/outage action sequences on the real production step and submission loops under virtual time',
      'Every action sequence up to depth 6 (quick) / 8 (thorough) over {produce non-empty, produce empty, DA block with accepting DA, DA block of outage (<=3)} for limits 1-3 and initial heights 1 and 3; a declined production must coincide with at least `limit` committed blocks whose header or non-empty data the DA has not acknowledged (ground truth of the DA double), and after three accepting DA blocks production must resume. Part 2: lazy mode on an idle chain with the real AggregationLoop and submission loops under the scheduler, every DA outage pattern over 6/8 DA blocks, limits 1-2; production must resume within two idle intervals after the DA accepted everything.',
      'Trusted: synctest virtual time; doubles; weakest reading of "genuinely waiting" (one count per block).',
      'DESIGN.md section 5 C08', 'explore')

claim('C02', 'exploration', 'exhaustive enumeration of delivery orders (all permutations, one duplicate, one clean restart) against the real SyncLoop in a synctest bubble',
      'For every producer chain pattern over {empty, A, B} (incl. identical transaction lists; produced by a real aggregator run) every permutation of the header/data events is pushed into the real SyncLoop input channels one event at a time, with at most one duplicated event at any later position and one clean stop/restart (SaveCache, NewManager, LoadCache) at any idle point; after every delivery the full node store is compared with the producer (hashes, transactions, state root), the height must equal the highest height whose parts were all delivered, and execution calls must be in height order. Ingress level: all five loops of the full node under the cooperative scheduler with harness-side event queues (buffered-channel semantics; the explorer decides who goes next whenever an event is deliverable), DA placements within bounded deviations incl. \'everything already on the DA layer\', optional P2P copy of the chain, one clean restart between any two steps.',
      'Trusted: synctest quiescence; event-level delivery (one event at a time); DA/P2P ingress loops are exercised in C09/C13, not here; small scope (<=3 blocks above genesis).',
      'DESIGN.md section 5 C02', 'explore')
claim('C05', 'fault_enumeration', 'exhaustive crash-point enumeration over the durable writes of block application in the real SyncLoop, reboot on the image, all redelivery orders within budget',
      'While the real SyncLoop applies a producer chain (three canonical pre-crash delivery orders) every durable write is a crash point (up to 2, recurring during recovery); the node is rebooted on the exact image without caches; directly after restart every height up to the recorded chain height must have a retrievable block identical to the producer and the state must be at that height; then the complete event set is delivered again in every order within the order budget and the node must reach the producer chain. Ingress level: DA-only full node with all loops under the scheduler, bounded placement/delivery deviations, one crash before any durable write, reboot without caches, recovery through the node\'s own DA scan, liveness under continued operation.',
      'Trusted: datastore atomicity contract; executor external and idempotent on re-execution; small scope (<=3 blocks above genesis, order budget 2/4).',
      'DESIGN.md section 5 C05', 'explore')

claim('C03', 'exploration', 'exhaustive enumeration of (adversarial catalogue item x target height x channel x insertion position) against a full node with all ingress loops in a synctest bubble; differential oracle',
      'A full node runs RetrieveLoop, both P2P store loops, SyncLoop and DAIncluderLoop unmodified; the genuine chain arrives over the DA double; for every chain pattern, target height, catalogue item built without the proposer key (forged self-consistent empty/non-empty blocks under the proposer address with the attacker key, altered re-signed copies, unsigned and garbage-signed headers, another signer, forged signed data, junk P2P data, truncated and garbage blobs), channel (DA, P2P header store, P2P data store) and position (future/next/past) the end state (chain, state, DA-included height, execution and finalisation log, fatal errors) must equal the run without the adversary and every stored header must verify under the genesis key; light-node admission is decided by the two calls go-header makes (Validate, Verify) for every catalogue header and trusted head.',
      'Trusted: synctest; P2P store doubles (contiguous append-only) instead of the go-header syncer; one adversarial item per run; junk arriving only over P2P that halts the node is recorded as an observation (the no-halt clause names the DA layer).',
      'DESIGN.md section 5 C03', 'world')

claim('C09', 'exploration', 'exhaustive enumeration of DA layouts x fetch-outcome sequences x start heights against the real RetrieveLoop under virtual time; bounded-exhaustive blob mutations',
      'The real RetrieveLoop runs in a synctest bubble against the DA double; part 1 enumerates every layout of 3-4 DA heights over {empty, genuine, junk, genuine+junk, 101 blobs across the 100-id chunk boundary}, start heights {0,1,3} and every sequence of fetch outcomes (ok, listing error, not found, from the future, error fetching blobs) within the deviation budget; the listing-call log must be gap-free, start at the configured height and pass a height only after an ok/confirmed-empty answer, every genuine blob of a successfully examined height must be handed to sync exactly as itself, nothing else may be handed over, the loop must not stall; part 2 scans every prefix and single-byte substitution of a genuine header and data blob and a list of malformed shapes next to genuine blobs (no panic, genuine still delivered, nothing else delivered). Part 3: back-pressure — with the sync loop\'s input channel filled to capacity the scan must wait and deliver the genuine blob after the channel is drained.',
      'Trusted: synctest; DA double; the harness drains the sync input channels instead of SyncLoop; in-call retries and early return on a future height are accepted behaviours.',
      'DESIGN.md section 5 C09', 'explore')

claim('C07', 'model_checking', 'stateless exploration of real goroutine interleavings under a cooperative scheduler (gates at every environment call, synctest quiescence), DA faults, crash points and clean restarts, deviation-bounded',
      'Sequencer part: the real production step, HeaderSubmissionLoop, DataSubmissionLoop and DAIncluderLoop run as threads of a cooperative scheduler inside a synctest bubble (exactly one thread runs between two environment calls; the explorer picks who continues, delay-bounded), with DA answers, crash points before every Submit and every durable write, and clean restarts; full-node part: RetrieveLoop, SyncLoop, DAIncluderLoop and both P2P loops likewise, with every bounded deviation from the canonical placement of the genuine blobs on 3 DA heights, gated sends into the sync loop (consumer-idle rule). After every DA block: reported height monotone (also across restarts), not above the chain height, finalize calls in order and before reporting, reported >= h only if header(h) and non-empty data(h) are on the DA double, recorded DA heights name heights where the blobs really are; at the end everything on the DA layer must be reported. Also: one refused finalize call, one failed write of the persisted DA-included height, observation of the in-memory height at the crash instant, data that is absent from the DA layer and arrives over P2P only; liveness is judged under continued operation (the chain\'s next block is published after the fault phase).',
      'Trusted: synctest; scheduling granularity = environment calls (datastore, DA, executor), plain memory accesses between two calls are atomic; Go\'s random select choice at a stop instant is frozen out (a cancelled process consumes no decision point); bounds: <=2 (quick) / 3 (thorough) deviations in total.',
      'DESIGN.md section 5 C07', 'explore+sched')
claim('C12', 'exploration', 'bounded-exhaustive enumeration of wire values (cross products, pairs/triples of field variations), golden vectors, and all short byte strings / prefixes / single-byte substitutions for every decoder',
      'Value round trips for every wire type over small field domains (full cross product for small types, pairwise/triple variations for headers) through the store, DA and cache-file paths; golden byte/hash vectors generated from the pinned tree compared verbatim; every decoder on all byte strings of length <=2/3 and on every prefix and single-byte substitution of every golden encoding (no panic, re-encode/decode fixed point). Mutations include boundary integers (every 4-byte window replaced by 17 extreme 32-bit values in both byte orders, maximal varints at every byte).',
      'Trusted: protobuf/gob libraries; golden file /verif/golden/c12.json generated once from the pinned tree; small field domains.',
      'DESIGN.md section 5 C12', 'enumeration')
claim('C15', 'model_checking', 'explicit-state BFS over interleavings of block execution and extra calls on two real KVExecutor instances against a map reference',
      'Two real KVExecutor instances on logging datastores execute the same block sequences (<=3/4 blocks from a 10-13 block alphabet incl. malformed, empty-key and reserved-key transactions) with every interleaving of <=2/3 extra calls per instance (SetFinal, InjectTx, GetTxs, InitChain again, reopen, re-execute); after every block both roots must equal the map reference; malformed blocks must be atomic; re-execution and repeated InitChain must change nothing.',
      'Trusted: datastore double; constructor hook exposing an injected datastore; mempool capacity reduced to 16 for speed.',
      'DESIGN.md section 5 C15', 'bfs')
claim('C16', 'exploration', 'bounded-exhaustive differential enumeration of call sequences (blob-size lists around the limit x heights x injected errors) between a direct and a JSON-RPC-proxied instance of the same DA',
      'Every sequence of <=2/3 SubmitWithHelpers/RetrieveWithHelpers calls over all blob lists of length <=3 with sizes {0,1,limit-1,limit,limit+1}, heights {empty, populated, future} and every injected DA error (bare and wrapped) is executed against a backing DA double directly and through a real jsonrpc server/client pair on loopback; status code, submitted count, ids and blobs must agree call by call, and the backing store must hold exactly the longest fitting prefix.',
      'Trusted: loopback TCP; backing DA double (DummyDA-compatible) with error injection; messages are not compared.',
      'DESIGN.md section 5 C16', 'enumeration')
claim('C18', 'exploration', 'bounded-exhaustive enumeration over every reflected config leaf and registered flag (presence x values), leaf pairs for save/load, genesis shapes',
      'Every leaf of config.Config and every flag registered by AddFlags/AddGlobalFlags (both found by reflection) is enumerated over presence {default, file, flag, file+flag} and the values of its type through three loading paths; the precedence function flag > file > default is the oracle and no other leaf may change; every single leaf, leaf pair and all leaves at once for save->load; genesis save/load over ids, heights, times, addresses and all invalid shapes.',
      'Trusted: cobra/viper/yaml libraries; hermetic temp homes; exemptions justified from the code (home -> RootDir, signer passphrase read by the commands).',
      'DESIGN.md section 5 C18', 'enumeration')
claim('C19', 'fault_enumeration', 'bounded-exhaustive enumeration of passphrase pairs and of every truncation and single-byte substitution of the key file (modern and legacy formats)',
      'All ordered (save, load) pairs of 8 passphrases on created and harness-written legacy files; every truncation length and every (position, replacement byte) of signer.json (8 representative bytes quick, up to all 255 thorough) loaded and exported with the right passphrase; export->import->load round trips. A successful load must yield a signer whose signature verifies under the key it reports, equal to the original, with the address full nodes derive; wrong passphrases and corrupt files must be refused without panic.',
      'Trusted: Argon2/AES-GCM/ed25519 as functions; deterministic randomness via testing/cryptotest; legacy file written through a hook exposing the unexported fallback derivation.',
      'DESIGN.md section 5 C19', 'enumeration')
claim('C20', 'model_checking', 'explicit-state BFS per configuration over next/tip-grows/retrieval-error/restart histories of the real based sequencer against the flat DA-order reference',
      'For every DA content configuration (3/4 heights, 0-3 transactions of sizes {1,2,4} per height, bounded total), size limit {1,2,3,5,8,default} and drift {0,1,2}, every history of depth 6/8 over {GetNextBatch with the previous answer as cursor, DA tip grows, retrieval error injected, restart} runs on the real based.Sequencer over the logging datastore and a DA double; the concatenated answers must be a duplicate-free, order-preserving, omission-free subsequence of the DA contents, within the size limit, with carry-over first, and identical with and without restarts.',
      'Trusted: datastore and DA doubles; a limit smaller than one transaction may leave the sequencer stuck (not a violation of the stated clauses); the (nil,nil) answer is counted, not judged.',
      'DESIGN.md section 5 C20', 'bfs')

claim('C13', 'exploration', 'stateless exploration of interleavings of all ten real loops of a sequencer node and a full node under a cooperative scheduler in one synctest bubble, delay-bounded, with a stop at every 100 ms boundary',
      'A sequencer node (AggregationLoop, Reaper, HeaderSubmissionLoop, DataSubmissionLoop, DAIncluderLoop) and a full node (RetrieveLoop, both P2P store loops, SyncLoop, DAIncluderLoop) run unmodified with their own tickers, sharing a DA double and P2P store doubles; exactly one thread runs between two environment calls and the explorer chooses who continues (delay bound 1 quick / 2 thorough); genesis time in the past and in the future, DA block time 1 and 3 block intervals; a stop request is explored at every 100 ms boundary. Oracles on every execution: C01 chain validity of the sequencer node, C02 the full node follows the producer, C06 DA contents are the committed items, C07 DA-included soundness and finalize order on both nodes, no loop reports a fatal error; after a stop every loop returns within one block interval of virtual time; four scenarios with the sync loop\'s input channel full and the sync loop gone. One DA submission may time out or fail, one datastore write may fail; locks of package block are visible to the scheduler (lock shim), a thread that can never get its lock is reported as a deadlock.',
      'NOT decided here: data races (plain memory accesses between two gates are atomic under the cooperative scheduler; no free-running -race pass is registered) and the fan-out/join of FullNode.Run in node/full.go (libp2p cannot run in a bubble; the loops are started by the harness exactly as Run starts them). Trusted: synctest, doubles; after the stop request scheduling is canonical.',
      'DESIGN.md section 5 C13', 'explore+sched')

claim('C11', 'fault_enumeration', 'exhaustive enumeration of inject/reap/produce/restart action sequences with a crash before every durable write, on the real Reaper, real single sequencer and real production step over one write log',
      'One logging datastore serves node store, reaper seen-set and sequencer queue (as in the test app); every action sequence of depth 6/8 over {inject a, inject b, inject a again, reap, produce, clean restart} with a crash choice before every durable write (<=1 / <=2 crashes) and a reboot of all three components on the exact image, followed by a crash-free drain; every transaction the reaper obtained must be in a committed block, batches appear in release order, no double inclusion in crash-free histories, refused hand-offs are retried.',
      'Trusted: mempool/executor double (at most one entry per byte string), datastore contract, virtual time (the single sequencer stamps batches with time.Now()); the timestamp-regression drop is not reachable with a monotone clock.',
      'DESIGN.md section 5 C11', 'explore')
claim('C17', 'exploration', 'exhaustive grid enumeration of notification instants x interval ratios x production durations against the real AggregationLoop under virtual time',
      'The real AggregationLoop (lazy and normal mode) runs in a synctest bubble with the production function replaced through the package\'s own seam by a recorder taking a virtual duration d; block:idle intervals {1:1,1:2,1:3,2:3} (idle interval also +-1 ns), d in {0, 1/2, 1, 3/2, 3/2-1ms} block intervals, every set of 0-3 (quick) / 0-4 (thorough) notification instants on a quarter-interval grid at t-1ns and t+1ns up to two idle intervals, plus a variant where the real Reaper produces the notification. Oracle on the recorded start times: starts >= one block interval apart; a notification is followed by a start within one block interval after max(notification, end of the in-flight production); gaps <= idle interval (or d + block interval when d >= idle); normal mode period and independence from notifications.',
      'Trusted: synctest virtual time; runtime ties when both timers are re-armed to the same instant are run 4 times each (both select outcomes must satisfy the oracle).',
      'DESIGN.md section 5 C17', 'enumeration')

NOT_YET = "check not built yet in this session (work in progress, see DESIGN.md section 10 for the order of work)"

checks = []
for pid in ids:
    if pid not in C:
        continue
    c = C[pid]
    checks.append({
        "property_id": pid,
        "quick_cmd": f"./check {pid} quick",
        "thorough_cmd": f"./check {pid} thorough",
        "evidence_file": f"/verif/evidence/{pid}.json",
        "replay_cmd_template": f"./check {pid} quick --replay {{path}}",
        "engine": c['engine'],
        "level_claimed": {"category": c['category'], "text": c['text'], "design_ref": c['design_ref']},
        "level_note": c['note'],
        "technique": c['technique'],
    })
m = {
    "version": 1,
    "setup_cmd": "./setup.sh",
    "hooks": {
        "guard": "verif (Go build tag) + go build -overlay generated by /verif/mkoverlay.py",
        "enable": "go test -c -tags verif -overlay /verif/build/<ID>/overlay.json (the overlay adds the //go:build verif accessor files of /verif/hooks into repo packages and, for scheduler-driven checks, import-rewritten copies of block, pkg/cache, sequencers/single regenerated from the working tree); nothing is committed to /repo for instrumentation",
        "baseline_off_cmd": BASELINE_OFF,
        "source_commits": [],
        "add_only": True,
    },
    "engines": [
        {"name": "explore", "path": "/verif/harness/explore", "serves_properties": sorted(C), "kind_free_text": "deviation-bounded exhaustive enumeration of choice sequences (stateless model checking of the implementation) and explicit-state BFS over action histories with canonical-state merging; bodies run the real code on fresh instances"},
        {"name": "world", "path": "/verif/harness/world", "serves_properties": sorted(C), "kind_free_text": "deterministic doubles: logging/crashing datastore, DA, executor, sequencer, P2P stores; composite worlds around the real block.Manager"},
    ],
    "checks": checks,
    "not_applicable": [{"property_id": p, "reason": NOT_YET} for p in ids if p not in C],
    "notes": "All checks model-check the implementation directly (no separate abstract model): traces_validated_against_impl equals the number of executions. Known genuine defects are listed in /verif/known_findings.json.",
}
json.dump(m, open(os.path.join(ROOT, 'MANIFEST.json'), 'w'), indent=1)
print("claimed:", len(checks), "not yet:", len(ids) - len(checks))
