#!/usr/bin/env python3-vt
import json, sys, glob, jsonschema
ms = json.load(open('/root/.vp/MANIFEST.schema.json'))
es = json.load(open('/root/.vp/EVIDENCE.schema.json'))
m = json.load(open('/verif/MANIFEST.json'))
jsonschema.validate(m, ms)
ids = [json.loads(l)['id'] for l in open('/verif/properties.jsonl')]
claimed = {c['property_id'] for c in m['checks']}
na = {c['property_id'] for c in m.get('not_applicable', [])}
print('manifest ok; claimed', len(claimed), 'n/a', len(na), 'unlisted', sorted(set(ids) - claimed - na))
for f in sorted(glob.glob('/verif/evidence/*.json')):
    try:
        jsonschema.validate(json.load(open(f)), es)
        print('ok ', f)
    except Exception as e:
        print('BAD', f, str(e)[:300])
