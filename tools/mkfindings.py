#!/usr/bin/env python3
"""Merges /verif/findings.d/*.json (one list of entries per property) into /verif/known_findings.json.
Run by hand after editing a fragment; checks never write this file."""
import json, glob, os
ROOT = os.path.dirname(os.path.dirname(os.path.abspath(__file__)))
out = []
for f in sorted(glob.glob(os.path.join(ROOT, 'findings.d', '*.json'))):
    for e in json.load(open(f)):
        for k in ('property', 'clause', 'trigger', 'status', 'text'):
            assert k in e, (f, k)
        assert e['status'] in ('known', 'fixed')
        out.append(e)
json.dump(out, open(os.path.join(ROOT, 'known_findings.json'), 'w'), indent=1)
print(len(out), 'entries')
