#!/bin/bash
# usage: seedtest.sh <PROPERTY-ID> <patch.diff> [quick|thorough|both] [extra property ids to run as well]
# Applies a seeded change to a scratch worktree of /repo's HEAD, builds every module, runs the pinned suite (stable tests
# must still pass) and runs the property's check against the worktree. Prints one summary line; removes the worktree.
ID="$1"; PATCH="$(readlink -f "$2")"; TIER="${3:-both}"; shift; shift; shift
ROOT="$(cd "$(dirname "$0")/.." && pwd)"
WT="/tmp/seedtest-$ID-$$"
git -C /repo worktree add -q --detach "$WT" || exit 2
cleanup() { git -C /repo worktree remove --force "$WT" >/dev/null 2>&1; rm -rf "$ROOT/build/$ID-seed$$" "$ROOT"/build/*-seed$$; }
trap cleanup EXIT
if ! git -C "$WT" apply "$PATCH"; then echo "SEED $ID: patch does not apply"; exit 2; fi
export GOFLAGS=-mod=mod GOPROXY=off
for m in . core da sequencers/single sequencers/based apps/testapp; do
  (cd "$WT/$m" && go build ./... ) >/dev/null 2>&1 || { echo "SEED $ID: does not build in module $m"; exit 2; }
done
if [ -z "${SKIP_SUITE:-}" ]; then
  SUITE="$("$ROOT/tools/suite.sh" "$WT" 2>&1 | tail -3)"
  echo "$SUITE" | grep -q "stable missing: \[\]" && S="suite:stable-pass" || S="suite:STABLE-TESTS-FAIL $(echo "$SUITE" | grep 'stable missing' | cut -c1-300)"
else S="suite:skipped"; fi
run() { # id tier
  out="$(VERIF_REPO="$WT" VERIF_BUILD_SUFFIX="-seed$$" "$ROOT/check" "$1" "$2" 2>&1)"; rc=$?
  v="$(echo "$out" | grep -m1 '^  clause=' | cut -c1-260)"
  echo "   check $1 $2: rc=$rc $v"
  return $rc
}
RES=""
for P in "$ID" "$@"; do
  if [ "$TIER" = "quick" ] || [ "$TIER" = "both" ]; then run "$P" quick; q=$?; else q=0; fi
  if [ $q -eq 0 ] && { [ "$TIER" = "thorough" ] || [ "$TIER" = "both" ]; }; then run "$P" thorough; t=$?; else t=-; fi
  RES="$RES $P:quick=$q,thorough=$t"
done
echo "SEED $ID $(basename "$(dirname "$PATCH")"): $S$RES"
