#!/bin/bash
# usage: sweep.sh quick|thorough [ids...]  — runs the registered checks one after another on /repo, prints one line each
TIER="${1:-quick}"; shift
ROOT="$(cd "$(dirname "$0")/.." && pwd)"
IDS="$@"; [ -z "$IDS" ] && IDS="C01 C02 C03 C04 C05 C06 C07 C08 C09 C10 C11 C12 C13 C14 C15 C16 C17 C18 C19 C20"
for id in $IDS; do
  t0=$(date +%s)
  out="$("$ROOT/check" "$id" "$TIER" 2>&1)"; rc=$?
  t1=$(date +%s)
  echo "$id $TIER rc=$rc wall=$((t1-t0))s $(echo "$out" | grep -m1 "^$id $TIER:" | cut -c1-230)"
  echo "$out" | grep -E "^VIOLATION|^ENGINE-ERROR|^KNOWN-FINDING" | cut -c1-200 | sed 's/^/    /' | head -8
done
