#!/usr/bin/env python3
"""Prints the measured-coverage table of DESIGN.md A.3b from evidence files: quick tier from /verif/evidence,
thorough tier from the directory given as argument (a sweep's evidence directory)."""
import json, sys, os
ROOT = os.path.dirname(os.path.dirname(os.path.abspath(__file__)))
thor = sys.argv[1] if len(sys.argv) > 1 else None
def row(d):
    c = d['coverage']
    ex = 'exhaustive' if c.get('exhaustive') else 'capped: ' + '; '.join(c.get('caps_hit') or [])[:80]
    return f"{c.get('evaluations'):,} evaluations, {c.get('states') or 0:,} states, {c.get('transitions') or 0:,} transitions, {d.get('wall_s', 0):.0f} s, {ex}"
print("| id | quick tier (measured) | thorough tier (measured) |")
print("|---|---|---|")
for i in range(1, 21):
    pid = 'C%02d' % i
    q = json.load(open(f'{ROOT}/evidence/{pid}.json'))
    t = '—'
    if thor and os.path.exists(f'{thor}/{pid}.json'):
        td = json.load(open(f'{thor}/{pid}.json'))
        if td.get('tier') == 'thorough':
            t = row(td)
    print(f"| {pid} | {row(q)} | {t} |")
