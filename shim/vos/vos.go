// Package vos stands in for "os" in overlay copies of packages whose file writes must be crash-enumerated.
// It performs the real operation and logs every mutating one, so that every crash image (operation prefix, torn
// write) can be materialised by the harness from the REAL write log.
package vos

import (
	"io/fs"
	"os"
	"sync"
)

type Op struct {
	Kind string // create | write | sync | close | rename | remove | mkdir
	Path string
	To   string
	Data []byte
}

var (
	mu      sync.Mutex
	logging bool
	ops     []Op
)

func StartLog() { mu.Lock(); logging, ops = true, nil; mu.Unlock() }
func StopLog() []Op {
	mu.Lock()
	defer mu.Unlock()
	logging = false
	out := ops
	ops = nil
	return out
}
func rec(o Op) {
	mu.Lock()
	if logging {
		ops = append(ops, o)
	}
	mu.Unlock()
}

type (
	FileMode = os.FileMode
	FileInfo = os.FileInfo
	DirEntry = os.DirEntry
)

const (
	O_RDONLY = os.O_RDONLY
	O_WRONLY = os.O_WRONLY
	O_RDWR   = os.O_RDWR
	O_APPEND = os.O_APPEND
	O_CREATE = os.O_CREATE
	O_EXCL   = os.O_EXCL
	O_SYNC   = os.O_SYNC
	O_TRUNC  = os.O_TRUNC
	ModePerm = os.ModePerm
)

var (
	ErrNotExist = os.ErrNotExist
	ErrExist    = os.ErrExist
)

type File struct {
	f       *os.File
	path    string
	writing bool
}

func Create(name string) (*File, error) {
	f, err := os.Create(name)
	if err != nil {
		return nil, err
	}
	rec(Op{Kind: "create", Path: name})
	return &File{f: f, path: name, writing: true}, nil
}

func CreateTemp(dir, pattern string) (*File, error) {
	f, err := os.CreateTemp(dir, pattern)
	if err != nil {
		return nil, err
	}
	rec(Op{Kind: "create", Path: f.Name()})
	return &File{f: f, path: f.Name(), writing: true}, nil
}

func OpenFile(name string, flag int, perm FileMode) (*File, error) {
	f, err := os.OpenFile(name, flag, perm)
	if err != nil {
		return nil, err
	}
	w := flag&(os.O_WRONLY|os.O_RDWR) != 0
	if w && flag&os.O_TRUNC != 0 || (w && flag&os.O_CREATE != 0) {
		rec(Op{Kind: "create", Path: name})
	}
	return &File{f: f, path: name, writing: w}, nil
}

func Open(name string) (*File, error) {
	f, err := os.Open(name)
	if err != nil {
		return nil, err
	}
	return &File{f: f, path: name}, nil
}

func (f *File) Write(b []byte) (int, error) {
	n, err := f.f.Write(b)
	if n > 0 {
		rec(Op{Kind: "write", Path: f.path, Data: append([]byte(nil), b[:n]...)})
	}
	return n, err
}
func (f *File) WriteString(s string) (int, error) { return f.Write([]byte(s)) }
func (f *File) Read(b []byte) (int, error)        { return f.f.Read(b) }
func (f *File) Name() string                      { return f.f.Name() }
func (f *File) Stat() (FileInfo, error)           { return f.f.Stat() }
func (f *File) Sync() error {
	rec(Op{Kind: "sync", Path: f.path})
	return f.f.Sync()
}
func (f *File) Close() error {
	if f.writing {
		rec(Op{Kind: "close", Path: f.path})
	}
	return f.f.Close()
}

func Rename(a, b string) error {
	if err := os.Rename(a, b); err != nil {
		return err
	}
	rec(Op{Kind: "rename", Path: a, To: b})
	return nil
}
func Remove(name string) error {
	if err := os.Remove(name); err != nil {
		return err
	}
	rec(Op{Kind: "remove", Path: name})
	return nil
}
func RemoveAll(name string) error {
	rec(Op{Kind: "remove", Path: name})
	return os.RemoveAll(name)
}
func MkdirAll(path string, perm FileMode) error {
	rec(Op{Kind: "mkdir", Path: path})
	return os.MkdirAll(path, perm)
}
func Mkdir(path string, perm FileMode) error {
	rec(Op{Kind: "mkdir", Path: path})
	return os.Mkdir(path, perm)
}
func WriteFile(name string, data []byte, perm FileMode) error {
	rec(Op{Kind: "create", Path: name})
	rec(Op{Kind: "write", Path: name, Data: append([]byte(nil), data...)})
	rec(Op{Kind: "close", Path: name})
	return os.WriteFile(name, data, perm)
}
func ReadFile(name string) ([]byte, error)        { return os.ReadFile(name) }
func Stat(name string) (FileInfo, error)          { return os.Stat(name) }
func Lstat(name string) (FileInfo, error)         { return os.Lstat(name) }
func ReadDir(name string) ([]DirEntry, error)     { return os.ReadDir(name) }
func IsNotExist(err error) bool                   { return os.IsNotExist(err) }
func IsExist(err error) bool                      { return os.IsExist(err) }
func TempDir() string                             { return os.TempDir() }
func Getenv(k string) string                      { return os.Getenv(k) }

var _ fs.FileInfo
