// Package vsync stands in for "sync" in overlay copies of packages whose locks must be visible to the cooperative
// scheduler of the verification harness: Lock/RLock of a scheduled thread is a gate that is enabled only while the
// lock can be taken, so a thread waiting for a lock is "parked", never really blocked, and a thread that can never
// get its lock (deadlock) is reported instead of hanging the run. Goroutines that are not scheduled threads block for
// real. Everything else of package sync is passed through.
package vsync

import (
	"runtime"
	"sync"
)

type (
	Map       = sync.Map
	WaitGroup = sync.WaitGroup
	Once      = sync.Once
	Pool      = sync.Pool
	Cond      = sync.Cond
	Locker    = sync.Locker
)

func NewCond(l Locker) *Cond { return sync.NewCond(l) }

// Hook is installed by the harness. It parks the calling goroutine until the scheduler grants it (only when enabled()
// holds) and returns 1; it returns 0 if the caller is not a scheduled thread, 2 if the world is being torn down.
var Hook func(op string, enabled func() bool) int

// PreLock, if installed by the harness (nil by default: no effect), is called at the entry of every Lock/RLock,
// before the lock is tried. A harness that wants "about to take a lock" to be a scheduling point even when the lock
// is free (so that everything a thread evaluated before Lock() can be separated from the critical section) parks the
// calling thread here.
var PreLock func(op string)

type RWMutex struct {
	g sync.Mutex
	c *sync.Cond
	w bool
	r int
}

func (m *RWMutex) cond() *sync.Cond {
	if m.c == nil {
		m.c = sync.NewCond(&m.g)
	}
	return m.c
}

func (m *RWMutex) canLock() bool {
	m.g.Lock()
	defer m.g.Unlock()
	return !m.w && m.r == 0
}

func (m *RWMutex) canRLock() bool {
	m.g.Lock()
	defer m.g.Unlock()
	return !m.w
}

func (m *RWMutex) TryLock() bool {
	m.g.Lock()
	defer m.g.Unlock()
	if m.w || m.r > 0 {
		return false
	}
	m.w = true
	return true
}

func (m *RWMutex) TryRLock() bool {
	m.g.Lock()
	defer m.g.Unlock()
	if m.w {
		return false
	}
	m.r++
	return true
}

func (m *RWMutex) Lock() {
	if h := PreLock; h != nil {
		h("lock")
	}
	for !m.TryLock() {
		switch park("lock", m.canLock) {
		case 1:
			continue
		case 2:
			runtime.Goexit()
		}
		m.g.Lock()
		for m.w || m.r > 0 {
			m.cond().Wait()
		}
		m.w = true
		m.g.Unlock()
		return
	}
}

func (m *RWMutex) RLock() {
	if h := PreLock; h != nil {
		h("rlock")
	}
	for !m.TryRLock() {
		switch park("rlock", m.canRLock) {
		case 1:
			continue
		case 2:
			runtime.Goexit()
		}
		m.g.Lock()
		for m.w {
			m.cond().Wait()
		}
		m.r++
		m.g.Unlock()
		return
	}
}

func (m *RWMutex) Unlock() {
	m.g.Lock()
	if !m.w {
		m.g.Unlock()
		panic("vsync: unlock of unlocked RWMutex")
	}
	m.w = false
	m.cond().Broadcast()
	m.g.Unlock()
}

func (m *RWMutex) RUnlock() {
	m.g.Lock()
	if m.r <= 0 {
		m.g.Unlock()
		panic("vsync: RUnlock of unlocked RWMutex")
	}
	m.r--
	m.cond().Broadcast()
	m.g.Unlock()
}

func (m *RWMutex) RLocker() Locker { return (*rlocker)(m) }

type rlocker RWMutex

func (r *rlocker) Lock()   { (*RWMutex)(r).RLock() }
func (r *rlocker) Unlock() { (*RWMutex)(r).RUnlock() }

// Mutex is an RWMutex that is only write-locked.
type Mutex struct{ rw RWMutex }

func (m *Mutex) Lock()         { m.rw.Lock() }
func (m *Mutex) Unlock()       { m.rw.Unlock() }
func (m *Mutex) TryLock() bool { return m.rw.TryLock() }

func park(op string, enabled func() bool) int {
	if h := Hook; h != nil {
		return h(op, enabled)
	}
	return 0
}
