package c18

import (
	"encoding/json"
	"fmt"
	"os"
	"path/filepath"
	"reflect"
	"sort"
	"strings"

	"github.com/spf13/cobra"

	"github.com/evstack/ev-node/pkg/config"
	"github.com/evstack/ev-node/pkg/genesis"

	"verif/harness/vf"
)

// Operation SEQUENCES on one home directory (clauses resave-roundtrip, genesis-resave-roundtrip).
//
// The property says "a configuration written to disk loads back equal to what was written" about every write, not
// only about the first write into an empty directory. The cases of check_test.go use a fresh home per case; the cases
// here keep ONE home for a whole sequence of operations and compare every load with a one-variable model:
//
//	model = the configuration handed to the last successful write into this home (none yet = the defaults)
//	oracle: every load of the home returns exactly the model (same comparison as the single-write cases)
//
// Operations: save (Config.SaveAsYaml), init (the configuration part of the `init` command of apps/*/cmd/init.go, the one
// place in the repository that re-saves an existing home: Load -> SaveAsYaml; see runInit), load (one of the three drivers); for the genesis file: gsave
// (Genesis.Save onto the same path) and gload (LoadGenesis).
//
// The configurations come from a small set chosen to differ in serialized length and in content (the lengths are
// measured with the real writer in a fresh home and recorded in the evidence); every ordered pair is enumerated.
//
// What is NOT demanded: nothing about `init` returning an error (such a case is counted and not judged), nothing about
// whether `init` keeps values of an existing file (every init names every flag explicitly, and the configurations used
// on the init path keep the options that have no flag at their defaults, so the expected result is the same whether or
// not init reads the old file), nothing about the bytes of the file.

type seqOp struct {
	Op   string            `json:"op"`            // save | init | load | gsave | gload
	Cfg  string            `json:"cfg,omitempty"` // name of the configuration in the set (documentation, tags)
	File map[string]string `json:"file,omitempty"`
	Gen  *genSpec          `json:"genesis,omitempty"`
}

type namedCfg struct {
	Name string
	File map[string]string // leaf Go path -> canonical text; leaves not named are at their defaults
}

// build makes the Config a save operation writes: defaults + the named leaves, rooted at home.
func (w *world) build(file map[string]string, home string) (config.Config, error) {
	c := cloneConfig(w.defaults)
	c.RootDir = home
	for _, name := range sortedKeys(file) {
		i, ok := w.byName[name]
		if !ok {
			return c, fmt.Errorf("unknown leaf %s", name)
		}
		if err := w.leaves[i].set(&c, file[name]); err != nil {
			return c, err
		}
	}
	return c, nil
}

func (w *world) isFileLeaf(l leaf) bool { return l.YAML != "" && l.MS != "" }

func isPeerList(l leaf) bool {
	n := strings.ToLower(l.Name)
	return strings.Contains(n, "peers") || strings.Contains(n, "peer")
}

// longText: 200+ characters, distinct per leaf; peer-list options get a multi-element list of multiaddresses.
func longText(l leaf) string {
	if isPeerList(l) {
		ids := []string{"12D3KooWM1NFkZozoatQi3JvFE57eBaX56mNgBA68Lk5MTPxBE4U", "12D3KooWHe2tvtpXdEXBZM9wQMDkNCzYKcfVvYwQHS5BfApXNXh7",
			"12D3KooWQYhTNQdmr3ArTeUHRYzFg94BKyTkoWBDWez9kSCVe2Xo", "12D3KooWLRPJAA5o6fLqyJ8Gq8cVT7CMjBXkCj8x6oT1mFNSM4bd"}
		var parts []string
		for i, id := range ids {
			parts = append(parts, fmt.Sprintf("/ip4/10.0.0.%d/tcp/7676/p2p/%s", i+1, id))
		}
		return strings.Join(parts, ",")
	}
	return l.YAML + "-" + strings.Repeat("long-value/", 20)
}

func longValue(l leaf) string {
	switch l.Kind {
	case "string":
		return longText(l)
	case "bool":
		return "false"
	case "uint":
		return "18446744073709551615"
	case "int":
		return "7"
	case "float":
		return "-2.25"
	case "duration":
		return "1h30m0s"
	}
	return ""
}

func shortValue(l leaf) string {
	switch l.Kind {
	case "string":
		return ""
	case "bool":
		return "true"
	case "uint", "int":
		return "0"
	case "float":
		return "0.5"
	case "duration":
		return "250ms"
	}
	return ""
}

// resaveConfigs builds the set. singlesPerKind: how many leaves of each kind get single-leaf variations (0 = all);
// the values are the ones of valuesFor, except those of the known unquoted-float defect (its own clause and cases).
func (w *world) resaveConfigs(singlesPerKind int, valuesPerLeaf int) []namedCfg {
	long, short, mixed := map[string]string{}, map[string]string{}, map[string]string{}
	for i, l := range w.leaves {
		if !w.isFileLeaf(l) {
			continue
		}
		long[l.Name], short[l.Name] = longValue(l), shortValue(l)
		if i%2 == 0 {
			mixed[l.Name] = longValue(l)
		} else {
			mixed[l.Name] = shortValue(l)
		}
	}
	out := []namedCfg{{Name: "defaults", File: map[string]string{}}, {Name: "all-long", File: long}, {Name: "all-short", File: short}, {Name: "alternating-long-short", File: mixed}}
	perKind := map[string]int{}
	for _, l := range w.leaves {
		if !w.isFileLeaf(l) {
			continue
		}
		if singlesPerKind > 0 && perKind[l.Kind] >= singlesPerKind {
			continue
		}
		perKind[l.Kind]++
		n := 0
		for _, v := range nonDefault(l.Kind, l.text(&w.defaults), w.thorough, 0) {
			if l.Kind == "string" && yamlFloatLike(v) {
				continue
			}
			if valuesPerLeaf > 0 && n >= valuesPerLeaf {
				break
			}
			n++
			out = append(out, namedCfg{Name: l.Name + "=" + v, File: map[string]string{l.Name: v}})
		}
		if l.Kind == "string" {
			out = append(out, namedCfg{Name: l.Name + "=<long>", File: map[string]string{l.Name: longText(l)}})
		}
	}
	return out
}

// initProjection: the configuration as the init path can express it: only options that have a flag, never an aggregator
// (an aggregator init creates a signer key and refuses a home that has one; that is key management, not configuration).
func (w *world) initProjection(n namedCfg) namedCfg {
	p := namedCfg{Name: "flags-of:" + n.Name, File: map[string]string{}}
	for name, v := range n.File {
		li := w.byName[name]
		if _, ok := w.flagOf[li]; ok && name != "Node.Aggregator" {
			p.File[name] = v
		}
	}
	return p
}

// initArgs names EVERY flag that reaches an option, with the value the configuration has for it (defaults included).
func (w *world) initArgs(file map[string]string, home string) ([]string, error) {
	c, err := w.build(file, home)
	if err != nil {
		return nil, err
	}
	args := []string{"--" + config.FlagRootDir + "=" + home}
	var lis []int
	for li := range w.flagOf {
		lis = append(lis, li)
	}
	sort.Ints(lis)
	for _, li := range lis {
		fi := w.flagInfo(w.flagOf[li])
		if fi == nil || fi.Persistent && fi.Name == config.FlagRootDir {
			continue
		}
		args = append(args, "--"+w.flagOf[li]+"="+w.leaves[li].text(&c))
	}
	return args, nil
}

// runInit is the configuration part of the `init` command, reproduced call by call from apps/testapp/cmd/init.go:21-51
// (identical in apps/evm/single and apps/evm/based): read --home and the aggregator flag, `cfg, _ := Load(cmd)` (error
// ignored there), cfg.Node.Aggregator = flag, Validate, (CreateSigner: a no-op for a non-aggregator), SaveAsYaml.
// The node key and genesis steps that follow do not touch evnode.yaml. The command itself cannot be linked in: the
// package imports the whole node (libp2p transports ...) whose modules the harness module does not carry.
func runInit(args []string) error {
	cmd := &cobra.Command{Use: "init", Run: func(*cobra.Command, []string) {}}
	config.AddFlags(cmd)
	config.AddGlobalFlags(cmd, "verif")
	if err := cmd.ParseFlags(args); err != nil {
		return fmt.Errorf("harness: flag parsing failed (%v): %w", args, err)
	}
	if _, err := cmd.Flags().GetString(config.FlagRootDir); err != nil {
		return fmt.Errorf("error reading home flag: %w", err)
	}
	aggregator, err := cmd.Flags().GetBool(config.FlagAggregator)
	if err != nil {
		return fmt.Errorf("error reading aggregator flag: %w", err)
	}
	cfg, _ := config.Load(cmd)
	cfg.Node.Aggregator = aggregator
	if err := cfg.Validate(); err != nil {
		return fmt.Errorf("error validating config: %w", err)
	}
	if err := cfg.SaveAsYaml(); err != nil {
		return fmt.Errorf("error writing rollkit.yaml file: %w", err)
	}
	return nil
}

// lenOfFile: measured number of bytes SaveAsYaml writes for the configuration into a FRESH home (the intended length of
// a write; used for the shorter/longer tags and the evidence). -2 = could not be measured.
func (c *checker) lenOfFile(file map[string]string) int {
	kb, _ := json.Marshal(file)
	if n, ok := c.cfgLen[string(kb)]; ok {
		return n
	}
	n := -2
	if home, err := os.MkdirTemp("", "c18m-"); err == nil {
		saved := config.DefaultConfig
		config.DefaultConfig = cloneConfig(c.w.defaults)
		if cfg, err := c.w.build(file, home); err == nil && cfg.SaveAsYaml() == nil {
			if bz, err := os.ReadFile(cfg.ConfigPath()); err == nil {
				n = len(bz)
			}
		}
		config.DefaultConfig = saved
		os.RemoveAll(home)
	}
	c.cfgLen[string(kb)] = n
	return n
}

func (c *checker) lenOfGen(g genSpec) int {
	kb, _ := json.Marshal(g)
	if n, ok := c.genLen[string(kb)]; ok {
		return n
	}
	n := -2
	if dir, err := os.MkdirTemp("", "c18gm-"); err == nil {
		p := filepath.Join(dir, "genesis.json")
		if gg, err := g.build(); err == nil && gg.Save(p) == nil {
			if bz, err := os.ReadFile(p); err == nil {
				n = len(bz)
			}
		}
		os.RemoveAll(dir)
	}
	c.genLen[string(kb)] = n
	return n
}

func relTag(prev, last int) string {
	switch {
	case last < -1:
		return "last-write:length-unknown"
	case prev < 0:
		return "last-write:first-into-empty-home"
	case last < prev:
		return "last-write:shorter-than-file-it-replaced"
	case last > prev:
		return "last-write:longer-than-file-it-replaced"
	}
	return "last-write:same-length-as-file-it-replaced"
}

func (c *checker) reportSeq(s spec, clause string, tags []string, msg string) {
	tags = uniq(append(tags, "shape:"+s.Shape))
	if s.Driver != "" {
		tags = append(tags, "driver:"+s.Driver)
	}
	var main []string
	for _, t := range tags {
		if !strings.HasPrefix(t, "first:") && !strings.HasPrefix(t, "last:") && !strings.HasPrefix(t, "step:") {
			main = append(main, t)
		}
	}
	c.tally[clause+" "+strings.Join(main, ",")]++
	c.r.Report(vf.Violation{Clause: clause, Tags: uniq(tags), Msg: msg + "\n case: " + s.key(), Cost: len(s.Seq) + len(tags), History: s})
}

// runResave executes one configuration sequence on one home.
func (c *checker) runResave(s spec) {
	defer func() { config.DefaultConfig = cloneConfig(c.w.defaults) }()
	home, err := os.MkdirTemp("", "c18s-")
	if err != nil {
		c.r.EngineError(err.Error())
		return
	}
	defer os.RemoveAll(home)
	cfgPath := filepath.Join(home, config.AppConfigDir, config.ConfigName)
	fileLen := func() int {
		st, err := os.Stat(cfgPath)
		if err != nil {
			return -1
		}
		return int(st.Size())
	}
	var model *config.Config // what the last successful write handed to the writer
	modelName, path := "<nothing written: defaults>", "none"
	prevLen, lastLen := -1, -1 // measured lengths of the file replaced by the last write, and of what that write intended
	lenOf := func(op seqOp) int { return c.lenOfFile(op.File) }
	var names []string
	for _, op := range s.Seq {
		if op.Op != "load" {
			names = append(names, op.Op+"("+op.Cfg+")")
		}
	}
	for step, op := range s.Seq {
		config.DefaultConfig = cloneConfig(c.w.defaults) // hermeticity, as in execute
		tags := func(extra ...string) []string {
			t := append([]string{"path:" + path, fmt.Sprintf("step:%d", step), relTag(prevLen, lastLen), "last:" + modelName}, extra...)
			if len(names) > 0 {
				t = append(t, "first:"+names[0])
			}
			return t
		}
		switch op.Op {
		case "save":
			cfg, err := c.w.build(op.File, home)
			if err != nil {
				c.r.EngineError(fmt.Sprintf("case %s: %v", s.key(), err))
				return
			}
			before := fileLen()
			if err := cfg.SaveAsYaml(); err != nil {
				prevLen, lastLen, path = before, lenOf(op), "save"
				c.reportSeq(s, "resave-roundtrip", tags("save-error"), fmt.Sprintf("step %d: SaveAsYaml(%s) into a home that holds %s failed: %v", step, op.Cfg, modelName, err))
				return
			}
			m := cloneConfig(cfg)
			model, modelName, path = &m, op.Cfg, "save"
			prevLen, lastLen = before, lenOf(op)
		case "init":
			args, err := c.w.initArgs(op.File, home)
			if err != nil {
				c.r.EngineError(fmt.Sprintf("case %s: %v", s.key(), err))
				return
			}
			before := fileLen()
			if err := runInit(args); err != nil {
				// not judged: the property does not speak about init refusing; counted (must be 0 on the unchanged tree)
				c.initErrors++
				c.r.Outcome("init-error")
				if c.firstInitError == "" {
					c.firstInitError = fmt.Sprintf("%v (case %s)", err, s.key())
				}
				return
			}
			m, err := c.w.build(op.File, home)
			if err != nil {
				c.r.EngineError(err.Error())
				return
			}
			model, modelName, path = &m, op.Cfg, "init"
			prevLen, lastLen = before, lenOf(op)
		case "load":
			got, lerr, herr := loadArgs(s.Driver, []string{"--" + config.FlagRootDir + "=" + home})
			if herr != nil {
				c.r.EngineError(fmt.Sprintf("case %s: %v", s.key(), herr))
				return
			}
			got = cloneConfig(got)
			file, _ := os.ReadFile(cfgPath)
			show := string(file)
			if len(show) > 1500 {
				show = show[:700] + "\n ... [" + fmt.Sprint(len(show)-1400) + " bytes] ...\n" + show[len(show)-700:]
			}
			if lerr != nil {
				c.reportSeq(s, "resave-roundtrip", tags("load-error"), fmt.Sprintf("step %d: %s of the home after %v returned an error: %v\n file now (%d bytes):\n%s", step, s.Driver, names, lerr, len(file), show))
				c.r.Outcome("error")
				return
			}
			want := cloneConfig(c.w.defaults)
			if model != nil {
				want = cloneConfig(*model)
			}
			want.RootDir = home
			c.r.Outcome("cfg:" + cfgHash(&got, c.w))
			d := c.w.diff(&got, &want)
			if len(d) == 0 && reflect.DeepEqual(got, want) {
				continue
			}
			extra := []string{"differs"}
			def := cloneConfig(c.w.defaults)
			def.RootDir = home
			if model != nil && len(c.w.diff(&got, &def)) == 0 {
				extra = append(extra, "loaded-the-defaults")
			}
			if len(d) > 12 {
				d = append(d[:12], fmt.Sprintf("... and %d more", len(d)-12))
			}
			c.reportSeq(s, "resave-roundtrip", tags(extra...), fmt.Sprintf("step %d: after %v in ONE home, %s does not return what the last write (%s, %d bytes intended, over a file of %d bytes) wrote: %s\n file now (%d bytes):\n%s",
				step, names, s.Driver, modelName, lastLen, prevLen, strings.Join(d, "; "), len(file), show))
			return
		default:
			c.r.EngineError("unknown sequence op " + op.Op)
			return
		}
	}
}

// runGenesisResave: Genesis.Save onto a path that already holds a genesis file, LoadGenesis returns the last one saved.
func (c *checker) runGenesisResave(s spec) {
	dir, err := os.MkdirTemp("", "c18gs-")
	if err != nil {
		c.r.EngineError(err.Error())
		return
	}
	defer os.RemoveAll(dir)
	path := genesis.GenesisPath(dir)
	if err := os.MkdirAll(filepath.Dir(path), 0o750); err != nil {
		c.r.EngineError(err.Error())
		return
	}
	var model *genesis.Genesis
	prevLen, lastLen := -1, -1
	var names []string
	for step, op := range s.Seq {
		tags := func(extra ...string) []string {
			return append([]string{fmt.Sprintf("step:%d", step), relTag(prevLen, lastLen)}, extra...)
		}
		switch op.Op {
		case "gsave":
			g, err := op.Gen.build()
			if err != nil {
				c.r.EngineError(err.Error())
				return
			}
			before := -1
			if st, err := os.Stat(path); err == nil {
				before = int(st.Size())
			}
			names = append(names, op.Cfg)
			if err := g.Save(path); err != nil {
				prevLen, lastLen = before, c.lenOfGen(*op.Gen)
				c.reportSeq(s, "genesis-resave-roundtrip", tags("save-error"), fmt.Sprintf("step %d: Save(%s) over an existing genesis file failed: %v", step, op.Cfg, err))
				return
			}
			model, prevLen, lastLen = &g, before, c.lenOfGen(*op.Gen)
		case "gload":
			got, err := genesis.LoadGenesis(path)
			bz, _ := os.ReadFile(path)
			if model == nil {
				if err == nil {
					c.reportSeq(s, "genesis-resave-roundtrip", tags("load-accepts-absent"), fmt.Sprintf("LoadGenesis of a home without genesis file returned %+v", got))
					return
				}
				continue
			}
			if err != nil {
				c.reportSeq(s, "genesis-resave-roundtrip", tags("load-error"), fmt.Sprintf("step %d: after saving %v onto ONE path, LoadGenesis refuses the file: %v\n file now (%d bytes):\n%s", step, names, err, len(bz), bz))
				return
			}
			if d := genEqual(got, *model); d != "" {
				c.reportSeq(s, "genesis-resave-roundtrip", tags("differs"), fmt.Sprintf("step %d: after saving %v onto ONE path, the loaded genesis is not the one saved last: %s\n file now (%d bytes):\n%s", step, names, d, len(bz), bz))
				return
			}
			c.r.Outcome("genesis:resave-equal")
		default:
			c.r.EngineError("unknown genesis sequence op " + op.Op)
			return
		}
	}
}

// resaveSpecs enumerates, for every ordered pair (A, B) of the set and every driver, the sequence shapes.
func (c *checker) resaveSpecs(set []namedCfg, drivers []string) []spec {
	sv := func(n namedCfg) seqOp { return seqOp{Op: "save", Cfg: n.Name, File: n.File} }
	ld := seqOp{Op: "load"}
	var out []spec
	for _, d := range drivers {
		for _, a := range set {
			// a home that was loaded while it had no file, then written
			out = append(out, spec{Kind: "resave", Driver: d, Shape: "load-save-load", Seq: []seqOp{ld, sv(a), ld}})
			for _, b := range set {
				out = append(out,
					spec{Kind: "resave", Driver: d, Shape: "save-save-load", Seq: []seqOp{sv(a), sv(b), ld}},
					spec{Kind: "resave", Driver: d, Shape: "save-load-save-load-save-load", Seq: []seqOp{sv(a), ld, sv(b), ld, sv(a), ld}},
				)
				// three writes and no load in between: the reading side adds nothing over the shapes above, so the quick tier
				// reads it back through Load only
				if c.w.thorough || d == drvLoad {
					out = append(out, spec{Kind: "resave", Driver: d, Shape: "save-save-save-load", Seq: []seqOp{sv(a), sv(b), sv(a), ld}})
				}
			}
		}
	}
	return out
}

func (c *checker) initSpecs(set []namedCfg, drivers []string) []spec {
	sv := func(n namedCfg) seqOp { return seqOp{Op: "save", Cfg: n.Name, File: n.File} }
	in := func(n namedCfg) seqOp { return seqOp{Op: "init", Cfg: n.Name, File: n.File} }
	ld := seqOp{Op: "load"}
	var out []spec
	for _, d := range drivers {
		for _, a := range set {
			for _, b := range set {
				out = append(out,
					spec{Kind: "resave", Driver: d, Shape: "init-init-load", Seq: []seqOp{in(a), in(b), ld}},
					spec{Kind: "resave", Driver: d, Shape: "init-load-init-load-init-load", Seq: []seqOp{in(a), ld, in(b), ld, in(a), ld}},
					spec{Kind: "resave", Driver: d, Shape: "save-init-load", Seq: []seqOp{sv(a), in(b), ld}},
					spec{Kind: "resave", Driver: d, Shape: "init-save-load", Seq: []seqOp{in(a), sv(b), ld}},
				)
			}
		}
	}
	return out
}

type namedGen struct {
	Name string
	Gen  genSpec
}

func genesisResaveSet(thorough bool) []namedGen {
	chainIDs := []string{"c", strings.Repeat("long-chain-id/", 20)}
	heights := []uint64{1, 1<<64 - 1}
	times := []string{"2024-02-29T23:59:59Z", "2031-07-01T08:30:00.000000001+05:30"}
	addrs := []string{"", strings.Repeat("9c", 64)}
	if thorough {
		chainIDs = append(chainIDs, "with space ünï")
		heights = append(heights, 1<<53+1)
		times = append(times, "2024-06-01T12:00:00.5-00:30")
		addrs = append(addrs, strings.Repeat("ab", 20))
	}
	var out []namedGen
	for _, id := range chainIDs {
		for _, h := range heights {
			for _, tm := range times {
				for _, a := range addrs {
					g := genSpec{ChainID: id, Height: h, Time: tm, Addr: a}
					short := id
					if len(short) > 14 {
						short = short[:14] + "…"
					}
					n := namedGen{Name: fmt.Sprintf("%s/%d/%s/addr%dB", short, h, tm, len(a)/2), Gen: g}
					out = append(out, n)
				}
			}
		}
	}
	return out
}

func genesisResaveSpecs(set []namedGen) []spec {
	sv := func(n namedGen) seqOp { g := n.Gen; return seqOp{Op: "gsave", Cfg: n.Name, Gen: &g} }
	ld := seqOp{Op: "gload"}
	var out []spec
	for _, a := range set {
		for _, b := range set {
			out = append(out,
				spec{Kind: "genesis-resave", Shape: "gsave-gsave-gload", Seq: []seqOp{sv(a), sv(b), ld}},
				spec{Kind: "genesis-resave", Shape: "gsave-gsave-gsave-gload", Seq: []seqOp{sv(a), sv(b), sv(a), ld}},
				spec{Kind: "genesis-resave", Shape: "gload-gsave-gload-gsave-gload", Seq: []seqOp{ld, sv(a), ld, sv(b), ld}},
			)
		}
	}
	return out
}

// lengthSpread summarises the measured lengths (evidence: the set really contains shorter-over-longer pairs).
func lengthSpread(lens []int) map[string]int {
	if len(lens) == 0 {
		return nil
	}
	s := append([]int(nil), lens...)
	sort.Ints(s)
	distinct := 1
	for i := 1; i < len(s); i++ {
		if s[i] != s[i-1] {
			distinct++
		}
	}
	return map[string]int{"min_bytes": s[0], "max_bytes": s[len(s)-1], "distinct_lengths": distinct, "configurations": len(s)}
}
