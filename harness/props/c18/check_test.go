package c18

import (
	"bytes"
	"crypto/sha256"
	"encoding/hex"
	"encoding/json"
	"errors"
	"fmt"
	"math"
	"os"
	"path/filepath"
	"reflect"
	"regexp"
	"sort"
	"strconv"
	"strings"
	"testing"
	"time"

	"github.com/spf13/cobra"
	"github.com/spf13/pflag"
	"github.com/spf13/viper"

	"github.com/evstack/ev-node/pkg/config"
	"github.com/evstack/ev-node/pkg/genesis"

	"verif/harness/vf"
)

// C18 — every configuration option obeys flag > file > default and survives save/load; genesis save/load.
//
// Bounded-exhaustive enumeration against the real pkg/config and pkg/genesis. Everything is discovered by reflection:
// the leaves of config.Config (Go path, mapstructure path, yaml path, type) and the flags registered by
// AddFlags+AddGlobalFlags on a fresh cobra command. The reference is three lines long: value(leaf) = flag if the flag
// is given, else the file's value if the file names the leaf, else the default; every other leaf keeps its default.
//
// Flag -> option naming convention (taken from the code, not invented): bindFlags (config.go:411-421) binds every flag
// under its name with the prefix "rollkit." trimmed, LoadFromViper strips the same prefix (config.go:355), and
// loadFromViper decodes the resulting nested settings with mapstructure, i.e. by mapstructure tag (or the lower-cased
// field name when there is no tag). Hence flag F names the leaf whose mapstructure path equals TrimPrefix(F,"rollkit.").
//
// Exemptions (flags which by design are not Config options):
//   - "home": Config.RootDir is tagged mapstructure:"-" yaml:"-"; Load reads the flag directly
//     (config.go:286 cmd.Flags().GetString(FlagRootDir)) and loadFromViper stores it (config.go:371). It is not exempted
//     from checking: it is mapped to RootDir explicitly and every case verifies RootDir == --home.
//   - "rollkit.signer.passphrase": there is deliberately no Config field (a secret must not be written to evnode.yaml);
//     the commands read it with cmd.Flags().GetString(FlagSignerPassphrase) (pkg/cmd/run_node.go:99, pkg/cmd/keys.go:44,92,
//     apps/*/cmd/init.go:39). The check still demands that setting it changes no option.
//
// Hermeticity: every case gets a fresh temp home, a fresh cobra command and fresh vipers (Load/LoadFromViper create
// their own viper.New()). The one piece of process-global state is config.DefaultConfig, whose Instrumentation field is
// a pointer that `cfg := DefaultConfig` shares with every loaded Config (mapstructure decodes into the existing
// pointee), so cases run sequentially and the harness re-installs a fresh DefaultInstrumentationConfig() before each
// case; whether a case mutated the package-level defaults is observed and recorded (clause defaults-mutated-by-load).

// ---------------------------------------------------------------------------------------------------------------------
// reflection: leaves

type leaf struct {
	Name  string // Go path, e.g. Node.BlockTime
	Index [][]int
	MS    string // mapstructure path (lower case), "" when excluded with "-"
	YAML  string // yaml path, "" when excluded with "-"
	Kind  string // bool | string | int | uint | float | duration
	Bits  int
}

var durWrapT = reflect.TypeOf(config.DurationWrapper{})

func tagName(f reflect.StructField, key string) (name string, opts string, skip bool) {
	tag := f.Tag.Get(key)
	parts := strings.SplitN(tag, ",", 2)
	if len(parts) == 2 {
		opts = parts[1]
	}
	if parts[0] == "-" {
		return "", opts, true
	}
	if parts[0] == "" {
		return strings.ToLower(f.Name), opts, false
	}
	return parts[0], opts, false
}

func join(prefix, name string) string {
	if prefix == "" {
		return name
	}
	if name == "" {
		return prefix
	}
	return prefix + "." + name
}

// walk collects the leaves. Index is a list of FieldByIndex segments; between two segments a pointer is dereferenced.
func walk(t reflect.Type, goPath string, idx [][]int, cur []int, ms, yml string, msOK, ymlOK bool, out *[]leaf, unsupported *[]string) {
	for i := 0; i < t.NumField(); i++ {
		f := t.Field(i)
		if !f.IsExported() {
			continue
		}
		msName, msOpts, msSkip := tagName(f, "mapstructure")
		yName, yOpts, ySkip := tagName(f, "yaml")
		if strings.Contains(msOpts, "squash") {
			msName = ""
		}
		if strings.Contains(yOpts, "inline") {
			yName = ""
		}
		fMS, fY := join(ms, strings.ToLower(msName)), join(yml, yName)
		fMSOK, fYOK := msOK && !msSkip, ymlOK && !ySkip
		name := join(goPath, f.Name)
		ci := append(append([]int(nil), cur...), i)
		ft := f.Type
		lf := leaf{Name: name, Bits: 64}
		if fMSOK {
			lf.MS = fMS
		}
		if fYOK {
			lf.YAML = fY
		}
		mkIdx := func() [][]int { return append(append([][]int(nil), idx...), ci) }
		switch {
		case ft == durWrapT:
			lf.Kind = "duration"
		case ft.Kind() == reflect.Struct:
			walk(ft, name, idx, ci, fMS, fY, fMSOK, fYOK, out, unsupported)
			continue
		case ft.Kind() == reflect.Ptr && ft.Elem().Kind() == reflect.Struct && ft.Elem() != durWrapT:
			walk(ft.Elem(), name, mkIdx(), nil, fMS, fY, fMSOK, fYOK, out, unsupported)
			continue
		case ft.Kind() == reflect.Bool:
			lf.Kind = "bool"
		case ft.Kind() == reflect.String:
			lf.Kind = "string"
		case ft.Kind() >= reflect.Int && ft.Kind() <= reflect.Int64 && ft != reflect.TypeOf(time.Duration(0)):
			lf.Kind, lf.Bits = "int", ft.Bits()
		case ft.Kind() >= reflect.Uint && ft.Kind() <= reflect.Uint64:
			lf.Kind, lf.Bits = "uint", ft.Bits()
		case ft.Kind() == reflect.Float32 || ft.Kind() == reflect.Float64:
			lf.Kind, lf.Bits = "float", ft.Bits()
		default:
			*unsupported = append(*unsupported, fmt.Sprintf("%s (%s)", name, ft))
			continue
		}
		lf.Index = mkIdx()
		*out = append(*out, lf)
	}
}

// at returns the addressable value of the leaf inside cfg; ok=false when a pointer on the way is nil.
func (l leaf) at(cfg *config.Config) (reflect.Value, bool) {
	v := reflect.ValueOf(cfg).Elem()
	for si, seg := range l.Index {
		if si > 0 {
			if v.Kind() != reflect.Ptr || v.IsNil() {
				return reflect.Value{}, false
			}
			v = v.Elem()
		}
		v = v.FieldByIndex(seg)
	}
	return v, true
}

func (l leaf) text(cfg *config.Config) string {
	v, ok := l.at(cfg)
	if !ok {
		return "<nil section>"
	}
	switch l.Kind {
	case "bool":
		return strconv.FormatBool(v.Bool())
	case "string":
		return v.String()
	case "int":
		return strconv.FormatInt(v.Int(), 10)
	case "uint":
		return strconv.FormatUint(v.Uint(), 10)
	case "float":
		return strconv.FormatFloat(v.Float(), 'g', -1, l.Bits)
	case "duration":
		return v.Interface().(config.DurationWrapper).Duration.String()
	}
	return "?"
}

// set parses the canonical text with strconv/time (independently of pflag, viper, yaml) and stores it.
func (l leaf) set(cfg *config.Config, text string) error {
	v, ok := l.at(cfg)
	if !ok {
		return fmt.Errorf("nil section on the way to %s", l.Name)
	}
	switch l.Kind {
	case "bool":
		b, err := strconv.ParseBool(text)
		if err != nil {
			return err
		}
		v.SetBool(b)
	case "string":
		v.SetString(text)
	case "int":
		n, err := strconv.ParseInt(text, 10, l.Bits)
		if err != nil {
			return err
		}
		v.SetInt(n)
	case "uint":
		n, err := strconv.ParseUint(text, 10, l.Bits)
		if err != nil {
			return err
		}
		v.SetUint(n)
	case "float":
		f, err := strconv.ParseFloat(text, l.Bits)
		if err != nil {
			return err
		}
		v.SetFloat(f)
	case "duration":
		d, err := time.ParseDuration(text)
		if err != nil {
			return err
		}
		v.Set(reflect.ValueOf(config.DurationWrapper{Duration: d}))
	}
	return nil
}

// clone copies a value deeply through structs and pointers to structs.
func cloneValue(dst, src reflect.Value) {
	switch src.Kind() {
	case reflect.Ptr:
		if src.IsNil() {
			dst.Set(reflect.Zero(src.Type()))
			return
		}
		n := reflect.New(src.Type().Elem())
		cloneValue(n.Elem(), src.Elem())
		dst.Set(n)
	case reflect.Struct:
		dst.Set(src) // unexported and plain fields
		for i := 0; i < src.NumField(); i++ {
			if src.Type().Field(i).IsExported() {
				cloneValue(dst.Field(i), src.Field(i))
			}
		}
	default:
		dst.Set(src)
	}
}

func cloneConfig(c config.Config) config.Config {
	var out config.Config
	cloneValue(reflect.ValueOf(&out).Elem(), reflect.ValueOf(&c).Elem())
	return out
}

// ---------------------------------------------------------------------------------------------------------------------
// values per type (canonical text)

func valuesFor(kind string, thorough bool) []string {
	switch kind {
	case "bool":
		return []string{"true", "false"}
	case "string":
		vs := []string{"alpha", "beta/2 x", "1e3"}
		if thorough {
			vs = append(vs, ".inf", "-12E+03", "", "ünï ☃ 世界", "a,b", "123", "true", "null", "~", "a: b #c", " lead", "trail ", "multi\nline",
				"0x1f", "1.5e3", "'q\"", "-", "[x]", "{y}", "*a", "&a", "!t", "%p", "@x", "`b", "off", "0o17", "1_000", ".5", "2001-01-01", "<<", "\\")
		}
		return vs
	case "uint":
		vs := []string{"1", "18446744073709551615", "0"}
		if thorough {
			vs = append(vs, "9223372036854775808", "4294967296", "7")
		}
		return vs
	case "int":
		vs := []string{"0", "7", "3"}
		if thorough {
			vs = append(vs, "-5", "2147483648", "9223372036854775807")
		}
		return vs
	case "float":
		vs := []string{"0.5", "-2.25"}
		if thorough {
			vs = append(vs, "1e-09", "1e+21", "123456789.125", "3", "0", "-1", "0.1")
		}
		return vs
	case "duration":
		vs := []string{"250ms", "1h30m0s"}
		if thorough {
			vs = append(vs, "1h2m3.000000004s", "1ns", "-5s", "0s", "2562047h47m16.854775807s")
		}
		return vs
	}
	return nil
}

// nonDefault returns the values of the type that differ from def, at most max (0 = all).
func nonDefault(kind, def string, thorough bool, max int) []string {
	var out []string
	for _, v := range valuesFor(kind, thorough) {
		if v != def {
			out = append(out, v)
		}
	}
	if max > 0 && len(out) > max {
		out = out[:max]
	}
	return out
}

// ---------------------------------------------------------------------------------------------------------------------
// the world: leaves, flags, defaults

type flagInfo struct {
	Name       string
	Type       string // pflag value type
	Persistent bool
	Leaf       int // index into leaves, -1 = names no option
	Exempt     string
}

type world struct {
	leaves   []leaf
	byName   map[string]int
	byMS     map[string]int
	flags    []flagInfo
	flagOf   map[int]string // leaf -> flag name
	defaults config.Config  // deep snapshot of config.DefaultConfig taken at start
	thorough bool
}

const (
	drvLoad       = "Load"
	drvViperSet   = "LoadFromViper/set"
	drvViperBound = "LoadFromViper/bound-flags"
)

const flagPrefix = "rollkit." // the prefix bindFlags/LoadFromViper strip (config.go:355,412)

func newCmd() *cobra.Command {
	cmd := &cobra.Command{Use: "check", Run: func(*cobra.Command, []string) {}}
	config.AddFlags(cmd)
	config.AddGlobalFlags(cmd, "verif")
	return cmd
}

func kindOfFlagType(t string) string {
	switch t {
	case "string":
		return "string"
	case "bool":
		return "bool"
	case "int", "int8", "int16", "int32", "int64":
		return "int"
	case "uint", "uint8", "uint16", "uint32", "uint64":
		return "uint"
	case "float32", "float64":
		return "float"
	case "duration":
		return "duration"
	}
	return ""
}

func newWorld(r *vf.Run) *world {
	w := &world{byName: map[string]int{}, byMS: map[string]int{}, flagOf: map[int]string{}, thorough: r.Thorough()}
	var unsupported []string
	walk(reflect.TypeOf(config.Config{}), "", nil, nil, "", "", true, true, &w.leaves, &unsupported)
	for _, u := range unsupported {
		r.EngineError("configuration leaf of a type this check cannot enumerate yet (extend valuesFor/leaf.set): " + u)
	}
	for i, l := range w.leaves {
		w.byName[l.Name] = i
		if l.MS != "" {
			if j, dup := w.byMS[l.MS]; dup {
				r.EngineError(fmt.Sprintf("two leaves share the mapstructure path %q: %s and %s", l.MS, w.leaves[j].Name, l.Name))
			}
			w.byMS[l.MS] = i
		}
	}
	w.defaults = cloneConfig(config.DefaultConfig)
	cmd := newCmd()
	seen := map[string]bool{}
	add := func(persistent bool) func(*pflag.Flag) {
		return func(f *pflag.Flag) {
			if seen[f.Name] {
				return
			}
			seen[f.Name] = true
			fi := flagInfo{Name: f.Name, Type: f.Value.Type(), Persistent: persistent, Leaf: -1}
			switch f.Name {
			case config.FlagRootDir:
				fi.Leaf = w.byName["RootDir"]
				fi.Exempt = "home->RootDir (read directly by Load)"
			case config.FlagSignerPassphrase:
				fi.Exempt = "secret read directly by the commands, deliberately not a Config field"
			default:
				if i, ok := w.byMS[strings.ToLower(strings.TrimPrefix(f.Name, flagPrefix))]; ok {
					fi.Leaf = i
					w.flagOf[i] = f.Name
				}
			}
			if kindOfFlagType(fi.Type) == "" {
				r.EngineError("flag of a type this check cannot enumerate yet: --" + f.Name + " (" + fi.Type + ")")
			}
			w.flags = append(w.flags, fi)
		}
	}
	cmd.Flags().VisitAll(add(false))
	cmd.PersistentFlags().VisitAll(add(true))
	sort.Slice(w.flags, func(i, j int) bool { return w.flags[i].Name < w.flags[j].Name })
	return w
}

func (w *world) flagInfo(name string) *flagInfo {
	for i := range w.flags {
		if w.flags[i].Name == name {
			return &w.flags[i]
		}
	}
	return nil
}

// ---------------------------------------------------------------------------------------------------------------------
// one case

type spec struct {
	Kind     string            `json:"kind"`             // load | flag | roundtrip | genesis | genesis-invalid | genesis-create
	Driver   string            `json:"driver,omitempty"` // Load | LoadFromViper
	FileMode string            `json:"file_mode,omitempty"`
	File     map[string]string `json:"file,omitempty"`  // leaf Go path -> canonical text
	Flags    map[string]string `json:"flags,omitempty"` // flag name -> text
	Gen      *genSpec          `json:"genesis,omitempty"`
	Shape    string            `json:"shape,omitempty"` // resave / genesis-resave: the sequence shape
	Seq      []seqOp           `json:"seq,omitempty"`   // resave / genesis-resave: the operations on ONE home (resave_test.go)
}

func (s spec) key() string { bz, _ := json.Marshal(s); return string(bz) }

func sortedKeys(m map[string]string) []string {
	ks := make([]string, 0, len(m))
	for k := range m {
		ks = append(ks, k)
	}
	sort.Strings(ks)
	return ks
}

type yamlNode struct {
	kids   map[string]*yamlNode
	scalar string
	leaf   bool
}

func yamlScalar(kind, text string) string {
	switch kind {
	case "string", "duration":
		return strconv.Quote(text) // YAML double-quoted style shares \n \t \" \\ \uXXXX with Go
	}
	return text
}

func writeYAMLTree(sb *strings.Builder, n *yamlNode, depth int) {
	ks := make([]string, 0, len(n.kids))
	for k := range n.kids {
		ks = append(ks, k)
	}
	sort.Strings(ks)
	for _, k := range ks {
		c := n.kids[k]
		sb.WriteString(strings.Repeat("  ", depth))
		if c.leaf {
			fmt.Fprintf(sb, "%s: %s\n", k, c.scalar)
		} else {
			fmt.Fprintf(sb, "%s:\n", k)
			writeYAMLTree(sb, c, depth+1)
		}
	}
}

// sparseYAML is what a user writes by hand: only the named keys, under the names a generated file shows (yaml tags).
func (w *world) sparseYAML(file map[string]string) (string, error) {
	root := &yamlNode{kids: map[string]*yamlNode{}}
	for _, name := range sortedKeys(file) {
		l := w.leaves[w.byName[name]]
		if l.YAML == "" {
			return "", fmt.Errorf("leaf %s is not a file option", name)
		}
		n := root
		parts := strings.Split(l.YAML, ".")
		for i, p := range parts {
			c := n.kids[p]
			if c == nil {
				c = &yamlNode{kids: map[string]*yamlNode{}}
				n.kids[p] = c
			}
			if i == len(parts)-1 {
				c.leaf, c.scalar = true, yamlScalar(l.Kind, file[name])
			}
			n = c
		}
	}
	var sb strings.Builder
	writeYAMLTree(&sb, root, 0)
	return sb.String(), nil
}

type outcome struct {
	got      config.Config
	err      error
	home     string
	mutated  []string // leaves of the package-level DefaultConfig changed by the load
	fileText string
}

// loadArgs parses the arguments on a fresh command and loads through the given driver; herr = harness-side problem.
func loadArgs(driver string, args []string) (got config.Config, lerr error, herr error) {
	cmd := newCmd()
	if err := cmd.ParseFlags(args); err != nil {
		return got, nil, fmt.Errorf("flag parsing failed (%v): %w", args, err)
	}
	switch driver {
	case drvLoad:
		got, lerr = config.Load(cmd)
	case drvViperSet:
		// the way the repository's own TestLoadFromViper drives it: explicit Set of the home and of each given flag
		v := viper.New()
		cmd.Flags().Visit(func(f *pflag.Flag) { v.Set(f.Name, f.Value.String()) })
		got, lerr = config.LoadFromViper(v)
	case drvViperBound:
		// the way an application that owns a viper (cobra/viper server context) obtains flag values: bind the command's flags
		v := viper.New()
		if err := v.BindPFlags(cmd.Flags()); err != nil {
			return got, nil, err
		}
		got, lerr = config.LoadFromViper(v)
	default:
		return got, nil, fmt.Errorf("unknown driver %q", driver)
	}
	return got, lerr, nil
}

// execute performs the file write, flag parse and load of one spec on a fresh home/command and returns what was loaded.
func (w *world) execute(s spec) (outcome, error) { return w.executeOpt(s, true, true) }

// executeOpt: resetBefore/resetAfter=false keep the package-level defaults as the previous load left them (load-after-load).
func (w *world) executeOpt(s spec, resetBefore, resetAfter bool) (outcome, error) {
	var o outcome
	home, err := os.MkdirTemp("", "c18-")
	if err != nil {
		return o, err
	}
	defer os.RemoveAll(home)
	o.home = home
	// hermeticity: fresh package-level instrumentation defaults (see header)
	if resetBefore {
		config.DefaultConfig = cloneConfig(w.defaults)
	}
	switch s.FileMode {
	case "", "none":
	case "sparse":
		txt, err := w.sparseYAML(s.File)
		if err != nil {
			return o, err
		}
		o.fileText = txt
		p := filepath.Join(home, config.AppConfigDir, config.ConfigName)
		if err := os.MkdirAll(filepath.Dir(p), 0o750); err != nil {
			return o, err
		}
		if err := os.WriteFile(p, []byte(txt), 0o600); err != nil {
			return o, err
		}
	case "full":
		c := cloneConfig(w.defaults)
		c.RootDir = home
		for _, name := range sortedKeys(s.File) {
			if err := w.leaves[w.byName[name]].set(&c, s.File[name]); err != nil {
				return o, err
			}
		}
		if err := c.SaveAsYaml(); err != nil {
			o.err = fmt.Errorf("SaveAsYaml: %w", err)
			return o, nil
		}
		bz, _ := os.ReadFile(c.ConfigPath())
		o.fileText = string(bz)
	default:
		return o, fmt.Errorf("unknown file mode %q", s.FileMode)
	}
	args := []string{"--" + config.FlagRootDir + "=" + home}
	for _, f := range sortedKeys(s.Flags) {
		if f == config.FlagRootDir {
			args[0] = "--" + f + "=" + filepath.Join(home, s.Flags[f])
			continue
		}
		args = append(args, "--"+f+"="+s.Flags[f])
	}
	var herr error
	o.got, o.err, herr = loadArgs(s.Driver, args)
	if herr != nil {
		return o, herr
	}
	// did the load change the package-level defaults?
	after := cloneConfig(config.DefaultConfig)
	for _, l := range w.leaves {
		if l.text(&after) != l.text(&w.defaults) {
			o.mutated = append(o.mutated, l.Name)
		}
	}
	// the loaded Config must not alias the defaults either: detach before the next case resets them
	o.got = cloneConfig(o.got)
	if resetAfter {
		config.DefaultConfig = cloneConfig(w.defaults)
	}
	return o, nil
}

// expected is the reference: default, overridden by the file, overridden by the flags (flag > file > default).
func (w *world) expected(s spec, home string) (config.Config, error) {
	c := cloneConfig(w.defaults)
	c.RootDir = home
	for _, name := range sortedKeys(s.File) {
		if err := w.leaves[w.byName[name]].set(&c, s.File[name]); err != nil {
			return c, err
		}
	}
	for _, f := range sortedKeys(s.Flags) {
		fi := w.flagInfo(f)
		if fi == nil {
			return c, fmt.Errorf("unknown flag %s", f)
		}
		if f == config.FlagRootDir {
			c.RootDir = filepath.Join(home, s.Flags[f])
			continue
		}
		if fi.Leaf >= 0 {
			if err := w.leaves[fi.Leaf].set(&c, s.Flags[f]); err != nil {
				return c, err
			}
		}
	}
	return c, nil
}

func (w *world) diff(got, want *config.Config) []string {
	var d []string
	for _, l := range w.leaves {
		if g, x := l.text(got), l.text(want); g != x {
			d = append(d, fmt.Sprintf("%s: got %q want %q", l.Name, g, x))
		}
	}
	return d
}

func (w *world) diffNames(got, want *config.Config) []string {
	var d []string
	for _, l := range w.leaves {
		if l.text(got) != l.text(want) {
			d = append(d, l.Name)
		}
	}
	return d
}

func valueTags(kind, text string) []string {
	if kind != "string" {
		return typedValueTags(kind, text) // values_test.go
	}
	var t []string
	if text == "" {
		t = append(t, "value:empty-string")
	}
	if _, err := strconv.ParseFloat(text, 64); err == nil {
		t = append(t, "value:string-looks-numeric")
	} else if _, err := strconv.ParseInt(text, 0, 64); err == nil {
		t = append(t, "value:string-looks-numeric")
	}
	if strings.ContainsAny(text, "\n") {
		t = append(t, "value:multi-line")
	}
	if strings.TrimSpace(text) != text {
		t = append(t, "value:outer-space")
	}
	for _, c := range text {
		if c > 127 {
			t = append(t, "value:non-ascii")
			break
		}
	}
	return t
}

// yamlFloatLike: strings for which the YAML core schema's float rule applies although they are not what Go prints for a
// float: integer mantissa with an exponent (1e3, -12E+03, 1_0e3) and the spellings of infinity / not-a-number.
var yamlFloatLikeRE = regexp.MustCompile(`^([-+]?[0-9][0-9_]*[eE][-+]?[0-9]+|[-+]?\.(inf|Inf|INF)|\.(nan|NaN|NAN))$`)

func yamlFloatLike(s string) bool { return yamlFloatLikeRE.MatchString(s) }

func uniq(ss []string) []string {
	sort.Strings(ss)
	out := ss[:0]
	for i, s := range ss {
		if i == 0 || s != ss[i-1] {
			out = append(out, s)
		}
	}
	return out
}

type checker struct {
	r       *vf.Run
	w       *world
	evals   int64
	seen    map[string]bool
	nontr   int64
	byKnd   map[string]int64
	tally   map[string]int64 // reported oracle failures by clause and main tags (evidence, development aid)
	mutated map[string]int64 // observation: loads that changed the package-level DefaultConfig, by leaf

	cfgLen, genLen map[string]int // measured serialized lengths (resave_test.go)
	initErrors     int64          // init sequences not judged because `init` itself returned an error
	firstInitError string
}

// noteMutation records (as an observation, not as a verdict: the property speaks about one load) that a load wrote
// through the Instrumentation pointer it shares with config.DefaultConfig. Its consequence inside the property —
// a later default-only load in the same process no longer yields the defaults — is checked by the "load-after-load" cases.
func (c *checker) noteMutation(o outcome) {
	for _, n := range o.mutated {
		c.mutated[n]++
	}
}

func cfgHash(c *config.Config, w *world) string {
	h := sha256.New()
	for _, l := range w.leaves {
		if l.Name == "RootDir" {
			continue
		}
		fmt.Fprintf(h, "%s=%q;", l.Name, l.text(c))
	}
	return hex.EncodeToString(h.Sum(nil)[:8])
}

// run executes one spec and applies the oracle.
func (c *checker) run(s spec) {
	k := s.key()
	if c.seen[k] {
		return
	}
	c.seen[k] = true
	c.evals++
	c.byKnd[s.Kind+"/"+s.Driver]++
	if len(s.File)+len(s.Flags) > 0 || s.Gen != nil || len(s.Seq) > 0 {
		c.nontr++
	}
	switch s.Kind {
	case "load", "roundtrip":
		c.runLoad(s)
	case "flag":
		c.runFlag(s)
	case "load-after-load":
		c.runLoadAfterLoad(s)
	case "genesis", "genesis-invalid", "genesis-create", "genesis-text":
		c.runGenesis(s)
	case "resave":
		c.runResave(s)
	case "genesis-resave":
		c.runGenesisResave(s)
	default:
		c.r.EngineError("unknown spec kind " + s.Kind)
	}
}

func (c *checker) baseTags(s spec) []string {
	tags := []string{"driver:" + s.Driver}
	if s.FileMode != "" && s.FileMode != "none" {
		tags = append(tags, "file:"+s.FileMode)
	}
	for name, v := range s.File {
		l := c.w.leaves[c.w.byName[name]]
		tags = append(tags, "leaf:"+l.Name, "kind:"+l.Kind)
		tags = append(tags, valueTags(l.Kind, v)...)
	}
	for f, v := range s.Flags {
		tags = append(tags, "flag:"+f)
		if fi := c.w.flagInfo(f); fi != nil {
			tags = append(tags, valueTags(kindOfFlagType(fi.Type), v)...)
			if fi.Leaf >= 0 {
				tags = append(tags, "leaf:"+c.w.leaves[fi.Leaf].Name)
			}
		}
	}
	return uniq(tags)
}

func (c *checker) report(s spec, clause string, extra []string, msg string) {
	tags := uniq(append(c.baseTags(s), extra...))
	var main []string
	for _, t := range tags {
		if !strings.HasPrefix(t, "leaf:") && !strings.HasPrefix(t, "kind:") && !strings.HasPrefix(t, "other-leaf-changed:") {
			main = append(main, t)
		}
	}
	c.tally[clause+" "+strings.Join(main, ",")]++
	c.r.Report(vf.Violation{Clause: clause, Tags: tags, Msg: msg + "\n case: " + s.key(), Cost: len(s.File) + len(s.Flags) + len(tags), History: s})
}

func (c *checker) runLoad(s spec) {
	o, err := c.w.execute(s)
	if err != nil {
		c.r.EngineError(fmt.Sprintf("case %s: %v", s.key(), err))
		return
	}
	clause := "precedence"
	switch {
	case s.Kind == "roundtrip":
		clause = "save-load-roundtrip"
	case len(s.File) == 0 && len(s.Flags) == 0:
		clause = "default-only"
	case len(s.Flags) == 0:
		clause = "file-sets-option"
	case len(s.File) == 0:
		clause = "flag-reaches-its-option"
	}
	c.noteMutation(o)
	if o.err != nil {
		c.report(s, clause, []string{"load-error"}, fmt.Sprintf("%s returned an error: %v\n file:\n%s", s.Driver, o.err, o.fileText))
		c.r.Outcome("error")
		return
	}
	want, err := c.w.expected(s, o.home)
	if err != nil {
		c.r.EngineError(fmt.Sprintf("case %s: %v", s.key(), err))
		return
	}
	c.r.Outcome("cfg:" + cfgHash(&o.got, c.w))
	d := c.w.diff(&o.got, &want)
	if len(d) == 0 && reflect.DeepEqual(o.got, want) {
		return
	}
	if len(d) == 0 {
		c.report(s, clause, []string{"non-leaf-difference"}, fmt.Sprintf("loaded Config differs from the expected one outside the enumerated leaves:\n got  %+v\n want %+v", o.got, want))
		return
	}
	// is one of the leaves the case set wrong, or did another leaf move?
	target := map[string]bool{}
	for name := range s.File {
		target[name] = true
	}
	for f := range s.Flags {
		if fi := c.w.flagInfo(f); fi != nil && fi.Leaf >= 0 {
			target[c.w.leaves[fi.Leaf].Name] = true
		}
	}
	var extra []string
	onTarget := false
	for _, n := range c.w.diffNames(&o.got, &want) {
		if target[n] {
			onTarget = true
		} else {
			extra = append(extra, "other-leaf-changed:"+n)
		}
	}
	if !onTarget {
		clause = "other-option-changed"
	}
	// Known-defect patterns are recognised per wrong leaf, from the case (history) and from where the wrong value came
	// from; the pattern tags are attached only when EVERY wrong leaf is explained, so anything else in the same case
	// still surfaces as an unexplained violation.
	patterns := map[string]bool{}
	explained := true
	for _, n := range c.w.diffNames(&o.got, &want) {
		li := c.w.byName[n]
		l := c.w.leaves[li]
		flag, has := c.w.flagOf[li]
		_, given := s.Flags[flag]
		fv, inFile := s.File[n]
		switch {
		case s.FileMode == "full" && inFile && !(has && given) && l.Kind == "string" && writerMistypes(fv) != "":
			patterns[writerMistypes(fv)] = true // values_test.go: the listed findings about what SaveAsYaml writes for some strings
		case s.Driver == drvViperBound && has && !given && inFile && l.text(&o.got) == l.text(&c.w.defaults):
			// the file names the leaf, its flag is registered but not given, and the loaded value is the flag's
			// default (= the option's default, AddFlags takes it from DefaultConfig)
			patterns["file-value-lost-to-default-of-unchanged-bound-flag"] = true
		default:
			explained = false
		}
	}
	if explained {
		for p := range patterns {
			extra = append(extra, p)
		}
	}
	c.report(s, clause, extra, fmt.Sprintf("%s: %s\n file (%s):\n%s", s.Driver, strings.Join(d, "; "), s.FileMode, o.fileText))
}

// runLoadAfterLoad: the property's "default" must be the same for every load of a process. A first load that sets one
// option (by file or flag) is followed, in the same process and without the harness re-installing the package-level
// defaults, by a load with no file and no flags, which must yield the defaults.
func (c *checker) runLoadAfterLoad(s spec) {
	defer func() { config.DefaultConfig = cloneConfig(c.w.defaults) }()
	first := s
	first.Kind = "load"
	if _, err := c.w.executeOpt(first, true, false); err != nil {
		c.r.EngineError(fmt.Sprintf("case %s: %v", s.key(), err))
		return
	}
	o, err := c.w.executeOpt(spec{Kind: "load", Driver: s.Driver}, false, true)
	if err != nil {
		c.r.EngineError(fmt.Sprintf("case %s: %v", s.key(), err))
		return
	}
	if o.err != nil {
		c.report(s, "default-only", []string{"load-error", "after-earlier-load-in-process"}, fmt.Sprintf("second %s returned an error: %v", s.Driver, o.err))
		return
	}
	want := cloneConfig(c.w.defaults)
	want.RootDir = o.home
	c.r.Outcome("cfg:" + cfgHash(&o.got, c.w))
	d := c.w.diff(&o.got, &want)
	if len(d) == 0 {
		return
	}
	// which option did the first load set, and does it live behind a pointer that Config shares with DefaultConfig?
	extra := []string{"after-earlier-load-in-process"}
	var setLeaf *leaf
	for name := range s.File {
		l := c.w.leaves[c.w.byName[name]]
		setLeaf = &l
	}
	for f := range s.Flags {
		if fi := c.w.flagInfo(f); fi != nil && fi.Leaf >= 0 {
			l := c.w.leaves[fi.Leaf]
			setLeaf = &l
		}
	}
	if setLeaf != nil && len(setLeaf.Index) > 1 {
		section := strings.SplitN(setLeaf.Name, ".", 2)[0]
		same := true
		for _, n := range c.w.diffNames(&o.got, &want) {
			if n != setLeaf.Name {
				same = false
			}
		}
		if same {
			extra = append(extra, "earlier-load-set-option-behind-shared-pointer:"+section)
		}
	}
	c.report(s, "default-only", extra, fmt.Sprintf("a %s with no file and no flags, after an earlier %s in the same process had set an option, does not yield the defaults: %s", s.Driver, s.Driver, strings.Join(d, "; ")))
}

// runFlag: a registered flag set alone must change exactly the option it names.
func (c *checker) runFlag(s spec) {
	var name string
	for f := range s.Flags {
		name = f
	}
	fi := c.w.flagInfo(name)
	o, err := c.w.execute(s)
	if err != nil {
		c.r.EngineError(fmt.Sprintf("case %s: %v", s.key(), err))
		return
	}
	c.noteMutation(o)
	if o.err != nil {
		c.report(s, "flag-reaches-its-option", []string{"load-error"}, fmt.Sprintf("%s with --%s=%s returned an error: %v", s.Driver, name, s.Flags[name], o.err))
		return
	}
	base := cloneConfig(c.w.defaults)
	base.RootDir = o.home
	changed := c.w.diffNames(&o.got, &base)
	c.r.Outcome("cfg:" + cfgHash(&o.got, c.w))
	want, _ := c.w.expected(s, o.home)
	switch {
	case fi.Leaf < 0 && fi.Exempt != "":
		// not an option by design: it must not touch any option
		if len(changed) > 0 {
			c.report(s, "other-option-changed", nil, fmt.Sprintf("--%s=%q (%s) changed options %v", name, s.Flags[name], fi.Exempt, changed))
		}
	case fi.Leaf < 0:
		extra := []string{"flag-names-no-option"}
		what := fmt.Sprintf("it changed %v instead", changed)
		if len(changed) == 0 {
			extra = append(extra, "silently-ignored")
			what = "the loaded configuration is identical to the defaults: the flag is silently ignored"
		}
		key := strings.TrimPrefix(name, flagPrefix)
		c.report(s, "flag-reaches-its-option", extra, fmt.Sprintf("registered flag --%s is bound to the settings key %q, but no configuration option has that mapstructure path; with --%s=%q %s", name, key, name, s.Flags[name], what))
	default:
		if d := c.w.diff(&o.got, &want); len(d) > 0 || !reflect.DeepEqual(o.got, want) {
			var extra []string
			for _, n := range c.w.diffNames(&o.got, &want) {
				if n != c.w.leaves[fi.Leaf].Name {
					extra = append(extra, "other-leaf-changed:"+n)
				}
			}
			if len(changed) == 0 {
				extra = append(extra, "silently-ignored")
			}
			c.report(s, "flag-reaches-its-option", extra, fmt.Sprintf("--%s=%q alone must change exactly %s; %s: %s (leaves differing from the defaults: %v)", name, s.Flags[name], c.w.leaves[fi.Leaf].Name, s.Driver, strings.Join(d, "; "), changed))
		}
	}
}

// ---------------------------------------------------------------------------------------------------------------------
// genesis

type genSpec struct {
	ChainID string `json:"chain_id"`
	Height  uint64 `json:"initial_height"`
	Time    string `json:"time"` // RFC3339Nano, "" = zero time
	Addr    string `json:"addr"` // hex; "nil" = nil slice
	Raw     string `json:"raw,omitempty"`
	Label   string `json:"label,omitempty"`
}

func (g genSpec) build() (genesis.Genesis, error) {
	var tm time.Time
	if g.Time != "" {
		var err error
		tm, err = time.Parse(time.RFC3339Nano, g.Time)
		if err != nil {
			return genesis.Genesis{}, err
		}
	}
	var addr []byte
	if g.Addr != "nil" {
		bz, err := hex.DecodeString(g.Addr)
		if err != nil {
			return genesis.Genesis{}, err
		}
		addr = append([]byte{}, bz...)
	}
	return genesis.NewGenesis(g.ChainID, g.Height, tm, addr), nil
}

func (g genSpec) invalidShapes() []string {
	var t []string
	if g.ChainID == "" {
		t = append(t, "empty-chain-id")
	}
	if g.Height == 0 {
		t = append(t, "zero-initial-height")
	}
	if g.Time == "" {
		t = append(t, "zero-time")
	}
	if g.Addr == "nil" {
		t = append(t, "nil-proposer-address")
	}
	return t
}

func genEqual(a, b genesis.Genesis) string {
	var d []string
	if a.ChainID != b.ChainID {
		d = append(d, fmt.Sprintf("chain_id %q != %q", a.ChainID, b.ChainID))
	}
	if a.InitialHeight != b.InitialHeight {
		d = append(d, fmt.Sprintf("initial_height %d != %d", a.InitialHeight, b.InitialHeight))
	}
	_, oa := a.GenesisDAStartTime.Zone()
	_, ob := b.GenesisDAStartTime.Zone()
	if !a.GenesisDAStartTime.Equal(b.GenesisDAStartTime) || oa != ob {
		d = append(d, fmt.Sprintf("time %s != %s", a.GenesisDAStartTime.Format(time.RFC3339Nano), b.GenesisDAStartTime.Format(time.RFC3339Nano)))
	}
	if !bytes.Equal(a.ProposerAddress, b.ProposerAddress) || (a.ProposerAddress == nil) != (b.ProposerAddress == nil) {
		d = append(d, fmt.Sprintf("proposer_address %x(nil=%v) != %x(nil=%v)", a.ProposerAddress, a.ProposerAddress == nil, b.ProposerAddress, b.ProposerAddress == nil))
	}
	return strings.Join(d, "; ")
}

func (c *checker) runGenesis(s spec) {
	g := *s.Gen
	dir, err := os.MkdirTemp("", "c18g-")
	if err != nil {
		c.r.EngineError(err.Error())
		return
	}
	defer os.RemoveAll(dir)
	rep := func(clause string, tags []string, msg string) {
		c.r.Report(vf.Violation{Clause: clause, Tags: uniq(tags), Msg: msg + "\n case: " + s.key(), Cost: 1 + len(tags), History: s})
	}
	path := filepath.Join(dir, "genesis.json")
	switch s.Kind {
	case "genesis":
		want, err := g.build()
		if err != nil {
			c.r.EngineError(err.Error())
			return
		}
		if err := want.Validate(); err != nil {
			rep("genesis-roundtrip", []string{"valid-refused"}, fmt.Sprintf("a genesis with all four documented fields present is refused by Validate: %v", err))
			return
		}
		if err := want.Save(path); err != nil {
			rep("genesis-roundtrip", []string{"save-error"}, "Save of a valid genesis failed: "+err.Error())
			return
		}
		got, err := genesis.LoadGenesis(path)
		if err != nil {
			bz, _ := os.ReadFile(path)
			rep("genesis-roundtrip", []string{"load-error"}, fmt.Sprintf("LoadGenesis refuses the file Save wrote: %v\n%s", err, bz))
			return
		}
		if d := genEqual(got, want); d != "" {
			bz, _ := os.ReadFile(path)
			rep("genesis-roundtrip", []string{"differs"}, "loaded genesis differs from the saved one: "+d+"\n"+string(bz))
			return
		}
		c.r.Outcome("genesis:roundtrip-equal")
	case "genesis-create":
		// CreateGenesis is the node's own writer (time.Now()); only the arguments are compared, the time must be non-zero
		addr, _ := hex.DecodeString(g.Addr)
		addr = append([]byte{}, addr...)
		if err := genesis.CreateGenesis(dir, g.ChainID, g.Height, addr); err != nil {
			rep("genesis-roundtrip", []string{"create-error"}, "CreateGenesis failed: "+err.Error())
			return
		}
		p := genesis.GenesisPath(dir)
		before, _ := os.ReadFile(p)
		got, err := genesis.LoadGenesis(p)
		if err != nil {
			rep("genesis-roundtrip", []string{"load-error"}, fmt.Sprintf("LoadGenesis refuses the file CreateGenesis wrote: %v\n%s", err, before))
			return
		}
		if got.ChainID != g.ChainID || got.InitialHeight != g.Height || !bytes.Equal(got.ProposerAddress, addr) || got.GenesisDAStartTime.IsZero() {
			rep("genesis-roundtrip", []string{"differs"}, fmt.Sprintf("CreateGenesis(%q,%d,%x) loads back as %+v", g.ChainID, g.Height, addr, got))
			return
		}
		if err := genesis.CreateGenesis(dir, "other", 9, []byte{1}); !errors.Is(err, genesis.ErrGenesisExists) {
			rep("genesis-roundtrip", []string{"overwrite"}, fmt.Sprintf("second CreateGenesis returned %v instead of ErrGenesisExists", err))
			return
		}
		if after, _ := os.ReadFile(p); !bytes.Equal(before, after) {
			rep("genesis-roundtrip", []string{"overwrite"}, "second CreateGenesis changed the existing genesis file")
			return
		}
		c.r.Outcome("genesis:create-load-equal")
	case "genesis-invalid":
		bad, err := g.build()
		if err != nil {
			c.r.EngineError(err.Error())
			return
		}
		shapes := g.invalidShapes()
		if len(shapes) == 0 {
			c.r.EngineError("genesis-invalid spec without an invalid shape")
			return
		}
		if bad.Validate() == nil {
			rep("invalid-genesis-refused", append(shapes, "validate-accepts"), fmt.Sprintf("Validate accepts %+v", bad))
		}
		// Save documents no validation (io.go:78): either it refuses, or the file it writes must be refused by LoadGenesis.
		if err := bad.Save(path); err != nil {
			c.r.Outcome("genesis:invalid-refused-on-save")
			return
		}
		got, err := genesis.LoadGenesis(path)
		if err == nil {
			bz, _ := os.ReadFile(path)
			rep("invalid-genesis-refused", append(shapes, "load-accepts"), fmt.Sprintf("LoadGenesis accepted an invalid genesis (%v): %+v\n%s", shapes, got, bz))
			return
		}
		if d := genEqual(got, genesis.Genesis{}); d != "" {
			rep("invalid-genesis-refused", append(shapes, "partial-result"), fmt.Sprintf("LoadGenesis returned an error together with a non-empty genesis: %+v", got))
			return
		}
		c.r.Outcome("genesis:invalid-refused-on-load")
	case "genesis-text":
		// hand-made files: missing/null/ill-typed fields, not JSON
		if g.Raw == "<absent>" {
			// no file at all
		} else if err := os.WriteFile(path, []byte(g.Raw), 0o600); err != nil {
			c.r.EngineError(err.Error())
			return
		}
		got, err := genesis.LoadGenesis(path)
		if err == nil {
			rep("invalid-genesis-refused", []string{"text:" + g.Label, "load-accepts"}, fmt.Sprintf("LoadGenesis accepted the invalid file (%s) %q as %+v", g.Label, g.Raw, got))
			return
		}
		if d := genEqual(got, genesis.Genesis{}); d != "" {
			rep("invalid-genesis-refused", []string{"text:" + g.Label, "partial-result"}, fmt.Sprintf("LoadGenesis returned an error together with a non-empty genesis: %+v", got))
			return
		}
		c.r.Outcome("genesis:invalid-text-refused")
	}
}

func genesisSpecs(thorough bool) []spec {
	chainIDs := []string{"c", "with space ünï"}
	heights := []uint64{1, math.MaxUint64}
	times := []string{"2024-02-29T23:59:59.123456789Z", "2031-07-01T08:30:00.000000001+05:30"}
	addrs := []string{"", strings.Repeat("ab", 32)}
	if thorough {
		chainIDs = append(chainIDs, "q\"uo\\te\n<tag>&", " ", strings.Repeat("x", 300), "0")
		heights = append(heights, 2, 1<<53+1, math.MaxInt64, math.MaxInt64+1)
		times = append(times, "1970-01-01T00:00:00Z", "9999-12-31T23:59:59.999999999-08:00", "0001-01-01T00:00:00.000000001Z", "2024-01-01T00:00:00+14:00", "2024-06-01T12:00:00.5-00:30")
		addrs = append(addrs, "00", strings.Repeat("ff", 20), strings.Repeat("00", 32), strings.Repeat("9c", 64))
	}
	var out []spec
	for _, id := range chainIDs {
		for _, h := range heights {
			for _, tm := range times {
				for _, a := range addrs {
					out = append(out, spec{Kind: "genesis", Gen: &genSpec{ChainID: id, Height: h, Time: tm, Addr: a}})
				}
			}
			for _, a := range addrs {
				out = append(out, spec{Kind: "genesis-create", Gen: &genSpec{ChainID: id, Height: h, Addr: a}})
			}
		}
	}
	// the four invalid shapes, in every combination, over the valid values of the other fields
	for mask := 1; mask < 16; mask++ {
		for vi := 0; vi < 2; vi++ {
			g := genSpec{ChainID: chainIDs[vi], Height: heights[vi], Time: times[vi], Addr: addrs[vi]}
			if mask&1 != 0 {
				g.ChainID = ""
			}
			if mask&2 != 0 {
				g.Height = 0
			}
			if mask&4 != 0 {
				g.Time = ""
			}
			if mask&8 != 0 {
				g.Addr = "nil"
			}
			out = append(out, spec{Kind: "genesis-invalid", Gen: &g})
		}
	}
	valid := map[string]string{"chain_id": `"c"`, "genesis_da_start_height": `"2024-02-29T23:59:59.123456789Z"`, "initial_height": "1", "proposer_address": `"q6s="`}
	mk := func(over map[string]string, drop string) string {
		var parts []string
		for _, k := range []string{"chain_id", "genesis_da_start_height", "initial_height", "proposer_address"} {
			if k == drop {
				continue
			}
			v := valid[k]
			if o, ok := over[k]; ok {
				v = o
			}
			parts = append(parts, fmt.Sprintf("%q: %s", k, v))
		}
		return "{" + strings.Join(parts, ", ") + "}"
	}
	texts := [][2]string{
		{"absent-file", "<absent>"}, {"empty-file", ""}, {"not-json", "chain_id: c"}, {"truncated", mk(nil, "")[:20]}, {"json-null", "null"}, {"json-array", "[]"},
		{"trailing-garbage", mk(nil, "") + " x"},
		{"missing-chain-id", mk(nil, "chain_id")}, {"missing-time", mk(nil, "genesis_da_start_height")}, {"missing-height", mk(nil, "initial_height")}, {"missing-address", mk(nil, "proposer_address")},
		{"null-chain-id", mk(map[string]string{"chain_id": "null"}, "")}, {"null-time", mk(map[string]string{"genesis_da_start_height": "null"}, "")},
		{"null-height", mk(map[string]string{"initial_height": "null"}, "")}, {"null-address", mk(map[string]string{"proposer_address": "null"}, "")},
		{"empty-chain-id", mk(map[string]string{"chain_id": `""`}, "")}, {"zero-height", mk(map[string]string{"initial_height": "0"}, "")},
		{"zero-time", mk(map[string]string{"genesis_da_start_height": `"0001-01-01T00:00:00Z"`}, "")},
		{"negative-height", mk(map[string]string{"initial_height": "-1"}, "")}, {"fractional-height", mk(map[string]string{"initial_height": "1.5"}, "")},
		{"height-overflow", mk(map[string]string{"initial_height": "18446744073709551616"}, "")}, {"height-as-string", mk(map[string]string{"initial_height": `"1"`}, "")},
		{"chain-id-number", mk(map[string]string{"chain_id": "5"}, "")}, {"bad-time", mk(map[string]string{"genesis_da_start_height": `"yesterday"`}, "")},
		{"time-number", mk(map[string]string{"genesis_da_start_height": "12"}, "")}, {"bad-base64-address", mk(map[string]string{"proposer_address": `"!!!"`}, "")},
		{"address-object", mk(map[string]string{"proposer_address": `{"a":1}`}, "")}, {"address-number", mk(map[string]string{"proposer_address": "7"}, "")},
	}
	for _, t := range texts {
		out = append(out, spec{Kind: "genesis-text", Gen: &genSpec{Label: t[0], Raw: t[1]}})
	}
	return out
}

// ---------------------------------------------------------------------------------------------------------------------

func scrubEnv(w *world) {
	// viper.AutomaticEnv / BindEnv (config.go:299,416) would let environment variables named after the keys leak in;
	// the property is about flag/file/default, so make sure none is set.
	exe, _ := os.Executable()
	base := filepath.Base(exe)
	for _, f := range w.flags {
		k := strings.ToUpper(strings.TrimPrefix(f.Name, flagPrefix))
		if f.Name == config.FlagRootDir {
			continue // HOME is needed by DefaultRootDir and does not reach the Config (Load reads the flag itself)
		}
		for _, n := range []string{k, strings.ToUpper(f.Name), base + "_" + k, strings.ReplaceAll(k, "-", "_"), base + "_" + strings.ReplaceAll(k, "-", "_")} {
			os.Unsetenv(n)
		}
	}
}

func TestCheck(t *testing.T) {
	r := vf.Start("C18", "exploration")
	w := newWorld(r)
	scrubEnv(w)
	c := &checker{r: r, w: w, seen: map[string]bool{}, byKnd: map[string]int64{}, tally: map[string]int64{}, mutated: map[string]int64{}, cfgLen: map[string]int{}, genLen: map[string]int{}}
	r.Assume = []string{
		"the defaults are config.DefaultConfig as it stands when the process starts (defaults.go); the reference only adds flag > file > default on top",
		"environment variables (viper.AutomaticEnv/BindEnv) are outside the property and are unset for the run",
		"a user writes a configuration file with the key names that SaveAsYaml shows (yaml tags); sparse files are written by the harness in plain block YAML with double-quoted strings",
		"an application that owns a viper passes flags to LoadFromViper by BindPFlags(cmd.Flags()) (what a cobra/viper server context does)",
		"a nil *InstrumentationConfig is not a configuration value (the section is always present in DefaultConfig); leaves are enumerated through the pointer",
		"value domain: the boundary sets of values_test.go stand for 'all values of the field's type'; NaN and negative zero are left out (not equal to themselves / equal to +0), values are compared as values of the leaf's type (canonical text parsed with strconv/time), not as spellings",
		"genesis equality: same chain id, initial height, proposer bytes (and nil-ness), same instant and same zone offset; offsets are whole minutes (RFC 3339)",
		"Genesis.Save documents no validation, so for the invalid shapes either Save or LoadGenesis must refuse; hand-written invalid files must be refused by LoadGenesis",
	}
	if r.ReplayPath() != "" {
		var s spec
		if _, err := r.LoadReplay(&s); err != nil {
			r.EngineError(err.Error())
		} else {
			c.run(s)
		}
		r.Finish(vf.Coverage{Evaluations: c.evals, DistinctNontrivial: c.nontr})
		return
	}
	thorough := r.Thorough()
	drivers := []string{drvLoad, drvViperSet, drvViperBound}
	deadline := time.Now().Add(vf.Pick(r, 50*time.Second, 18*time.Minute))
	var caps []string
	capped := func() bool {
		if len(caps) > 0 {
			return true
		}
		if time.Now().After(deadline) {
			caps = append(caps, "deadline reached before the enumeration was complete")
			return true
		}
		return false
	}
	sp := func(v string) *string { return &v }

	// (0) nothing given: the defaults
	for _, d := range drivers {
		c.run(spec{Kind: "load", Driver: d})
		c.run(spec{Kind: "load", Driver: d, FileMode: "full"}) // the file `init` writes, untouched
	}

	// (1) per leaf: presence {default, file, flag, file+flag} x values (including the default given explicitly)
	var noFlag, notInFile []string
	perLeafValues := map[string]int{}
	for li, l := range w.leaves {
		if l.YAML == "" && l.MS == "" {
			// excluded from both the decoder and the writer (mapstructure:"-" yaml:"-"): not a file option (RootDir)
			notInFile = append(notInFile, l.Name)
			continue
		}
		if l.YAML == "" || l.MS == "" {
			// excluded from only one side: either the writer hides an option the loader accepts, or it writes a key the
			// loader never reads. There is no documented file key to enumerate; the save->load cases below show the loss.
			what := "is accepted by the loader (mapstructure) but hidden from the configuration file writer (yaml:\"-\")"
			if l.MS == "" {
				what = "is written to the configuration file but excluded from the loader (mapstructure:\"-\")"
			}
			c.report(spec{Kind: "roundtrip", Driver: drvLoad, FileMode: "full", File: map[string]string{l.Name: l.text(&w.defaults)}}, "file-sets-option",
				[]string{"excluded-by-one-tag-only"}, "option "+l.Name+" "+what)
			continue
		}
		def := l.text(&w.defaults)
		vals := append(nonDefault(l.Kind, def, thorough, 0), def) // the last one is the default, given explicitly
		perLeafValues[l.Kind] = len(vals)
		flag, hasFlag := w.flagOf[li]
		if !hasFlag {
			noFlag = append(noFlag, l.Name)
		}
		fileOpts := []*string{nil}
		flagOpts := []*string{nil}
		for _, v := range vals {
			fileOpts = append(fileOpts, sp(v))
			if hasFlag {
				flagOpts = append(flagOpts, sp(v))
			}
		}
		for _, d := range drivers {
			for _, mode := range []string{"sparse", "full"} {
				for fi, fv := range fileOpts {
					for gi, gv := range flagOpts {
						if capped() {
							break
						}
						// full cross product over {absent, first four values, explicit default}; every further value
						// meets: nothing, and its two neighbours in the list (as file value and as flag value)
						if nf := len(fileOpts); fi > 4 && gi > 4 && fi != nf-1 && gi != nf-1 && gi != fi+1 && fi != gi+1 {
							continue
						}
						s := spec{Kind: "load", Driver: d}
						if fv != nil {
							s.FileMode, s.File = mode, map[string]string{l.Name: *fv}
						} else if mode == "full" {
							s.FileMode = "full" // a complete file at its defaults + the flag
						}
						if gv != nil {
							s.Flags = map[string]string{flag: *gv}
						}
						c.run(s)
						if len(c.seen)%97 == 0 {
							r.Sample(s)
						}
					}
				}
			}
		}
	}

	// (2) per registered flag: set alone it changes exactly the option it names
	for _, fi := range w.flags {
		kind := kindOfFlagType(fi.Type)
		def := ""
		if fi.Leaf >= 0 {
			def = w.leaves[fi.Leaf].text(&w.defaults)
		}
		vals := nonDefault(kind, def, thorough, vf.Pick(r, 3, 0))
		if fi.Name == config.FlagRootDir {
			vals = []string{"sub", "other dir/ünï"} // relative to the case's temp dir
		}
		for _, d := range drivers {
			for _, v := range vals {
				if capped() {
					break
				}
				c.run(spec{Kind: "flag", Driver: d, Flags: map[string]string{fi.Name: v}})
			}
		}
	}

	// (3) save -> load: every single leaf, every pair of leaves, and all leaves at once, non-default
	var fileLeaves []leaf
	for _, l := range w.leaves {
		if l.YAML != "" || l.MS != "" {
			fileLeaves = append(fileLeaves, l)
		}
	}
	rtVals := func(l leaf) []string {
		return nonDefault(l.Kind, l.text(&w.defaults), thorough, vf.Pick(r, 3, 0))
	}
	pairs := int64(0)
	for _, d := range drivers {
		for i, a := range fileLeaves {
			for _, va := range rtVals(a) {
				if capped() {
					break
				}
				c.run(spec{Kind: "roundtrip", Driver: d, FileMode: "full", File: map[string]string{a.Name: va}})
			}
			for _, b := range fileLeaves[i+1:] {
				if d == drvViperBound {
					break // pairs add nothing there: see the singles and the all-at-once cases (known finding on that driver)
				}
				av, bv := rtVals(a), rtVals(b)
				// every value of either leaf occurs in a pair (thorough: with two different partners)
				for k := 0; k < len(av) || k < len(bv); k++ {
					for off := 0; off < vf.Pick(r, 1, 2); off++ {
						if capped() {
							break
						}
						c.run(spec{Kind: "roundtrip", Driver: d, FileMode: "full", File: map[string]string{a.Name: av[k%len(av)], b.Name: bv[(k+off)%len(bv)]}})
						pairs++
					}
				}
			}
		}
		for k := 0; k < vf.Pick(r, 2, 8); k++ {
			all := map[string]string{}
			for _, l := range fileLeaves {
				vs := rtVals(l)
				all[l.Name] = vs[k%len(vs)]
			}
			s := spec{Kind: "roundtrip", Driver: d, FileMode: "full", File: all}
			c.run(s)
			r.Sample(s)
		}
	}

	// (3b) the defaults are the same for every load of a process: set one option in a first load, then load with nothing
	for _, d := range drivers {
		for li, l := range fileLeaves {
			vs := rtVals(l)
			if l.YAML != "" {
				c.run(spec{Kind: "load-after-load", Driver: d, FileMode: "sparse", File: map[string]string{l.Name: vs[0]}})
			}
			if flag, ok := w.flagOf[w.byName[l.Name]]; ok {
				c.run(spec{Kind: "load-after-load", Driver: d, Flags: map[string]string{flag: vs[len(vs)-1]}})
			}
			_ = li
		}
	}

	// (5) the value domain of every leaf type (values_test.go): every leaf x every boundary value of its type x every path
	vdStart := time.Now()
	vd := c.valueDomain(drivers, capped)
	vdWall := time.Since(vdStart).Seconds() // information only

	// (3c) operation SEQUENCES on one home (resave_test.go): every ordered pair of a set of configurations that differ in
	// serialized length and content, written one over the other with SaveAsYaml and through the init command's Load -> SaveAsYaml
	resaveStart := time.Now()
	resaveSet := w.resaveConfigs(vf.Pick(r, 1, 0), 1)
	var initSet []namedCfg
	{
		seenProj := map[string]bool{}
		for i, n := range resaveSet {
			if !thorough && i >= 6 {
				break
			}
			p := w.initProjection(n)
			kb, _ := json.Marshal(p.File)
			if seenProj[string(kb)] {
				continue
			}
			seenProj[string(kb)] = true
			initSet = append(initSet, p)
		}
	}
	cfgLens, initLens := map[string]int{}, map[string]int{}
	var cl, il []int
	for _, n := range resaveSet {
		cfgLens[n.Name] = c.lenOfFile(n.File)
		cl = append(cl, cfgLens[n.Name])
	}
	for _, n := range initSet {
		initLens[n.Name] = c.lenOfFile(n.File)
		il = append(il, initLens[n.Name])
	}
	resaveByShape := map[string]int64{}
	seqSpecs := c.resaveSpecs(resaveSet, drivers)
	seqSpecs = append(seqSpecs, c.initSpecs(initSet, vf.Pick(r, drivers[:1], drivers))...)
	for i, s := range seqSpecs {
		if capped() {
			break
		}
		before := c.evals
		c.run(s)
		resaveByShape[s.Shape] += c.evals - before
		if i%397 == 5 {
			r.Sample(s)
		}
	}
	genSet := genesisResaveSet(thorough)
	var gl []int
	genLens := map[string]int{}
	for _, n := range genSet {
		genLens[n.Name] = c.lenOfGen(n.Gen)
		gl = append(gl, genLens[n.Name])
	}
	for i, s := range genesisResaveSpecs(genSet) {
		if capped() {
			break
		}
		before := c.evals
		c.run(s)
		resaveByShape[s.Shape] += c.evals - before
		if i == 7 {
			r.Sample(s)
		}
	}
	resaveWall := time.Since(resaveStart).Seconds() // information only, never an oracle
	if c.initErrors > 0 {
		// vacuity guard for the init path: on the unchanged tree every init of these sequences succeeds
		fmt.Fprintf(os.Stderr, "C18: %d init sequences were not judged because init returned an error, first: %s\n", c.initErrors, c.firstInitError)
	}

	// (4) genesis
	gs := genesisSpecs(thorough)
	for i, s := range gs {
		c.run(s)
		if i == 3 {
			r.Sample(s)
		}
	}

	flagNames := make([]string, 0, len(w.flags))
	var unnamed []string
	for _, f := range w.flags {
		flagNames = append(flagNames, f.Name)
		if f.Leaf < 0 {
			unnamed = append(unnamed, f.Name)
		}
	}
	r.Finish(vf.Coverage{
		Evaluations: c.evals, DistinctNontrivial: c.nontr,
		Rule: "one evaluation = one (file, flags) case written to a fresh home and loaded through the real Load / LoadFromViper (or one genesis file saved and loaded); " +
			"cases: per leaf {no file, sparse file, complete file} x {no flag, flag} x every value of the leaf's type incl. the default given explicitly; per registered flag alone; " +
			"save->load of every single leaf, every pair of leaves and all leaves at once; " +
			"value domain: for every leaf, every value of the boundary set of the leaf's type (durations: unit borders ns/us/ms/s/m/h, every combination of second, millisecond, microsecond and nanosecond components, 10000h, both ends of int64, negatives; " +
			"integers: 0, 1, width borders 2^7..2^64, 2^53 and its neighbours, both ends; floats: 0, smallest/largest magnitudes, 17-significant-digit values, notation borders 1e-5/1e-4 and 1e20/1e21, integers beyond 2^53; " +
			"strings: empty, spaces, every YAML indicator character alone and inside a value, quotes, non-ASCII, control characters, spellings of null/bool/int/float/timestamp; bools: both) through flag -> option, hand-written file -> option, flag over file, " +
			"save -> load, save -> save -> load on one home and init -> init -> load (value given by flag to the init command's Load -> SaveAsYaml): save -> load through Load for every leaf (thorough: all six paths), all six paths through all three drivers for value_domain.all_drivers_leaves (the first leaf of each type with and without a flag); " +
			"sequences on ONE home (one evaluation = one whole sequence): for every ordered pair (A,B) of the resave configuration set and every driver save(A) save(B) load, save(A) save(B) save(A) load, " +
			"save(A) load save(B) load save(A) load, and load save(A) load; the same pairs of the flag-expressible subset through the configuration part of the `init` command (apps/*/cmd/init.go: Load -> SaveAsYaml) (init init load, init/load x3, save init load, init save load); " +
			"for every ordered pair of the genesis resave set Save Save Load, Save Save Save Load and Load Save Load Save Load on one path; every load must return what the last write was given; genesis over chain ids x heights x times x addresses, all 15 combinations of the four invalid shapes and hand-made invalid files; " +
			"distinct = distinct case descriptors, non-trivial = at least one option given by file or flag (or a genesis case)",
		Exhaustive: len(caps) == 0, Caps: caps,
		Bounds: map[string]any{
			"leaves": len(w.leaves), "file_leaves": len(fileLeaves), "flags": len(w.flags), "drivers": drivers,
			"values_per_kind_incl_default": perLeafValues, "leaf_pairs_roundtripped": pairs, "genesis_cases": len(gs),
			"resave_configurations_bytes_written_to_a_fresh_home": cfgLens, "resave_length_spread": lengthSpread(cl),
			"resave_init_configurations_bytes": initLens, "resave_init_length_spread": lengthSpread(il),
			"genesis_resave_set_bytes": genLens, "genesis_resave_length_spread": lengthSpread(gl),
			"resave_sequences_by_shape": resaveByShape, "resave_init_sequences_not_judged_because_init_failed": c.initErrors,
			"value_domain":        map[string]any{"leaves": vd.Leaves, "boundary_values_per_leaf_type": vd.ValuesPerKind, "new_cases_by_path": vd.CasesByPath, "all_drivers_leaves": vd.AllDriversLeaves},
			"leaves_without_flag": noFlag, "leaves_not_in_file_by_tag": notInFile, "flags_naming_no_option": unnamed, "cases_by_kind": c.byKnd,
		},
		Extra: map[string]any{"flag_names": flagNames, "oracle_failures_by_clause_and_tags": c.tally, "observation_loads_that_mutated_package_defaults_by_leaf": c.mutated,
			"resave_sequences_wall_seconds": resaveWall, "value_domain_wall_seconds": vdWall},
	})
}
