package c18

import (
	"fmt"
	"math"
	"sort"
	"strconv"
	"strings"
	"time"
)

// The VALUE DOMAIN of typed leaves (section (5) of TestCheck).
//
// The property quantifies over "all values of the field's type". Sections (1)-(3) take two to four ordinary values per
// type and spend their budget on presence combinations, leaf pairs and operation sequences; a step that is lossy only
// for unusual values of ONE type (a formatter that rounds, a number that passes through float64, a string the YAML
// reader types differently) is not exercised by them. This section enumerates, for every leaf TYPE found by reflection,
// a boundary value set of that type (boundaryValues) and sends every value of the set through every path by which a
// value reaches an option or the disk:
//
//	flag -> option            --flag=v alone                                  (kind flag)
//	file -> option            a hand-written file naming only the leaf        (kind load, sparse)
//	flag over file            file = next value of the set, flag = v          (kind load, sparse + flag)
//	save -> load              SaveAsYaml of defaults+{leaf=v}, then load      (kind roundtrip)
//	save -> save -> load      next value, then v, written into ONE home       (kind resave, shape save-save-load)
//	init -> init -> load      the same through the init command's Load -> SaveAsYaml, the value given by flag
//
// Oracle unchanged: what was set is what is loaded (flag > file > default), every other leaf keeps its default. Values
// are canonical texts parsed by leaf.set with strconv/time only, so expected and loaded values are compared as values
// of the leaf's type, not as spellings. Values that are not equal to themselves or to their spelling's other reading
// (NaN, negative zero) are not in the sets: the property says "equal".

// durationBoundary: the duration values in nanoseconds. A duration is an int64 count of nanoseconds; the boundaries are
// the unit borders of Duration.String (ns, µs, ms, s, m, h), values with a component below each unit, and the ends.
func durationBoundary(thorough bool) []int64 {
	const (
		us = int64(time.Microsecond)
		ms = int64(time.Millisecond)
		s  = int64(time.Second)
		m  = int64(time.Minute)
		h  = int64(time.Hour)
	)
	vs := []int64{0, 1, 999, us, us + 1, 400 * us, 750 * us, ms - 1, ms, ms + 1, ms + 500*us, 333*ms + 333*us + 333, s - 1, s, s + 1, s + ms, 59*s + 999*ms + 999*us + 999,
		m, m + 1, h + m + s + 1, 10000 * h, 10000*h + 1, math.MaxInt64,
		-1, -750 * us, -(ms + 500*us), -(s + 1), -5 * s, math.MinInt64}
	// grid: every combination of components at and below the second
	secs, millis, micros, nanos := []int64{0, 1}, []int64{0, 1, 999}, []int64{0, 1, 750, 999}, []int64{0, 1, 999}
	hours := []int64{0}
	signs := []int64{1}
	if thorough {
		hours = []int64{0, 1, 10000}
		signs = []int64{1, -1}
		secs = []int64{0, 1, 59}
		micros = []int64{0, 1, 500, 750, 999}
	}
	for _, sg := range signs {
		for _, hh := range hours {
			for _, ss := range secs {
				for _, mm := range millis {
					for _, uu := range micros {
						for _, nn := range nanos {
							vs = append(vs, sg*(hh*h+ss*s+mm*ms+uu*us+nn))
						}
					}
				}
			}
		}
	}
	if thorough {
		// every power of two and of ten with its neighbours
		for k := 0; k < 63; k++ {
			p := int64(1) << k
			vs = append(vs, p-1, p, p+1, -p)
		}
		for p := int64(1); p < math.MaxInt64/10; p *= 10 {
			vs = append(vs, p-1, p, p+1, 5*p/2)
		}
	}
	return vs
}

// stringBoundary: empty, spaces, every YAML indicator character alone and inside a value next to a space, quotes,
// non-ASCII, control characters, and words a YAML reader resolves to another type (null, bool, int, float, timestamp,
// merge key). The values of the already listed finding (1e3-like, .inf/.nan) stay in the set and keep their tags.
func stringBoundary(thorough bool) []string {
	vs := []string{"", " ", "  two  spaces  ", " lead", "trail ", "ünï ☃ 世界", "tab\tin", "multi\nline", "a,b",
		"a: b", "a #c", "a: b #c", "'", "\"", "'q\"", "\\",
		"null", "~", "true", "False", "yes", "off",
		"0", "123", "-7", "0x1f", "0o17", "0777", "1_000", "1.5", ".5", "1.5e3", "1e3", "-12E+03", ".inf", ".nan", "NaN",
		"18446744073709551616", "2001-01-01", "<<", "=", "250ms"}
	indicators := []string{":", "#", "-", "?", ",", "[", "]", "{", "}", "&", "*", "!", "|", ">", "%", "@", "`"}
	for _, c := range indicators {
		vs = append(vs, c, "x "+c+" y")
	}
	if thorough {
		for _, c := range append(indicators, "'", "\"", "\\", "~", "=", "<", ".", "_", "+", "$", "^", "(", ")", ";", "/") {
			vs = append(vs, c+"x", "x"+c, c+" x", "x "+c, "x"+c+" y", "x "+c+"y", c+c, " "+c, c+" ")
		}
		vs = append(vs, "a b", "a:b", "''", "\\n", "Null", "no", "on", "y", "+1", "0b11", "1.", "-.Inf", "Inf", "2001-01-01T00:00:00Z", "1h30m", "a\r\nb", "\x7f", "nb\u00a0sp", "e\u0301", "\U0001F600", strings.Repeat("long ", 60), strings.Repeat("x", 1000),
			"---", "...", "--- x", "%YAML 1.2", "- a", "? a", "! x", "!!str x", "&a x", "*a", "[x]", "{y}", "[x", "{y: z}", "| ", ">-", "key: value", "a: b: c",
			"TRUE", "NULL", "Yes", "NO", "On", "OFF", "n", "N", "Y", "0.0", "-0", "00", "0x", "0xZ", "1e", "e3", "1e+", "1E3", "1_0e3", "+.inf", ".INF", ".NaN",
			"9223372036854775808", "1:30", "190:20:30", "12:30:45", "2001-01-01 12:00:00", "0.1", "1e21", "1e-7")
	}
	return vs
}

func intBoundary(bits int, thorough bool) []string {
	cand := []int64{0, 1, -1, 7, 127, 128, 255, 256, 32767, 32768, 65535, 65536, math.MaxInt32, math.MaxInt32 + 1, math.MaxUint32, math.MaxUint32 + 1,
		1<<53 - 1, 1 << 53, 1<<53 + 1, 1<<62 + 1, math.MaxInt64 - 1, math.MaxInt64,
		-128, -129, math.MinInt32, math.MinInt32 - 1, -(1 << 53), -(1<<53 + 1), math.MinInt64 + 1, math.MinInt64}
	if thorough {
		for k := 0; k < 63; k++ {
			p := int64(1) << k
			cand = append(cand, p-1, p, p+1, -p-1, -p, -p+1)
		}
		for p := int64(1); p < math.MaxInt64/10; p *= 10 {
			cand = append(cand, p-1, p, p+1, -p)
		}
	}
	var vs []string
	for _, n := range cand {
		t := strconv.FormatInt(n, 10)
		if _, err := strconv.ParseInt(t, 10, bits); err == nil {
			vs = append(vs, t)
		}
	}
	return vs
}

func uintBoundary(bits int, thorough bool) []string {
	cand := []uint64{0, 1, 7, 255, 256, 65535, 65536, math.MaxInt32, math.MaxInt32 + 1, math.MaxUint32, math.MaxUint32 + 1,
		1<<53 - 1, 1 << 53, 1<<53 + 1, 1<<62 + 1, math.MaxInt64, math.MaxInt64 + 1, math.MaxInt64 + 2, math.MaxUint64 - 1, math.MaxUint64}
	if thorough {
		for k := 0; k < 64; k++ {
			p := uint64(1) << k
			cand = append(cand, p-1, p, p+1)
		}
		for p := uint64(1); p < math.MaxUint64/10; p *= 10 {
			cand = append(cand, p-1, p, p+1)
		}
	}
	var vs []string
	for _, n := range cand {
		t := strconv.FormatUint(n, 10)
		if _, err := strconv.ParseUint(t, 10, bits); err == nil {
			vs = append(vs, t)
		}
	}
	return vs
}

// floatBoundary: zero, the smallest and largest magnitudes, values that need all 17 significant digits, the borders of
// the plain / exponent notations (1e-5..1e-4, 1e20..1e21), integers above 2^53 and an integer-valued float.
func floatBoundary(bits int, thorough bool) []string {
	cand := []float64{0, 5e-324, 2.2250738585072014e-308, 1e-09, 0.00001, 0.0001, 0.1, 0.30000000000000004, 0.5, 1, 1.0000000000000002, 3, 123456789.125,
		9007199254740992, 9007199254740994, 1e15, 1e17, 1e20, 1e21, 1e22, 1.2345678901234567e+25, 1.7976931348623157e+308,
		-1, -2.25, -0.1, -5e-324, -1e21, -1.7976931348623157e+308}
	if thorough {
		for e := -30; e <= 30; e++ {
			p := math.Pow(10, float64(e))
			cand = append(cand, p, 1.2345678901234567*p, -9.999999999999999*p, math.Nextafter(p, 0), math.Nextafter(p, math.Inf(1)))
		}
		for k := -1074; k <= 1023; k += 37 {
			cand = append(cand, math.Ldexp(1, k), -math.Ldexp(1.5, k))
		}
	}
	var vs []string
	for _, f := range cand {
		if bits == 32 {
			f = float64(float32(f))
			if math.IsInf(f, 0) {
				continue
			}
		}
		vs = append(vs, strconv.FormatFloat(f, 'g', -1, bits))
	}
	return vs
}

// boundaryValues returns the boundary value set of a leaf type as canonical texts, without duplicates, in a fixed order.
func boundaryValues(kind string, bits int, thorough bool) []string {
	var vs []string
	switch kind {
	case "bool":
		vs = []string{"true", "false"} // the whole domain
	case "string":
		vs = stringBoundary(thorough)
	case "int":
		vs = intBoundary(bits, thorough)
	case "uint":
		vs = uintBoundary(bits, thorough)
	case "float":
		vs = floatBoundary(bits, thorough)
	case "duration":
		for _, n := range durationBoundary(thorough) {
			vs = append(vs, time.Duration(n).String())
		}
	}
	seen := map[string]bool{}
	out := vs[:0]
	for _, v := range vs {
		if !seen[v] {
			seen[v] = true
			out = append(out, v)
		}
	}
	return out
}

// typedValueTags: history features of a non-string value (string values: valueTags).
func typedValueTags(kind, text string) []string {
	var t []string
	switch kind {
	case "duration":
		d, err := time.ParseDuration(text)
		if err != nil {
			return nil
		}
		switch {
		case d == 0:
			t = append(t, "value:zero")
		case d < 0:
			t = append(t, "value:negative")
		}
		if d%time.Millisecond != 0 {
			t = append(t, "value:duration-with-sub-millisecond-component")
		}
		if d%time.Microsecond != 0 {
			t = append(t, "value:duration-with-sub-microsecond-component")
		}
		if d >= 10000*time.Hour || d <= -10000*time.Hour {
			t = append(t, "value:duration-beyond-10000h")
		}
	case "int":
		n, err := strconv.ParseInt(text, 10, 64)
		if err != nil {
			return nil
		}
		if n < 0 {
			t = append(t, "value:negative")
		}
		if n >= 1<<53 || n <= -(1<<53) {
			t = append(t, "value:integer-beyond-2^53")
		}
	case "uint":
		n, err := strconv.ParseUint(text, 10, 64)
		if err != nil {
			return nil
		}
		if n >= 1<<53 {
			t = append(t, "value:integer-beyond-2^53")
		}
		if n > math.MaxInt64 {
			t = append(t, "value:integer-beyond-int64")
		}
	case "float":
		f, err := strconv.ParseFloat(text, 64)
		if err != nil {
			return nil
		}
		if f < 0 {
			t = append(t, "value:negative")
		}
		if strings.ContainsAny(text, "e") {
			t = append(t, "value:float-in-exponent-notation")
		}
		if digits := len(strings.NewReplacer("-", "", ".", "").Replace(strings.SplitN(text, "e", 2)[0])); digits >= 16 {
			t = append(t, "value:float-with-16-or-more-significant-digits")
		}
		if f == math.Trunc(f) {
			t = append(t, "value:float-that-is-an-integer")
		}
	}
	return t
}

type valueDomainStats struct {
	ValuesPerKind    map[string]int   // measured size of the boundary set per leaf type that occurs in the configuration
	CasesByPath      map[string]int64 // new evaluations per path (cases already run by an earlier section are not counted twice)
	AllDriversLeaves []string         // leaves whose values went through all six paths and all three drivers (the others, through Load only: save -> load at quick, all six paths at thorough)
	Leaves           int
}

// valueDomain: every file leaf x every boundary value of its type; the first leaf of each (type, has a flag) class goes
// through all six paths and all three drivers; the other leaves through Load only: save -> load at the quick tier, all
// six paths at thorough.
func (c *checker) valueDomain(drivers []string, capped func() bool) valueDomainStats {
	w := c.w
	st := valueDomainStats{ValuesPerKind: map[string]int{}, CasesByPath: map[string]int64{}}
	rep := map[string]bool{}
	run := func(path string, s spec) {
		before := c.evals
		c.run(s)
		st.CasesByPath[path] += c.evals - before
		if c.evals != before && c.evals%499 == 0 {
			c.r.Sample(s)
		}
	}
	for li, l := range w.leaves {
		if !w.isFileLeaf(l) {
			continue
		}
		st.Leaves++
		flag, hasFlag := w.flagOf[li]
		vals := boundaryValues(l.Kind, l.Bits, w.thorough)
		st.ValuesPerKind[l.Kind] = len(vals)
		ds, full := drivers[:1], w.thorough
		if class := fmt.Sprintf("%s/flag=%v", l.Kind, hasFlag); !rep[class] {
			rep[class] = true
			ds, full = drivers, true
			st.AllDriversLeaves = append(st.AllDriversLeaves, l.Name)
		}
		named := func(v string) namedCfg { return namedCfg{Name: l.Name + "=" + v, File: map[string]string{l.Name: v}} }
		for _, d := range ds {
			for i, v := range vals {
				if capped() {
					return st
				}
				u := vals[(i+1)%len(vals)]
				if hasFlag && full {
					run("flag->option", spec{Kind: "flag", Driver: d, Flags: map[string]string{flag: v}})
				}
				if full {
					run("file->option", spec{Kind: "load", Driver: d, FileMode: "sparse", File: map[string]string{l.Name: v}})
				}
				run("save->load", spec{Kind: "roundtrip", Driver: d, FileMode: "full", File: map[string]string{l.Name: v}})
				if !full {
					continue
				}
				if hasFlag && u != v {
					run("flag-over-file", spec{Kind: "load", Driver: d, FileMode: "sparse", File: map[string]string{l.Name: u}, Flags: map[string]string{flag: v}})
				}
				if l.Kind == "string" && (writerMistypes(u) != "" || writerMistypes(v) != "") {
					continue // the listed findings have their own clause and cases (save->load above); sequences stay armed on everything else
				}
				a, b := named(u), named(v)
				run("save->save->load", spec{Kind: "resave", Driver: d, Shape: "save-save-load",
					Seq: []seqOp{{Op: "save", Cfg: a.Name, File: a.File}, {Op: "save", Cfg: b.Name, File: b.File}, {Op: "load"}}})
				if hasFlag && l.Name != "Node.Aggregator" {
					run("init->init->load", spec{Kind: "resave", Driver: d, Shape: "init-init-load",
						Seq: []seqOp{{Op: "init", Cfg: a.Name, File: a.File}, {Op: "init", Cfg: b.Name, File: b.File}, {Op: "load"}}})
				}
			}
		}
	}
	sort.Strings(st.AllDriversLeaves)
	return st
}

// writerMistypes: string values that SaveAsYaml (goccy/go-yaml) writes in a form viper's YAML reader does not read back
// as the same string; returns the trigger tag of the listed finding, "" for every other value.
func writerMistypes(v string) string {
	switch {
	case yamlFloatLike(v):
		return "string-value-that-yaml-reads-as-float-written-unquoted"
	case v == "?" || strings.HasPrefix(v, "? "):
		return "string-value-starting-with-yaml-key-indicator-written-unquoted"
	}
	for _, c := range v {
		if c == 0x7f || c == '\r' || (c < 0x20 && c != '\t' && c != '\n') {
			return "string-value-with-control-character-written-raw"
		}
	}
	return ""
}
