package c11

import (
	"bytes"
	"context"
	"crypto/sha256"
	"fmt"
	"os"
	"regexp"
	"runtime/debug"
	"sort"
	"strings"
	"testing"
	"testing/synctest"
	"time"

	"google.golang.org/protobuf/proto"

	"github.com/evstack/ev-node/block"
	coreseq "github.com/evstack/ev-node/core/sequencer"
	"github.com/evstack/ev-node/sequencers/single"
	pb "github.com/evstack/ev-node/types/pb/evnode/v1"

	"verif/harness/explore"
	"verif/harness/vf"
	"verif/harness/world"
)

// C11 — no transaction taken from the mempool is lost on its way into the chain.
//
// SeqWorld: ONE logging datastore (world.KV) serves the node store, the reaper's seen-set and the single
// sequencer's batch queue, as in apps/testapp (cmd/run.go hands the same datastore to single.NewSequencer and to
// the node; node/full.go gives the reaper the very view the node store is built on — there the "/0" prefix view,
// here the identity view world.StartNode builds the store on — and the sequencer namespaces its records itself
// under "/batches"). So every durable write of reaping, of taking a batch and of block production lands in one
// write log, and "crash before write #k" is a crash of the whole process at that instant.
//
// Real code: block.Reaper (SubmitTxs called directly, one call = one reap), single.Sequencer (queue size 1 and 2,
// so that refusals happen), block.Manager (one production step = publishBlock). Doubles: the contract-conforming
// mempool/executor (GetTxs does not drain, ExecuteTxs removes), which is external and survives crashes.
// Every execution runs in a synctest bubble: the sequencer stamps batches with time.Now(), which is virtual and
// does not advance (the execution is purely sequential: no loops run, nothing sleeps).
//
// A third deviation class (class "ioerr") makes any single durable write fail without a crash (world.KV.FailWrite).
// Two bounded deviation classes are explored on top of the action histories: crashes at durable-write boundaries
// (class "crash") and error answers of the execution layer to the calls of a production step (class "exec": the
// step fails after the batch has been taken; what follows — retry, restart, more reaping — is any continuation of
// the alphabet). The oracle is the same for both.
//
// One configuration dimension is explored besides the queue size: node.max_pending_headers_and_data (0, 1, 2). With
// a limit the production step declines while the header or the data backlog (chain height minus the DA-submission
// watermark) is at the limit; the environment dimension "what the DA layer has acknowledged" is two more actions
// (see maxPendings). A declined step must leave every transaction where a later step finds it: the oracle is unchanged.

const (
	actInjectA = iota
	actInjectB
	actInjectAAgain
	actReap
	actProduce
	actRestart
	actSubmitH // one iteration of the header submission loop against a DA layer that accepts (only with a pending limit)
	actSubmitD // one iteration of the data submission loop against a DA layer that accepts (only with a pending limit)
	nActs
)

var actNames = [nActs]string{"inject(a)", "inject(b)", "inject(a-again)", "reap", "produce", "restart", "da-acks-headers", "da-acks-data"}

var (
	txA = []byte("tx-a")
	txB = []byte("tx-b")
)

const (
	openLen    = 4 // the first decision point enumerates every enabled opening of up to this many actions (shard balance)
	drainMax   = 10
	knownTag   = "crash-between-batch-taken-and-first-block-save"
	refusalTag = "queue-full-refusal"
	// feature tags of the I/O-error class (computed from the write log position of the failed write, never from the outcome)
	ioSaveTag = "ioerr-on-first-block-save-after-batch-taken"
	ioDelTag  = "ioerr-on-queue-delete"
	ioSeenTag = "ioerr-on-seen-mark"
	ioFailTag = "handoff-failed-on-io-error"
)

// Known finding (classified NARROWLY, from the write-log position of the crash, never from the outcome): a crash
// inside a production step after the sequencer's queue record was deleted (del(/batches/...), possibly followed by
// the batch-cursor put /m/l) and before the first block save of that step. Only the transactions of THAT batch are
// explained by it (tag knownTag on a separate violation); any other missing transaction of the same history is
// reported without the tag, and every other clause stays armed.
var queueSizes = []int{1, 2}

// Configuration dimension node.max_pending_headers_and_data (0 = no limit, the default). With a limit the production
// step reads the two DA-submission watermarks (last submitted header height / data height); what the DA layer has
// acknowledged is an environment dimension: the two actions da-acks-headers / da-acks-data run the body of one
// iteration of HeaderSubmissionLoop / DataSubmissionLoop (same functions, through the hooks) against a DA double
// that accepts everything it is sent. A DA layer that accepts nothing / headers only / data only for a while is the
// absence of the respective action in that stretch of the history; since an acknowledgement can be placed between
// any two production steps, every pair of watermark positions (0..height each) is reachable within the depth.
// Without a limit the watermarks are never read by reaping or production, so the two actions are left out there.
var maxPendings = []uint64{0, 1, 2}

// the bubble's clock starts at 2000-01-01T00:00:00Z and never advances; genesis lies one hour before it
var genesisTime = time.Date(1999, 12, 31, 23, 0, 0, 0, time.UTC)

// ---------------------------------------------------------------------------------------------------------------
// enabledness (shared by the static enumeration of openings and the real run)

type flags struct {
	aInjected, bInjected bool
	aPending             bool // a is in the mempool right now
	dirty                bool // a reap or a production step ran since the last (re)boot
	limit                bool // a pending limit is configured (max_pending_headers_and_data > 0)
	// headers / data are pending DA submission (chain height above the watermark): exact in the real run (read from
	// the manager before every decision); in the static enumeration of openings over-approximated by "a production
	// step has been tried" (an opening whose acknowledgement finds nothing pending is the identity of a shorter
	// opening and is cut in the real run, counted as `pruned`)
	hPend, dPend bool
}

// enabled lists the actions that make sense in the current state:
//   - the mempool holds at most one entry per byte string (real mempools de-duplicate by hash), so a is injected
//     for the first time when it never was, and AGAIN (identical bytes) only once execution has removed it;
//   - a restart directly after a (re)boot or after injections only is the identity (injections only touch the
//     external mempool) and is skipped.
func enabled(f flags) []int {
	var out []int
	if !f.aInjected {
		out = append(out, actInjectA)
	}
	if !f.bInjected {
		out = append(out, actInjectB)
	}
	if f.aInjected && !f.aPending {
		out = append(out, actInjectAAgain)
	}
	out = append(out, actReap, actProduce)
	if f.dirty {
		out = append(out, actRestart)
	}
	if f.limit && f.hPend {
		out = append(out, actSubmitH)
	}
	if f.limit && f.dPend {
		out = append(out, actSubmitD)
	}
	return out
}

func apply(f flags, a int) flags {
	switch a {
	case actInjectA, actInjectAAgain:
		f.aInjected, f.aPending = true, true
	case actInjectB:
		f.bInjected = true
	case actReap:
		f.dirty = true
	case actProduce:
		f.dirty = true
		f.hPend, f.dPend = true, true // static over-approximation; the real run overwrites both before every decision
	case actSubmitH, actSubmitD:
		f.dirty = true // the watermark is also held in memory: a restart afterwards re-reads it from the store
	case actRestart:
		f.dirty = false
	}
	return f
}

type opening struct {
	QSize      int
	MaxPending uint64
	Acts       []int
}

// openings enumerates, per queue size, every enabled action sequence of length 0..openLen; within the first
// openLen actions tx a cannot have been executed yet (inject, reap, a production step for the genesis block and one
// more for the batch are needed: a can be absent from the mempool again after the 4th action at the earliest), so the
// static flags are exact for injections, reaping, production and restarts; the real run cross-checks this. The two
// acknowledgement actions are enabled statically once a production step has been tried (see flags.hPend).
// Sorted by length so that the long (expensive) ones are dealt out evenly over process shards.
func openingsFor(mps []uint64) []opening {
	var out []opening
	var rec func(q int, mp uint64, f flags, acts []int)
	rec = func(q int, mp uint64, f flags, acts []int) {
		out = append(out, opening{q, mp, append([]int(nil), acts...)})
		if len(acts) == openLen {
			return
		}
		for _, a := range enabled(f) {
			rec(q, mp, apply(f, a), append(acts, a))
		}
	}
	for _, mp := range mps {
		for _, q := range queueSizes {
			rec(q, mp, flags{limit: mp > 0}, nil)
		}
	}
	sort.SliceStable(out, func(i, j int) bool { return len(out[i].Acts) < len(out[j].Acts) })
	return out
}

// ---------------------------------------------------------------------------------------------------------------
// recording wrapper around the real sequencer (only records; survives reboots)

type handoff struct {
	Txs     [][]byte
	Refused bool
	IOErr   bool // a durable write failed during the hand-off (deviation class "ioerr")
	At      int  // index of the action during which it happened
}

type record struct {
	handoffs []handoff
	released [][][]byte // non-empty answers of GetNextBatch, in order
}

type recSeq struct {
	inner coreseq.Sequencer
	rec   *record
	at    *int
	ioN   *int // number of injected write failures so far
}

func cloneTxs(txs [][]byte) [][]byte {
	out := make([][]byte, len(txs))
	for i, tx := range txs {
		out[i] = append([]byte(nil), tx...)
	}
	return out
}

func (s *recSeq) SubmitBatchTxs(ctx context.Context, req coreseq.SubmitBatchTxsRequest) (*coreseq.SubmitBatchTxsResponse, error) {
	var txs [][]byte
	if req.Batch != nil {
		txs = cloneTxs(req.Batch.Transactions)
	}
	io0 := *s.ioN
	resp, err := s.inner.SubmitBatchTxs(ctx, req) // a crash inside ends this goroutine: nothing is recorded
	s.rec.handoffs = append(s.rec.handoffs, handoff{Txs: txs, Refused: err != nil, IOErr: *s.ioN > io0, At: *s.at})
	return resp, err
}

func (s *recSeq) GetNextBatch(ctx context.Context, req coreseq.GetNextBatchRequest) (*coreseq.GetNextBatchResponse, error) {
	resp, err := s.inner.GetNextBatch(ctx, req)
	if err == nil && resp != nil && resp.Batch != nil && len(resp.Batch.Transactions) > 0 {
		s.rec.released = append(s.rec.released, cloneTxs(resp.Batch.Transactions))
	}
	return resp, err
}

func (s *recSeq) VerifyBatch(ctx context.Context, req coreseq.VerifyBatchRequest) (*coreseq.VerifyBatchResponse, error) {
	return s.inner.VerifyBatch(ctx, req)
}

// ---------------------------------------------------------------------------------------------------------------
// one execution

type viol struct {
	clause string
	tags   []string
	msg    string
}

type outcome struct {
	pruned bool // the opening contains an acknowledgement that finds nothing pending (identity; covered by a shorter opening)
	mp     uint64
	declH  int // explored production steps that ran with only the header backlog at the limit
	declD  int // ... only the data backlog at the limit
	declHD int // ... both backlogs at the limit
	declW  int // ... of all these: with a non-empty batch waiting in the sequencer's queue
	resume int // explored production steps below the limit after an earlier one at the limit
	acks   int // acknowledgement actions executed
	viols  []viol
	eng    string
	trace  []string
	sig    string
	qsize  int
	nActs  int
	crashs int
	refuse int
	execEr int // executor error answers injected
	ioErr  int // durable writes made to fail (transient I/O errors)
	ioBoot int // ... of these: during a (re)boot, after which the start-up was repeated
	ioRef  int // hand-offs that failed on a write failure
	finals int // SetFinal calls seen in the executor's call log
}

var hexKey = regexp.MustCompile(`^/[0-9a-f]{64}$`)

// kindOf reduces a write to the kind of record written.
func kindOf(w world.Write) string {
	if len(w.Ops) == 0 {
		return "empty-batch"
	}
	k := w.Ops[0].Key
	switch {
	case w.Kind == "batch":
		return "block-save"
	case strings.HasPrefix(k, "/batches/") && w.Kind == "del":
		return "queue-delete"
	case strings.HasPrefix(k, "/batches/"):
		return "queue-put"
	case k == "/m/l":
		return "batch-cursor"
	case k == "/m/last-submitted-header-height":
		return "header-watermark"
	case k == "/m/last-submitted-data-height":
		return "data-watermark"
	case k == "/t":
		return "chain-height"
	case k == "/s":
		return "state"
	case hexKey.MatchString(k):
		return "seen-mark"
	}
	return "other(" + k + ")"
}

func names(txs [][]byte) string {
	s := make([]string, len(txs))
	for i, tx := range txs {
		s[i] = string(tx)
	}
	return "[" + strings.Join(s, ",") + "]"
}

func body(t *testing.T, c *explore.Ctx, depth int, openings []opening) (out outcome) {
	synctest.Test(t, func(t *testing.T) { out = bubble(c, depth, openings) })
	return
}

func bubble(c *explore.Ctx, depth int, openings []opening) (out outcome) {
	ctx := context.Background()
	op := openings[c.Choose("open", len(openings))]
	out.qsize, out.mp = op.QSize, op.MaxPending
	env := world.NewEnv()
	p := world.Params{ChainID: "c11", GenesisTime: genesisTime, MaxPending: op.MaxPending}
	rec := &record{}

	var (
		n        *world.Node
		reaper   *block.Reaper
		armed    = true
		at       = -1                // index of the current action (-1 = first boot)
		curKind  = "boot"            // what the process is doing: boot | reap | produce
		done     []world.Write       // durable writes completed by the current activity of the current process
		lastDel  [][]byte            // transactions of the queue record most recently deleted in `done`
		crashPos []string            // positions of the injected crashes
		doomed   = map[string]bool{} // transactions of batches taken (queue record deleted) whose first block save did not happen before a crash
		sawKnown bool
		execPos  []string              // positions of the injected executor errors (and what the next action was)
		execOpen = -1                  // index into execPos of an executor error whose following action is not known yet
		ioPos    []string              // positions of the injected write failures
		ioN      int                   // their number
		ioOpen   = -1                  // index into ioPos of a write failure whose following action is not known yet
		ioBoot   bool                  // a write failed during the running boot attempt
		ioLost   = map[string]bool{}   // transactions of a batch taken (queue record deleted) whose FIRST block save failed
		ioDup    = map[string]string{} // transactions whose queue-record delete / seen-mark write failed -> feature tag
		limitPos []string              // pending-limit features of the explored production steps (from watermarks + configuration, never from the outcome)
		declined bool                  // an explored production step ran with a backlog at the limit
	)
	ev := func(f string, a ...any) { out.trace = append(out.trace, fmt.Sprintf(f, a...)) }

	// Executor error answers (deviation class "exec"): every call the node makes into the execution layer during an
	// explored action that can be refused without breaking the executor contract — ExecuteTxs and SetFinal — may
	// return an error instead of doing its work (the failed call has no effect on the executor: nothing executed,
	// the mempool keeps its transactions). The position is classified from the write log of the running production
	// step alone: which block the step was about to execute.
	execFault := func(call string, h uint64) bool {
		if !armed || c.Choose("exec", 2) == 0 {
			return false
		}
		what := "pending-block" // the step found the block of this height in the store (saved by an earlier step, or the initial block NewManager stores)
		for _, d := range done {
			switch kindOf(d) {
			case "queue-delete":
				what = "block-of-newly-taken-batch"
			case "batch-cursor":
				if what == "pending-block" {
					what = "new-empty-block"
				}
			}
		}
		pos := fmt.Sprintf("exec-error:%s:in[%s]on[%s]", call, curKind, what)
		execPos = append(execPos, pos)
		execOpen = len(execPos) - 1
		out.execEr++
		ev("EXEC-ERROR %s(height %d) answers with an error (%s)", call, h, pos)
		return true
	}
	env.Exec.ExecPolicy = func(h uint64) bool { return execFault("ExecuteTxs", h) }
	env.Exec.FinalPolicy = func(h uint64) bool { return execFault("SetFinal", h) }

	onWrite := func(idx int, w world.Write) bool {
		if armed && c.Choose("crash", 2) == 1 {
			last := "none"
			if len(done) > 0 {
				last = kindOf(done[len(done)-1])
			}
			pos := fmt.Sprintf("crash:in[%s]after[%s]before[%s]", curKind, last, kindOf(w))
			crashPos = append(crashPos, pos)
			ev("CRASH before write #%d %s (%s)", idx, w, pos)
			// position predicate of the known finding, from the write log alone: in this production step the queue
			// record has been deleted durably and no block save has completed since
			if curKind == "produce" {
				taken := false
				for _, d := range done {
					switch kindOf(d) {
					case "queue-delete":
						taken = true
					case "block-save":
						taken = false
					}
				}
				if taken {
					sawKnown = true
					for _, tx := range lastDel {
						doomed[string(tx)] = true
					}
				}
			}
			out.crashs++
			return true
		}
		if kindOf(w) == "queue-delete" {
			lastDel = nil
			if v, ok := n.KV.RawGet(w.Ops[0].Key); ok {
				var b pb.Batch
				if err := proto.Unmarshal(v, &b); err == nil {
					lastDel = cloneTxs(b.Txs)
				}
			}
		}
		done = append(done, w)
		return false
	}

	// Transient write failures (deviation class "ioerr"): ANY durable write of the one datastore — node store, seen-set,
	// sequencer queue — during an explored action or a reboot may fail once: the datastore returns an error, nothing is
	// written, the process goes on (world.KV.FailWrite, consulted after the crash hook for the same write).
	failWrite := func(idx int, w world.Write) bool {
		if !armed || c.Choose("ioerr", 2) == 0 {
			return false
		}
		done = done[:len(done)-1] // onWrite has just logged it as completed: it is not
		last := "none"
		if len(done) > 0 {
			last = kindOf(done[len(done)-1])
		}
		k := kindOf(w)
		pos := fmt.Sprintf("ioerr:in[%s]after[%s]on[%s]", curKind, last, k)
		ioPos = append(ioPos, pos)
		ioOpen = len(ioPos) - 1
		ioN++
		out.ioErr++
		if curKind == "boot" {
			ioBoot = true
			out.ioBoot++
		}
		ev("IO-ERROR write #%d %s fails, nothing written (%s)", idx, w, pos)
		switch k {
		case "block-save":
			// position predicate, from the write log alone: in this production step the queue record has been deleted
			// durably and no block save has completed since
			taken := false
			for _, d := range done {
				switch kindOf(d) {
				case "queue-delete":
					taken = true
				case "block-save":
					taken = false
				}
			}
			if curKind == "produce" && taken {
				ioPos = append(ioPos, "note:a-write-failure-at-the-first-block-save-of-a-taken-batch-occurred")
				for _, tx := range lastDel {
					ioLost[string(tx)] = true
				}
			}
		case "queue-delete":
			for _, tx := range lastDel { // onWrite decoded the record this delete addresses
				ioDup[string(tx)] = ioDelTag
			}
			lastDel = nil
		case "seen-mark":
			for _, tx := range [][]byte{txA, txB} {
				if w.Ops[0].Key == "/"+fmt.Sprintf("%x", sha256.Sum256(tx)) {
					ioDup[string(tx)] = ioSeenTag
				}
			}
		}
		return true
	}

	// boot builds all three components on the image: real sequencer (loads its queue), real manager, real reaper.
	boot := func(img map[string][]byte) bool {
		for {
			curKind, done, ioBoot = "boot", nil, false
			var seqErr error
			var cur *world.Node
			var curSeq *recSeq
			nn, err := world.StartNode(p, env, img, world.NodeOpts{Aggregator: true, OnWrite: onWrite, SeqImpl: func(nd *world.Node) any {
				cur = nd
				n = nd // onWrite reads the image of the process that is writing
				nd.KV.FailWrite = failWrite
				s, err := single.NewSequencerWithQueueSize(ctx, world.Logger, nd.KV, &world.DAClient{DA: env.DA, Fate: nd.Fate}, []byte(p.ChainID), time.Second, nil, true, op.QSize)
				if err != nil {
					seqErr = err
					curSeq = &recSeq{inner: &world.SeqClient{Seq: env.Seq, Fate: nd.Fate}, rec: rec, at: &at, ioN: &ioN}
					return curSeq
				}
				curSeq = &recSeq{inner: s, rec: rec, at: &at, ioN: &ioN}
				return curSeq
			}})
			if (seqErr != nil || (err != nil && err != world.ErrCrashedDuringStart)) && ioBoot {
				// a start-up that fails on an I/O error is a legitimate answer; the operator starts the node again
				e := err
				if seqErr != nil {
					e = seqErr
				}
				ev("  start-up fails: %v; the node is started again", e)
				img = cur.KV.Image()
				continue
			}
			if seqErr != nil {
				out.viols = append(out.viols, viol{clause: "startup", msg: "the sequencer cannot start on the persisted image: " + seqErr.Error()})
				return false
			}
			if err == world.ErrCrashedDuringStart {
				img = cur.KV.Image()
				continue
			}
			if err != nil {
				out.viols = append(out.viols, viol{clause: "startup", msg: "the node cannot start on the persisted image: " + err.Error()})
				return false
			}
			n = nn
			reaper = block.NewReaper(ctx, &world.ExecClient{Exec: env.Exec, Fate: n.Fate}, curSeq, p.ChainID, time.Second, world.Logger, n.KV)
			reaper.SetManager(n.M)
			return true
		}
	}

	if !boot(nil) {
		return
	}
	pendingA := func() bool {
		for _, m := range env.Exec.Mempool {
			if bytes.Equal(m, txA) {
				return true
			}
		}
		return false
	}
	fl := flags{limit: op.MaxPending > 0}
	restarts, reinjected := 0, false
	// pend reads the two backlogs (chain height minus watermark) of the running process
	pend := func() (uint64, uint64) { return n.M.VerifNumPendingHeaders(), n.M.VerifNumPendingData() }
	refresh := func() {
		fl.aPending = pendingA()
		h, d := pend()
		fl.hPend, fl.dPend = h > 0, d > 0
	}
	// one iteration of the header / data submission loop (block/submitter.go: the statements between two ticks, through
	// the hooks) against a DA layer that accepts what it is sent; false = the process crashed
	submitH := func() bool {
		curKind, done = "da-acks-headers", nil
		return world.Go(func() {
			if n.M.VerifNumPendingHeaders() == 0 {
				return
			}
			hs, err := n.M.VerifPendingHeaders(ctx)
			if err != nil || len(hs) == 0 {
				return
			}
			_ = n.M.VerifSubmitHeaders(ctx, hs)
		})
	}
	submitD := func() bool {
		curKind, done = "da-acks-data", nil
		return world.Go(func() {
			if n.M.VerifNumPendingData() == 0 {
				return
			}
			ds, err := n.M.VerifCreateSignedData(ctx)
			if err != nil || len(ds) == 0 {
				return
			}
			_ = n.M.VerifSubmitData(ctx, ds)
		})
	}
	// limitFeature classifies an explored production step from the configuration and the watermarks as they are when
	// the step starts: which backlog is at the limit, and whether a batch is waiting in the sequencer's queue.
	limitFeature := func() {
		if op.MaxPending == 0 {
			return
		}
		h, d := pend()
		hAt, dAt := h >= op.MaxPending, d >= op.MaxPending
		if !hAt && !dAt {
			if declined {
				out.resume++
				limitPos = append(limitPos, "limit:produce-below-limit-after-decline")
			}
			return
		}
		declined = true
		which := "headers+data"
		switch {
		case hAt && !dAt:
			which = "headers"
			out.declH++
		case dAt && !hAt:
			which = "data"
			out.declD++
		default:
			out.declHD++
		}
		f := "limit:produce-with-backlog-at-limit[" + which + "]"
		if len(n.KV.Keys("/batches/")) > 0 {
			out.declW++
			f += "+batch-waiting"
		}
		limitPos = append(limitPos, f)
	}
	// one reap / one production step; false = the process crashed (and was rebooted on the exact image)
	reap := func() bool {
		curKind, done = "reap", nil
		if world.Go(func() { reaper.SubmitTxs() }) {
			return true
		}
		return false
	}
	produce := func() (error, bool) {
		curKind, done = "produce", nil
		return n.Produce(ctx)
	}
	do := func(a int) bool {
		at++
		out.nActs++
		ev("%s", actNames[a])
		if execOpen >= 0 { // what the node / its operator did right after the executor error
			execPos = append(execPos, fmt.Sprintf("exec-error-then[%s]", strings.SplitN(actNames[a], "(", 2)[0]))
			execOpen = -1
		}
		if ioOpen >= 0 {
			ioPos = append(ioPos, fmt.Sprintf("ioerr-then[%s]", strings.SplitN(actNames[a], "(", 2)[0]))
			ioOpen = -1
		}
		fl = apply(fl, a)
		crashed := false
		switch a {
		case actInjectA, actInjectAAgain:
			if a == actInjectAAgain {
				reinjected = true
			}
			env.Exec.Inject(txA)
		case actInjectB:
			env.Exec.Inject(txB)
		case actReap:
			crashed = !reap()
		case actSubmitH:
			out.acks++
			crashed = !submitH()
		case actSubmitD:
			out.acks++
			crashed = !submitD()
		case actProduce:
			limitFeature()
			err, ok := produce()
			crashed = !ok
			if ok && err != nil {
				ev("  production step error: %v", err)
			}
		case actRestart:
			restarts++
			return boot(n.KV.Image())
		}
		if crashed { // (a restart right after this reboot is redundant but stays enabled: the static opening flags stay exact)
			return boot(n.KV.Image())
		}
		return true
	}

	// explored actions: the opening, then free choices up to the depth bound (choice 0 = stop)
	for i, a := range op.Acts {
		refresh()
		ok := false
		for _, e := range enabled(fl) {
			ok = ok || e == a
		}
		if !ok && (a == actSubmitH || a == actSubmitD) {
			out.pruned = true
			return
		}
		if !ok {
			out.eng = fmt.Sprintf("opening %v: action %d (%s) is not enabled in the real run", op.Acts, i, actNames[a])
			return
		}
		if !do(a) {
			return
		}
	}
	if len(op.Acts) == openLen {
		for out.nActs < depth {
			refresh()
			en := enabled(fl)
			k := c.Choose("act", 1+len(en))
			if k == 0 {
				break
			}
			if !do(en[k-1]) {
				return
			}
		}
	}

	// well-formed drain: (reap, produce) rounds without crashes and without executor errors until a round in which
	// nothing is handed off, the block is empty and the queue holds no record
	armed = false
	if execOpen >= 0 {
		execPos = append(execPos, "exec-error-then[drain]")
		execOpen = -1
	}
	if ioOpen >= 0 {
		ioPos = append(ioPos, "ioerr-then[drain]")
		ioOpen = -1
	}
	quiescent := false
	drainRestarts := 0
	rounds := 0
	for rounds < drainMax && !quiescent {
		rounds++
		at++
		h0, r0, height0 := len(rec.handoffs), len(rec.released), n.Height()
		if !reap() {
			out.eng = "crash during the drain"
			return
		}
		if op.MaxPending > 0 && !(submitH() && submitD()) { // back-pressure ends: the DA layer acknowledges everything
			out.eng = "crash during the drain"
			return
		}
		perr, ok := produce()
		if !ok {
			out.eng = "crash during the drain"
			return
		}
		if perr != nil {
			// an error returned by the production step ends the aggregation loop (block/aggregation.go returns it, AggregationLoop
			// sends it to errCh, node/full.go shuts the node down): the node is started again on its image
			ev("drain: production step error: %v; the node stops and is started again", perr)
			drainRestarts++
			if !boot(n.KV.Image()) {
				return
			}
		}
		quiescent = len(rec.handoffs) == h0 && len(rec.released) == r0 && n.Height() > height0 && len(n.KV.Keys("/batches/")) == 0
	}

	// ------------------------------------------------------------------------------------------------ oracle
	var tags []string
	tags = append(tags, crashPos...)
	tags = append(tags, execPos...)
	tags = append(tags, ioPos...)
	if op.MaxPending > 0 {
		tags = append(tags, fmt.Sprintf("max-pending=%d", op.MaxPending))
		seenL := map[string]bool{}
		for _, l := range limitPos {
			if !seenL[l] {
				seenL[l] = true
				tags = append(tags, l)
			}
		}
	}
	if sawKnown {
		tags = append(tags, "note:a-crash-at-the-known-position-occurred")
	}
	ioRefused := 0
	for _, h := range rec.handoffs {
		if h.Refused && h.IOErr {
			ioRefused++
		} else if h.Refused {
			out.refuse++
		}
	}
	if out.refuse > 0 {
		tags = append(tags, refusalTag)
	}
	out.ioRef = ioRefused
	if ioRefused > 0 {
		tags = append(tags, ioFailTag)
	}
	if restarts > 0 {
		tags = append(tags, "clean-restart")
	}
	if reinjected {
		tags = append(tags, "same-bytes-injected-again")
	}
	if !quiescent {
		tags = append(tags, "drain-not-quiescent")
	}
	if drainRestarts > 0 {
		tags = append(tags, "node-stopped-on-production-error-in-drain")
	}
	withTags := func(extra ...string) []string { return append(append([]string(nil), extra...), tags...) }
	add := func(clause, msg string, extra ...string) {
		out.viols = append(out.viols, viol{clause: clause, tags: withTags(extra...), msg: msg})
	}

	_, blocks, f := world.CheckChain(n.OracleStore(), world.ChainSpec{ChainID: p.ChainID, Initial: 1, Proposer: n.Signer, CheckBatches: false})
	if f != nil {
		add("chain:"+f.Clause, f.Msg)
		if blocks == nil {
			return
		}
	}
	committed := map[string]int{}
	var chainBatches [][][]byte
	var chainDesc []string
	for _, b := range blocks {
		var txs [][]byte
		for _, tx := range b.D.Txs {
			txs = append(txs, []byte(tx))
			committed[string(tx)]++
		}
		if len(txs) > 0 {
			chainBatches = append(chainBatches, txs)
		}
		chainDesc = append(chainDesc, names(txs))
	}
	chainStr := strings.Join(chainDesc, " ")

	// what the reaper obtained from GetTxs, and how often the mempool offered each byte string anew (first offer, or
	// first offer after an execution removed it)
	var taken []string
	offers := map[string]int{}
	open := map[string]bool{}
	for _, call := range env.Exec.Log() {
		switch call.Kind {
		case "final":
			out.finals++
		case "gettxs":
			for _, tx := range call.Txs {
				k := string(tx)
				if _, ok := offers[k]; !ok {
					taken = append(taken, k)
				}
				if !open[k] {
					open[k] = true
					offers[k]++
				}
			}
		case "exec":
			if !call.Err {
				for _, tx := range call.Txs {
					open[string(tx)] = false
				}
			}
		}
	}

	cfgStr := fmt.Sprintf("queue size %d", op.QSize)
	if op.MaxPending > 0 {
		cfgStr += fmt.Sprintf(", max_pending_headers_and_data %d", op.MaxPending)
	}
	// clause taken-tx-committed
	var lostKnown, lostIO, lostOther []string
	for _, k := range taken {
		if committed[k] == 0 {
			if doomed[k] {
				lostKnown = append(lostKnown, k)
			} else if ioLost[k] {
				lostIO = append(lostIO, k)
			} else {
				lostOther = append(lostOther, k)
			}
		}
	}
	if len(lostKnown) > 0 {
		add("taken-tx-committed", fmt.Sprintf("%s: the reaper obtained %v from GetTxs, but after %d well-formed reap+produce rounds the chain does not contain them; their batch had been removed from the sequencer's persistent queue and the process crashed before the block was first saved. chain: %s", cfgStr, lostKnown, rounds, chainStr), knownTag)
	}
	if len(lostIO) > 0 {
		add("taken-tx-committed", fmt.Sprintf("%s: the reaper obtained %v from GetTxs, but after %d well-formed reap+produce rounds the chain does not contain them; their batch had been removed from the sequencer's persistent queue, then the first save of the block built from it failed with a transient I/O error (no crash) and the production step gave up: nothing holds the batch any more. chain: %s", cfgStr, lostIO, rounds, chainStr), ioSaveTag)
	}
	if len(lostOther) > 0 {
		add("taken-tx-committed", fmt.Sprintf("%s: the reaper obtained %v from GetTxs, but after %d well-formed reap+produce rounds the chain does not contain them. chain: %s", cfgStr, lostOther, rounds, chainStr))
	}

	// clause release-order: the non-empty blocks are, in order, batches the sequencer released (a subsequence)
	j := 0
	for _, cb := range chainBatches {
		found := false
		for j < len(rec.released) {
			if world.TxsEqual(rec.released[j], cb) {
				found = true
				j++
				break
			}
			j++
		}
		if !found {
			var rel []string
			for _, r := range rec.released {
				rel = append(rel, names(r))
			}
			add("release-order", fmt.Sprintf("%s: block contents %s are not, in this order, batches the sequencer released; released: %s; chain: %s", cfgStr, names(cb), strings.Join(rel, " "), chainStr))
			break
		}
	}

	// clause no-double-inclusion (crash-free histories only). Rule: a byte string may be committed as often as the
	// mempool offered it anew — its first appearance in a GetTxs answer, and each first appearance after a successful
	// execution removed it from the mempool (a genuine re-submission of the same bytes) — and no more.
	if out.crashs == 0 {
		keys := make([]string, 0, len(committed))
		for k := range committed {
			keys = append(keys, k)
		}
		sort.Strings(keys)
		for _, k := range keys {
			if committed[k] > offers[k] {
				msg := fmt.Sprintf("%s: no crash happened, the mempool offered %q %d time(s) (re-offers only count after execution removed it), the chain contains it %d times. chain: %s", cfgStr, k, offers[k], committed[k], chainStr)
				if t, ok := ioDup[k]; ok { // the failed write addressed this very transaction's queue record / seen mark
					add("no-double-inclusion", msg, t)
				} else {
					add("no-double-inclusion", msg)
				}
			}
		}
	}

	// clause handoff-retried: every transaction of a refused hand-off is part of an accepted hand-off
	accepted := map[string]bool{}
	for _, h := range rec.handoffs {
		if !h.Refused {
			for _, tx := range h.Txs {
				accepted[string(tx)] = true
			}
		}
	}
	var forgotten []string
	seenF := map[string]bool{}
	for _, h := range rec.handoffs {
		if h.Refused {
			for _, tx := range h.Txs {
				if k := string(tx); !accepted[k] && !seenF[k] {
					seenF[k] = true
					forgotten = append(forgotten, k)
				}
			}
		}
	}
	if len(forgotten) > 0 {
		add("handoff-retried", fmt.Sprintf("%s: the hand-off of %v was refused (queue full) and never repeated successfully in %d well-formed reap+produce rounds. chain: %s", cfgStr, forgotten, rounds, chainStr))
	}

	var limSig []string
	for _, l := range limitPos {
		limSig = append(limSig, strings.TrimPrefix(l, "limit:produce-"))
	}
	out.sig = fmt.Sprintf("mp%d%v|", op.MaxPending, limSig) + fmt.Sprintf("q%d|%s|refused=%d|released=%d|crash=%v|exec=%v|io=%v|quiescent=%v", op.QSize, chainStr, out.refuse, len(rec.released), crashPos, execPos, ioPos, quiescent)
	return
}

type replay struct {
	Depth       int             `json:"depth"`
	MaxPendings []uint64        `json:"max_pendings,omitempty"` // the phase's values of the configuration dimension (absent = [0])
	Choices     []explore.Point `json:"choices"`
}

func TestCheck(t *testing.T) {
	r := vf.Start("C11", "fault_enumeration")
	debug.SetGCPercent(600) // short-lived executions allocate a lot (10 000-slot channels per manager); memory is plentiful
	if r.RunShards(16) {
		return
	}
	// Deviations: crashes (class "crash"), executor error answers (class "exec") and transient write failures (class
	// "ioerr"); `Faults` bounds their sum.
	// Without a pending limit — quick: depth 6 with at most one deviation (one crash OR one executor error). thorough:
	// depth 8 with at most one deviation AND depth 7 with at most two (two crashes, two executor errors, or one of each
	// in either order; depth 8 with two deviations is beyond the thorough budget).
	// With a pending limit (max_pending_headers_and_data 1 and 2; alphabet extended by the two DA acknowledgements) —
	// quick: depth 6 without deviations (the shortest history with ONE backlog at limit 2 and a batch waiting has 6
	// actions: produce, produce, da-acks-headers, inject, reap, produce) AND depth 5 with at most one deviation.
	// thorough: depth 8 without deviations AND depth 6 with at most one (extrapolated from the measured quick phases
	// with a growth of about 5.5 per action: about 1.9 M and 0.5 M executions on top of the 4.8 M without a limit).
	type phase struct {
		Depth    int           `json:"depth"`
		Crash    int           `json:"crash"`
		Exec     int           `json:"exec_errors"`
		IO       int           `json:"io_errors"`
		Faults   int           `json:"crashes_plus_exec_errors_plus_io_errors"`
		Deadline time.Duration `json:"-"`
		// values of node.max_pending_headers_and_data explored in this phase (0 = no limit)
		MaxPending []uint64 `json:"max_pending_headers_and_data"`
	}
	phases := vf.Pick(r,
		[]phase{{6, 1, 1, 1, 1, 150 * time.Second, []uint64{0}}, {6, 0, 0, 0, 0, 150 * time.Second, []uint64{1, 2}}, {5, 1, 1, 1, 1, 150 * time.Second, []uint64{1, 2}}},
		[]phase{{8, 1, 1, 1, 1, 12 * time.Minute, []uint64{0}}, {7, 2, 2, 1, 2, 25 * time.Minute, []uint64{0}}, {8, 0, 0, 0, 0, 5 * time.Minute, []uint64{1, 2}}, {6, 1, 1, 1, 1, 6 * time.Minute, []uint64{1, 2}}})
	if sel := os.Getenv("C11_PHASES"); sel != "" { // development aid: run only the listed phases (indices, e.g. "1,2")
		var keep []phase
		for i := range phases {
			if strings.Contains(","+sel+",", fmt.Sprintf(",%d,", i)) {
				keep = append(keep, phases[i])
			}
		}
		phases = keep
	}
	if os.Getenv("C11_NO_DEADLINE") != "" { // development aid: measure the size of a tier on a loaded machine
		for i := range phases {
			phases[i].Deadline = 0
		}
	}
	r.Assume = []string{
		"crash model: the process (manager + reaper + sequencer, one datastore) dies between two durable datastore writes (a put, a delete, one batch commit are atomic units); nothing in memory survives; the mempool/executor is external and survives",
		"mempool double: contract-conforming (GetTxs does not drain, ExecuteTxs removes executed transactions) and holding at most one entry per byte string at a time (identical bytes are injected again only after execution removed them)",
		"datastore wiring as in apps/testapp + node/full.go: one datastore; node store and reaper seen-set share one view, the sequencer namespaces its queue under /batches",
		"pending limit: node.max_pending_headers_and_data in {0 (default, no limit), 1, 2}; the DA layer is a double that accepts every blob it is sent in one call; DA back-pressure (nothing / only headers / only data acknowledged for a stretch of the history) is the absence of the action da-acks-headers / da-acks-data in that stretch; one such action = the statements of one iteration of block.HeaderSubmissionLoop / DataSubmissionLoop between two ticks (isEmpty test, getPendingHeaders + submitHeadersToDA resp. createSignedDataToSubmit + submitDataToDA, called through hooks), the ticker-driven loops themselves do not run; without a limit the watermarks are not read by reaping or production and the two actions are left out; with a limit the drain acknowledges headers and data in every round (reap, da-acks-headers, da-acks-data, produce): back-pressure ends",
		"virtual time (synctest): the sequencer's time.Now() never goes backwards, so the 'timestamp earlier than the last block' rejection of a taken batch (manager.go) is not reachable in this world",
		"executor error model: a failing ExecuteTxs / SetFinal returns an error and leaves the execution layer untouched (nothing executed, mempool unchanged); it is transient (the drain and all calls not chosen to fail succeed). GetTxs and InitChain never fail. SetFinal is only called by the DA-inclusion loop, which does not run in this world (calls seen are counted in first_shard_setfinal_calls_seen)",
		"write-failure model (class ioerr): a failing durable write of the one datastore (any put, delete or batch commit of the node store, the reaper's seen-set or the sequencer's queue records) returns an error, writes nothing and leaves the process running; it is transient (every write not chosen to fail succeeds, also the retry of the same write). Reads never fail. A start-up (node or sequencer constructor) that returns an error after a write failure is a legitimate answer: the node is started again on the image. A production step that returns an error ends the aggregation loop (block/aggregation.go returns it, AggregationLoop sends it to errCh, node/full.go shuts the node down): inside the explored history every continuation follows (another step in the same process, a clean restart, ...), in the drain such a node is started again on its image",
		"at most ONE write failure per history, also in the two-deviation phase (two simultaneous write failures reach the listed write-failure findings along paths whose position tags the feature predicates do not name: the thorough run with two reported the known loss after 'queue delete fails, then first block save fails' as unexplained - a false alarm of the tagging, removed by this bound)",
		"'appears in a committed block at the end' is decided after a well-formed drain: reap+produce rounds without crashes and without executor errors until one round hands nothing off, produces an empty block and leaves the queue empty (at most 10 rounds)",
		"seen-set, queue and chain are only exercised through the real Reaper.SubmitTxs, single.Sequencer and Manager.publishBlock",
	}
	if r.ReplayPath() != "" {
		var rp replay
		if _, err := r.LoadReplay(&rp); err != nil {
			r.EngineError(err.Error())
		} else {
			explore.ReplayOne(rp.Choices, func(c *explore.Ctx) {
				if len(rp.MaxPendings) == 0 {
					rp.MaxPendings = []uint64{0}
				}
				o := body(t, c, rp.Depth, openingsFor(rp.MaxPendings))
				fmt.Printf("replay queue size %d, max pending %d:\n  %s\n", o.qsize, o.mp, strings.Join(o.trace, "\n  "))
				if o.eng != "" {
					r.EngineError(o.eng)
				}
				for _, v := range o.viols {
					r.Report(vf.Violation{Clause: v.clause, Tags: v.tags, Msg: v.msg, Cost: c.Cost(), History: rp})
				}
			})
		}
		r.Finish(vf.Coverage{Evaluations: 1, DistinctNontrivial: 1})
		return
	}
	// counters (guarded by a one-slot channel)
	type counters struct {
		refusal, crash, crashFree, knownPos, execErr, execAndCrash, plain, finals, sampExec, sampCrash int64
		ioErr, ioBoot, ioRefused, sampIO                                                               int64
		pruned, limited, declH, declD, declHD, declW, declWCrash, resume, acks, sampLimit              int64
	}
	cnt := make(chan counters, 1)
	cnt <- counters{}
	var total explore.Stats
	var caps []string
	nOpenings := map[string]int{}
	for _, ph := range phases {
		ops := openingsFor(ph.MaxPending)
		nOpenings[fmt.Sprintf("depth %d, deviations %d, max_pending %v", ph.Depth, ph.Faults, ph.MaxPending)] = len(ops)
		st := explore.Explore(explore.Config{Budgets: map[string]int{"crash": ph.Crash, "exec": ph.Exec, "ioerr": ph.IO}, Total: ph.Faults, Free: []string{"open", "act"}, Deadline: ph.Deadline}, func(c *explore.Ctx) {
			o := body(t, c, ph.Depth, ops)
			if o.eng != "" {
				r.EngineError(o.eng + " | " + strings.Join(o.trace, " ; "))
				return
			}
			if o.pruned {
				v := <-cnt
				v.pruned++
				cnt <- v
				return
			}
			v := <-cnt
			if o.mp > 0 {
				v.limited++
				if o.declH > 0 {
					v.declH++
				}
				if o.declD > 0 {
					v.declD++
				}
				if o.declHD > 0 {
					v.declHD++
				}
				if o.declW > 0 {
					v.declW++
					if o.crashs+o.execEr+o.ioErr > 0 {
						v.declWCrash++
					}
				}
				if o.resume > 0 {
					v.resume++
				}
				if o.acks > 0 {
					v.acks++
				}
			}
			if o.refuse > 0 {
				v.refusal++
			}
			if o.crashs > 0 {
				v.crash++
			} else {
				v.crashFree++
			}
			if o.execEr > 0 {
				v.execErr++
				if o.crashs > 0 {
					v.execAndCrash++
				}
			}
			if o.ioErr > 0 {
				v.ioErr++
			}
			if o.ioBoot > 0 {
				v.ioBoot++
			}
			if o.ioRef > 0 {
				v.ioRefused++
			}
			if o.crashs == 0 && o.execEr == 0 && o.ioErr == 0 {
				v.plain++
			}
			v.finals += int64(o.finals)
			// at most three samples of each kind per process (vf keeps six)
			sample := false
			if len(o.viols) == 0 && o.nActs >= 5 {
				if o.ioErr > 0 && v.sampIO < 3 {
					v.sampIO++
					sample = true
				} else if o.execEr > 0 && v.sampExec < 3 {
					v.sampExec++
					sample = true
				} else if o.execEr == 0 && o.crashs > 0 && o.refuse > 0 && v.sampCrash < 3 {
					v.sampCrash++
					sample = true
				}
				if !sample && o.declW > 0 && o.declD+o.declH > 0 && v.sampLimit < 2 {
					v.sampLimit++
					sample = true
				}
			}
			cnt <- v
			if dump := os.Getenv("C11_DUMP"); dump != "" && len(o.viols) > 0 { // development aid: one line per violation
				if f, err := os.OpenFile(dump, os.O_APPEND|os.O_CREATE|os.O_WRONLY, 0o644); err == nil {
					for _, vi := range o.viols {
						fmt.Fprintf(f, "%s | %v | %s\n", vi.clause, vi.tags, strings.Join(o.trace, " ; "))
					}
					f.Close()
				}
			}
			for _, vi := range o.viols {
				r.Report(vf.Violation{Clause: vi.clause, Tags: vi.tags, Msg: vi.msg + "\n history: " + strings.Join(o.trace, " ; "), Cost: c.Cost() + o.nActs, History: replay{ph.Depth, ph.MaxPending, c.Choices()}})
				r.Outcome("fail:" + vi.clause)
			}
			if len(o.viols) == 0 {
				r.Outcome(o.sig)
				if sample {
					r.Sample(map[string]any{"queue_size": o.qsize, "max_pending": o.mp, "history": o.trace, "signature": o.sig})
				}
			}
		})
		total.Executions += st.Executions
		total.Points += st.Points
		if st.MaxDepth > total.MaxDepth {
			total.MaxDepth = st.MaxDepth
		}
		for _, m := range st.Nondet {
			r.EngineError("nondeterminism: " + m)
		}
		if st.Capped != "" {
			caps = append(caps, fmt.Sprintf("depth %d, deviations %d, max_pending %v: %s", ph.Depth, ph.Faults, ph.MaxPending, st.Capped))
		}
	}
	v := <-cnt
	r.Finish(vf.Coverage{
		// States = deviation-free (no crash, no executor error) action histories executed (summed over the process shards; every shard runs the empty history)
		Evaluations: total.Executions, DistinctNontrivial: int64(r.DistinctOutcomes()), States: v.plain, Transitions: total.Points,
		Rule:       "for each (depth, crash, exec_errors, crashes_plus_exec_errors, max_pending_headers_and_data) phase, each queue size and each value of max_pending_headers_and_data of the phase: every enabled action history of length 0..depth over {with a pending limit only: da-acks-headers / da-acks-data = one iteration of the header / data submission loop against an accepting DA layer, enabled while headers / data are pending (an opening in which such an action finds nothing pending equals a shorter opening and is cut: these executions are part of `evaluations`, see first_shard_openings_cut_as_identity; moves the respective watermark; production steps are thereby explored with the header backlog, the data backlog, both or neither at the limit, with and without a batch waiting in the sequencer, declined and resumed; each such step is tagged limit:produce-with-backlog-at-limit[headers|data|headers+data](+batch-waiting) from configuration and watermarks); inject a, inject b, inject a again (same bytes, once execution removed it), reap = Reaper.SubmitTxs, produce = one publishBlock step, clean restart = new reaper + sequencer + manager on the same image} × every set of deviations within the phase's bounds, where a deviation is (i) a crash point among ALL durable writes of the explored actions and of the reboots (crash before the write, then reboot of all three components on the exact image; at most `crash`) or (iii) a transient write failure: ANY durable write (node store, seen-set, sequencer queue record; of an explored action or of a reboot) returns an error and writes nothing, the process goes on (at most `io_errors`; positions tagged ioerr:in[activity]after[last completed write]on[kind of the failed write], the following action ioerr-then[...]; a hand-off that fails on it counts as refused and must be retried; feature tags ioerr-on-first-block-save-after-batch-taken / ioerr-on-queue-delete / ioerr-on-seen-mark are attached only to the violation about the transactions the failed write addressed), or (ii) an executor error answer: any ExecuteTxs / SetFinal call the node makes during an explored action returns an error without effect on the executor (at most `exec_errors`; in this world only publishBlock's ExecuteTxs is ever called, on a block of a newly taken batch, on a new empty block or on a pending block), crashes + executor errors + write failures together at most `crashes_plus_exec_errors_plus_io_errors`; what follows an executor error or a write failure is every continuation of the alphabet (retry by the next produce, clean restart, reap, injections, or the drain at once); each history is followed by a deviation-free drain of reap+produce rounds to quiescence, the four oracle clauses and world.CheckChain; executed from scratch on the real Reaper, single.Sequencer and Manager in a synctest bubble; states = deviation-free action histories; distinct = distinct (queue size, chain contents, refusals, releases, crash positions, executor-error positions and follow-up action, write-failure positions and follow-up action) signatures",
		Exhaustive: true, Caps: caps,
		Bounds: map[string]any{"phases": phases, "queue_sizes": queueSizes, "max_pending_headers_and_data": maxPendings, "openings": nOpenings, "max_decision_points": total.MaxDepth},
		// RunShards keeps the Extra of the first shard only: these three are per-shard figures (1/16 of the exploration)
		Extra: map[string]any{"first_shard_histories_with_queue_full_refusal": v.refusal, "first_shard_histories_with_crash": v.crash, "first_shard_crash_free_histories": v.crashFree,
			"first_shard_histories_with_executor_error": v.execErr, "first_shard_histories_with_executor_error_and_crash": v.execAndCrash, "first_shard_deviation_free_histories": v.plain,
			"first_shard_setfinal_calls_seen":          v.finals,
			"first_shard_histories_with_write_failure": v.ioErr, "first_shard_histories_with_write_failure_during_boot": v.ioBoot, "first_shard_histories_with_handoff_failed_on_write_failure": v.ioRefused,
			"first_shard_openings_cut_as_identity": v.pruned, "first_shard_histories_with_pending_limit": v.limited, "first_shard_histories_with_da_acknowledgement": v.acks,
			"first_shard_histories_with_production_at_header_limit_only": v.declH, "first_shard_histories_with_production_at_data_limit_only": v.declD,
			"first_shard_histories_with_production_at_both_limits": v.declHD, "first_shard_histories_with_production_at_limit_and_batch_waiting": v.declW,
			"first_shard_histories_with_production_at_limit_batch_waiting_and_deviation": v.declWCrash, "first_shard_histories_with_production_resumed_inside_history": v.resume},
	})
}
