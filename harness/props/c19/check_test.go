package c19

import (
	"bytes"
	"crypto/aes"
	"crypto/cipher"
	"crypto/ed25519"
	"crypto/sha256"
	"encoding/json"
	"fmt"
	"os"
	"path/filepath"
	"runtime"
	"strconv"
	"strings"
	"sync"
	"sync/atomic"
	"testing"
	"testing/cryptotest"
	"time"

	"github.com/libp2p/go-libp2p/core/crypto"

	"github.com/evstack/ev-node/pkg/signer"
	"github.com/evstack/ev-node/pkg/signer/file"
	"github.com/evstack/ev-node/pkg/signer/noop"
	"github.com/evstack/ev-node/types"

	"verif/harness/vf"
)

// C19 — the proposer key file protects the key and yields a working, matching signer.
// Bounded-exhaustive fault enumeration against the real pkg/signer/file: ordered passphrase pairs, every truncation
// and single-byte substitution of signer.json (modern and legacy salt-less format), export → import → load.
//
// Plus (env_test.go): the saved file must load in ANOTHER ENVIRONMENT / another process — an environment sweep over
// GOMAXPROCS values and ambient process state (save under a, load/export/import under b), child processes with another
// CPU affinity and process environment, and golden key files (/verif/golden/c19.json) written once, earlier.
//
// Plus (seq_test.go): OPERATION SEQUENCES on one key directory (every history of create / load / export / import /
// junk import / delete-by-hand up to a depth, no state merging) and on two directories (export → import between them,
// explicit-state search), against a reference model of what each directory holds.
//
// Plus (shapes_test.go): the same operations ON TOP OF KEY FILES THE PACKAGE DID NOT WRITE IN THIS FORM (re-indented,
// trailing newline / junk, legacy shorter / longer, empty, junk shorter / longer), planted by hand as initial states
// and in the middle of histories; every successful write is confirmed at once.
//
// Plus (legacylen_test.go): a PASSPHRASE-LENGTH SWEEP over golden legacy (salt-less) key files that were sealed by the
// harness's own transcription of the legacy derivation (/verif/golden/c19_legacy_lengths.json), one per length.
//
// Clauses: panic, wrong-passphrase-rejected, right-passphrase-loads-same-key, loaded-signer-consistent,
// legacy-passphrase-distinguishes, export-import, loads-in-other-environment, golden-keyfile-loads, golden-address,
// saved-key-survives-later-operations.
// Tags are computed from the INPUT of a case only (how the file was produced, which field the mutated byte lies in,
// what the mutated file decodes to, how the two passphrases relate) — never from an error text or a panic value.

// ---------------------------------------------------------------------------------------------------------------
// inputs

type pass struct {
	name string
	b    []byte
}

const prefix31 = "0123456789abcdefghijklmnopqrstu" // 31 bytes

func passphrases() []pass {
	p32 := prefix31 + "X"
	return []pass{
		{"empty", []byte("")},
		{"a", []byte("a")},
		{"p31", []byte(prefix31)},
		{"p32", []byte(p32)},
		{"p33", []byte(p32 + "Y")},
		{"p1000", []byte(p32 + strings.Repeat("Z", 1000-32))},
		{"nul", []byte("a\x00b")},
		{"unicode", []byte("пароль-密码-🔑")},
	}
}

var fixedPass = []byte("correct horse battery staple")

type mutation struct {
	Kind string `json:"kind"` // none | truncate | subst
	Pos  int    `json:"pos"`  // truncate: the new length; subst: the index of the replaced byte
	Byte int    `json:"byte"` // subst: the replacement value
}

// tcase is one explored input; it is also the replayable history of a violation ([]byte fields are base64 in JSON).
type tcase struct {
	Section    string   `json:"section"` // pairs | corrupt | roundtrip | legacy-derive | environment | golden | sequence
	Op         string   `json:"op"`      // load | export | roundtrip | derive
	Origin     string   `json:"origin"`  // created (CreateFileSystemSigner) | imported (ImportPrivateKey) | legacy (harness-written, no salt)
	File       []byte   `json:"file"`    // signer.json as written, before the mutation
	Priv       []byte   `json:"priv"`    // the raw private key in that file (a throw-away test key)
	SaveName   string   `json:"save_name"`
	SavePass   []byte   `json:"save_pass"`
	LoadName   string   `json:"load_name"`
	LoadPass   []byte   `json:"load_pass"`
	Mut        mutation `json:"mutation"`
	ImportPass []byte   `json:"import_pass,omitempty"` // roundtrip only
	ImportName string   `json:"import_name,omitempty"`
	Overwrite  bool     `json:"overwrite,omitempty"` // roundtrip only: a different key file already exists at the import location
	OtherFile  []byte   `json:"other_file,omitempty"`
	// environment / golden sections (env_test.go)
	SaveEnv string `json:"save_env,omitempty"` // name of the environment the file was written in ("golden": earlier, by another process)
	LoadEnv string `json:"load_env,omitempty"` // name of the environment it is opened in
	Golden  string `json:"golden,omitempty"`   // golden section: vector name
	Addr    []byte `json:"addr,omitempty"`     // golden section: the address recorded when the file was written
	// sequence section (seq_test.go): the operations, executed in order on fresh directories SeqDirs
	SeqDirs []string `json:"seq_dirs,omitempty"`
	Seq     []seqOp  `json:"seq,omitempty"`
	// file-shape search (shapes_test.go): every successful write is confirmed at once by loading the key it claims
	SeqVerify bool `json:"seq_verify,omitempty"`
}

func (c *tcase) describe() string {
	if c.Section == "sequence" {
		return c.describeSeq()
	}
	m := "unmutated"
	switch c.Mut.Kind {
	case "truncate":
		m = fmt.Sprintf("truncated to %d of %d bytes", c.Mut.Pos, len(c.File))
	case "subst":
		m = fmt.Sprintf("byte %d (%s) %q -> %q", c.Mut.Pos, fieldAt(c.File, c.Mut.Pos), c.File[c.Mut.Pos:c.Mut.Pos+1], []byte{byte(c.Mut.Byte)})
	}
	s := fmt.Sprintf("%s/%s: %s file saved with passphrase <%s>, %s, %s with passphrase <%s>", c.Section, c.Op, c.Origin, c.SaveName, m, c.Op, c.LoadName)
	if c.Op == "roundtrip" {
		s += fmt.Sprintf(", import with <%s>, overwrite=%v", c.ImportName, c.Overwrite)
	}
	if c.Golden != "" {
		s += ", golden vector " + c.Golden
	}
	if c.SaveEnv != "" || c.LoadEnv != "" {
		s += fmt.Sprintf(", written in environment [%s], opened in environment [%s]", c.SaveEnv, c.LoadEnv)
	}
	return s
}

func (c *tcase) input() []byte {
	switch c.Mut.Kind {
	case "truncate":
		return append([]byte(nil), c.File[:c.Mut.Pos]...)
	case "subst":
		b := append([]byte(nil), c.File...)
		b[c.Mut.Pos] = byte(c.Mut.Byte)
		return b
	}
	return append([]byte(nil), c.File...)
}

// onDisk mirrors the documented on-disk format (field names only) so that the harness can tell what a mutated file
// decodes to. Used for writing legacy files and for computing tags, never for the verdict.
type onDisk struct {
	PrivKeyEncrypted []byte `json:"priv_key_encrypted"`
	Nonce            []byte `json:"nonce"`
	PubKeyBytes      []byte `json:"pub_key"`
	Salt             []byte `json:"salt,omitempty"`
}

// fieldAt names the part of the (unmutated, json.Marshal-produced) file that byte pos lies in:
// "<field>:name", "<field>:value" or "structure" (quotes, colons, commas, braces).
func fieldAt(orig []byte, pos int) string {
	tok := -1 // index of the current string token
	in := false
	name := ""
	start := 0
	for i, ch := range orig {
		if ch == '"' {
			if !in {
				in = true
				tok++
				start = i + 1
			} else {
				in = false
				if tok%2 == 0 {
					name = string(orig[start:i])
				}
			}
			if i == pos {
				return "structure"
			}
			continue
		}
		if i == pos {
			if !in {
				return "structure"
			}
			if tok%2 == 0 {
				// the name is only known at its closing quote
				end := bytes.IndexByte(orig[i:], '"')
				return string(orig[start:i+end]) + ":name"
			}
			return name + ":value"
		}
	}
	return "structure"
}

func commonPrefix32(a, b []byte) bool {
	return len(a) >= 32 && len(b) >= 32 && bytes.Equal(a[:32], b[:32])
}

// tags are history features of the input.
func (c *tcase) tags() []string {
	t := []string{"origin=" + c.Origin, "op=" + c.Op, "mutation=" + c.Mut.Kind}
	right := bytes.Equal(c.SavePass, c.LoadPass)
	if right {
		t = append(t, "right-passphrase")
	} else {
		t = append(t, "wrong-passphrase")
	}
	if len(c.LoadPass) == 0 {
		t = append(t, "empty-passphrase")
	}
	t = append(t, c.envTags()...)
	if c.Section == "legacy-derive" {
		if len(c.SavePass) == 0 {
			t = append(t, "legacy+empty-passphrase")
		}
		return t
	}
	if c.Mut.Kind == "subst" {
		t = append(t, "mutated="+fieldAt(c.File, c.Mut.Pos))
	}
	var d onDisk
	if err := json.Unmarshal(c.input(), &d); err != nil {
		return append(t, "file-not-json")
	}
	origPub := c.Priv[32:]
	noSalt := len(d.Salt) == 0
	if noSalt {
		t = append(t, "file-has-no-salt")
		if len(c.LoadPass) == 0 {
			t = append(t, "legacy+empty-passphrase")
		}
		if !right && commonPrefix32(c.SavePass, c.LoadPass) {
			t = append(t, "legacy+passphrases-equal-in-first-32-bytes")
		}
	}
	if len(d.Nonce) != 12 {
		t = append(t, "nonce-length-changed")
	}
	if !bytes.Equal(d.PubKeyBytes, origPub) {
		t = append(t, "pubkey-field-corrupted")
	}
	return t
}

// ---------------------------------------------------------------------------------------------------------------
// calling the code under test (never lets a panic escape)

func safeLoad(dir string, p []byte) (s signer.Signer, err error, pan string) {
	defer func() {
		if r := recover(); r != nil {
			pan = fmt.Sprint(r)
		}
	}()
	s, err = file.LoadFileSystemSigner(dir, append([]byte(nil), p...))
	return
}

func safeExport(dir string, p []byte) (k []byte, err error, pan string) {
	defer func() {
		if r := recover(); r != nil {
			pan = fmt.Sprint(r)
		}
	}()
	k, err = file.ExportPrivateKey(dir, append([]byte(nil), p...))
	return
}

func safeImport(dir string, priv, p []byte) (err error, pan string) {
	defer func() {
		if r := recover(); r != nil {
			pan = fmt.Sprint(r)
		}
	}()
	err = file.ImportPrivateKey(dir, append([]byte(nil), priv...), append([]byte(nil), p...))
	return
}

func safeCreate(dir string, p []byte) (s signer.Signer, err error, pan string) {
	defer func() {
		if r := recover(); r != nil {
			pan = fmt.Sprint(r)
		}
	}()
	s, err = file.CreateFileSystemSigner(dir, append([]byte(nil), p...))
	return
}

func safeLegacyKey(p []byte) (k []byte, pan string) {
	defer func() {
		if r := recover(); r != nil {
			pan = fmt.Sprint(r)
		}
	}()
	k = append([]byte(nil), file.VerifFallbackDeriveKey(append([]byte(nil), p...), 32)...)
	return
}

// checkSigner is the "usable and matching" oracle for a signer that Load returned without error.
// kind "key": its signatures do not verify under the key it reports, or that key is not the original;
// kind "address": its address is not what verifiers derive from the public key.
func checkSigner(s signer.Signer, privRaw []byte) (kind, msg string) {
	defer func() {
		if r := recover(); r != nil {
			kind, msg = "key", fmt.Sprintf("using the loaded signer panics: %v", r)
		}
	}()
	if s == nil {
		return "key", "Load returned a nil signer and a nil error"
	}
	origPriv, err := crypto.UnmarshalEd25519PrivateKey(privRaw)
	if err != nil {
		return "key", "harness: original key does not parse: " + err.Error()
	}
	origPub := origPriv.GetPublic()
	pub, err := s.GetPublic()
	if err != nil || pub == nil {
		return "key", fmt.Sprintf("GetPublic: %v", err)
	}
	for _, m := range [][]byte{[]byte("c19 message"), {}} {
		sig, err := s.Sign(m)
		if err != nil {
			return "key", fmt.Sprintf("Sign: %v", err)
		}
		if ok, err := pub.Verify(m, sig); err != nil || !ok {
			return "key", fmt.Sprintf("a signature made by the loaded signer does not verify under the public key it reports (ok=%v err=%v)", ok, err)
		}
		if ok, err := origPub.Verify(m, sig); err != nil || !ok {
			return "key", fmt.Sprintf("a signature made by the loaded signer does not verify under the original public key (ok=%v err=%v)", ok, err)
		}
	}
	if !pub.Equals(origPub) {
		return "key", "the loaded signer reports a public key different from the one that was saved"
	}
	addr, err := s.GetAddress()
	if err != nil {
		return "address", fmt.Sprintf("GetAddress: %v", err)
	}
	if want := types.KeyAddress(pub); !bytes.Equal(addr, want) {
		return "address", fmt.Sprintf("address %x differs from types.KeyAddress(pub) %x", addr, want)
	}
	ts, err := types.NewSigner(pub)
	if err != nil || !bytes.Equal(addr, ts.Address) {
		return "address", fmt.Sprintf("address %x differs from types.NewSigner(pub).Address %x (%v)", addr, ts.Address, err)
	}
	ns, err := noop.NewNoopSigner(origPriv)
	if err != nil {
		return "address", "noop signer: " + err.Error()
	}
	if na, _ := ns.GetAddress(); !bytes.Equal(addr, na) {
		return "address", fmt.Sprintf("address %x differs from the noop signer's address %x for the same key", addr, na)
	}
	return "", ""
}

func errClass(err error) string {
	s := err.Error()
	if i := strings.IndexByte(s, ':'); i > 0 {
		s = s[:i]
	}
	if strings.HasPrefix(s, "key file not found") {
		s = "key file not found"
	}
	return "err:" + s
}

// ---------------------------------------------------------------------------------------------------------------
// evaluation of one case

type verdict struct {
	viol       []vf.Violation
	outcome    string
	nontrivial bool   // the input reaches key derivation / decryption (the file still decodes)
	overwrote  string // sequence section: the last step was a successful write: "<operation> over <what the key file was before>"
}

func (c *tcase) cost() int {
	n := len(c.SavePass) + len(c.LoadPass) + len(c.ImportPass)
	if c.Mut.Kind != "none" {
		n++
	}
	return n
}

func (c *tcase) violation(clause, msg string) vf.Violation {
	return vf.Violation{Clause: clause, Tags: c.tags(), Msg: msg + "\n input: " + c.describe(), Cost: c.cost(), History: c}
}

func evaluate(c *tcase, dir string) (v verdict) {
	if c.Section == "sequence" {
		v, _, _, notes := runSequence(c, dir)
		for _, n := range notes {
			seqNote(n)
		}
		return v
	}
	add := func(clause, msg string) {
		v.viol = append(v.viol, c.violation(clause, msg))
		if v.outcome == "" {
			v.outcome = "violation:" + clause
		}
	}
	defer func() {
		v.outcome = c.Section + "|" + c.Op + "|" + c.Origin + "|" + v.outcome
	}()
	if c.Section == "legacy-derive" {
		v.nontrivial = true
		if _, pan := safeLegacyKey(c.SavePass); pan != "" {
			add("panic", "legacy key derivation (fallbackDeriveKey) panics: "+pan)
		} else {
			v.outcome = "ok"
		}
		return
	}
	if c.Op == "roundtrip" {
		return roundtrip(c, dir)
	}
	in := c.input()
	if err := os.WriteFile(filepath.Join(dir, "signer.json"), in, 0o600); err != nil {
		v.outcome = "engine:" + err.Error()
		return
	}
	var d onDisk
	v.nontrivial = json.Unmarshal(in, &d) == nil
	right := bytes.Equal(c.SavePass, c.LoadPass)
	intact := bytes.Equal(in, c.File)
	wrongClause := "wrong-passphrase-rejected"
	if c.Origin == "legacy" {
		wrongClause = "legacy-passphrase-distinguishes"
	}
	switch c.Op {
	case "load":
		s, err, pan := safeLoad(dir, c.LoadPass)
		switch {
		case pan != "":
			add("panic", "LoadFileSystemSigner panics: "+pan)
		case err != nil:
			if right && intact {
				add(c.rightClause("right-passphrase-loads-same-key"), "LoadFileSystemSigner fails on an intact file with the right passphrase: "+err.Error())
			} else {
				v.outcome = errClass(err)
			}
		case !right:
			add(wrongClause, "LoadFileSystemSigner returns a signer although the passphrase differs from the one the key was saved with")
		default:
			kind, msg := checkSigner(s, c.Priv)
			switch {
			case kind == "" && c.Addr != nil && !addrIs(s, c.Addr):
				add("golden-address", fmt.Sprintf("the signer loaded from a key file written earlier reports an address different from the one recorded then (%x)", c.Addr))
			case kind == "":
				v.outcome = "ok"
			case kind == "key" && intact:
				add(c.rightClause("right-passphrase-loads-same-key"), msg)
			default:
				add("loaded-signer-consistent", msg)
			}
		}
	case "export":
		k, err, pan := safeExport(dir, c.LoadPass)
		switch {
		case pan != "":
			add("panic", "ExportPrivateKey panics: "+pan)
		case err != nil:
			if right && intact {
				add(c.rightClause("export-import"), "ExportPrivateKey fails on an intact file with the right passphrase: "+err.Error())
			} else {
				v.outcome = errClass(err)
			}
		case !right:
			add(wrongClause, "ExportPrivateKey returns a key although the passphrase differs from the one the key was saved with")
		case !bytes.Equal(k, c.Priv):
			add(c.rightClause("export-import"), fmt.Sprintf("ExportPrivateKey returns %d bytes that are not the saved private key", len(k)))
		default:
			v.outcome = "ok"
		}
	}
	return
}

// roundtrip: export with the right passphrase → import elsewhere under another passphrase (optionally over an
// existing key file) → load / export again; the old passphrase must not open the imported file.
func roundtrip(c *tcase, dir string) (v verdict) {
	v.nontrivial = true
	add := func(clause, msg string) {
		v.viol = append(v.viol, c.violation(clause, msg))
		if v.outcome == "" {
			v.outcome = "violation:" + clause
		}
	}
	defer func() {
		if v.outcome == "" {
			v.outcome = "ok"
		}
		v.outcome = c.Section + "|" + c.Op + "|" + c.Origin + "|" + v.outcome
	}()
	src := filepath.Join(dir, "src")
	dst := filepath.Join(dir, "dst")
	_ = os.RemoveAll(src)
	_ = os.RemoveAll(dst)
	if err := os.MkdirAll(src, 0o700); err != nil {
		v.outcome = "engine:" + err.Error()
		return
	}
	if err := os.WriteFile(filepath.Join(src, "signer.json"), c.File, 0o600); err != nil {
		v.outcome = "engine:" + err.Error()
		return
	}
	k, err, pan := safeExport(src, c.SavePass)
	if pan != "" {
		add("panic", "ExportPrivateKey panics: "+pan)
		return
	}
	if err != nil {
		add("export-import", "ExportPrivateKey fails with the right passphrase: "+err.Error())
		return
	}
	if !bytes.Equal(k, c.Priv) {
		add("export-import", "ExportPrivateKey returns bytes that are not the saved private key")
		return
	}
	if c.Overwrite {
		_ = os.MkdirAll(dst, 0o700)
		if err := os.WriteFile(filepath.Join(dst, "signer.json"), c.OtherFile, 0o600); err != nil {
			v.outcome = "engine:" + err.Error()
			return
		}
	}
	if err, pan := safeImport(dst, k, c.ImportPass); pan != "" {
		add("panic", "ImportPrivateKey panics: "+pan)
		return
	} else if err != nil {
		add("export-import", "ImportPrivateKey fails on an exported key: "+err.Error())
		return
	}
	s, err, pan := safeLoad(dst, c.ImportPass)
	if pan != "" {
		add("panic", "LoadFileSystemSigner panics on an imported file: "+pan)
		return
	}
	if err != nil {
		add("export-import", "the imported file does not load with the import passphrase: "+err.Error())
		return
	}
	if kind, msg := checkSigner(s, c.Priv); kind != "" {
		add("export-import", "after export → import → load: "+msg)
	}
	k2, err, pan := safeExport(dst, c.ImportPass)
	if pan != "" {
		add("panic", "ExportPrivateKey panics on an imported file: "+pan)
	} else if err != nil || !bytes.Equal(k2, c.Priv) {
		add("export-import", fmt.Sprintf("re-export of the imported file does not give the key back (err=%v)", err))
	}
	if !bytes.Equal(c.SavePass, c.ImportPass) {
		// armed with its own input description: the imported file is a modern file saved under ImportPass
		_, err, pan := safeLoad(dst, c.SavePass)
		if pan != "" {
			add("panic", "LoadFileSystemSigner panics on an imported file with the old passphrase: "+pan)
		} else if err == nil {
			bz, _ := os.ReadFile(filepath.Join(dst, "signer.json"))
			w := &tcase{Section: "pairs", Op: "load", Origin: "imported", File: bz, Priv: c.Priv, SaveName: c.ImportName, SavePass: c.ImportPass, LoadName: c.SaveName, LoadPass: c.SavePass, Mut: mutation{Kind: "none"}}
			v.viol = append(v.viol, w.violation("wrong-passphrase-rejected", "the imported file loads with the passphrase of the file the key was exported from"))
			if v.outcome == "" {
				v.outcome = "violation:wrong-passphrase-rejected"
			}
		}
	}
	return
}

// ---------------------------------------------------------------------------------------------------------------
// building the base files

type base struct {
	file []byte
	priv []byte
	ok   bool
}

// mkCreated lets the real CreateFileSystemSigner write a file under p and recovers the key through ExportPrivateKey.
func mkCreated(r *vf.Run, root string, p pass) base {
	dir, _ := os.MkdirTemp(root, "created-")
	c := &tcase{Section: "pairs", Op: "load", Origin: "created", SaveName: p.name, SavePass: p.b, LoadName: p.name, LoadPass: p.b, Mut: mutation{Kind: "none"}, Priv: make([]byte, 64)}
	s, err, pan := safeCreate(dir, p.b)
	if pan != "" {
		r.Report(vf.Violation{Clause: "panic", Tags: []string{"origin=created", "op=create"}, Msg: "CreateFileSystemSigner panics: " + pan + " (passphrase <" + p.name + ">)", Cost: len(p.b), History: c})
		return base{}
	}
	if err != nil {
		r.Report(vf.Violation{Clause: "right-passphrase-loads-same-key", Tags: []string{"origin=created", "op=create"}, Msg: "CreateFileSystemSigner fails: " + err.Error() + " (passphrase <" + p.name + ">)", Cost: len(p.b), History: c})
		return base{}
	}
	bz, err := os.ReadFile(filepath.Join(dir, "signer.json"))
	if err != nil {
		r.Report(vf.Violation{Clause: "right-passphrase-loads-same-key", Tags: []string{"origin=created", "op=create"}, Msg: "CreateFileSystemSigner wrote no signer.json: " + err.Error(), Cost: len(p.b), History: c})
		return base{}
	}
	c.File = bz
	k, err, pan := safeExport(dir, p.b)
	if pan != "" || err != nil || len(k) != 64 {
		r.Report(vf.Violation{Clause: "export-import", Tags: []string{"origin=created", "op=export", "right-passphrase", "mutation=none"}, Msg: fmt.Sprintf("ExportPrivateKey on a freshly created file with the right passphrase <%s>: err=%v panic=%q len=%d", p.name, err, pan, len(k)), Cost: len(p.b), History: c})
		return base{}
	}
	c.Priv = k
	// the signer that Create returned must be the key that is in the file
	if kind, msg := checkSigner(s, k); kind != "" {
		cl := "loaded-signer-consistent"
		if kind == "key" {
			cl = "export-import"
		}
		r.Report(vf.Violation{Clause: cl, Tags: []string{"origin=created", "op=create", "right-passphrase", "mutation=none"}, Msg: "the signer returned by CreateFileSystemSigner vs. the exported key: " + msg, Cost: len(p.b), History: c})
	}
	return base{file: bz, priv: k, ok: true}
}

func legacyKeyPair() []byte {
	h := sha256.Sum256([]byte("verif-c19-legacy-key"))
	return ed25519.NewKeyFromSeed(h[:]) // 64 bytes: seed || public key, the raw form libp2p uses
}

// mkLegacy writes a salt-less file the way the pre-Argon2 version did: AES-256-GCM under the legacy derivation
// (the repository's own fallbackDeriveKey, through the verif hook).
func mkLegacy(p pass) (b base, pan string) {
	priv := legacyKeyPair()
	key, pan := safeLegacyKey(p.b)
	if pan != "" {
		return base{}, pan
	}
	blk, err := aes.NewCipher(key)
	if err != nil {
		panic(err)
	}
	gcm, err := cipher.NewGCM(blk)
	if err != nil {
		panic(err)
	}
	nh := sha256.Sum256(append([]byte("verif-c19-legacy-nonce"), p.b...))
	nonce := nh[:gcm.NonceSize()]
	bz, err := json.Marshal(onDisk{PrivKeyEncrypted: gcm.Seal(nil, nonce, priv, nil), Nonce: nonce, PubKeyBytes: priv[32:]})
	if err != nil {
		panic(err)
	}
	return base{file: bz, priv: priv, ok: true}, ""
}

// ---------------------------------------------------------------------------------------------------------------

func replacements(orig byte, thorough bool) []int {
	var out []int
	if thorough {
		for b := 0; b < 256; b++ {
			if byte(b) != orig {
				out = append(out, b)
			}
		}
		return out
	}
	seen := map[int]bool{int(orig): true}
	for _, b := range []int{'=', '"', '}', 'A', '0', 0x00, 0xff, int(orig ^ 0x01)} {
		if !seen[b] {
			seen[b] = true
			out = append(out, b)
		}
	}
	return out
}

// corruptions: every truncation length and every position × replacement values. In the thorough tier all 255 other
// values are used, except — when reduced is set — inside the two long base64 values priv_key_encrypted and pub_key,
// where the 8 representative values are kept (each further value there costs one more Argon2 run for one more
// authentication failure of the same kind; the primary load enumeration is never reduced).
func corruptions(section, origin string, b base, saveName string, p []byte, ops []string, thorough bool, reduced map[string]bool) []*tcase {
	var cs []*tcase
	mk := func(op string, m mutation) {
		cs = append(cs, &tcase{Section: section, Op: op, Origin: origin, File: b.file, Priv: b.priv, SaveName: saveName, SavePass: p, LoadName: saveName, LoadPass: p, Mut: m})
	}
	for _, op := range ops {
		for n := 0; n < len(b.file); n++ {
			mk(op, mutation{Kind: "truncate", Pos: n})
		}
		for i := 0; i < len(b.file); i++ {
			all := thorough
			if f := fieldAt(b.file, i); reduced[op] && (f == "priv_key_encrypted:value" || f == "pub_key:value") {
				all = false
			}
			for _, v := range replacements(b.file[i], all) {
				mk(op, mutation{Kind: "subst", Pos: i, Byte: v})
			}
		}
	}
	return cs
}

func pow(b, e int) int {
	n := 1
	for i := 0; i < e; i++ {
		n *= b
	}
	return n
}

// slow stretches the wall-clock deadlines of this check by the factor in VERIF_C19_SLOW (development aid for a machine
// that is shared with other runs; the factor is written to the evidence; unset = 1).
func slow(d time.Duration) time.Duration {
	if f, err := strconv.Atoi(os.Getenv("VERIF_C19_SLOW")); err == nil && f > 1 {
		return d * time.Duration(f)
	}
	return d
}

func TestCheck(t *testing.T) {
	r := vf.Start("C19", "fault_enumeration")
	r.Assume = []string{
		"the file system returns what was written (plain os.WriteFile / os.ReadFile in a temp dir)",
		"Ed25519, AES-GCM, Argon2id and encoding/json behave as specified (trusted libraries); a forged GCM tag is out of reach of single-byte mutations",
		"legacy (salt-less) files are AES-256-GCM under fallbackDeriveKey(passphrase, 32) with the same JSON field names; written by the harness through a verif hook exposing that function",
		"the golden legacy key files in /verif/golden/c19_legacy_lengths.json are what the pre-salt version left on disk for passphrases of every listed length: AES-256-GCM with the same JSON field names under the harness's own transcription of the legacy derivation (first 32 bytes of a long passphrase; a shorter one repeated over 32 bytes, byte i of the repeated part XORed with i), never sealed through the code under test; when they were written the pinned tree opened every one of them and its fallbackDeriveKey agreed with the transcription",
		"the golden key files in /verif/golden/c19.json were written by the pinned tree (throw-away keys, seeded randomness) and are what an earlier process left on disk; child processes are this test binary re-executed under taskset / with other variables",
		"a mutated file that still decodes to exactly the original key material (base64 trailing bits, JSON key case) is allowed to load",
		"operation sequences: the two passphrases P and Q are interchangeable for the code (both non-empty and shorter than 32 bytes) and so are the two directories, which justifies executing one history of each pair that differs only by swapping them; the empty passphrase of the thorough tier is not part of that symmetry",
		"operation sequences: the code under test keeps no state outside the key directory (no process-wide cache or registry), which is what lets the two-directory search merge histories with equal model states; the one-directory enumeration does not merge and does not rely on it. The model follows what a call reports: whether CreateFileSystemSigner must refuse an occupied directory is not judged (it does, on this tree: counted as an outcome)",
		"operation sequences over key files the package did not write in this form: the by-hand shapes are harness-made (a file the real ImportPrivateKey wrote earlier, re-formatted with encoding/json.Indent, with bytes appended or cut; the harness-written legacy file; junk) and put in place with os.WriteFile; a shape that is meant to hold a key is probed once on the tree under test and is used as a file without a key when the tree does not open it (listed under shapes_not_accepted_by_this_tree) — that re-formatted files load is not part of the statement. Merging on the model state relies on the no-state-outside-the-directory assumption above and on every successful write having been confirmed by a load at once; which key a directory holds matters only through equality with other keys of the history",
		"keys, salts and nonces come from a seeded deterministic source (testing/cryptotest.SetGlobalRandom) so that the enumerated files are the same on every run",
	}
	cryptotest.SetGlobalRandom(t, 19)
	root, err := os.MkdirTemp("", "c19-")
	if err != nil {
		r.EngineError(err.Error())
		r.Finish(vf.Coverage{})
		return
	}
	defer os.RemoveAll(root)

	if os.Getenv("VERIF_C19_GOLDEN") == "write" {
		if err := writeGolden(t, root); err != nil {
			r.EngineError("cannot write golden file: " + err.Error())
		} else {
			fmt.Println("C19: golden key files written to", goldenPath())
		}
	}
	if os.Getenv("VERIF_C19_GOLDEN") == "write-legacy-lengths" {
		if err := writeLegacyLenGolden(root); err != nil {
			r.EngineError("cannot write the golden legacy files: " + err.Error())
		} else {
			fmt.Println("C19: golden legacy key files (passphrase lengths) written to", legacyLenGoldenPath())
		}
	}
	golden, err := loadGolden()
	if err != nil {
		r.EngineError("golden key files missing (generate once from the pinned tree: VERIF_C19_GOLDEN=write ./check C19 quick): " + err.Error())
		r.Finish(vf.Coverage{})
		return
	}

	if r.ReplayPath() != "" {
		var c tcase
		if _, err := r.LoadReplay(&c); err != nil {
			r.EngineError(err.Error())
		} else if v, err := evaluateIn(&c, root); err != nil {
			r.EngineError(err.Error())
		} else {
			for _, x := range v.viol {
				r.Report(x)
			}
			fmt.Println("replay:", c.describe(), "=>", v.outcome)
		}
		r.Finish(vf.Coverage{Evaluations: 1, DistinctNontrivial: 1})
		return
	}

	thorough := r.Thorough()
	P := passphrases()
	var cases []*tcase
	counts := map[string]int{}
	// breakdown of everything the oracle flagged (known or not) by clause and input features, for the evidence file
	var tmu sync.Mutex
	breakdown := map[string]int{}
	tally := func(x vf.Violation) {
		var feat []string
		for _, tg := range x.Tags {
			if !strings.HasPrefix(tg, "mutation=") && !strings.HasPrefix(tg, "save-env=") && !strings.HasPrefix(tg, "load-env=") && tg != "right-passphrase" {
				feat = append(feat, tg)
			}
		}
		tmu.Lock()
		breakdown[x.Clause+" ["+strings.Join(feat, " ")+"]"]++
		tmu.Unlock()
	}

	// base files
	created := make([]base, len(P))
	legacy := make([]base, len(P))
	for i, p := range P {
		created[i] = mkCreated(r, root, p)
		var pan string
		legacy[i], pan = mkLegacy(p)
		if pan != "" {
			// the legacy derivation itself cannot be evaluated for this passphrase: a case of its own
			cases = append(cases, &tcase{Section: "legacy-derive", Op: "derive", Origin: "legacy", SaveName: p.name, SavePass: p.b, LoadName: p.name, LoadPass: p.b, Mut: mutation{Kind: "none"}})
		}
	}
	fixedCreated := mkCreated(r, root, pass{"fixed", fixedPass})
	fixedLegacy, _ := mkLegacy(pass{"fixed", fixedPass})

	// 0: files written earlier (golden), opened by the workers in the environment the check started in (first, so that a
	// deadline cap never cuts them)
	for _, gv := range golden.Vectors {
		cases = append(cases, goldenCase(gv, "load", true, envAsStarted), goldenCase(gv, "load", false, envAsStarted), goldenCase(gv, "export", true, envAsStarted))
	}
	counts["golden_cases"] = len(cases)

	// 0b: golden LEGACY files, one per passphrase length (legacylen_test.go): sealed by the harness's own transcription
	// of the legacy derivation, not through the code under test
	llen, err := legacyLenCases(thorough)
	if err != nil {
		r.EngineError("golden legacy key files (passphrase lengths): " + err.Error())
		r.Finish(vf.Coverage{})
		return
	}
	cases = append(cases, llen.cases...)
	counts["legacy_passphrase_length_cases"] = len(llen.cases)

	// 1 + 3a: all ordered (save, load) passphrase pairs, both formats, load and export
	for _, fm := range []struct {
		origin string
		bs     []base
	}{{"created", created}, {"legacy", legacy}} {
		for i, p := range P {
			if !fm.bs[i].ok {
				continue
			}
			for _, q := range P {
				for _, op := range []string{"load", "export"} {
					cases = append(cases, &tcase{Section: "pairs", Op: op, Origin: fm.origin, File: fm.bs[i].file, Priv: fm.bs[i].priv, SaveName: p.name, SavePass: p.b, LoadName: q.name, LoadPass: q.b, Mut: mutation{Kind: "none"}})
				}
			}
		}
	}
	counts["pair_cases"] = len(cases) - counts["golden_cases"] - counts["legacy_passphrase_length_cases"]

	// 4: export → import → load
	n0 := len(cases)
	importPs := []pass{P[0], P[4]}
	if thorough {
		importPs = P
	}
	for _, fm := range []struct {
		origin string
		bs     []base
		other  base
	}{{"created", created, fixedLegacy}, {"legacy", legacy, fixedCreated}} {
		for i, p := range P {
			if !fm.bs[i].ok {
				continue
			}
			for _, q := range importPs {
				for _, ow := range []bool{false, true} {
					if ow && !fm.other.ok {
						continue
					}
					cases = append(cases, &tcase{Section: "roundtrip", Op: "roundtrip", Origin: fm.origin, File: fm.bs[i].file, Priv: fm.bs[i].priv, SaveName: p.name, SavePass: p.b, LoadName: p.name, LoadPass: p.b,
						Mut: mutation{Kind: "none"}, ImportPass: q.b, ImportName: q.name, Overwrite: ow, OtherFile: fm.other.file})
				}
			}
		}
	}
	counts["roundtrip_cases"] = len(cases) - n0

	// 2 + 3b: every truncation and single-byte substitution, right passphrase
	n0 = len(cases)
	// cheap legacy files first, the Argon2-bound ones after them (a deadline cap then cuts the most homogeneous part)
	if fixedLegacy.ok {
		cases = append(cases, corruptions("corrupt", "legacy", fixedLegacy, "fixed", fixedPass, []string{"load", "export"}, thorough, nil)...)
	}
	if legacy[0].ok { // only once the legacy derivation accepts the empty passphrase
		cases = append(cases, corruptions("corrupt", "legacy", legacy[0], "empty", []byte{}, []string{"load"}, thorough, nil)...)
	}
	// 7a: operation sequences on one directory, every history of the depth, no state merging (after the
	// cheap cases and before the Argon2-bound corruptions, so that a deadline cap cuts those first)
	seqPasses := []string{"P", "Q"}
	seqDepth1 := vf.Pick(r, 3, 4)
	seqAlpha1 := seqAlphabet([]string{"a"}, seqPasses, thorough)
	nSeq0 := len(cases)
	cases = append(cases, seqOneDirCases(seqAlpha1, seqDepth1)...)
	var seqAlpha1E []seqOp
	if thorough {
		// a third passphrase (the empty one) at the quick depth
		seqAlpha1E = seqAlphabet([]string{"a"}, []string{"P", "Q", "E"}, true)
		cases = append(cases, seqOneDirCases(seqAlpha1E, 3)...)
	}
	counts["sequence_one_directory_histories"] = len(cases) - nSeq0

	if fixedCreated.ok {
		cases = append(cases, corruptions("corrupt", "created", fixedCreated, "fixed", fixedPass, []string{"load", "export"}, thorough, map[string]bool{"export": true})...)
	}
	if created[0].ok { // modern file saved under the empty passphrase
		cases = append(cases, corruptions("corrupt", "created", created[0], "empty", []byte{}, []string{"load"}, thorough, map[string]bool{"load": true})...)
	}
	counts["corruption_cases"] = len(cases) - n0 - counts["sequence_one_directory_histories"]

	// 6: the saved file opens in another environment — process-global switches, hence serial and before any worker starts
	envStart := time.Now()
	envRes := envPhase(t, r, root, golden, tally)
	for k, n := range envRes.counts {
		counts[k] = n
	}
	envSeconds := time.Since(envStart).Seconds()

	workers := runtime.NumCPU()
	if workers > 16 {
		workers = 16
	}
	var next, done, nontrivial, engine atomic.Int64
	done.Add(envRes.evaluations)
	nontrivial.Add(envRes.evaluations) // every environment case is an intact file that reaches key derivation

	// 7b: operation sequences on two directories, explicit-state search (its goroutines have ended when it returns)
	seqStart := time.Now()
	seqDepth2 := vf.Pick(r, 3, 5)
	seqPasses2 := vf.Pick(r, seqPasses, []string{"P", "Q", "E"})
	nSeqSample := 0
	seq2 := seqTwoDirSearch(r, root, seqPasses2, seqDepth2, workers, slow(vf.Pick(r, 40*time.Second, 6*time.Minute)), tally, func(x string) {
		if nSeqSample++; nSeqSample <= 1 {
			r.Sample(x)
		}
	})
	if seq2.engineErr != "" {
		r.EngineError(seq2.engineErr)
	}
	done.Add(seq2.executed)
	nontrivial.Add(seq2.nontriv)
	seq2Ops, seq2KDF := seqOpsExecuted.Load(), seqKDF.Load()
	seq2Seconds := time.Since(seqStart).Seconds()

	// 7c: writes on top of key files the package did not write in this form (shapes_test.go), explicit-state search
	// on one directory, every successful write confirmed at once
	seqStart = time.Now()
	seqDepth3 := vf.Pick(r, 4, 6)
	nShapeSample := 0
	seq3 := seqShapeSearch(r, root, seqPasses2, thorough, seqDepth3, workers, slow(vf.Pick(r, 40*time.Second, 6*time.Minute)), tally, func(x string) {
		if nShapeSample++; nShapeSample <= 2 {
			r.Sample(x)
		}
	})
	if seq3.engineErr != "" {
		r.EngineError(seq3.engineErr)
	}
	done.Add(seq3.executed)
	nontrivial.Add(seq3.nontriv)
	seq3Ops, seq3KDF := seqOpsExecuted.Load()-seq2Ops, seqKDF.Load()-seq2KDF
	seq3Seconds := time.Since(seqStart).Seconds()
	seq23Ops, seq23KDF := seq2Ops+seq3Ops, seq2KDF+seq3KDF

	// run
	deadline := time.Now().Add(slow(vf.Pick(r, 50*time.Second, 14*time.Minute)))
	var capped atomic.Bool
	var wg sync.WaitGroup
	for w := 0; w < workers; w++ {
		wg.Add(1)
		go func(w int) {
			defer wg.Done()
			dir := filepath.Join(root, fmt.Sprintf("w%d", w))
			if err := os.MkdirAll(dir, 0o700); err != nil {
				r.EngineError(err.Error())
				return
			}
			for {
				i := int(next.Add(1)) - 1
				if i >= len(cases) {
					return
				}
				if i%64 == 0 && time.Now().After(deadline) {
					capped.Store(true)
				}
				if capped.Load() {
					return
				}
				c := cases[i]
				v := evaluate(c, dir)
				if strings.Contains(v.outcome, "|engine:") {
					if engine.Add(1) == 1 {
						r.EngineError(v.outcome)
					}
					continue
				}
				for _, x := range v.viol {
					r.Report(x)
					tally(x)
				}
				r.Outcome(v.outcome)
				if v.nontrivial {
					nontrivial.Add(1)
				}
				done.Add(1)
				if i%997 == 3 || (c.Section == "roundtrip" && i%41 == 0) || (c.Section == "sequence" && i%389 == 200) {
					r.Sample(c.describe() + " => " + v.outcome)
				}
			}
		}(w)
	}
	wg.Wait()

	var caps []string
	if capped.Load() {
		caps = append(caps, fmt.Sprintf("deadline reached after %d of %d worker cases", done.Load()-envRes.evaluations-seq2.executed-seq3.executed, len(cases)))
	}
	if seq2.stats.Capped != "" {
		caps = append(caps, "two-directory sequence search: "+seq2.stats.Capped)
	}
	if seq3.stats.Capped != "" {
		caps = append(caps, "file-shape sequence search: "+seq3.stats.Capped)
	}
	names := make([]string, len(P))
	for i, p := range P {
		names[i] = fmt.Sprintf("%s(%dB)", p.name, len(p.b))
	}
	bounds := map[string]any{
		"passphrases":             names,
		"ordered_pairs":           "all, for created and legacy files, load and export",
		"corrupted_files":         "created/fixed passphrase (load, export); created/empty passphrase (load); legacy/fixed passphrase (load, export); legacy/empty passphrase (load) when it can be written",
		"file_lengths":            map[string]int{"created": len(fixedCreated.file), "legacy": len(fixedLegacy.file)},
		"truncations":             "every length 0..len-1",
		"substitution_values":     vf.Pick(r, "8 per position: '=', '\"', '}', 'A', '0', 0x00, 0xff, original^0x01 (those different from the original)", "all 255 other values at every position (load of the fixed-passphrase created file and everything on legacy files); for export of the created file and for load of the empty-passphrase created file: all 255 values outside the priv_key_encrypted and pub_key values, the 8 representative values inside them"),
		"roundtrip_import_passes": len(importPs),
		"cases":                   counts,
		"workers":                 workers,
		"deadline_stretch_factor": slow(1),
		"golden_vectors":          len(golden.Vectors),
		"legacy_passphrase_length_sweep": map[string]any{
			"golden_file": legacyLenGoldenName, "vectors": llen.vectors, "passphrase_lengths": llen.lengths, "byte_patterns": llen.patterns,
			"byte_pattern_note": "all bytes of one passphrase differ (ascii: printable, lengths <= 94; binary: all byte values incl. 0x00 and >= 0x80)",
			"per_vector":        llen.perVec, "cases": len(llen.cases),
			"known_finding": "a wrong passphrase of more than 32 bytes that differs in the last byte only is equal in the first 32 bytes: tag legacy+passphrases-equal-in-first-32-bytes; every other wrong passphrase of the sweep must be refused",
		},
		"environment_phase_s": envSeconds,
		"sequence_one_directory": map[string]any{
			"passphrases": seqPasses, "alphabet": alphabetNames(seqAlpha1), "depth": seqDepth1,
			"histories_before_symmetry_reduction": pow(len(seqAlpha1), seqDepth1), "histories": counts["sequence_one_directory_histories"],
			"symmetry":                           "of two histories that differ only by swapping P with Q the one whose first passphrase is P is executed",
			"thorough_third_passphrase_alphabet": len(seqAlpha1E), "thorough_third_passphrase_depth": vf.Pick(r, 0, 3),
			"operations_executed": seqOpsExecuted.Load() - seq23Ops, "argon2_key_derivations_by_the_model": seqKDF.Load() - seq23KDF, "state_merging": "none: every history is executed in full on fresh directories",
		},
		"sequence_two_directories": map[string]any{
			"passphrases": seqPasses2, "alphabet": seq2.alphabet, "depth": seqDepth2, "depth_completed": seq2.stats.DepthDone,
			"model_states": seq2.stats.States, "histories_generated": seq2.stats.Transitions, "histories_executed": seq2.executed, "new_states_per_level": seq2.stats.PerLevel,
			"symmetry":            "of histories that differ only by swapping P with Q, or directory a with b, the one whose first passphrase is P and whose first operation works on a is executed",
			"operations_executed": seq2Ops, "argon2_key_derivations_by_the_model": seq2KDF, "seconds": seq2Seconds,
		},
		"sequence_file_shapes": map[string]any{
			"passphrases": seqPasses2, "alphabet": seq3.alphabet, "depth_bound": seqDepth3, "depth_completed": seq3.stats.DepthDone,
			"fixed_point_reached":              len(seq3.stats.PerLevel) > 0 && seq3.stats.PerLevel[len(seq3.stats.PerLevel)-1] == 0 && seq3.stats.Capped == "",
			"shapes":                           seq3.shapes,
			"package_written_key_file_bytes":   seq3.compact,
			"shapes_not_accepted_by_this_tree": seq3.demoted,
			"model_states":                     seq3.stats.States, "histories_executed": seq3.executed, "new_states_per_level": seq3.stats.PerLevel,
			"confirmed_writes_as_last_step":    seq3.writes,
			"every_successful_write_confirmed": "LoadFileSystemSigner with the passphrase of the write, right after it, must give the key the call claims",
			"state_merging":                    "model state = what the directory holds (none | file without key: shape | key: origin, passphrase) + the form of the key file (by-hand shape, or length of a package-written file); plant is absolute",
			"operations_executed":              seq3Ops, "argon2_key_derivations_by_the_model": seq3KDF, "seconds": seq3Seconds,
		},
		"sequence_not_judged_observations": seqNotesSnapshot(),
	}
	for k, v := range envRes.bounds {
		bounds[k] = v
	}
	r.Finish(vf.Coverage{
		Evaluations: done.Load(), DistinctNontrivial: nontrivial.Load(), States: int64(r.DistinctOutcomes()), Transitions: done.Load(),
		Rule:       "plain nested loops, no sampling: every golden legacy (salt-less) key file of the passphrase-length sweep (one per listed passphrase length × byte pattern, sealed independently of the code under test) × {load, export} × {the recorded passphrase: same key, address, exported bytes; the passphrase with only its last byte changed and with only its first byte changed: must be refused, except — listed finding — when both are longer than 32 bytes and equal in the first 32}; every ordered (save,load) pair of the passphrase set × {created by the real writer, legacy salt-less} × {load, export}; every truncation length and every (position, replacement byte ≠ original) of signer.json, loaded/exported with the right passphrase; export→import→load/export for every save passphrase × import passphrases × {fresh, overwrite}; every ordered (written-in, opened-in) pair of environments within the GOMAXPROCS group and within the ambient (variables, cwd, umask) group, the check's process ↔ each re-executed child process, and every golden key file in every environment (serial phase before the workers; process globals restored afterwards); operation sequences: every history of exactly `depth` operations over the one-directory alphabet {create, load, export, export→import in place (thorough: also import of a fixed key)} × passphrases ∪ {junk import, delete by hand} executed in full without state merging and judged after every step against the reference model (what the directory holds, under which passphrase; the bytes of every key file are compared after every step, a difference after an operation that is not a successful write is settled by loading the saved key), and an explicit-state search (explore.BFS, histories merged on equal model states) over the same operations on two directories plus export(src)→import(dst) in both directions; and an explicit-state search on one directory whose alphabet adds the by-hand operations plant(shape) for every listed file shape (the valid key file re-indented, with trailing newline, with trailing junk, legacy salt-less files shorter and longer than what the package writes, empty, junk shorter and longer; thorough: 13 more) and reindent (the file the package just wrote, re-formatted in place), with import of a fixed key, create and export→import in place (re-encryption) executed on top of every reached state, every successful write confirmed at once by loading the key it claims with its passphrase, every refused or failed call followed by the byte comparison of the file it found; histories merged on model state + form of the key file, run until no new state appears (fixed_point_reached) or to the depth bound. Each case is a distinct input by construction; non-trivial = the input file still decodes as the key-file JSON (so key derivation and decryption are reached) or is an unmutated pair/roundtrip, or a sequence with at least one successful write; states = distinct (section, op, origin, result class) outcomes",
		Exhaustive: !capped.Load() && seq2.stats.Capped == "" && seq3.stats.Capped == "", Caps: caps, Bounds: bounds,
		Extra: map[string]any{"oracle_failures_by_clause_and_input_features": breakdown},
	})
}
