package c19

import (
	"bytes"
	"crypto/aes"
	"crypto/cipher"
	"crypto/ed25519"
	"crypto/sha256"
	"encoding/hex"
	"encoding/json"
	"fmt"
	"os"
	"path/filepath"

	"github.com/libp2p/go-libp2p/core/crypto"

	"github.com/evstack/ev-node/types"

	"verif/harness/vf"
)

// LEGACY PASSPHRASE-LENGTH SWEEP (golden files).
//
// The legacy (salt-less) derivation fills 32 bytes by repeating the passphrase, so how it behaves depends on the
// LENGTH of the passphrase: how many repetitions are needed (len 1..15: more than one, 16..31: one partial, >= 32:
// cut). The legacy files of the other sections are written through the repository's own fallbackDeriveKey, so a
// change of that function changes writer and reader together and goes unnoticed there. Here every file is a GOLDEN
// legacy key file: sealed with the harness's own transcription of the pre-salt format (refLegacyKey below, never the
// code under test), cross-checked once against the pinned tree when it was written (the real LoadFileSystemSigner /
// ExportPrivateKey had to open every one of them, and the hook-exposed fallbackDeriveKey had to agree with the
// transcription), and stored in /verif/golden/c19_legacy_lengths.json. Every run opens them with the real code.
//
// Per vector (length n, byte pattern): Load with the recorded passphrase (must give the golden key and address),
// ExportPrivateKey (must give the golden bytes), and Load + Export with the two wrong passphrases that differ from the
// right one in the last byte only and in the first byte only (must be refused; a passphrase of more than 32 bytes
// whose LAST byte differs is equal in the first 32 bytes: that is the listed finding and carries its tag).

const legacyLenGoldenName = "c19_legacy_lengths.json"

func legacyLenGoldenPath() string { return filepath.Join(vf.Root(), "golden", legacyLenGoldenName) }

// refLegacyKey is an independent transcription of the pre-salt key derivation (documented behaviour of the legacy
// format: the first 32 bytes of a long passphrase; a shorter one repeated over 32 bytes, the repeated part XORed
// with its position). Defined for len(p) >= 1 only.
func refLegacyKey(p []byte) []byte {
	k := make([]byte, 32)
	for i := range k {
		switch {
		case i < len(p):
			k[i] = p[i]
		default:
			k[i] = p[i%len(p)] ^ byte(i)
		}
	}
	return k
}

// legacyLenPass: the passphrase of length n in the given byte pattern; all bytes of one passphrase are different
// (n <= 94 for "ascii", n <= 256 for "binary") and no passphrase is a prefix of another.
func legacyLenPass(pattern string, n int) []byte {
	p := make([]byte, n)
	for i := range p {
		switch pattern {
		case "ascii": // printable, 7 is coprime to 94
			p[i] = byte(0x21 + (i*7+n*3)%94)
		default: // "binary": all byte values incl. 0x00 and >= 0x80, 37 is coprime to 256
			p[i] = byte(i*37 + n*11 + 0x80)
		}
	}
	return p
}

func legacyLenQuickLengths() []int {
	var l []int
	for n := 1; n <= 34; n++ {
		l = append(l, n)
	}
	return append(l, 47, 48, 63, 64, 65)
}

func legacyLenThoroughLengths() []int {
	var l []int
	for n := 1; n <= 80; n++ {
		l = append(l, n)
	}
	return append(l, 94, 127, 128, 129, 255, 256)
}

func legacyLenName(pattern string, n int) string {
	return fmt.Sprintf("legacy-len-%s-%03d", pattern, n)
}

// legacyLenKey: a throw-away key per vector.
func legacyLenKey(name string) []byte {
	h := sha256.Sum256([]byte("verif-c19-legacy-length-key/" + name))
	return ed25519.NewKeyFromSeed(h[:])
}

// writeLegacyLenGolden seals every vector with refLegacyKey + AES-256-GCM and keeps it only if the tree at hand
// (meant to be the pinned, unchanged one) opens it: VERIF_C19_GOLDEN=write-legacy-lengths ./check C19 quick.
func writeLegacyLenGolden(root string) error {
	g := goldenFile{Note: "C19 golden LEGACY (salt-less) key files, one per passphrase length and byte pattern; sealed by the harness's own " +
		"transcription of the pre-salt derivation + AES-256-GCM (not by the code under test), cross-checked against the pinned tree when written " +
		"(`VERIF_C19_GOLDEN=write-legacy-lengths ./check C19 quick`: the real Load/Export opened each of them and fallbackDeriveKey agreed); throw-away keys."}
	dir, err := os.MkdirTemp(root, "golden-legacy-len-")
	if err != nil {
		return err
	}
	for _, pattern := range []string{"ascii", "binary"} {
		for _, n := range legacyLenThoroughLengths() {
			if pattern == "ascii" && n > 94 {
				continue
			}
			name := legacyLenName(pattern, n)
			p := legacyLenPass(pattern, n)
			priv := legacyLenKey(name)
			key := refLegacyKey(p)
			blk, err := aes.NewCipher(key)
			if err != nil {
				return err
			}
			gcm, err := cipher.NewGCM(blk)
			if err != nil {
				return err
			}
			nh := sha256.Sum256([]byte("verif-c19-legacy-length-nonce/" + name))
			nonce := nh[:gcm.NonceSize()]
			bz, err := json.Marshal(onDisk{PrivKeyEncrypted: gcm.Seal(nil, nonce, priv, nil), Nonce: nonce, PubKeyBytes: priv[32:]})
			if err != nil {
				return err
			}
			// cross-check against the tree at hand
			if k, pan := safeLegacyKey(p); pan != "" || !bytes.Equal(k, key) {
				return fmt.Errorf("%s: the tree's fallbackDeriveKey disagrees with the transcription (%x vs %x, panic %q)", name, k, key, pan)
			}
			if err := os.WriteFile(filepath.Join(dir, "signer.json"), bz, 0o600); err != nil {
				return err
			}
			s, err, pan := safeLoad(dir, p)
			if err != nil || pan != "" {
				return fmt.Errorf("%s: the tree does not load the file: %v %s", name, err, pan)
			}
			if kind, msg := checkSigner(s, priv); kind != "" {
				return fmt.Errorf("%s: %s", name, msg)
			}
			if k, err, pan := safeExport(dir, p); err != nil || pan != "" || !bytes.Equal(k, priv) {
				return fmt.Errorf("%s: the tree does not export the key: %v %s", name, err, pan)
			}
			pk, err := crypto.UnmarshalEd25519PrivateKey(priv)
			if err != nil {
				return err
			}
			g.Vectors = append(g.Vectors, goldenVec{Name: name, Origin: "legacy", PassName: fmt.Sprintf("%s-%dB", pattern, n), Passphrase: p, SignerJSON: string(bz),
				PrivKey: priv, PubKey: hex.EncodeToString(priv[32:]), Address: hex.EncodeToString(types.KeyAddress(pk.GetPublic()))})
		}
	}
	out, err := json.MarshalIndent(g, "", " ")
	if err != nil {
		return err
	}
	if err := os.MkdirAll(filepath.Dir(legacyLenGoldenPath()), 0o755); err != nil {
		return err
	}
	return os.WriteFile(legacyLenGoldenPath(), append(out, '\n'), 0o644)
}

type legacyLenSet struct {
	cases    []*tcase
	patterns []string
	lengths  []int
	vectors  int
	perVec   []string
}

// legacyLenCases reads the golden file and builds the cases of the tier. A vector that the tier asks for and the
// file does not hold (or whose recorded passphrase is not the one the generator gives) is a machinery error.
func legacyLenCases(thorough bool) (*legacyLenSet, error) {
	bz, err := os.ReadFile(legacyLenGoldenPath())
	if err != nil {
		return nil, err
	}
	var g goldenFile
	if err := json.Unmarshal(bz, &g); err != nil {
		return nil, err
	}
	by := map[string]goldenVec{}
	for _, v := range g.Vectors {
		pub, e1 := hex.DecodeString(v.PubKey)
		addr, e2 := hex.DecodeString(v.Address)
		if e1 != nil || e2 != nil || len(v.PrivKey) != 64 || !bytes.Equal(pub, v.PrivKey[32:]) || len(addr) == 0 || v.Origin != "legacy" {
			return nil, fmt.Errorf("%s: vector %s is malformed", legacyLenGoldenPath(), v.Name)
		}
		by[v.Name] = v
	}
	set := &legacyLenSet{patterns: []string{"ascii"}, lengths: legacyLenQuickLengths(),
		perVec: []string{"load right", "export right", "load/export with the last byte of the passphrase changed", "load/export with the first byte of the passphrase changed"}}
	if thorough {
		set.patterns = []string{"ascii", "binary"}
		set.lengths = legacyLenThoroughLengths()
	}
	flip := func(p []byte, i int) []byte {
		q := append([]byte(nil), p...)
		q[i] ^= 0x01
		return q
	}
	for _, pattern := range set.patterns {
		for _, n := range set.lengths {
			if pattern == "ascii" && n > 94 {
				continue
			}
			name := legacyLenName(pattern, n)
			v, ok := by[name]
			if !ok || !bytes.Equal(v.Passphrase, legacyLenPass(pattern, n)) {
				return nil, fmt.Errorf("%s: vector %s missing or with another passphrase (regenerate from the pinned tree: VERIF_C19_GOLDEN=write-legacy-lengths ./check C19 quick)", legacyLenGoldenPath(), name)
			}
			set.vectors++
			set.cases = append(set.cases, goldenCase(v, "load", true, envAsStarted), goldenCase(v, "export", true, envAsStarted))
			for _, w := range []struct {
				what string
				pos  int
			}{{"last-byte-changed", n - 1}, {"first-byte-changed", 0}} {
				if n == 1 && w.pos == 0 && w.what == "first-byte-changed" {
					continue // the same passphrase as last-byte-changed
				}
				for _, op := range []string{"load", "export"} {
					c := goldenCase(v, op, true, envAsStarted)
					c.LoadName, c.LoadPass = v.PassName+"/"+w.what, flip(v.Passphrase, w.pos)
					set.cases = append(set.cases, c)
				}
			}
		}
	}
	return set, nil
}
