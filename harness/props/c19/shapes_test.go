package c19

import (
	"bytes"
	"crypto/ed25519"
	"crypto/sha256"
	"encoding/json"
	"fmt"
	"os"
	"path/filepath"
	"strings"
	"sync"
	"sync/atomic"
	"testing"
	"testing/cryptotest"
	"time"

	"github.com/libp2p/go-libp2p/core/crypto"

	"verif/harness/explore"
	"verif/harness/vf"
)

// KEY FILES THE PACKAGE DID NOT WRITE IN THIS FORM, as targets of later writes (third search of the sequence part).
//
// The other two sequence searches only ever put a write on top of nothing or of a file the package itself wrote a
// moment ago — and every such file has the same length (all fields are fixed-length). A directory in the field also
// holds key files that were re-formatted by a tool, carry a trailing newline, were written by the salt-less legacy
// version, are empty (a crashed write) or are junk (a damaged file the operator is about to repair from the exported
// backup) — LONGER or SHORTER than what the next create / import / re-encryption writes. The statement's "a key saved
// under a passphrase loads with that passphrase, to the same key" and "export followed by import preserves the key"
// do not depend on what was in the directory before; so here every write is executed ON TOP of every such shape.
//
//	by-hand operations (added to the one-directory alphabet):
//	  plant(shape)  signer.json is replaced by a harness-made file of that shape (list below); the model then holds
//	                what the shape holds: a key (fixed, under P) or "a file without a key";
//	  reindent      the file the package wrote in this history is re-formatted in place (json.Indent): same key, longer.
//	model, in addition to the one in seq_test.go:
//	  · a successful write is CONFIRMED at once: the key the call claims to have saved loads with its passphrase, to
//	    that key (confirmWrite) — whatever shape the file had before;
//	  · a refused or failed call leaves a key-holding file of any shape as it is (byte comparison, then the semantic
//	    question, exactly as in seq_test.go); on a file without a key there is nothing the statement protects: a change
//	    is recorded, not judged;
//	  · load / export on a file without a key gives no signer / key and no panic. Not judged: whether create refuses or
//	    replaces a file without a key (the model follows the call), and a damaged file that still opens to its own key.
//	A shape that is meant to hold a key is probed once on the tree under test (does it open with P?); one that the tree
//	does not accept is used as "a file without a key" and listed in the evidence — that re-formatted files must load
//	is not part of the statement.
//
// Search: explore.BFS over whole histories on fresh directories, merged on the model state, which here includes the
// FORM of the key file (shape name, or the length of a package-written file). plant is absolute, so the state space
// is small and the search runs to its fixed point: within the alphabet every reachable (model state, operation) pair
// is executed, at any history length.

type seqShape struct {
	Name   string
	Holds  string // key | no-key
	Len    int
	file   []byte
	junk   bool
	legacy bool
	pub    crypto.PubKey // the key it holds / was damaged from (nil: none)
	priv   []byte
}

func (sh *seqShape) entry() *mkey {
	return &mkey{pub: sh.pub, priv: sh.priv, pass: "P", origin: "planted", file: sh.file, shape: sh.Name, junk: sh.junk, legacy: sh.legacy}
}

func seqPlantKey() []byte {
	h := sha256.Sum256([]byte("verif-c19-planted-key"))
	return ed25519.NewKeyFromSeed(h[:])
}

var (
	seqShapesOnce    sync.Once
	seqShapeList     []*seqShape
	seqShapeErr      string
	seqShapeDemoted  []string
	seqCompactLength int
)

func indentJSON(b []byte, indent string) []byte {
	var buf bytes.Buffer
	if err := json.Indent(&buf, b, "", indent); err != nil {
		panic(err)
	}
	return buf.Bytes()
}

func cat(parts ...[]byte) []byte { return bytes.Join(parts, nil) }

// seqShapes builds the shapes once per process (also in a replay). The modern-format base file is written by the real
// ImportPrivateKey into a scratch directory (a file the package wrote earlier), the legacy one by mkLegacy.
func seqShapes() ([]*seqShape, string) {
	seqShapesOnce.Do(func() {
		tmp, err := os.MkdirTemp("", "c19-shapes-")
		if err != nil {
			seqShapeErr = err.Error()
			return
		}
		defer os.RemoveAll(tmp)
		planted := seqPlantKey()
		if err, pan := safeImport(tmp, planted, seqPassBytes["P"]); err != nil || pan != "" {
			seqShapeErr = fmt.Sprintf("cannot write the base key file for the shapes: %v %s", err, pan)
			return
		}
		compact, ok := readKeyFile(tmp)
		if !ok || !json.Valid(compact) {
			seqShapeErr = "the base key file for the shapes is missing or not JSON"
			return
		}
		seqCompactLength = len(compact)
		ppk, _ := crypto.UnmarshalEd25519PrivateKey(planted)
		leg, pan := mkLegacy(pass{"P", seqPassBytes["P"]})
		if pan != "" || !leg.ok {
			seqShapeErr = "cannot write the legacy file for the shapes: " + pan
			return
		}
		lpk, _ := crypto.UnmarshalEd25519PrivateKey(leg.priv)
		legLong := indentJSON(leg.file, "  ")
		for w := 4; len(legLong) <= len(compact)+8; w += 4 {
			legLong = indentJSON(leg.file, strings.Repeat(" ", w))
		}
		junkLine := []byte("<!-- 404: this is not a key file -->\n")
		junkLong := bytes.Repeat(junkLine, 2*len(compact)/len(junkLine)+1)
		extra := cat(compact[:len(compact)-1], []byte(`,"comment":"proposer key of the aggregator, do not delete; rotated 2025-01-01"}`))

		modern := func(name string, file []byte) *seqShape {
			return &seqShape{Name: name, file: file, pub: ppk.GetPublic(), priv: planted}
		}
		damaged := func(name string, file []byte) *seqShape {
			return &seqShape{Name: name, file: file, junk: true, pub: ppk.GetPublic(), priv: planted}
		}
		legacy := func(name string, file []byte, junk bool) *seqShape {
			return &seqShape{Name: name, file: file, junk: junk, legacy: true, pub: lpk.GetPublic(), priv: leg.priv}
		}
		junk := func(name string, file []byte) *seqShape { return &seqShape{Name: name, file: file, junk: true} }
		seqShapeList = []*seqShape{
			// --- quick and thorough
			modern("modern-compact", compact), // control: what the package writes, byte for byte the same length
			modern("modern-reindented", indentJSON(compact, "  ")),
			modern("modern-trailing-newline", cat(compact, []byte("\n"))),
			damaged("modern-trailing-junk", cat(compact, []byte("\n<<<<<<< HEAD\n"))),
			legacy("legacy-compact-shorter", leg.file, false),
			legacy("legacy-reindented-longer", legLong, false),
			junk("empty", []byte{}),
			junk("junk-shorter", []byte("not a key file\n")),
			junk("junk-longer", junkLong),
			// --- thorough only (seqShapeNames)
			modern("modern-trailing-whitespace", cat(compact, []byte("  \t\r\n\n"))),
			modern("modern-leading-whitespace", cat([]byte("\n\n  "), compact)),
			modern("modern-reindented-crlf", bytes.ReplaceAll(indentJSON(compact, "\t"), []byte("\n"), []byte("\r\n"))),
			modern("modern-extra-field", extra),
			damaged("modern-twice", cat(compact, compact)),
			damaged("modern-reindented-trailing-junk", cat(indentJSON(compact, "  "), []byte("\n}\n"))),
			damaged("modern-cut-in-half", compact[:len(compact)/2]),
			legacy("legacy-trailing-junk", cat(leg.file, []byte("}")), true),
			junk("junk-one-byte", []byte("{")),
			junk("junk-compact-length", bytes.Repeat([]byte("#"), len(compact))),
			junk("junk-one-longer", bytes.Repeat([]byte("#"), len(compact)+1)),
			junk("junk-one-shorter", bytes.Repeat([]byte("#"), len(compact)-1)),
			junk("json-of-another-kind", []byte(`{"chain_id":"test","initial_height":1}`)),
		}
		// probe: does the tree under test accept the shapes that are meant to hold a key? (not judged, see above)
		for _, sh := range seqShapeList {
			sh.Len = len(sh.file)
			sh.Holds = "key"
			if sh.junk {
				sh.Holds = "no-key"
				continue
			}
			if err := os.WriteFile(filepath.Join(tmp, "signer.json"), sh.file, 0o600); err != nil {
				seqShapeErr = err.Error()
				return
			}
			sg, err, pan := safeLoad(tmp, seqPassBytes["P"])
			kind := "x"
			if err == nil && pan == "" {
				origPriv, _ := crypto.UnmarshalEd25519PrivateKey(sh.priv)
				kind, _ = checkSignerAgainst(sg, sh.pub, origPriv)
			}
			if kind != "" {
				sh.junk, sh.Holds = true, "no-key (meant to hold a key, not accepted by the tree under test)"
				seqShapeDemoted = append(seqShapeDemoted, sh.Name)
			}
		}
	})
	return seqShapeList, seqShapeErr
}

const seqQuickShapes = 9

func seqShapeNames(thorough bool) []string {
	all, _ := seqShapes()
	var out []string
	for i, sh := range all {
		if thorough || i < seqQuickShapes {
			out = append(out, sh.Name)
		}
	}
	return out
}

func seqShapeByName(name string) (*seqShape, string) {
	all, msg := seqShapes()
	if msg != "" {
		return nil, msg
	}
	for _, sh := range all {
		if sh.Name == name {
			return sh, ""
		}
	}
	return nil, "unknown file shape " + name
}

// seqShapeAlphabet: the one-directory alphabet with import of a fixed key, plus plant(shape) for every shape and reindent.
func seqShapeAlphabet(passes []string, thorough bool) []seqOp {
	out := seqAlphabet([]string{"a"}, passes, true)
	for _, n := range seqShapeNames(thorough) {
		out = append(out, seqOp{Op: "plant", Dir: "a", Shape: n})
	}
	return append(out, seqOp{Op: "reindent", Dir: "a"})
}

type seqShapeResult struct {
	seqBFSResult
	shapes  []map[string]any
	demoted []string
	compact int
	writes  map[string]int64 // successful, confirmed writes by "operation over <what was there>"
}

// seqShapeSearch: explicit-state search on one directory over the alphabet with by-hand file shapes; every successful
// write is confirmed at once (SeqVerify).
func seqShapeSearch(r *vf.Run, root string, passes []string, thorough bool, depth, workers int, deadline time.Duration, tally func(vf.Violation), sample func(string)) seqShapeResult {
	var res seqShapeResult
	if _, msg := seqShapes(); msg != "" {
		res.engineErr = "sequence|engine:" + msg
		return res
	}
	alpha := seqShapeAlphabet(passes, thorough)
	res.alphabet, res.depth, res.demoted, res.compact = alphabetNames(alpha), depth, seqShapeDemoted, seqCompactLength
	for _, n := range seqShapeNames(thorough) {
		sh, _ := seqShapeByName(n)
		res.shapes = append(res.shapes, map[string]any{"name": sh.Name, "bytes": sh.Len, "holds": sh.Holds})
	}
	res.writes = map[string]int64{}
	var nontriv, executed atomic.Int64
	var mu sync.Mutex
	res.stats = explore.BFS(explore.BFSConfig{Depth: depth, Actions: len(alpha), Workers: workers, Deadline: deadline}, func(hist []int) explore.Step {
		c := &tcase{Section: "sequence", Op: "sequence", Origin: "created", Mut: mutation{Kind: "none"}, SeqDirs: []string{"a"}, SeqVerify: true}
		for _, a := range hist {
			c.Seq = append(c.Seq, alpha[a])
		}
		executed.Add(1)
		v, key, stopped, notes := runSequence(c, root)
		mu.Lock()
		if strings.HasPrefix(v.outcome, "sequence|engine:") && res.engineErr == "" {
			res.engineErr = v.outcome
		}
		if v.overwrote != "" {
			res.writes[v.overwrote]++
		}
		mu.Unlock()
		for _, n := range notes {
			seqNote(n)
		}
		for _, x := range v.viol {
			r.Report(x)
			tally(x)
		}
		r.Outcome(v.outcome)
		if v.nontrivial {
			nontriv.Add(1)
		}
		if len(hist) == 2 && alpha[hist[0]].Op == "plant" && alpha[hist[1]].Op == "import-fixed" && hist[0]%3 == 1 && alpha[hist[1]].Pass == "Q" {
			sample(c.describeSeq() + " => " + v.outcome + " ; state " + key)
		}
		return explore.Step{Key: key, Prune: stopped}
	})
	res.nontriv = nontriv.Load()
	res.executed = executed.Load()
	return res
}

// TestDevShapeSearch runs only the file-shape search with the thorough alphabet (development aid, not part of the check:
// VERIF_C19_DEV=shapes VERIF_NOEXIT=1 VERIF_EVIDENCE_DIR=<scratch> ./check.test -test.run TestDevShapeSearch).
func TestDevShapeSearch(t *testing.T) {
	if os.Getenv("VERIF_C19_DEV") != "shapes" {
		t.Skip("development aid")
	}
	r := vf.Start("C19", "fault_enumeration")
	cryptotest.SetGlobalRandom(t, 19)
	root, err := os.MkdirTemp("", "c19-dev-")
	if err != nil {
		t.Fatal(err)
	}
	defer os.RemoveAll(root)
	start := time.Now()
	res := seqShapeSearch(r, root, []string{"P", "Q", "E"}, true, 6, 16, 0, func(vf.Violation) {}, func(string) {})
	fmt.Printf("dev: alphabet=%d states=%d histories=%d per-level=%v depth-done=%d kdf=%d ops=%d demoted=%v engine=%q notes=%v %.1fs\n", len(res.alphabet), res.stats.States, res.executed,
		res.stats.PerLevel, res.stats.DepthDone, seqKDF.Load(), seqOpsExecuted.Load(), res.demoted, res.engineErr, seqNotesSnapshot(), time.Since(start).Seconds())
	r.Finish(vf.Coverage{Evaluations: res.executed, DistinctNontrivial: res.nontriv})
}
