package c19

import (
	"bytes"
	"encoding/hex"
	"encoding/json"
	"fmt"
	"os"
	"os/exec"
	"path/filepath"
	"runtime"
	"sort"
	"strconv"
	"strings"
	"sync"
	"syscall"
	"testing"
	"testing/cryptotest"

	"github.com/libp2p/go-libp2p/core/crypto"

	"github.com/evstack/ev-node/pkg/signer"
	"github.com/evstack/ev-node/types"

	"verif/harness/vf"
)

// The saved file must open in ANOTHER ENVIRONMENT: what Load / Export derive may depend only on the passphrase and on
// what is stored in the file. Three bounded, deterministic parts, all counted in the evidence:
//
//  (a) in-process sweep, serial, before any worker goroutine exists: for every ordered pair (a, b) of environments of a
//      group, a file written in a (CreateFileSystemSigner, and ImportPrivateKey of the same key under another
//      passphrase) is opened in b: Load with the right passphrase (same key), Load with a wrong one (must fail),
//      ExportPrivateKey (same bytes), Load of the imported file. Groups: GOMAXPROCS values; ambient process state
//      (environment variables, working directory, umask).
//  (b) other processes: the same test binary re-executed with another CPU affinity (runtime.NumCPU and the default
//      GOMAXPROCS differ), another GOMAXPROCS variable and other environment variables opens the parent's files and
//      the golden files and writes a file that the parent then opens.
//  (c) golden key files written once, earlier (/verif/golden/c19.json): opened on every run, in every environment of (a)
//      and (b) and by the workers.
//
// Clauses: loads-in-other-environment (a, b: a == b is the control and keeps the ordinary clause),
// golden-keyfile-loads, golden-address.

var wrongPass = pass{"wrong", []byte("not the passphrase")}

const envAsStarted = "as-started"

// ---------------------------------------------------------------------------------------------------------------
// environments

type envSpec struct {
	Name  string
	Group string            // gomaxprocs | ambient | process
	Procs int               // in-process: runtime.GOMAXPROCS value (0 = as the process started)
	Vars  map[string]string // environment variables (nil = as the process started)
	Cwd   string            // in-process: working directory ("" = as started)
	Umask int               // in-process: umask (-1 = as started)
	Cpus  int               // process: number of CPUs in the affinity mask (0 = as the parent)
	Host  string            // process: host name, set inside a UTS namespace of its own ("" = as the parent)
}

func ambientVars(which string) map[string]string {
	switch which {
	case "A":
		return map[string]string{"HOME": "/nonexistent/home-a", "USER": "alice", "LOGNAME": "alice", "HOSTNAME": "validator-a", "LANG": "C", "LC_ALL": "C", "TZ": "UTC", "XDG_CONFIG_HOME": "/nonexistent/xdg-a", "GOMAXPROCS": "3", "EVNODE_HOME": "/nonexistent/ev-a"}
	case "B":
		return map[string]string{"HOME": "/tmp", "USER": "bob", "LOGNAME": "bob", "HOSTNAME": "validator-b.example.org", "LANG": "ja_JP.UTF-8", "LC_ALL": "ja_JP.UTF-8", "TZ": "Asia/Tokyo", "XDG_CONFIG_HOME": "/tmp/xdg-b", "GOMAXPROCS": "5", "EVNODE_HOME": "/tmp/ev-b"}
	}
	return nil
}

func procsValues(thorough bool) []int {
	if thorough {
		return []int{1, 2, 3, 4, 6, 8, 16, 32}
	}
	return []int{1, 2, 4, 8, 16}
}

func procsEnvs(thorough bool) []envSpec {
	var out []envSpec
	for _, n := range procsValues(thorough) {
		out = append(out, envSpec{Name: fmt.Sprintf("gomaxprocs=%d", n), Group: "gomaxprocs", Procs: n, Umask: -1})
	}
	return out
}

func ambientEnvs(root string) []envSpec {
	return []envSpec{
		{Name: envAsStarted, Group: "ambient", Umask: -1},
		{Name: "ambient=A", Group: "ambient", Vars: ambientVars("A"), Cwd: filepath.Join(root, "cwd-a"), Umask: 0o022},
		{Name: "ambient=B", Group: "ambient", Vars: ambientVars("B"), Cwd: filepath.Join(root, "cwd-b"), Umask: 0o077},
	}
}

func processEnvs() []envSpec {
	return []envSpec{
		{Name: "process:cpus=1", Group: "process", Cpus: 1},
		{Name: "process:cpus=2+ambient=B+hostname", Group: "process", Cpus: 2, Vars: ambientVars("B"), Host: "validator-b"},
		{Name: "process:GOMAXPROCS=3+ambient=A", Group: "process", Vars: ambientVars("A")},
	}
}

func findEnv(root, name string) (envSpec, bool) {
	all := append(append(procsEnvs(true), procsEnvs(false)...), ambientEnvs(root)...)
	all = append(all, processEnvs()...)
	for _, e := range all {
		if e.Name == name {
			return e, true
		}
	}
	return envSpec{}, false
}

// envCtl switches the process-global state. Only used while no other goroutine of the check runs.
type envCtl struct {
	procs int
	cwd   string
	umask int
	vars  map[string]*string // every variable any profile touches -> its value at start (nil = unset)
}

func newEnvCtl() (*envCtl, error) {
	c := &envCtl{procs: runtime.GOMAXPROCS(0), vars: map[string]*string{}}
	var err error
	if c.cwd, err = os.Getwd(); err != nil {
		return nil, err
	}
	c.umask = syscall.Umask(0o077)
	syscall.Umask(c.umask)
	for _, w := range []string{"A", "B"} {
		for k := range ambientVars(w) {
			if v, ok := os.LookupEnv(k); ok {
				v := v
				c.vars[k] = &v
			} else {
				c.vars[k] = nil
			}
		}
	}
	return c, nil
}

func (c *envCtl) restore() {
	runtime.GOMAXPROCS(c.procs)
	_ = os.Chdir(c.cwd)
	syscall.Umask(c.umask)
	for k, v := range c.vars {
		if v == nil {
			_ = os.Unsetenv(k)
		} else {
			_ = os.Setenv(k, *v)
		}
	}
}

func (c *envCtl) apply(e envSpec) error {
	c.restore()
	if e.Group == "process" {
		return fmt.Errorf("environment %s is a separate process", e.Name)
	}
	if e.Procs > 0 {
		runtime.GOMAXPROCS(e.Procs)
	}
	for k, v := range e.Vars {
		if err := os.Setenv(k, v); err != nil {
			return err
		}
	}
	if e.Cwd != "" {
		if err := os.MkdirAll(e.Cwd, 0o700); err != nil {
			return err
		}
		if err := os.Chdir(e.Cwd); err != nil {
			return err
		}
	}
	if e.Umask >= 0 {
		syscall.Umask(e.Umask)
	}
	return nil
}

// ---------------------------------------------------------------------------------------------------------------
// clause / tags of environment and golden cases

func (c *tcase) rightClause(def string) string {
	switch {
	case c.Section == "golden":
		return "golden-keyfile-loads"
	case c.Section == "environment" && c.SaveEnv != c.LoadEnv:
		return "loads-in-other-environment"
	}
	return def
}

func (c *tcase) envTags() []string {
	if c.Section != "environment" && c.Section != "golden" {
		return nil
	}
	var t []string
	if c.Golden != "" {
		t = append(t, "written-earlier", "golden="+c.Golden)
	}
	if c.SaveEnv == c.LoadEnv {
		t = append(t, "same-environment")
	} else {
		t = append(t, "other-environment")
	}
	return append(t, "save-env="+c.SaveEnv, "load-env="+c.LoadEnv)
}

func addrIs(s signer.Signer, want []byte) bool {
	a, err := s.GetAddress()
	return err == nil && bytes.Equal(a, want)
}

// ---------------------------------------------------------------------------------------------------------------
// golden key files

type goldenVec struct {
	Name       string `json:"name"`
	Origin     string `json:"origin"` // created | imported | legacy
	PassName   string `json:"passphrase_name"`
	Passphrase []byte `json:"passphrase"`  // base64
	SignerJSON string `json:"signer_json"` // the file, verbatim
	PrivKey    []byte `json:"priv_key"`    // base64 of the raw 64-byte throw-away test key in that file
	PubKey     string `json:"pub_key"`     // hex
	Address    string `json:"address"`     // hex
}

type goldenFile struct {
	Note    string      `json:"note"`
	Vectors []goldenVec `json:"vectors"`
}

func goldenPath() string { return filepath.Join(vf.Root(), "golden", "c19.json") }

func loadGolden() (*goldenFile, error) {
	bz, err := os.ReadFile(goldenPath())
	if err != nil {
		return nil, err
	}
	var g goldenFile
	if err := json.Unmarshal(bz, &g); err != nil {
		return nil, err
	}
	if len(g.Vectors) == 0 {
		return nil, fmt.Errorf("%s holds no vectors", goldenPath())
	}
	for _, v := range g.Vectors {
		pub, e1 := hex.DecodeString(v.PubKey)
		addr, e2 := hex.DecodeString(v.Address)
		if e1 != nil || e2 != nil || len(v.PrivKey) != 64 || !bytes.Equal(pub, v.PrivKey[32:]) || len(addr) == 0 {
			return nil, fmt.Errorf("%s: vector %s is malformed", goldenPath(), v.Name)
		}
	}
	return &g, nil
}

// writeGolden lets the tree at hand write the key files (real CreateFileSystemSigner / ImportPrivateKey; the legacy
// file is harness-written as everywhere in this check) from a fixed seed of its own.
func writeGolden(t *testing.T, root string) error {
	cryptotest.SetGlobalRandom(t, 1903)
	defer cryptotest.SetGlobalRandom(t, 19)
	P := passphrases()
	g := goldenFile{Note: "C19 golden key files, generated once from the pinned tree with `VERIF_C19_GOLDEN=write ./check C19 quick` " +
		"(seeded randomness, throw-away test keys); every run of the check opens them in every environment it sweeps and compares key and address."}
	add := func(name, origin string, p pass, file, priv []byte) error {
		k, err := crypto.UnmarshalEd25519PrivateKey(priv)
		if err != nil {
			return err
		}
		pub, err := k.GetPublic().Raw()
		if err != nil {
			return err
		}
		g.Vectors = append(g.Vectors, goldenVec{Name: name, Origin: origin, PassName: p.name, Passphrase: p.b, SignerJSON: string(file), PrivKey: priv,
			PubKey: hex.EncodeToString(pub), Address: hex.EncodeToString(types.KeyAddress(k.GetPublic()))})
		return nil
	}
	var last base
	for _, p := range []pass{P[0], {"fixed", fixedPass}, P[4]} {
		dir, err := os.MkdirTemp(root, "golden-")
		if err != nil {
			return err
		}
		if _, err, pan := safeCreate(dir, p.b); err != nil || pan != "" {
			return fmt.Errorf("create under <%s>: %v %s", p.name, err, pan)
		}
		bz, err := os.ReadFile(filepath.Join(dir, "signer.json"))
		if err != nil {
			return err
		}
		k, err, pan := safeExport(dir, p.b)
		if err != nil || pan != "" {
			return fmt.Errorf("export under <%s>: %v %s", p.name, err, pan)
		}
		if err := add("created-"+p.name, "created", p, bz, k); err != nil {
			return err
		}
		last = base{file: bz, priv: k}
	}
	dir, err := os.MkdirTemp(root, "golden-")
	if err != nil {
		return err
	}
	ip := P[7]
	if err, pan := safeImport(dir, last.priv, ip.b); err != nil || pan != "" {
		return fmt.Errorf("import: %v %s", err, pan)
	}
	bz, err := os.ReadFile(filepath.Join(dir, "signer.json"))
	if err != nil {
		return err
	}
	if err := add("imported-"+ip.name, "imported", ip, bz, last.priv); err != nil {
		return err
	}
	lb, pan := mkLegacy(pass{"fixed", fixedPass})
	if pan != "" {
		return fmt.Errorf("legacy: %s", pan)
	}
	if err := add("legacy-fixed", "legacy", pass{"fixed", fixedPass}, lb.file, lb.priv); err != nil {
		return err
	}
	out, err := json.MarshalIndent(g, "", " ")
	if err != nil {
		return err
	}
	if err := os.MkdirAll(filepath.Dir(goldenPath()), 0o755); err != nil {
		return err
	}
	return os.WriteFile(goldenPath(), append(out, '\n'), 0o644)
}

// goldenCase: op load | export with the recorded passphrase, or load with a wrong one.
func goldenCase(v goldenVec, op string, right bool, loadEnv string) *tcase {
	addr, _ := hex.DecodeString(v.Address)
	c := &tcase{Section: "golden", Op: op, Origin: v.Origin, File: []byte(v.SignerJSON), Priv: v.PrivKey, SaveName: v.PassName, SavePass: v.Passphrase,
		LoadName: v.PassName, LoadPass: v.Passphrase, Mut: mutation{Kind: "none"}, SaveEnv: "golden", LoadEnv: loadEnv, Golden: v.Name, Addr: addr}
	if !right {
		c.LoadName, c.LoadPass = wrongPass.name, wrongPass.b
	}
	return c
}

// ---------------------------------------------------------------------------------------------------------------
// other processes

type childOp struct {
	Op   string `json:"op"` // load | export
	File []byte `json:"file"`
	Pass []byte `json:"pass"`
}

type childSpec struct {
	Seed       uint64    `json:"seed"`
	Ops        []childOp `json:"ops"`
	CreatePass []byte    `json:"create_pass"`
	Create     bool      `json:"create"`
	Hostname   string    `json:"hostname,omitempty"` // set it first (the process was started in its own UTS namespace)
}

type childRes struct {
	Err   string `json:"err,omitempty"`
	Panic string `json:"panic,omitempty"`
	Pub   []byte `json:"pub,omitempty"`
	Addr  []byte `json:"addr,omitempty"`
	Sig   []byte `json:"sig,omitempty"` // over childMsg
	Key   []byte `json:"key,omitempty"` // export
	File  []byte `json:"file,omitempty"`
}

type childOut struct {
	NumCPU     int        `json:"num_cpu"`
	GoMaxProcs int        `json:"gomaxprocs"`
	Hostname   string     `json:"hostname"`
	Ops        []childRes `json:"ops"`
	Created    childRes   `json:"created"`
}

var childMsg = []byte("c19 message")

// TestChild is the other process: it only calls the code under test and reports facts; the parent judges.
func TestChild(t *testing.T) {
	p := os.Getenv("VERIF_C19_CHILD")
	if p == "" {
		t.Skip("only run as a child of TestCheck")
	}
	bz, err := os.ReadFile(p)
	if err != nil {
		t.Fatal(err)
	}
	var spec childSpec
	if err := json.Unmarshal(bz, &spec); err != nil {
		t.Fatal(err)
	}
	if spec.Hostname != "" {
		_ = syscall.Sethostname([]byte(spec.Hostname)) // the parent reads what os.Hostname reports afterwards
	}
	cryptotest.SetGlobalRandom(t, spec.Seed)
	root, err := os.MkdirTemp("", "c19-child-")
	if err != nil {
		t.Fatal(err)
	}
	defer os.RemoveAll(root)
	out := childOut{NumCPU: runtime.NumCPU(), GoMaxProcs: runtime.GOMAXPROCS(0)}
	out.Hostname, _ = os.Hostname()
	for i, op := range spec.Ops {
		dir := filepath.Join(root, fmt.Sprintf("op%d", i))
		if err := os.MkdirAll(dir, 0o700); err != nil {
			t.Fatal(err)
		}
		if err := os.WriteFile(filepath.Join(dir, "signer.json"), op.File, 0o600); err != nil {
			t.Fatal(err)
		}
		var res childRes
		switch op.Op {
		case "load":
			s, err, pan := safeLoad(dir, op.Pass)
			res.Panic = pan
			if err != nil {
				res.Err = err.Error()
			} else if pan == "" {
				res = describeSigner(s)
			}
		case "export":
			k, err, pan := safeExport(dir, op.Pass)
			res.Panic, res.Key = pan, k
			if err != nil {
				res.Err = err.Error()
			}
		}
		out.Ops = append(out.Ops, res)
	}
	if spec.Create {
		dir := filepath.Join(root, "create")
		_, err, pan := safeCreate(dir, spec.CreatePass)
		out.Created.Panic = pan
		if err != nil {
			out.Created.Err = err.Error()
		} else if pan == "" {
			out.Created.File, _ = os.ReadFile(filepath.Join(dir, "signer.json"))
			k, err, pan := safeExport(dir, spec.CreatePass)
			out.Created.Key, out.Created.Panic = k, pan
			if err != nil {
				out.Created.Err = "export of the file just created: " + err.Error()
			}
		}
	}
	bz, err = json.Marshal(out)
	if err != nil {
		t.Fatal(err)
	}
	if err := os.WriteFile(p+".out", bz, 0o600); err != nil {
		t.Fatal(err)
	}
}

func describeSigner(s signer.Signer) (res childRes) {
	defer func() {
		if r := recover(); r != nil {
			res.Panic = fmt.Sprintf("using the loaded signer panics: %v", r)
		}
	}()
	if s == nil {
		res.Err = "nil signer and nil error"
		return
	}
	pub, err := s.GetPublic()
	if err != nil || pub == nil {
		res.Err = fmt.Sprintf("GetPublic: %v", err)
		return
	}
	if res.Pub, err = pub.Raw(); err != nil {
		res.Err = "Raw: " + err.Error()
		return
	}
	if res.Addr, err = s.GetAddress(); err != nil {
		res.Err = "GetAddress: " + err.Error()
		return
	}
	if res.Sig, err = s.Sign(childMsg); err != nil {
		res.Err = "Sign: " + err.Error()
	}
	return
}

// allowedCPUs reads the affinity mask of this process (Cpus_allowed_list in /proc/self/status).
func allowedCPUs() []int {
	bz, err := os.ReadFile("/proc/self/status")
	if err != nil {
		return nil
	}
	var out []int
	for _, ln := range strings.Split(string(bz), "\n") {
		if !strings.HasPrefix(ln, "Cpus_allowed_list:") {
			continue
		}
		for _, part := range strings.Split(strings.TrimSpace(strings.TrimPrefix(ln, "Cpus_allowed_list:")), ",") {
			lo, hi, isRange := strings.Cut(part, "-")
			a, err := strconv.Atoi(lo)
			if err != nil {
				return nil
			}
			b := a
			if isRange {
				if b, err = strconv.Atoi(hi); err != nil {
					return nil
				}
			}
			for i := a; i <= b; i++ {
				out = append(out, i)
			}
		}
	}
	return out
}

// childProc is a started child process.
type childProc struct {
	name string
	how  string
	cmd  *exec.Cmd
	msg  *bytes.Buffer
	sp   string
}

// startChild re-executes this test binary as environment e and returns as soon as the process exists (everything that
// reads this process's globals happens before it returns). The affinity is set with taskset(1); if that is impossible
// (no taskset, fewer CPUs) the CPU count is imposed through the GOMAXPROCS variable instead and `how` says so; likewise
// for the host name when no UTS namespace can be created.
func startChild(exe, root string, idx int, e envSpec, spec childSpec) (*childProc, error) {
	if e.Host != "" {
		spec.Hostname = e.Host
		if p, err := startChildOnce(exe, root, idx, e, spec, true); err == nil {
			p.how += "; hostname set in a new UTS namespace"
			return p, nil
		}
		spec.Hostname = ""
		p, err := startChildOnce(exe, root, idx, e, spec, false)
		if err == nil {
			p.how += "; hostname unchanged (no UTS namespace available)"
		}
		return p, err
	}
	return startChildOnce(exe, root, idx, e, spec, false)
}

func startChildOnce(exe, root string, idx int, e envSpec, spec childSpec, newUTS bool) (*childProc, error) {
	p := &childProc{name: e.Name, sp: filepath.Join(root, fmt.Sprintf("child-%d.json", idx)), msg: &bytes.Buffer{}}
	_ = os.Remove(p.sp + ".out")
	bz, err := json.Marshal(spec)
	if err != nil {
		return nil, err
	}
	if err := os.WriteFile(p.sp, bz, 0o600); err != nil {
		return nil, err
	}
	args := []string{"-test.run", "^TestChild$", "-test.timeout", "0"}
	env := map[string]string{}
	for _, kv := range os.Environ() {
		k, v, _ := strings.Cut(kv, "=")
		env[k] = v
	}
	delete(env, "GOMAXPROCS")
	for k, v := range e.Vars {
		env[k] = v
	}
	env["VERIF_C19_CHILD"] = p.sp
	name := exe
	p.how = "environment variables"
	if e.Cpus > 0 {
		cpus := allowedCPUs()
		ts, lerr := exec.LookPath("taskset")
		if lerr == nil && len(cpus) > e.Cpus {
			var l []string
			for _, c := range cpus[len(cpus)-e.Cpus:] {
				l = append(l, strconv.Itoa(c))
			}
			name, args = ts, append([]string{"-c", strings.Join(l, ","), exe}, args...)
			delete(env, "GOMAXPROCS")
			p.how = "taskset -c " + strings.Join(l, ",")
		} else {
			env["GOMAXPROCS"] = strconv.Itoa(e.Cpus)
			p.how = "GOMAXPROCS variable (no taskset or too few CPUs)"
		}
	}
	p.cmd = exec.Command(name, args...)
	p.cmd.Dir = root
	p.cmd.Stdout, p.cmd.Stderr = p.msg, p.msg
	if newUTS {
		p.cmd.SysProcAttr = &syscall.SysProcAttr{Cloneflags: syscall.CLONE_NEWUTS}
	}
	keys := make([]string, 0, len(env))
	for k := range env {
		keys = append(keys, k)
	}
	sort.Strings(keys)
	for _, k := range keys {
		p.cmd.Env = append(p.cmd.Env, k+"="+env[k])
	}
	if err := p.cmd.Start(); err != nil {
		return nil, err
	}
	return p, nil
}

func (p *childProc) wait() (out childOut, err error) {
	rerr := p.cmd.Wait()
	res, err := os.ReadFile(p.sp + ".out")
	if err != nil {
		return out, fmt.Errorf("child %s produced no result (%v): %s", p.name, rerr, tail(p.msg.String(), 400))
	}
	return out, json.Unmarshal(res, &out)
}

func runChild(exe, root string, idx int, e envSpec, spec childSpec) (out childOut, how string, err error) {
	p, err := startChild(exe, root, idx, e, spec)
	if err != nil {
		return out, "", err
	}
	out, err = p.wait()
	return out, p.how, err
}

func tail(s string, n int) string {
	if len(s) > n {
		return s[len(s)-n:]
	}
	return s
}

// judgeChild applies the same oracle as evaluate to the facts a child reported for case c.
func judgeChild(c *tcase, res childRes) (v verdict) {
	v.nontrivial = true
	add := func(clause, msg string) {
		v.viol = append(v.viol, c.violation(clause, msg))
		if v.outcome == "" {
			v.outcome = "violation:" + clause
		}
	}
	defer func() {
		v.outcome = c.Section + "|" + c.Op + "|" + c.Origin + "|" + v.outcome
	}()
	right := bytes.Equal(c.SavePass, c.LoadPass)
	wrongClause := "wrong-passphrase-rejected"
	if c.Origin == "legacy" {
		wrongClause = "legacy-passphrase-distinguishes"
	}
	what := map[string]string{"load": "LoadFileSystemSigner", "export": "ExportPrivateKey"}[c.Op]
	switch {
	case res.Panic != "":
		add("panic", what+" panics in the other process: "+res.Panic)
	case res.Err != "":
		if right {
			add(c.rightClause("right-passphrase-loads-same-key"), what+" fails in the other process on an intact file with the right passphrase: "+res.Err)
		} else {
			v.outcome = "err:rejected"
		}
	case !right:
		add(wrongClause, what+" succeeds in the other process although the passphrase differs from the one the key was saved with")
	case c.Op == "export":
		if !bytes.Equal(res.Key, c.Priv) {
			add(c.rightClause("export-import"), "ExportPrivateKey in the other process returns bytes that are not the saved private key")
		} else {
			v.outcome = "ok"
		}
	default:
		origPriv, err := crypto.UnmarshalEd25519PrivateKey(c.Priv)
		if err != nil {
			v.outcome = "engine:original key does not parse"
			return
		}
		origPub := origPriv.GetPublic()
		ok, verr := origPub.Verify(childMsg, res.Sig)
		switch {
		case !bytes.Equal(res.Pub, c.Priv[32:]):
			add(c.rightClause("right-passphrase-loads-same-key"), "the signer loaded in the other process reports a public key different from the one that was saved")
		case verr != nil || !ok:
			add(c.rightClause("right-passphrase-loads-same-key"), "a signature made by the signer loaded in the other process does not verify under the original public key")
		case !bytes.Equal(res.Addr, types.KeyAddress(origPub)):
			add("loaded-signer-consistent", fmt.Sprintf("address %x reported in the other process differs from types.KeyAddress(pub)", res.Addr))
		case c.Addr != nil && !bytes.Equal(res.Addr, c.Addr):
			add("golden-address", fmt.Sprintf("the signer loaded from a key file written earlier reports an address different from the one recorded then (%x)", c.Addr))
		default:
			v.outcome = "ok"
		}
	}
	return
}

// ---------------------------------------------------------------------------------------------------------------
// the environment phase

type envResult struct {
	evaluations int64
	counts      map[string]int
	bounds      map[string]any
}

type envFile struct {
	env      string
	p        pass
	created  base
	imported base
	ip       pass
}

// writeIn writes, in the environment that is currently applied, a created file under p and an imported file holding
// the same key under ip.
func writeIn(r *vf.Run, root, env string, p, ip pass) envFile {
	f := envFile{env: env, p: p, ip: ip}
	f.created = mkCreated(r, root, p)
	if !f.created.ok {
		return f
	}
	dir, _ := os.MkdirTemp(root, "imported-")
	c := &tcase{Section: "environment", Op: "load", Origin: "imported", Priv: f.created.priv, SaveName: ip.name, SavePass: ip.b, LoadName: ip.name, LoadPass: ip.b, Mut: mutation{Kind: "none"}, SaveEnv: env, LoadEnv: env}
	if err, pan := safeImport(dir, f.created.priv, ip.b); pan != "" {
		r.Report(vf.Violation{Clause: "panic", Tags: []string{"origin=imported", "op=import"}, Msg: "ImportPrivateKey panics: " + pan, Cost: len(ip.b), History: c})
		return f
	} else if err != nil {
		r.Report(vf.Violation{Clause: "export-import", Tags: []string{"origin=imported", "op=import"}, Msg: "ImportPrivateKey fails on an exported key: " + err.Error(), Cost: len(ip.b), History: c})
		return f
	}
	bz, err := os.ReadFile(filepath.Join(dir, "signer.json"))
	if err != nil {
		r.Report(vf.Violation{Clause: "export-import", Tags: []string{"origin=imported", "op=import"}, Msg: "ImportPrivateKey wrote no signer.json: " + err.Error(), Cost: len(ip.b), History: c})
		return f
	}
	f.imported = base{file: bz, priv: f.created.priv, ok: true}
	return f
}

// casesFor: what is done in environment loadEnv with the files written in f.env.
func casesFor(f envFile, loadEnv string) []*tcase {
	var cs []*tcase
	mk := func(op, origin string, b base, save, load pass) {
		if !b.ok {
			return
		}
		cs = append(cs, &tcase{Section: "environment", Op: op, Origin: origin, File: b.file, Priv: b.priv, SaveName: save.name, SavePass: save.b, LoadName: load.name, LoadPass: load.b,
			Mut: mutation{Kind: "none"}, SaveEnv: f.env, LoadEnv: loadEnv})
	}
	mk("load", "created", f.created, f.p, f.p)
	mk("load", "created", f.created, f.p, wrongPass)
	mk("export", "created", f.created, f.p, f.p)
	mk("load", "imported", f.imported, f.ip, f.ip)
	return cs
}

func envPhase(t *testing.T, r *vf.Run, root string, g *goldenFile, tally func(vf.Violation)) (res envResult) {
	res.counts = map[string]int{}
	res.bounds = map[string]any{}
	thorough := r.Thorough()
	cryptotest.SetGlobalRandom(t, 1902)
	defer cryptotest.SetGlobalRandom(t, 19)
	exe, err := os.Executable()
	if err != nil {
		r.EngineError("os.Executable: " + err.Error())
		return
	}
	ctl, err := newEnvCtl()
	if err != nil {
		r.EngineError(err.Error())
		return
	}
	defer ctl.restore()
	dir := filepath.Join(root, "env")
	if err := os.MkdirAll(dir, 0o700); err != nil {
		r.EngineError(err.Error())
		return
	}
	P := passphrases()
	savePs := []pass{{"fixed", fixedPass}}
	if thorough {
		savePs = append(savePs, P[0], P[7])
	}
	importP := P[4]
	engine := 0
	nsample := 0
	record := func(c *tcase, v verdict, section string) {
		if strings.Contains(v.outcome, "|engine:") {
			if engine++; engine == 1 {
				r.EngineError(v.outcome)
			}
			return
		}
		for _, x := range v.viol {
			r.Report(x)
			tally(x)
		}
		r.Outcome(v.outcome)
		res.evaluations++
		res.counts[section]++
		if nsample++; nsample%97 == 1 {
			r.Sample(c.describe() + " => " + v.outcome)
		}
	}

	// (a) in-process sweep, group by group
	var parentFiles []envFile // written as-started: what the child processes get
	sweep := func(grp []envSpec) bool {
		var files []envFile
		for _, a := range grp {
			if err := ctl.apply(a); err != nil {
				r.EngineError("cannot enter environment " + a.Name + ": " + err.Error())
				return false
			}
			for _, p := range savePs {
				f := writeIn(r, root, a.Name, p, importP)
				files = append(files, f)
				if a.Name == envAsStarted {
					parentFiles = append(parentFiles, f)
				}
			}
		}
		for _, b := range grp {
			if err := ctl.apply(b); err != nil {
				r.EngineError("cannot enter environment " + b.Name + ": " + err.Error())
				return false
			}
			var cs []*tcase
			for _, f := range files {
				cs = append(cs, casesFor(f, b.Name)...)
			}
			// (c) files written earlier, opened in this environment (the ambient group only in the thorough tier:
			// the golden files were not written in any of its profiles either way)
			if grp[0].Group == "gomaxprocs" || thorough {
				for _, v := range g.Vectors {
					cs = append(cs, goldenCase(v, "load", true, b.Name))
				}
			}
			for i, v := range evalAll(cs, dir) {
				sec := "environment_" + grp[0].Group + "_cases"
				if cs[i].Section == "golden" {
					sec = "golden_in_environment_cases"
				}
				record(cs[i], v, sec)
			}
		}
		names := make([]string, len(grp))
		for i, e := range grp {
			names[i] = e.Name
		}
		res.bounds["environments_"+grp[0].Group] = names
		res.bounds["ordered_pairs_"+grp[0].Group] = len(grp) * len(grp) * len(savePs)
		ctl.restore()
		return true
	}
	if !sweep(ambientEnvs(root)) {
		return
	}

	// (b) other processes: started here, with this process's globals as they were at its start, and collected after
	// the GOMAXPROCS sweep (they share nothing with this process; only their exit is awaited meanwhile)
	pes := processEnvs()
	type childRun struct {
		cases []*tcase
		proc  *childProc
		out   childOut
		err   error
	}
	runs := make([]childRun, len(pes))
	for i, e := range pes {
		var spec childSpec
		spec.Seed = 1910 + uint64(i)
		spec.Create, spec.CreatePass = true, fixedPass
		for _, f := range parentFiles {
			runs[i].cases = append(runs[i].cases, casesFor(f, e.Name)...)
		}
		for _, v := range g.Vectors {
			runs[i].cases = append(runs[i].cases, goldenCase(v, "load", true, e.Name))
		}
		for _, c := range runs[i].cases {
			spec.Ops = append(spec.Ops, childOp{Op: c.Op, File: c.File, Pass: c.LoadPass})
		}
		runs[i].proc, runs[i].err = startChild(exe, root, i, e, spec)
	}
	ok := sweep(procsEnvs(thorough))
	for i := range runs {
		if runs[i].proc != nil {
			runs[i].out, runs[i].err = runs[i].proc.wait()
		}
	}
	if !ok {
		return
	}
	procInfo := map[string]any{}
	for i, e := range pes {
		cr := runs[i]
		if cr.err != nil || len(cr.out.Ops) != len(cr.cases) {
			r.EngineError(fmt.Sprintf("child process %s: %v (%d of %d results)", e.Name, cr.err, len(cr.out.Ops), len(cr.cases)))
			continue
		}
		procInfo[e.Name] = map[string]any{"set_by": cr.proc.how, "runtime.NumCPU": cr.out.NumCPU, "runtime.GOMAXPROCS": cr.out.GoMaxProcs, "os.Hostname": cr.out.Hostname}
		for j, c := range cr.cases {
			sec := "process_cases"
			if c.Section == "golden" {
				sec = "golden_in_process_cases"
			}
			record(c, judgeChild(c, cr.out.Ops[j]), sec)
		}
		// the file the child wrote, opened here
		cc := &tcase{Section: "environment", Op: "load", Origin: "created", Priv: make([]byte, 64), SaveName: "fixed", SavePass: fixedPass, LoadName: "fixed", LoadPass: fixedPass, Mut: mutation{Kind: "none"}, SaveEnv: e.Name, LoadEnv: envAsStarted}
		switch w := cr.out.Created; {
		case w.Panic != "":
			x := vf.Violation{Clause: "panic", Tags: []string{"origin=created", "op=create", "save-env=" + e.Name}, Msg: "CreateFileSystemSigner / ExportPrivateKey panics in the other process: " + w.Panic, Cost: len(fixedPass), History: cc}
			r.Report(x)
			tally(x)
		case w.Err != "" || len(w.Key) != 64 || len(w.File) == 0:
			x := vf.Violation{Clause: "right-passphrase-loads-same-key", Tags: []string{"origin=created", "op=create", "save-env=" + e.Name}, Msg: fmt.Sprintf("CreateFileSystemSigner followed by ExportPrivateKey in the other process: %s (key %d bytes, file %d bytes)", w.Err, len(w.Key), len(w.File)), Cost: len(fixedPass), History: cc}
			r.Report(x)
			tally(x)
		default:
			f := envFile{env: e.Name, p: pass{"fixed", fixedPass}, created: base{file: w.File, priv: w.Key, ok: true}}
			for _, c := range casesFor(f, envAsStarted) {
				record(c, evaluate(c, dir), "process_cases")
			}
		}
	}
	res.bounds["environments_process"] = procInfo
	res.bounds["environment_save_passphrases"] = len(savePs)
	res.bounds["environment_ops"] = "per (written-in, opened-in): Load right passphrase (same key, address), Load wrong passphrase (must fail), ExportPrivateKey (same bytes), Load of the file ImportPrivateKey wrote for the same key under another passphrase; golden files: Load in every environment"
	return
}

// evalAll evaluates cases inside the environment that is currently applied. Where that environment has the processors
// for it, a few cases run side by side (each Argon2 derivation uses 4); all of them have ended when evalAll returns,
// so nothing runs while the process globals are switched. Verdicts come back in input order.
func evalAll(cs []*tcase, dir string) []verdict {
	out := make([]verdict, len(cs))
	par := min(runtime.GOMAXPROCS(0)/4, 4)
	if par <= 1 {
		for i, c := range cs {
			out[i] = evaluate(c, dir)
		}
		return out
	}
	var wg sync.WaitGroup
	for w := 0; w < par; w++ {
		wg.Add(1)
		go func(w int) {
			defer wg.Done()
			d := filepath.Join(dir, fmt.Sprintf("p%d", w))
			if err := os.MkdirAll(d, 0o700); err != nil {
				d = dir // evaluate reports the engine error
			}
			for i := w; i < len(cs); i += par {
				out[i] = evaluate(cs[i], d)
			}
		}(w)
	}
	wg.Wait()
	return out
}

// evaluateIn is evaluate for a case that names the environment it is opened in (replay of one recorded history).
func evaluateIn(c *tcase, root string) (verdict, error) {
	if c.LoadEnv == "" || c.LoadEnv == envAsStarted {
		return evaluate(c, root), nil
	}
	e, ok := findEnv(root, c.LoadEnv)
	if !ok {
		return verdict{}, fmt.Errorf("unknown environment %q", c.LoadEnv)
	}
	if e.Group == "process" {
		exe, err := os.Executable()
		if err != nil {
			return verdict{}, err
		}
		out, _, err := runChild(exe, root, 0, e, childSpec{Seed: 1910, Ops: []childOp{{Op: c.Op, File: c.input(), Pass: c.LoadPass}}})
		if err != nil || len(out.Ops) != 1 {
			return verdict{}, fmt.Errorf("child process: %v", err)
		}
		return judgeChild(c, out.Ops[0]), nil
	}
	ctl, err := newEnvCtl()
	if err != nil {
		return verdict{}, err
	}
	defer ctl.restore()
	if err := ctl.apply(e); err != nil {
		return verdict{}, err
	}
	return evaluate(c, root), nil
}
