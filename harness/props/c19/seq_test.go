package c19

import (
	"bytes"
	"crypto/ed25519"
	"crypto/sha256"
	"encoding/json"
	"fmt"
	"os"
	"path/filepath"
	"sort"
	"strings"
	"sync"
	"sync/atomic"
	"time"

	"github.com/libp2p/go-libp2p/core/crypto"

	"github.com/evstack/ev-node/pkg/signer"
	"github.com/evstack/ev-node/types"

	"verif/harness/explore"
	"verif/harness/vf"
)

// OPERATION SEQUENCES on one key directory (and on two, for operations that take a source and a target).
//
// Every other part of this check judges ONE create / load / export / import on a directory of its own. The property,
// however, speaks about a key that WAS saved: it must keep loading with its passphrase, to the same key, whatever was
// called on that directory in between — as long as no later operation replaced it and said so. The cases here keep the
// directories for a whole history of operations and compare every step with a small reference model:
//
//	model: each directory holds at most one key K (identified by its public key), saved under passphrase X.
//	  · an operation that REPORTS SUCCESS of a write has the effect it claims: create(X) → a fresh key under X,
//	    import(K', Y) → K' under Y (ImportPrivateKey is documented to overwrite), delete by hand → no key;
//	  · every other operation — a read (load, export), a REFUSED or FAILED call (create on a directory that holds a
//	    key, wrong passphrase, import of junk bytes), an operation on the other directory — leaves the key where it is;
//	  · load(X) gives a signer for K: it reports K's public key, its signatures verify under it, its address is the
//	    one verifiers derive (same oracle as everywhere in this check); load(other) is refused, without panic;
//	  · export(X) gives K's private key; export(other) is refused; export → import(dir', Y) makes dir' hold K under Y.
//
// Detector and verdict are kept apart so that the oracle demands no more than the statement: after every step the
// bytes of every key file are compared with what the model recorded at the last write. Equal ⇒ nothing to say. Not
// equal after an operation that was not a successful write to that directory ⇒ the SEMANTIC question is asked at
// once: does the saved key still load with its passphrase, to the same key? Only a "no" is a violation (clause
// saved-key-survives-later-operations); a file that was rewritten but still loads to K is recorded, not judged.
// Nothing is demanded about WHETHER create refuses an occupied directory (if it reports success the model follows it;
// counted as an outcome), about error texts, or about stray files next to signer.json (they only enter the state key).
//
// Two searches, both exhaustive within their bound:
//
//	(1) one directory, NO state merging: every history of exactly `depth` operations over the one-directory alphabet
//	    (plain nested loops; all shorter histories are its prefixes and are judged step by step). Read-only steps are
//	    therefore really repeated and interleaved (write, read, read / read, write, read ...).
//	(2) two directories, explicit-state search (explore.BFS): the alphabet adds export(src) → import(dst) in both
//	    directions; histories are merged when the model states agree (per directory: none | origin, passphrase; whether
//	    the two directories hold the same key; names of stray directory entries). Equal keys ⇒ equal futures because the
//	    code under test keeps nothing outside the directory (an assumption listed in the evidence; search (1) does not
//	    rely on it) and every step has just confirmed that the disk agrees with the model.
//
//	(3) one directory with by-hand key-file shapes as targets of the writes: shapes_test.go.
//
// Searches (1) and (2) execute one history of each pair that differs only by swapping the passphrases P and Q (or the
// directories a and b), see seqCanonical; the numbers before and after that reduction are in the evidence.
//
// Tags are computed from the history and the model only (operation, what the target held, how the passphrase relates
// to the saved one, what the model expects of the call), never from an error text.

type seqOp struct {
	Op    string `json:"op"`            // create | load | export | import-fixed | xfer | import-junk | delete | plant | reindent
	Dir   string `json:"dir"`           // the directory the operation works on (xfer: the import target)
	Src   string `json:"src,omitempty"` // xfer: the directory the key is exported from (with the passphrase it was saved under)
	Pass  string `json:"pass,omitempty"`
	Shape string `json:"shape,omitempty"` // plant: name of the file shape written over signer.json by hand (shapes_test.go)
}

func (o seqOp) String() string {
	switch o.Op {
	case "xfer":
		return fmt.Sprintf("export(%s,<its passphrase>)→import(%s,%s)", o.Src, o.Dir, o.Pass)
	case "delete", "import-junk", "reindent":
		return o.Op + "(" + o.Dir + ")"
	case "plant":
		return "plant(" + o.Dir + "," + o.Shape + ")"
	}
	return fmt.Sprintf("%s(%s,%s)", o.Op, o.Dir, o.Pass)
}

func seqString(ops []seqOp) string {
	s := make([]string, len(ops))
	for i, o := range ops {
		s[i] = o.String()
	}
	return strings.Join(s, " ; ")
}

var seqPassBytes = map[string][]byte{
	"P": []byte("correct horse battery staple"),
	"Q": []byte("Tr0ub4dor&3"),
	"E": {}, // the empty passphrase (third passphrase of the thorough tier)
}

func seqFixedKey() []byte {
	h := sha256.Sum256([]byte("verif-c19-sequence-key"))
	return ed25519.NewKeyFromSeed(h[:])
}

var seqJunkKey = []byte("not a key") // ImportPrivateKey must refuse it; whatever it does, a saved key must survive

// seqAlphabet. One directory: create, load, export, export→import in place (re-encrypt under another passphrase), each
// with every passphrase; junk import; delete by hand; with importFixed also the import of a fixed harness-made key
// with every passphrase (thorough tier: a directory whose FIRST key is an imported one; the quick tier reaches imported
// keys through export→import in both searches). Two directories: create, load, export on each with every passphrase,
// export(src)→import(dst) for both ordered pairs with every passphrase, junk import and delete on each (in-place
// re-encryption is left to the one-directory enumeration).
func seqAlphabet(dirs, passes []string, importFixed bool) []seqOp {
	var out []seqOp
	kinds := []string{"create", "load", "export"}
	if importFixed {
		kinds = append(kinds, "import-fixed")
	}
	for _, d := range dirs {
		for _, kind := range kinds {
			for _, p := range passes {
				out = append(out, seqOp{Op: kind, Dir: d, Pass: p})
			}
		}
		for _, s := range dirs {
			if len(dirs) > 1 && s == d {
				continue
			}
			for _, p := range passes {
				out = append(out, seqOp{Op: "xfer", Dir: d, Src: s, Pass: p})
			}
		}
		out = append(out, seqOp{Op: "import-junk", Dir: d}, seqOp{Op: "delete", Dir: d})
	}
	return out
}

// seqCanonical: symmetry reduction. The two passphrases P and Q enter every history only through which operations use
// equal ones, and the two directories only through which operations share one; swapping P with Q (or a with b) maps a
// history onto an equivalent one. Of each such pair exactly one is kept: the one whose first passphrase-bearing
// operation uses P (never Q; the empty passphrase E of the thorough tier is not part of the symmetry) and whose first
// operation works on directory a.
func seqCanonical(ops []seqOp) bool {
	if len(ops) > 0 && ops[0].Dir != "a" {
		return false
	}
	for _, o := range ops {
		if o.Pass == "P" || o.Pass == "E" {
			return true
		}
		if o.Pass == "Q" {
			return false
		}
	}
	return true
}

func alphabetNames(a []seqOp) []string {
	s := make([]string, len(a))
	for i, o := range a {
		s[i] = o.String()
	}
	return s
}

// ---------------------------------------------------------------------------------------------------------------
// the reference model and one run

type mkey struct {
	pub    crypto.PubKey
	priv   []byte // known once the harness has seen it (imported by the harness, or a judged export)
	pass   string
	origin string // created | imported | planted
	file   []byte // bytes of signer.json as read back after the write
	// files the package did not write in this form (shapes_test.go)
	shape  string // "" = as written by the package in this history; otherwise the name of the by-hand shape
	junk   bool   // the file holds NO key (empty, junk, a damaged key file); pub/priv/pass then describe the key it was damaged from, if any
	legacy bool   // salt-less format: opening it costs no Argon2 run
}

// holds: the key the model says the directory holds (nil: no file, or a file without a key).
func holds(e *mkey) *mkey {
	if e == nil || e.junk {
		return nil
	}
	return e
}

type seqRun struct {
	c       *tcase
	base    string
	m       map[string]*mkey
	viol    []vf.Violation
	stopped bool   // the history ended early (violation, or a state the model does not describe)
	last    string // result class of the last executed step
	pre     *mkey  // what the model knew about the target's key file BEFORE the step under execution (for the tags)
	ops     int
	kdf     int    // Argon2 key derivations the operations must have made according to the model (work measure)
	wrote   bool   // at least one successful write: the history reached key derivation
	over    string // set by the last step of the history when it is a successful (and, with SeqVerify, confirmed) write
	notes   map[string]bool
}

func (s *seqRun) path(d string) string { return filepath.Join(s.base, d) }

func readKeyFile(dir string) ([]byte, bool) {
	bz, err := os.ReadFile(filepath.Join(dir, "signer.json"))
	if err != nil {
		return nil, false
	}
	return bz, true
}

func (s *seqRun) tags(i int, expect string) []string {
	op := s.c.Seq[i]
	t := []string{"section=sequence", "op=" + op.Op, fmt.Sprintf("dirs=%d", len(s.c.SeqDirs)), "expect=" + expect}
	k := holds(s.pre)
	if s.pre != nil && s.pre.shape != "" {
		t = append(t, "target-file="+s.pre.shape)
	}
	if s.pre != nil && s.pre.junk {
		t = append(t, "target=file-without-key")
	} else if k == nil {
		t = append(t, "target=empty")
	} else {
		t = append(t, "target=holds-key")
		if op.Pass != "" && (op.Op == "create" || op.Op == "load" || op.Op == "export") {
			if op.Pass == k.pass {
				t = append(t, "passphrase=saved")
			} else {
				t = append(t, "passphrase=other")
			}
		}
	}
	if i > 0 {
		t = append(t, "prev="+s.c.Seq[i-1].Op)
	} else {
		t = append(t, "prev=none")
	}
	return t
}

func (s *seqRun) report(i int, clause, expect, msg string) {
	h := *s.c
	h.Seq = append([]seqOp(nil), s.c.Seq[:i+1]...)
	s.viol = append(s.viol, vf.Violation{Clause: clause, Tags: s.tags(i, expect),
		Msg:  fmt.Sprintf("step %d of [%s]: %s", i+1, seqString(h.Seq), msg),
		Cost: i + 1, History: &h})
	s.stopped = true
	s.last = "violation:" + clause
}

// judgeSigner: a signer the code returned for key k.
func (s *seqRun) judgeSigner(i int, expect, what string, sg signer.Signer, k *mkey) bool {
	var origPriv crypto.PrivKey
	if k.priv != nil {
		origPriv, _ = crypto.UnmarshalEd25519PrivateKey(k.priv)
	}
	switch kind, msg := checkSignerAgainst(sg, k.pub, origPriv); kind {
	case "":
		return true
	case "key":
		s.report(i, "right-passphrase-loads-same-key", expect, what+": "+msg)
	default:
		s.report(i, "loaded-signer-consistent", expect, what+": "+msg)
	}
	return false
}

// judgeExported: bytes ExportPrivateKey returned for key k.
func (s *seqRun) judgeExported(i int, expect string, got []byte, k *mkey) bool {
	pk, err := crypto.UnmarshalEd25519PrivateKey(got)
	switch {
	case err != nil:
		s.report(i, "export-import", expect, fmt.Sprintf("ExportPrivateKey returns %d bytes that are not an Ed25519 private key: %v", len(got), err))
	case !pk.GetPublic().Equals(k.pub):
		s.report(i, "export-import", expect, "ExportPrivateKey returns a private key that does not belong to the public key of the key saved in this directory")
	case k.priv != nil && !bytes.Equal(got, k.priv):
		s.report(i, "export-import", expect, "ExportPrivateKey returns bytes that differ from the private key that was imported / exported before")
	default:
		if k.priv == nil {
			k.priv = append([]byte(nil), got...)
		}
		return true
	}
	return false
}

// settle compares every key file with the model after step i (see the comment at the top: detector, then verdict).
func (s *seqRun) settle(i int, expect string) {
	for _, d := range s.c.SeqDirs {
		k := s.m[d]
		now, exists := readKeyFile(s.path(d))
		switch {
		case k == nil && !exists:
		case k == nil:
			// a key file appeared without a successful write: the model has nothing to say about it; not judged, not extended
			s.notes["stray-key-file-after-"+expect] = true
			s.stopped = true
			s.last = "unmodelled:key-file-appeared"
			return
		case exists && bytes.Equal(now, k.file):
		case k.junk:
			// a file WITHOUT a key was changed or removed by an operation that was not a successful write: there is no
			// saved key the statement could speak about; recorded, not judged (the model follows the disk)
			s.notes["file-without-key-changed-after-"+expect] = true
			if !exists {
				delete(s.m, d)
			} else {
				k.file, k.shape = now, k.shape+"*changed"
			}
		default:
			what := "was changed"
			if !exists {
				what = "is gone"
			}
			if exists && !k.legacy {
				s.kdf++
			}
			sg, err, pan := safeLoad(s.path(d), seqPassBytes[k.pass])
			pre := fmt.Sprintf("the key file of directory %s (%s key saved under %s) %s after an operation that is %s for it, and ", d, k.origin, k.pass, what, expect)
			switch {
			case pan != "":
				s.report(i, "panic", expect, pre+"LoadFileSystemSigner with the saved passphrase panics: "+pan)
				return
			case err != nil:
				s.report(i, "saved-key-survives-later-operations", expect, pre+"the saved key no longer loads with its passphrase: "+err.Error())
				return
			}
			var origPriv crypto.PrivKey
			if k.priv != nil {
				origPriv, _ = crypto.UnmarshalEd25519PrivateKey(k.priv)
			}
			if kind, msg := checkSignerAgainst(sg, k.pub, origPriv); kind != "" {
				s.report(i, "saved-key-survives-later-operations", expect, pre+"what loads with the saved passphrase is not the saved key: "+msg)
				return
			}
			s.notes["key-file-rewritten-but-still-loads"] = true
			k.file = now
		}
	}
}

func checkSignerAgainst(sg signer.Signer, origPub crypto.PubKey, origPriv crypto.PrivKey) (kind, msg string) {
	defer func() {
		if r := recover(); r != nil {
			kind, msg = "key", fmt.Sprintf("using the signer panics: %v", r)
		}
	}()
	if sg == nil {
		return "key", "a nil signer was returned with a nil error"
	}
	pub, err := sg.GetPublic()
	if err != nil || pub == nil {
		return "key", fmt.Sprintf("GetPublic: %v", err)
	}
	for _, m := range [][]byte{[]byte("c19 message"), {}} {
		sig, err := sg.Sign(m)
		if err != nil {
			return "key", fmt.Sprintf("Sign: %v", err)
		}
		if ok, err := pub.Verify(m, sig); err != nil || !ok {
			return "key", fmt.Sprintf("a signature made by the signer does not verify under the public key it reports (ok=%v err=%v)", ok, err)
		}
		if origPub != nil {
			if ok, err := origPub.Verify(m, sig); err != nil || !ok {
				return "key", fmt.Sprintf("a signature made by the signer does not verify under the public key of the saved key (ok=%v err=%v)", ok, err)
			}
		}
	}
	if origPub != nil && !pub.Equals(origPub) {
		return "key", "the signer reports a public key different from the one of the saved key"
	}
	addr, err := sg.GetAddress()
	if err != nil {
		return "address", fmt.Sprintf("GetAddress: %v", err)
	}
	if want := types.KeyAddress(pub); !bytes.Equal(addr, want) {
		return "address", fmt.Sprintf("address %x differs from types.KeyAddress(pub) %x", addr, want)
	}
	ts, err := types.NewSigner(pub)
	if err != nil || !bytes.Equal(addr, ts.Address) {
		return "address", fmt.Sprintf("address %x differs from types.NewSigner(pub).Address %x (%v)", addr, ts.Address, err)
	}
	if origPriv != nil {
		if kind, msg := checkSigner(sg, mustRaw(origPriv)); kind != "" { // adds the comparison with the noop signer's address
			return kind, msg
		}
	}
	return "", ""
}

func mustRaw(k crypto.PrivKey) []byte {
	bz, err := k.Raw()
	if err != nil {
		panic(err)
	}
	return bz
}

// written records a successful write into directory d: the file must be there; the model takes its bytes.
func (s *seqRun) written(i int, expect, d string, k *mkey, what string) bool {
	bz, ok := readKeyFile(s.path(d))
	if !ok {
		s.report(i, "right-passphrase-loads-same-key", expect, what+" reports success but there is no signer.json in the directory")
		return false
	}
	k.file = bz
	s.m[d] = k
	s.wrote = true
	return true
}

// confirmWrite (searches that set SeqVerify): a call that reported a successful write of key k under passphrase X has
// SAVED k under X — so it loads with X, to k, right away. This is what lets the file-shape search merge histories on
// the model state after a write (the disk has just been confirmed to agree with the model); the clause is the one the
// statement gives for the operation: right-passphrase-loads-same-key (create, import), export-import (export→import).
func (s *seqRun) confirmWrite(i int, expect, d, clause, what string) bool {
	if !s.c.SeqVerify {
		return true
	}
	k := s.m[d]
	s.kdf++
	sg, err, pan := safeLoad(s.path(d), seqPassBytes[k.pass])
	switch {
	case pan != "":
		s.report(i, "panic", expect, "LoadFileSystemSigner panics right after "+what+" reported success: "+pan)
	case err != nil:
		over := "a directory without a key file"
		if s.pre != nil {
			over = fmt.Sprintf("an existing signer.json of %d bytes (%s)", len(s.pre.file), s.pre.describe())
		}
		s.report(i, clause, expect, fmt.Sprintf("%s over %s reports success and leaves a signer.json of %d bytes, but the key it claims to have saved under %s does not load with that passphrase: %v", what, over, len(k.file), k.pass, err))
	default:
		return s.judgeSigner(i, expect, "the signer loaded right after "+what, sg, k)
	}
	return false
}

func (k *mkey) describe() string {
	sh := k.shape
	if sh == "" {
		sh = "as written by the package"
	}
	if k.junk {
		return "a file without a key: " + sh
	}
	return fmt.Sprintf("%s key saved under %s, %s", k.origin, k.pass, sh)
}

func (s *seqRun) step(i int) {
	op := s.c.Seq[i]
	dir := s.path(op.Dir)
	entry := s.m[op.Dir] // what the model knows about the target's key file (nil: there is none)
	k := holds(entry)    // the key it holds (nil also for a file without a key)
	s.pre = entry
	pass := seqPassBytes[op.Pass]
	s.ops++
	if i == len(s.c.Seq)-1 {
		defer func() {
			if now := s.m[op.Dir]; !s.stopped && now != nil && now != entry && now.shape == "" && (op.Op == "create" || op.Op == "import-fixed" || op.Op == "xfer") {
				was := "no key file"
				if entry != nil {
					was = "a package-written file"
					if entry.shape != "" {
						was = entry.shape
					}
				}
				s.over = op.Op + " over " + was
			}
		}()
	}
	switch src := holds(s.m[op.Src]); {
	case op.Op == "xfer" && src != nil && src.legacy:
		s.kdf++
	case op.Op == "xfer" && src != nil:
		s.kdf += 2
	case op.Op == "import-fixed", op.Op == "create" && entry == nil, (op.Op == "load" || op.Op == "export") && k != nil && !k.legacy:
		s.kdf++
	}
	switch op.Op {
	case "create":
		expect := "a write"
		if entry != nil {
			expect = "refused"
		}
		sg, err, pan := safeCreate(dir, pass)
		switch {
		case pan != "":
			s.report(i, "panic", expect, "CreateFileSystemSigner panics: "+pan)
			return
		case err != nil && entry == nil:
			s.report(i, "right-passphrase-loads-same-key", expect, "CreateFileSystemSigner fails on a directory that holds no key file: "+err.Error())
			return
		case err != nil && k == nil:
			// a signer.json without a key is in the way: whether create refuses it or replaces it is not judged
			s.last = "create:refused-file-without-key-in-the-way"
		case err != nil:
			s.last = "create:refused-directory-holds-a-key"
		default:
			if sg == nil {
				s.report(i, "right-passphrase-loads-same-key", expect, "CreateFileSystemSigner returns a nil signer and a nil error")
				return
			}
			pub, perr := func() (p crypto.PubKey, e error) {
				defer func() {
					if r := recover(); r != nil {
						e = fmt.Errorf("panic: %v", r)
					}
				}()
				return sg.GetPublic()
			}()
			if perr != nil || pub == nil {
				s.report(i, "loaded-signer-consistent", expect, fmt.Sprintf("GetPublic of the signer CreateFileSystemSigner returned: %v", perr))
				return
			}
			nk := &mkey{pub: pub, pass: op.Pass, origin: "created"}
			if !s.judgeSigner(i, expect, "the signer returned by CreateFileSystemSigner", sg, nk) {
				return
			}
			if k != nil {
				// not judged: the statement does not say that create must refuse; the model follows what the call reported
				s.notes["create-replaced-an-existing-key"] = true
				s.last = "create:replaced-existing-key"
			} else if entry != nil {
				s.notes["create-replaced-a-file-without-key"] = true
				s.last = "create:replaced-file-without-key"
			} else {
				s.last = "create:created"
			}
			if !s.written(i, expect, op.Dir, nk, "CreateFileSystemSigner") || !s.confirmWrite(i, expect, op.Dir, "right-passphrase-loads-same-key", "CreateFileSystemSigner") {
				return
			}
		}
		s.settle(i, expect)
	case "load":
		expect := "read-only"
		sg, err, pan := safeLoad(dir, pass)
		switch {
		case pan != "":
			s.report(i, "panic", expect, "LoadFileSystemSigner panics: "+pan)
			return
		case k == nil && err == nil && s.damagedStillItsKey(entry, op.Pass, sg, nil):
			return
		case k == nil && err == nil && entry != nil:
			s.report(i, "loaded-signer-consistent", expect, "LoadFileSystemSigner returns a signer from "+entry.describe())
			return
		case k == nil && err == nil:
			s.report(i, "loaded-signer-consistent", expect, "LoadFileSystemSigner returns a signer from a directory that holds no key")
			return
		case k == nil && entry != nil:
			s.last = "load:refused-file-without-key"
		case k == nil:
			s.last = "load:refused-no-key"
		case op.Pass != k.pass && err == nil:
			s.report(i, "wrong-passphrase-rejected", expect, fmt.Sprintf("LoadFileSystemSigner returns a signer although the key was saved under %s", k.pass))
			return
		case op.Pass != k.pass:
			s.last = "load:refused-wrong-passphrase"
		case err != nil:
			s.report(i, "right-passphrase-loads-same-key", expect, fmt.Sprintf("the %s key saved under %s no longer loads with %s: %v", k.origin, k.pass, k.pass, err))
			return
		default:
			if !s.judgeSigner(i, expect, "the signer loaded with the saved passphrase", sg, k) {
				return
			}
			s.last = "load:same-key"
		}
		s.settle(i, expect)
	case "export":
		expect := "read-only"
		got, err, pan := safeExport(dir, pass)
		switch {
		case pan != "":
			s.report(i, "panic", expect, "ExportPrivateKey panics: "+pan)
			return
		case k == nil && err == nil && s.damagedStillItsKey(entry, op.Pass, nil, got):
			return
		case k == nil && err == nil && entry != nil:
			s.report(i, "loaded-signer-consistent", expect, "ExportPrivateKey returns a key from "+entry.describe())
			return
		case k == nil && err == nil:
			s.report(i, "loaded-signer-consistent", expect, "ExportPrivateKey returns a key from a directory that holds no key")
			return
		case k == nil && entry != nil:
			s.last = "export:refused-file-without-key"
		case k == nil:
			s.last = "export:refused-no-key"
		case op.Pass != k.pass && err == nil:
			s.report(i, "wrong-passphrase-rejected", expect, fmt.Sprintf("ExportPrivateKey returns a key although the key was saved under %s", k.pass))
			return
		case op.Pass != k.pass:
			s.last = "export:refused-wrong-passphrase"
		case err != nil:
			s.report(i, "export-import", expect, fmt.Sprintf("the %s key saved under %s is no longer exported with %s: %v", k.origin, k.pass, k.pass, err))
			return
		default:
			if !s.judgeExported(i, expect, got, k) {
				return
			}
			s.last = "export:same-key"
		}
		s.settle(i, expect)
	case "import-fixed":
		expect := "a write"
		priv := seqFixedKey()
		if err, pan := safeImport(dir, priv, pass); pan != "" {
			s.report(i, "panic", expect, "ImportPrivateKey panics: "+pan)
			return
		} else if err != nil {
			s.report(i, "export-import", expect, "ImportPrivateKey fails on a valid Ed25519 private key: "+err.Error())
			return
		}
		pk, _ := crypto.UnmarshalEd25519PrivateKey(priv)
		if !s.written(i, expect, op.Dir, &mkey{pub: pk.GetPublic(), priv: priv, pass: op.Pass, origin: "imported"}, "ImportPrivateKey") ||
			!s.confirmWrite(i, expect, op.Dir, "right-passphrase-loads-same-key", "ImportPrivateKey") {
			return
		}
		s.last = "import:imported"
		if k != nil {
			s.last = "import:replaced-existing-key"
		} else if entry != nil {
			s.last = "import:replaced-file-without-key"
		}
		s.settle(i, expect)
	case "xfer":
		src := holds(s.m[op.Src])
		if src == nil {
			expect := "refused"
			got, err, pan := safeExport(s.path(op.Src), seqPassBytes["P"])
			if pan != "" {
				s.report(i, "panic", expect, "ExportPrivateKey panics: "+pan)
				return
			}
			if err == nil && s.damagedStillItsKey(s.m[op.Src], "P", nil, got) {
				return
			}
			if err == nil {
				s.report(i, "loaded-signer-consistent", expect, "ExportPrivateKey returns a key from a directory that holds no key")
				return
			}
			s.last = "xfer:refused-no-key"
			s.settle(i, expect)
			return
		}
		expect := "a write"
		got, err, pan := safeExport(s.path(op.Src), seqPassBytes[src.pass])
		switch {
		case pan != "":
			s.report(i, "panic", expect, "ExportPrivateKey panics: "+pan)
			return
		case err != nil:
			s.report(i, "export-import", expect, fmt.Sprintf("the %s key saved under %s in directory %s is no longer exported with %s: %v", src.origin, src.pass, op.Src, src.pass, err))
			return
		}
		if !s.judgeExported(i, expect, got, src) {
			return
		}
		if err, pan := safeImport(dir, got, pass); pan != "" {
			s.report(i, "panic", expect, "ImportPrivateKey panics: "+pan)
			return
		} else if err != nil {
			s.report(i, "export-import", expect, "ImportPrivateKey fails on an exported key: "+err.Error())
			return
		}
		if !s.written(i, expect, op.Dir, &mkey{pub: src.pub, priv: append([]byte(nil), got...), pass: op.Pass, origin: "imported"}, "ImportPrivateKey") ||
			!s.confirmWrite(i, expect, op.Dir, "export-import", "ImportPrivateKey of the key just exported") {
			return
		}
		s.last = "xfer:imported"
		if k != nil {
			s.last = "xfer:replaced-existing-key"
		} else if entry != nil {
			s.last = "xfer:replaced-file-without-key"
		}
		s.settle(i, expect)
	case "import-junk":
		expect := "refused"
		if err, pan := safeImport(dir, seqJunkKey, seqPassBytes["P"]); pan != "" {
			s.report(i, "panic", expect, "ImportPrivateKey panics on bytes that are not a key: "+pan)
			return
		} else if err == nil {
			// accepted junk: the model cannot say what the directory holds now; not judged, not extended
			s.notes["import-accepted-junk"] = true
			s.stopped = true
			s.last = "unmodelled:import-accepted-junk"
			return
		}
		s.last = "import-junk:refused"
		s.settle(i, expect)
	case "delete":
		if err := os.Remove(filepath.Join(dir, "signer.json")); err != nil && !os.IsNotExist(err) {
			s.stopped = true
			s.last = "engine:" + err.Error()
			return
		}
		delete(s.m, op.Dir)
		s.last = "delete:by-hand"
		s.settle(i, "a write")
	case "plant":
		// by hand: signer.json is replaced by a file the package did not write in this form (shapes_test.go)
		sh, msg := seqShapeByName(op.Shape)
		if sh == nil {
			s.stopped = true
			s.last = "engine:" + msg
			return
		}
		if err := os.MkdirAll(dir, 0o700); err == nil {
			err = os.WriteFile(filepath.Join(dir, "signer.json"), sh.file, 0o600)
			if err != nil {
				s.stopped = true
				s.last = "engine:" + err.Error()
				return
			}
		} else {
			s.stopped = true
			s.last = "engine:" + err.Error()
			return
		}
		s.m[op.Dir] = sh.entry()
		s.last = "plant:" + map[bool]string{true: "file-without-key", false: "file-with-key"}[sh.junk]
		s.settle(i, "a write")
	case "reindent":
		// by hand: the key file the package wrote is re-formatted in place (json.Indent): same key, same passphrase, longer file
		if k == nil || k.shape != "" {
			s.stopped = true
			s.last = "reindent:not-enabled"
			return
		}
		var buf bytes.Buffer
		if err := json.Indent(&buf, k.file, "", "  "); err != nil {
			s.stopped = true
			s.last = "reindent:not-enabled-file-is-not-json"
			return
		}
		if err := os.WriteFile(filepath.Join(dir, "signer.json"), buf.Bytes(), 0o600); err != nil {
			s.stopped = true
			s.last = "engine:" + err.Error()
			return
		}
		k.file, k.shape = buf.Bytes(), "reindented"
		s.last = "reindent:by-hand"
		s.settle(i, "a write")
	default:
		s.stopped = true
		s.last = "engine:unknown operation " + op.Op
	}
}

// damagedStillItsKey: a file the model counts as "without a key" because it was DAMAGED by hand (bytes appended to a
// valid key file) opened with the passphrase of the key it was made from, and the code returned exactly that key. The
// statement forbids a usable signer from a corrupted file only in the sense of a wrong one (cf. the assumption on
// mutated files that still decode to the original key material): recorded, not judged, and the history ends here.
func (s *seqRun) damagedStillItsKey(e *mkey, pass string, sg signer.Signer, exported []byte) bool {
	if e == nil || !e.junk || e.pub == nil || pass != e.pass {
		return false
	}
	if sg != nil {
		origPriv, _ := crypto.UnmarshalEd25519PrivateKey(e.priv)
		if kind, _ := checkSignerAgainst(sg, e.pub, origPriv); kind != "" {
			return false
		}
	} else if !bytes.Equal(exported, e.priv) {
		return false
	}
	s.notes["damaged-file-still-opens-to-its-key"] = true
	s.stopped = true
	s.last = "unmodelled:damaged-file-still-opens-to-its-key"
	return true
}

// stateKey is the canonical model state (see the comment at the top).
func (s *seqRun) stateKey() string {
	var parts []string
	var first crypto.PubKey
	for _, d := range s.c.SeqDirs {
		k := holds(s.m[d])
		p := d + ":-"
		if e := s.m[d]; e != nil && e.junk {
			p = d + ":file-without-key/" + e.shape
		}
		if k != nil {
			id := 0
			if first == nil {
				first = k.pub
			} else if !first.Equals(k.pub) {
				id = 1
			}
			p = fmt.Sprintf("%s:%s/%s/key%d", d, k.origin, k.pass, id)
			// the form of the file is part of the state: the by-hand shape, or — for a file the package wrote — its
			// length (all fields have a fixed length, so on a correct tree this adds no states)
			if k.shape != "" {
				p += "/shape=" + k.shape
			} else {
				p += fmt.Sprintf("/len=%d", len(k.file))
			}
		}
		var stray []string
		if es, err := os.ReadDir(s.path(d)); err == nil {
			for _, e := range es {
				if e.Name() != "signer.json" {
					stray = append(stray, e.Name())
				}
			}
		} else if !os.IsNotExist(err) {
			stray = append(stray, "unreadable")
		} else {
			p += "(no directory)"
		}
		sort.Strings(stray)
		if len(stray) > 0 {
			p += "+" + strings.Join(stray, ",")
		}
		parts = append(parts, p)
	}
	return strings.Join(parts, " | ")
}

var seqOpsExecuted, seqKDF atomic.Int64

// observations that are recorded and not judged (see the comment at the top), by name -> number of histories
var (
	seqNotesMu sync.Mutex
	seqNotes   = map[string]int{}
)

func seqNote(n string) {
	seqNotesMu.Lock()
	seqNotes[n]++
	seqNotesMu.Unlock()
}

func seqNotesSnapshot() map[string]int {
	seqNotesMu.Lock()
	defer seqNotesMu.Unlock()
	out := map[string]int{}
	for k, v := range seqNotes {
		out[k] = v
	}
	return out
}

// runSequence executes one whole history on fresh directories under root.
func runSequence(c *tcase, root string) (v verdict, key string, stopped bool, notes []string) {
	base, err := os.MkdirTemp(root, "seq-")
	if err != nil {
		v.outcome = "sequence|engine:" + err.Error()
		return v, "", true, nil
	}
	defer os.RemoveAll(base)
	s := &seqRun{c: c, base: base, m: map[string]*mkey{}, notes: map[string]bool{}, last: "empty-history"}
	for i := range c.Seq {
		s.step(i)
		if s.stopped {
			break
		}
	}
	seqOpsExecuted.Add(int64(s.ops))
	seqKDF.Add(int64(s.kdf))
	v.viol = s.viol
	v.nontrivial = s.wrote
	v.overwrote = s.over
	v.outcome = "sequence|" + s.last
	if strings.HasPrefix(s.last, "engine:") {
		v.outcome = "sequence|engine:" + strings.TrimPrefix(s.last, "engine:")
	}
	for n := range s.notes {
		notes = append(notes, n)
	}
	sort.Strings(notes)
	if !s.stopped {
		key = s.stateKey()
	}
	return v, key, s.stopped, notes
}

func (c *tcase) describeSeq() string {
	return fmt.Sprintf("sequence on %d director%s %v: %s", len(c.SeqDirs), map[bool]string{true: "y", false: "ies"}[len(c.SeqDirs) == 1], c.SeqDirs, seqString(c.Seq))
}

// ---------------------------------------------------------------------------------------------------------------
// the two searches

// seqOneDirCases: every history of exactly depth operations over the one-directory alphabet, in lexicographic order
// (the canonical one of each symmetric pair, see seqCanonical).
func seqOneDirCases(alpha []seqOp, depth int) []*tcase {
	var out []*tcase
	idx := make([]int, depth)
	for {
		seq := make([]seqOp, depth)
		for i, a := range idx {
			seq[i] = alpha[a]
		}
		if seqCanonical(seq) {
			out = append(out, &tcase{Section: "sequence", Op: "sequence", Origin: "created", Mut: mutation{Kind: "none"}, SeqDirs: []string{"a"}, Seq: seq})
		}
		i := depth - 1
		for i >= 0 {
			idx[i]++
			if idx[i] < len(alpha) {
				break
			}
			idx[i] = 0
			i--
		}
		if i < 0 {
			return out
		}
	}
}

type seqBFSResult struct {
	stats     explore.BFSStats
	executed  int64 // histories really executed (the others were the non-canonical twins of a symmetric pair)
	nontriv   int64
	alphabet  []string
	depth     int
	engineErr string
}

// seqTwoDirSearch: explicit-state search over histories on two directories.
func seqTwoDirSearch(r *vf.Run, root string, passes []string, depth, workers int, deadline time.Duration, tally func(vf.Violation), sample func(string)) seqBFSResult {
	dirs := []string{"a", "b"}
	alpha := seqAlphabet(dirs, passes, false)
	res := seqBFSResult{alphabet: alphabetNames(alpha), depth: depth}
	var nontriv, executed atomic.Int64
	var mu sync.Mutex
	res.stats = explore.BFS(explore.BFSConfig{Depth: depth, Actions: len(alpha), Workers: workers, Deadline: deadline}, func(hist []int) explore.Step {
		c := &tcase{Section: "sequence", Op: "sequence", Origin: "created", Mut: mutation{Kind: "none"}, SeqDirs: dirs}
		for _, a := range hist {
			c.Seq = append(c.Seq, alpha[a])
		}
		if !seqCanonical(c.Seq) {
			return explore.Step{Prune: true}
		}
		executed.Add(1)
		v, key, stopped, notes := runSequence(c, root)
		mu.Lock()
		if strings.HasPrefix(v.outcome, "sequence|engine:") && res.engineErr == "" {
			res.engineErr = v.outcome
		}
		mu.Unlock()
		for _, n := range notes {
			seqNote(n)
		}
		for _, x := range v.viol {
			r.Report(x)
			tally(x)
		}
		r.Outcome(v.outcome)
		if v.nontrivial {
			nontriv.Add(1)
		}
		if len(hist) == depth && (hist[0]*7+hist[depth-1])%97 == 5 {
			sample(c.describeSeq() + " => " + v.outcome + " ; state " + key)
		}
		return explore.Step{Key: key, Prune: stopped}
	})
	res.nontriv = nontriv.Load()
	res.executed = executed.Load()
	return res
}
