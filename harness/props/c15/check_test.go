package c15

import (
	"context"
	"encoding/json"
	"fmt"
	"os"
	"reflect"
	"sort"
	"strings"
	"sync/atomic"
	"testing"
	"time"

	kvexec "github.com/evstack/ev-node/apps/testapp/kv"
	ds "github.com/ipfs/go-datastore"
	dsq "github.com/ipfs/go-datastore/query"

	"verif/harness/explore"
	"verif/harness/vf"
	"verif/harness/world"
)

// C15 — reference execution layer: the state root depends only on the executed transactions.
//
// Explicit-state BFS over histories that drive TWO real KVExecutor instances (A and B), each on its own in-memory
// datastore. A "block" action executes the same block AT THE SAME HEIGHT on both instances: at the next height, or
// again at any height that was executed before (the current one or an older one, with the same or with other
// transactions); every other action is an extra call on one instance only (SetFinal(h) for ANY h from 0 to two
// above the highest height of the history - behind, at or ahead of the execution -, InjectTx, GetTxs, InitChain
// again, reopen, re-execute the last block). Every interleaving of blocks, A-extras and B-extras within the
// bounds is enumerated.
//
// Oracle = a map (the reference) that only sees the transactions of successfully executed blocks.
//
// Part 2 (size_test.go) adds the dimension this search cannot afford: the SIZE of a block (1 .. hundreds/thousands of
// transactions, thin and fat values) with one deviation (invalid tx, regrouping, duplicate key, crash, I/O error) at
// every / every boundary position.

// ---------------------------------------------------------------------------------------------------------------
// inputs

const (
	txMalformed = "novalue" // no '='
	injected    = "m=7"     // what InjectTx puts into the mempool: would be visible in a root if it leaked
	finKey      = "/finalizedHeight"
	mempoolCap  = 16 // capacity of the mempool channel of the instances (production: 10000); at most maxExtras injections happen
)

// The block set. Order matters only for the shape of the smallest counterexample (0 = the empty block).
var allBlocks = [][]string{
	{},
	{"a=1"},
	{"a=2"},
	{"a=1", "b=1"},
	{" c = 3 "},
	{"a=2", txMalformed},             // valid tx staged before the malformed one
	{"b=1", "=v"},                    // empty key
	{"a=2", "genesis/initialized=x"}, // reserved key (written without the leading slash) after a valid tx
	{"finalizedHeight=9"},            // the key SetFinal uses, as a user key
	{"a=1", "/finalizedHeight=9"},
	// thorough only:
	{"b=1", "a=2", "a=1"}, // last write wins inside a block
	{txMalformed, "b=1"},
	{"/genesis/stateroot=zz", "b=1"}, // the other reserved key, first in the block
}

type txClass int

const (
	txOK txClass = iota
	txBad
	txFinKey // writes the key SetFinal uses: the statement does not say whether this is a legal user key
)

// parseTx is the documented format: "key=value", both trimmed, key non-empty, the two genesis keys reserved.
// Keys are canonicalised the way the datastore library does it (ds.NewKey, trusted).
func parseTx(tx string) (key, val string, cl txClass) {
	i := strings.Index(tx, "=")
	if i < 0 {
		return "", "", txBad
	}
	k := strings.TrimSpace(tx[:i])
	v := strings.TrimSpace(tx[i+1:])
	if k == "" {
		return "", "", txBad
	}
	key = ds.NewKey(k).String()
	switch key {
	case "/genesis/initialized", "/genesis/stateroot":
		return key, v, txBad
	case finKey:
		return key, v, txFinKey
	}
	return key, v, txOK
}

type blockClass int

const (
	mustSucceed blockClass = iota
	mustFail
	mayFail // contains a write to /finalizedHeight and nothing malformed: either verdict, but the same on A and B
)

func classify(blk []string) blockClass {
	c := mustSucceed
	for _, tx := range blk {
		switch _, _, cl := parseTx(tx); cl {
		case txBad:
			return mustFail
		case txFinKey:
			c = mayFail
		}
	}
	return c
}

func writesFinKey(blk []string) bool {
	for _, tx := range blk {
		if _, _, cl := parseTx(tx); cl == txFinKey {
			return true
		}
	}
	return false
}

// rootOf is the documented root of a key/value map: sorted "key:value;" (kvexecutor.go, computeStateRoot comment).
func rootOf(m map[string]string) string {
	keys := make([]string, 0, len(m))
	for k := range m {
		keys = append(keys, k)
	}
	sort.Strings(keys)
	var sb strings.Builder
	for _, k := range keys {
		sb.WriteString(k + ":" + m[k] + ";")
	}
	return sb.String()
}

func canonMap(m map[string]string) string { return rootOf(m) }

// ---------------------------------------------------------------------------------------------------------------
// actions

type action struct {
	kind string // block | setfinal | inject | gettxs | initchain | reopen | reexec
	on   int    // instance for extras (0 = A, 1 = B)
	blk  int
	h    uint64 // setfinal: the height; block: 0 = the next height, h >= 1 = again at that already executed height
}

var names = [2]string{"A", "B"}

func (a action) str(blocks [][]string) string {
	switch a.kind {
	case "block":
		if a.h > 0 {
			return fmt.Sprintf("A+B.ExecuteTxs(%q, again at height %d)", blocks[a.blk], a.h)
		}
		return fmt.Sprintf("A+B.ExecuteTxs(%q)", blocks[a.blk])
	case "setfinal":
		return fmt.Sprintf("%s.SetFinal(%d)", names[a.on], a.h)
	case "inject":
		return fmt.Sprintf("%s.InjectTx(%q)", names[a.on], injected)
	case "gettxs":
		return names[a.on] + ".GetTxs()"
	case "initchain":
		return names[a.on] + ".InitChain()again"
	case "reopen":
		return names[a.on] + ".reopen"
	case "reexec":
		return names[a.on] + ".re-execute-last-block"
	}
	return a.kind
}

type config struct {
	blocks    [][]string
	maxBlocks int
	maxExtras int // per instance
	// narrow = the alphabet without the order dimension: blocks only at the next height, SetFinal(h) only for
	// executed heights h (used by the thorough tier for its run with the larger extras budget)
	narrow bool
	acts   []action
}

func (c *config) depth() int { return c.maxBlocks + 2*c.maxExtras }

func (c *config) describe() map[string]any {
	d := map[string]any{"blocks_per_history": c.maxBlocks, "extras_per_instance": c.maxExtras, "depth": c.depth(), "block_set_size": len(c.blocks), "alphabet": len(c.acts)}
	if c.narrow {
		d["setfinal_heights"], d["execute_again_at_heights"] = "executed heights only", "none"
	} else {
		d["setfinal_heights"], d["execute_again_at_heights"] = finalHeights(c.maxBlocks), fmt.Sprintf("every executed height (1..%d)", c.maxBlocks-1)
	}
	return d
}

// index of an action of c in the alphabet of u (u has at least c's blocks, heights and kinds)
func (c *config) table(u *config) []int {
	at := map[action]int{}
	for i, a := range u.acts {
		at[a] = i
	}
	out := make([]int, len(c.acts))
	for i, a := range c.acts {
		j, ok := at[a]
		if !ok {
			panic(fmt.Sprintf("action %+v is not in the replay alphabet", a))
		}
		out[i] = j
	}
	return out
}

func mkConfig(nBlocks, maxBlocks, maxExtras int, narrow bool) *config {
	c := &config{blocks: allBlocks[:nBlocks], maxBlocks: maxBlocks, maxExtras: maxExtras, narrow: narrow}
	for b := range c.blocks {
		c.acts = append(c.acts, action{kind: "block", blk: b, on: -1})
	}
	if narrow {
		for on := 0; on < 2; on++ {
			for h := 1; h <= maxBlocks; h++ {
				c.acts = append(c.acts, action{kind: "setfinal", on: on, h: uint64(h)})
			}
			for _, k := range []string{"inject", "gettxs", "initchain", "reopen", "reexec"} {
				c.acts = append(c.acts, action{kind: k, on: on})
			}
		}
		return c
	}
	// a block executed again at an already executed height h (enabled when h <= highest executed height; the last
	// block of a history can find at most maxBlocks-1 executed heights)
	for h := 1; h < maxBlocks; h++ {
		for b := range c.blocks {
			c.acts = append(c.acts, action{kind: "block", blk: b, on: -1, h: uint64(h)})
		}
	}
	for on := 0; on < 2; on++ {
		// every height from 0 to two above the highest height a history can reach: whatever the current height
		// cur is, SetFinal(0), (cur-1), (cur), (cur+1), (cur+2) are all among them, at any point of the history
		for _, h := range finalHeights(maxBlocks) {
			c.acts = append(c.acts, action{kind: "setfinal", on: on, h: h})
		}
		for _, k := range []string{"inject", "gettxs", "initchain", "reopen", "reexec"} {
			c.acts = append(c.acts, action{kind: k, on: on})
		}
	}
	return c
}

// finalHeights: 1..maxBlocks first (the finalisations a node performs), then 0 and the two heights above.
func finalHeights(maxBlocks int) []uint64 {
	var hs []uint64
	for h := 1; h <= maxBlocks; h++ {
		hs = append(hs, uint64(h))
	}
	return append(hs, 0, uint64(maxBlocks+1), uint64(maxBlocks+2))
}

// ---------------------------------------------------------------------------------------------------------------
// datastore double: world.KV (in-memory, sorted iteration, atomic batches). Only the unfiltered Query is answered
// here directly from the same contents, because go-datastore's result helpers start a goroutine per query, which
// dominates a search that runs millions of root computations. Semantics are the same: every key, sorted.

type fastKV struct{ *world.KV }

func (f fastKV) Query(c context.Context, q dsq.Query) (dsq.Results, error) {
	if q.Prefix != "" || len(q.Filters) > 0 || len(q.Orders) > 0 || q.Limit != 0 || q.Offset != 0 {
		return f.KV.Query(c, q)
	}
	keys := f.KV.Keys("")
	es := make([]dsq.Entry, len(keys))
	for i, k := range keys {
		v, _ := f.KV.RawGet(k)
		es[i] = dsq.Entry{Key: k, Size: len(v)}
		if !q.KeysOnly {
			es[i].Value = append([]byte(nil), v...)
		}
	}
	return &fastResults{q: q, es: es}, nil
}

type fastResults struct {
	q    dsq.Query
	es   []dsq.Entry
	i    int
	done chan struct{}
}

func (r *fastResults) Query() dsq.Query { return r.q }
func (r *fastResults) Next() <-chan dsq.Result {
	ch := make(chan dsq.Result, len(r.es)-r.i)
	for ; r.i < len(r.es); r.i++ {
		ch <- dsq.Result{Entry: r.es[r.i]}
	}
	close(ch)
	return ch
}
func (r *fastResults) NextSync() (dsq.Result, bool) {
	if r.i >= len(r.es) {
		return dsq.Result{}, false
	}
	r.i++
	return dsq.Result{Entry: r.es[r.i-1]}, true
}
func (r *fastResults) Rest() ([]dsq.Entry, error) {
	rest := r.es[r.i:]
	r.i = len(r.es)
	return rest, nil
}
func (r *fastResults) Close() error { return nil }
func (r *fastResults) Done() <-chan struct{} {
	if r.done == nil {
		r.done = make(chan struct{})
		close(r.done)
	}
	return r.done
}

// ---------------------------------------------------------------------------------------------------------------
// the two instances and the reference

type inst struct {
	name    string
	kv      *world.KV
	ex      *kvexec.KVExecutor
	mem     []string // injected and not yet fetched (volatile)
	genesis string   // root returned by the first InitChain
	last    string   // last root this instance returned (passed as prevStateRoot)
	// fin: the value SetFinal left under /finalizedHeight while the reference holds something else there
	// ("" = none). Only used to recognise the known defect, never by the oracle itself.
	fin        string
	nExtras    int
	kinds      []string
	lastPrev   string
	lastHeight uint64
}

type sys struct {
	cfg      *config
	in       [2]*inst
	ref      map[string]string
	nBlocks  int
	succ     uint64
	lastBlk  int
	lastOK   bool
	atHeight []int // atHeight[h-1] = index of the block that was last executed successfully at height h
	nRootCmp int   // returned roots compared with the reference in checked steps
}

var (
	ctx         = context.Background()
	genesisTime = time.Unix(1700000000, 0).UTC()
)

const chainID = "c15"

type viol struct {
	clause string
	tags   []string
	msg    string
	known  bool // recognised as the known defect: exploration continues behind it
}

func newSys(cfg *config) (*sys, []viol) {
	s := &sys{cfg: cfg, ref: map[string]string{}, lastBlk: -1}
	var vs []viol
	for i := range s.in {
		kv := world.NewKV(nil)
		x := &inst{name: names[i], kv: kv, ex: kvexec.VerifNewKVExecutorOn(fastKV{kv}, mempoolCap)}
		root, _, err := x.ex.InitChain(ctx, genesisTime, 1, chainID)
		if err != nil {
			vs = append(vs, viol{clause: "root-determinism", tags: []string{"first-initchain"}, msg: "first InitChain failed: " + err.Error()})
		}
		x.genesis, x.last = string(root), string(root)
		if want := rootOf(s.ref); string(root) != want {
			vs = append(vs, viol{clause: "root-determinism", tags: []string{"first-initchain"}, msg: fmt.Sprintf("InitChain on an empty store returned root %q, reference %q", root, want)})
		}
		s.in[i] = x
	}
	return s, vs
}

func (x *inst) probe() string {
	r, err := x.ex.VerifStateRoot(ctx)
	if err != nil {
		return "error: " + err.Error()
	}
	return string(r)
}

func ts(h uint64) time.Time { return genesisTime.Add(time.Duration(h) * time.Second) }

func toBytes(blk []string) [][]byte {
	out := make([][]byte, len(blk))
	for i, tx := range blk {
		out[i] = []byte(tx)
	}
	return out
}

// featureTags: which kinds of extra calls the instance made so far (history features for unexplained violations).
func (x *inst) featureTags() []string {
	seen := map[string]bool{}
	for _, k := range x.kinds {
		seen["had-"+k] = true
	}
	if len(seen) == 0 {
		return []string{"no-extra-calls"}
	}
	out := make([]string, 0, len(seen))
	for k := range seen {
		out = append(out, k)
	}
	sort.Strings(out)
	return out
}

// checkRoot compares a root returned by ExecuteTxs with the reference. A deviation is classified as the known
// defect only if it is EXACTLY the reference plus the entry the instance's SetFinal left behind.
func (s *sys) checkRoot(x *inst, got, what string) *viol {
	s.nRootCmp++
	want := rootOf(s.ref)
	if got == want {
		return nil
	}
	other := s.in[0]
	if other == x {
		other = s.in[1]
	}
	if x.fin != "" {
		polluted := map[string]string{}
		for k, v := range s.ref {
			polluted[k] = v
		}
		polluted[finKey] = x.fin
		if got == rootOf(polluted) {
			tags := []string{"setfinal-before-later-root"}
			if _, clash := s.ref[finKey]; clash {
				tags = append(tags, "setfinal-overwrites-tx-key")
			}
			return &viol{clause: "root-determinism", tags: tags, known: true,
				msg: fmt.Sprintf("%s of instance %s returned root %q, the executed transactions give %q (instance %s last returned %q): the difference is exactly the %s entry written by %s.SetFinal", what, x.name, got, want, other.name, other.last, finKey, x.name)}
		}
	}
	return &viol{clause: "root-determinism", tags: x.featureTags(),
		msg: fmt.Sprintf("%s of instance %s returned root %q, the executed transactions give %q (instance %s last returned %q)", what, x.name, got, want, other.name, other.last)}
}

// refreshFin recomputes the pollution marker from the real store after a SetFinal.
func (s *sys) refreshFin(x *inst) {
	v, ok := x.kv.RawGet(finKey)
	if rv, inRef := s.ref[finKey]; ok && (!inRef || rv != string(v)) {
		x.fin = string(v)
	} else {
		x.fin = ""
	}
}

// hidden dumps executor fields other than the datastore and the mempool channel (none on the unchanged tree), so
// that state merging stays sound if the executor grows volatile state.
func hidden(ex *kvexec.KVExecutor) string {
	v := reflect.ValueOf(ex).Elem()
	t := v.Type()
	var sb strings.Builder
	for i := 0; i < t.NumField(); i++ {
		if n := t.Field(i).Name; n != "db" && n != "txChan" {
			fmt.Fprintf(&sb, "%s=%v;", n, v.Field(i))
		}
	}
	return sb.String()
}

func (x *inst) subKey() string {
	return fmt.Sprintf("img{%s}mem%q/%d last%q prev%q/%d fin%q gen%q n%d hid{%s}", x.kv.Canon(), x.mem, x.ex.VerifMempoolLen(), x.last, x.lastPrev, x.lastHeight, x.fin, x.genesis, x.nExtras, hidden(x.ex))
}

// key: everything the future depends on — both durable images, both mempools, the values the harness feeds back
// (previous roots, heights, last block), the remaining budgets and the reference. A and B are interchangeable
// (same code, same inputs, symmetric oracle), so the pair is sorted.
func (s *sys) key() string {
	a, b := s.in[0].subKey(), s.in[1].subKey()
	if b < a {
		a, b = b, a
	}
	// the heights executed so far (succ, atHeight) only matter to later block actions
	heights := "-"
	if s.nBlocks < s.cfg.maxBlocks {
		heights = fmt.Sprintf("succ%d at%v", s.succ, s.atHeight)
	}
	return fmt.Sprintf("nb%d %s lb%d ok%v ref{%s} || %s || %s", s.nBlocks, heights, s.lastBlk, s.lastOK, canonMap(s.ref), a, b)
}

// enabled says whether the action may be taken in this state (bounds and preconditions).
func (s *sys) enabled(a action) bool {
	if a.kind == "block" {
		return s.nBlocks < s.cfg.maxBlocks && a.h <= s.succ
	}
	x := s.in[a.on]
	if x.nExtras >= s.cfg.maxExtras {
		return false
	}
	switch a.kind {
	case "setfinal":
		return !s.cfg.narrow || a.h <= s.succ
	case "reexec":
		return s.lastBlk >= 0
	}
	return true
}

// apply performs one action on the real instances. With check=false only the bookkeeping is done (the prefix was
// checked when it was the end of a shorter history).
func (s *sys) apply(a action, check bool) (vs []viol) {
	add := func(v *viol) {
		if v != nil && check {
			vs = append(vs, *v)
		}
	}
	if a.kind == "block" {
		blk := s.cfg.blocks[a.blk]
		cls := classify(blk)
		height := s.succ + 1
		if a.h > 0 {
			// again at an executed height. The same transactions as before: a re-execution, to be accepted like the
			// first time. Other transactions: the statement does not say whether an executor has to accept a
			// different block for a height it has executed, so either verdict is allowed (the same on A and B, and a
			// rejection changes nothing); if it is accepted its transactions are executed transactions.
			height = a.h
			for _, x := range s.in {
				x.kinds = append(x.kinds, "exec-again-at-executed-height")
			}
			if cls == mustSucceed && s.atHeight[height-1] != a.blk {
				cls = mayFail
			}
		}
		var ok [2]bool
		var roots [2]string
		for i, x := range s.in {
			var imgBefore, probeBefore string
			if check {
				imgBefore, probeBefore = x.kv.Canon(), x.probe()
			}
			prev := x.last
			root, _, err := x.ex.ExecuteTxs(ctx, toBytes(blk), height, ts(height), []byte(prev))
			x.lastPrev, x.lastHeight = prev, height
			ok[i], roots[i] = err == nil, string(root)
			if err != nil && check {
				if img := x.kv.Canon(); img != imgBefore {
					add(&viol{clause: "malformed-block-atomic", tags: x.featureTags(), msg: fmt.Sprintf("instance %s rejected block %q (%v) but its key space changed:\n before %s\n after  %s", x.name, blk, err, imgBefore, img)})
				} else if p := x.probe(); p != probeBefore {
					add(&viol{clause: "malformed-block-atomic", tags: x.featureTags(), msg: fmt.Sprintf("instance %s rejected block %q (%v) but its root changed from %q to %q", x.name, blk, err, probeBefore, p)})
				}
			}
		}
		s.nBlocks++
		s.lastBlk = a.blk
		if ok[0] != ok[1] {
			add(&viol{clause: "root-determinism", tags: []string{"verdicts-differ"}, msg: fmt.Sprintf("block %q: accepted by A=%v, by B=%v", blk, ok[0], ok[1])})
		}
		accepted := ok[0] && ok[1]
		s.lastOK = accepted
		if accepted && cls == mustFail {
			add(&viol{clause: "malformed-block-atomic", tags: s.in[0].featureTags(), msg: fmt.Sprintf("block %q contains a malformed/reserved transaction but was accepted (root %q)", blk, roots[0])})
		}
		if !accepted && cls == mustSucceed {
			add(&viol{clause: "root-determinism", tags: []string{"valid-block-rejected"}, msg: fmt.Sprintf("well-formed block %q was rejected", blk)})
		}
		if accepted {
			if a.h == 0 {
				s.succ++
				s.atHeight = append(s.atHeight, a.blk)
			} else {
				s.atHeight[height-1] = a.blk
			}
			for _, tx := range blk {
				if k, v, cl := parseTx(tx); cl != txBad {
					s.ref[k] = v
				}
			}
			for i, x := range s.in {
				x.last = roots[i]
				if writesFinKey(blk) {
					x.fin = ""
				}
			}
			for i, x := range s.in {
				add(s.checkRoot(x, roots[i], fmt.Sprintf("block %d %q at height %d", s.nBlocks, blk, height)))
			}
		}
		return vs
	}

	x := s.in[a.on]
	x.nExtras++
	x.kinds = append(x.kinds, a.kind)
	if a.kind == "setfinal" && a.h > s.succ {
		x.kinds = append(x.kinds, "setfinal-ahead-of-execution")
	}
	var imgBefore, probeBefore string
	if check {
		imgBefore, probeBefore = x.kv.Canon(), x.probe()
	}
	// unchanged: the call must leave key space and root alone
	unchanged := func(clause, what string, tags []string) {
		if !check {
			return
		}
		if img := x.kv.Canon(); img != imgBefore {
			add(&viol{clause: clause, tags: tags, msg: fmt.Sprintf("%s on instance %s changed the key space:\n before %s\n after  %s", what, x.name, imgBefore, img)})
		} else if p := x.probe(); p != probeBefore {
			add(&viol{clause: clause, tags: tags, msg: fmt.Sprintf("%s on instance %s changed the root from %q to %q (key space unchanged)", what, x.name, probeBefore, p)})
		}
	}
	switch a.kind {
	case "setfinal":
		_ = x.ex.SetFinal(ctx, a.h) // finalisation may write whatever it likes; only later returned roots are judged
		s.refreshFin(x)
	case "inject":
		x.ex.InjectTx([]byte(injected))
		x.mem = append(x.mem, injected)
		unchanged("root-determinism", "InjectTx", append([]string{"mempool-call-changed-state"}, x.featureTags()...))
	case "gettxs":
		_, _ = x.ex.GetTxs(ctx)
		x.mem = nil
		unchanged("root-determinism", "GetTxs", append([]string{"mempool-call-changed-state"}, x.featureTags()...))
	case "initchain":
		root, _, err := x.ex.InitChain(ctx, genesisTime, 1, chainID)
		if err != nil {
			add(&viol{clause: "idempotence", tags: x.featureTags(), msg: fmt.Sprintf("repeated InitChain on instance %s failed: %v", x.name, err)})
		} else if string(root) != x.genesis {
			add(&viol{clause: "idempotence", tags: x.featureTags(), msg: fmt.Sprintf("repeated InitChain on instance %s returned %q, the first call returned %q", x.name, root, x.genesis)})
		}
		unchanged("idempotence", "repeated InitChain", x.featureTags())
	case "reopen":
		x.kv = world.NewKV(x.kv.Image())
		x.ex = kvexec.VerifNewKVExecutorOn(fastKV{x.kv}, mempoolCap)
		x.mem = nil
		unchanged("reopen", "reopening", x.featureTags())
	case "reexec":
		blk := s.cfg.blocks[s.lastBlk]
		root, _, err := x.ex.ExecuteTxs(ctx, toBytes(blk), x.lastHeight, ts(x.lastHeight), []byte(x.lastPrev))
		if (err == nil) != s.lastOK {
			add(&viol{clause: "idempotence", tags: x.featureTags(), msg: fmt.Sprintf("re-executing block %q on instance %s: accepted=%v, first time accepted=%v", blk, x.name, err == nil, s.lastOK)})
		}
		if x.fin != "" && err == nil && writesFinKey(blk) {
			// the block's own write to /finalizedHeight had been overwritten by SetFinal and is now restored
			x.fin = ""
			if check {
				if img := x.kv.Canon(); img != imgBefore {
					add(&viol{clause: "idempotence", tags: []string{"setfinal-overwrites-tx-key"}, known: true,
						msg: fmt.Sprintf("re-executing block %q on instance %s changed the key space because SetFinal had overwritten the key the block wrote:\n before %s\n after  %s", blk, x.name, imgBefore, img)})
				}
			}
		} else {
			unchanged("idempotence", fmt.Sprintf("re-executing block %q", blk), x.featureTags())
		}
		if err == nil {
			x.last = string(root)
			add(s.checkRoot(x, string(root), fmt.Sprintf("re-execution of block %q", blk)))
		}
	}
	return vs
}

type result struct {
	key      string
	disabled bool
	vs       []viol
	trace    []string
	outcome  string
	rootCmp  int
	again    int  // the last action executes a block again at an executed height: 1 = the current height, 2 = an older one
	ahead    bool // the last action is a SetFinal(h) with h above the highest executed height
}

func runHistory(cfg *config, hist []int) result {
	s, vs0 := newSys(cfg)
	var res result
	if len(hist) == 0 {
		res.vs = vs0
	}
	for i, ai := range hist {
		a := cfg.acts[ai]
		if !s.enabled(a) {
			return result{disabled: true}
		}
		res.trace = append(res.trace, a.str(cfg.blocks))
		if i == len(hist)-1 {
			if a.kind == "block" && a.h > 0 {
				res.again = 1
				if a.h < s.succ {
					res.again = 2
				}
			}
			res.ahead = a.kind == "setfinal" && a.h > s.succ
		}
		vs := s.apply(a, i == len(hist)-1)
		if i == len(hist)-1 {
			res.vs = vs
		}
	}
	res.key = s.key()
	res.rootCmp = s.nRootCmp
	res.outcome = fmt.Sprintf("A=%q B=%q", s.in[0].last, s.in[1].last)
	return res
}

// staticallyDisabled: budget checks that need no execution.
func staticallyDisabled(cfg *config, hist []int) bool {
	nb, nx := 0, [2]int{}
	for _, ai := range hist {
		if a := cfg.acts[ai]; a.kind == "block" {
			nb++
		} else {
			nx[a.on]++
		}
	}
	return nb > cfg.maxBlocks || nx[0] > cfg.maxExtras || nx[1] > cfg.maxExtras
}

func TestCheck(t *testing.T) {
	r := vf.Start("C15", "model_checking")
	// uni: the alphabet histories are recorded in (every run of the tier is within its blocks, heights and budgets).
	// quick: one search, over uni itself. thorough: the search without the order dimension at the large extras
	// budget, and the search with it (4 ExecuteTxs calls per instance instead of 3) at the extras budget of quick.
	uni := mkConfig(vf.Pick(r, 10, len(allBlocks)), vf.Pick(r, 3, 4), vf.Pick(r, 2, 3), false)
	runs := []*config{uni}
	if len(uni.blocks) > 10 {
		runs = []*config{mkConfig(len(allBlocks), 4, 3, true), mkConfig(10, 4, 2, false)}
	}
	depth := uni.depth()
	cfg := uni
	r.Assume = []string{
		"go-datastore contract (Put and Batch.Commit atomic, Query lists all keys) as modelled by the in-memory KV double; ds.NewKey canonicalises keys (trusted library, also used by the reference)",
		"reopen = a new KVExecutor on a copy of the datastore image; the mempool is volatile",
		"root format of the reference: sorted \"key:value;\" over user keys (the documented format of computeStateRoot)",
		"a transaction that writes the key /finalizedHeight may be accepted or rejected, but identically on both instances",
		"hook apps/testapp/kv/verif_hooks.go only exposes a constructor on a given datastore, the root computation (read-only probe) and the mempool length",
		"A and B share no state (own datastore, own channel), so the pair state is canonicalised up to swapping them",
		"heights: both instances are always given the same ExecuteTxs calls (block, height, timestamp); a new block gets the next height (no gaps), a block may be executed again at any already executed height; SetFinal(h) is a hint that may arrive at any time for any h (0, behind, at, one or two ahead of the highest executed height) and may fail or write bookkeeping, but no root returned later may depend on it",
		"a well-formed block executed again at an executed height with OTHER transactions than that height had may be accepted or rejected (identically on A and B; a rejection changes nothing; if accepted, its transactions count as executed, in call order); with the SAME transactions it is a re-execution and must be accepted like the first time",
		"size part, fault model: a crash ends the process before a durable write (a Put or a whole Batch.Commit) is applied, an I/O error makes that one write fail without applying any of it (atomic writes as above); the durable writes of one ExecuteTxs are enumerated by running it once without faults (1 on the unchanged tree: the single batch commit)",
		"size part: cases of one (size, value length, pre-state) group start from copies of one datastore image produced by real calls (same notion as reopen); keys of the enumerated blocks are k00000.., values v<i> padded to the stated length: the size of a block is varied, not the spelling of its transactions (part 1 does that)",
		"size part: a block interrupted by a crash or a failed write may be applied completely or not at all (judged by the root after reopen/retry); the statement does not say which",
	}
	// cost = length first, then the lexicographic rank of the history, so that the example kept per clause is the
	// same on every run (workers report in no particular order)
	// (the rank uses as many leading positions as fit into an int next to the length and the size-part costs)
	base, rankLen := 1, 0
	for rankLen < depth && base <= (1<<60)/(len(cfg.acts)*(depth+2)) {
		base *= len(cfg.acts)
		rankLen++
	}
	cost := func(hist []int) int {
		rank := 0
		for i := 0; i < rankLen; i++ {
			rank *= len(cfg.acts)
			if i < len(hist) {
				rank += hist[i]
			}
		}
		return len(hist)*base + rank
	}
	report := func(hist []int, res result) (unexplained bool) {
		for _, v := range res.vs {
			r.Report(vf.Violation{Clause: v.clause, Tags: v.tags, Msg: fmt.Sprintf("%s\n history (%d actions): InitChain on A and B ; %s", v.msg, len(hist), strings.Join(res.trace, " ; ")), Cost: cost(hist), History: hist})
			if !v.known {
				unexplained = true
			}
		}
		return
	}
	sizeCostBase := (depth + 1) * base // examples of the BFS part (small blocks) are preferred over examples of the size part
	if r.ReplayPath() != "" {
		var raw json.RawMessage
		if _, err := r.LoadReplay(&raw); err != nil {
			r.EngineError(err.Error())
		} else if strings.HasPrefix(strings.TrimSpace(string(raw)), "{") { // a case of the size part
			var c sizeCase
			if err := json.Unmarshal(raw, &c); err != nil {
				r.EngineError(err.Error())
			} else {
				replaySizeCase(r, sizeCostBase, c)
			}
		} else {
			var hist []int
			if err := json.Unmarshal(raw, &hist); err != nil {
				r.EngineError(err.Error())
			} else if res := runHistory(cfg, hist); res.disabled {
				r.EngineError("the replayed history is not enabled under this tier's bounds")
			} else {
				report(hist, res)
			}
		}
		r.Finish(vf.Coverage{Evaluations: 1, DistinctNontrivial: 1})
		return
	}
	var executed, disabled, blockRuns, rootChecks, nSamples, againCur, againOlder, finalAhead atomic.Int64
	started := time.Now()
	var st explore.BFSStats // sums over the runs of part 1
	var caps []string
	var runInfo []map[string]any
	part1Done := true
	for ri, cfg := range runs {
		tr := cfg.table(uni)
		inUni := func(hist []int) []int {
			out := make([]int, len(hist))
			for i, ai := range hist {
				out[i] = tr[ai]
			}
			return out
		}
		runStarted, execBefore := time.Now(), executed.Load()
		rs := explore.BFS(explore.BFSConfig{Depth: cfg.depth(), Actions: len(cfg.acts), Deadline: vf.Pick(r, 100*time.Second, 25*time.Minute)}, func(hist []int) explore.Step {
			if staticallyDisabled(cfg, hist) {
				disabled.Add(1)
				return explore.Step{Prune: true}
			}
			res := runHistory(cfg, hist)
			if res.disabled {
				disabled.Add(1)
				return explore.Step{Prune: true}
			}
			if n := executed.Add(1); n%500000 == 0 {
				fmt.Fprintf(os.Stderr, "progress: %d histories executed, run %d at depth %d, %s\n", n, ri+1, len(hist), time.Since(started).Round(time.Second))
			}
			if n := len(hist); n > 0 && cfg.acts[hist[n-1]].kind == "block" {
				blockRuns.Add(1)
			}
			rootChecks.Add(int64(res.rootCmp))
			switch res.again {
			case 1:
				againCur.Add(1)
			case 2:
				againOlder.Add(1)
			}
			if res.ahead {
				finalAhead.Add(1)
			}
			if len(res.vs) > 0 && report(inUni(hist), res) {
				return explore.Step{Prune: true}
			}
			if (len(hist) == 4 || len(hist) == cfg.depth()) && nSamples.Add(1) <= 3 { // the other sample slots are for part 2
				r.Sample(strings.Join(res.trace, " ; ") + "  =>  " + res.outcome)
			}
			r.Outcome(res.outcome)
			return explore.Step{Key: res.key}
		})
		st.States += rs.States
		st.Transitions += rs.Transitions
		if rs.Capped != "" {
			caps = append(caps, fmt.Sprintf("part 1 run %d: %s", ri+1, rs.Capped))
		}
		if rs.DepthDone != cfg.depth() {
			part1Done = false
		}
		info := cfg.describe()
		info["depth_done"], info["states"], info["states_per_level"], info["histories_executed"], info["wall_s"] = rs.DepthDone, rs.States, rs.PerLevel, executed.Load()-execBefore, time.Since(runStarted).Seconds()
		runInfo = append(runInfo, info)
	}
	part1Wall := time.Since(started)
	// second part: the block-size dimension (size_test.go)
	sz := runSizePhase(r, sizeCostBase, started.Add(vf.Pick(r, 300*time.Second, 40*time.Minute)))
	if sz.capped != "" {
		caps = append(caps, sz.capped)
	}
	r.Finish(vf.Coverage{
		Evaluations: executed.Load() + sz.cases, DistinctNontrivial: st.States + sz.cases, States: st.States, Transitions: st.Transitions,
		Rule: "PART 1 (interleavings, small blocks): every interleaving of: execute one of the blocks on both real instances (at most maxBlocks ExecuteTxs calls per instance), either at the next height or AGAIN AT ANY ALREADY EXECUTED HEIGHT (the current or an older one, any block of the set: the same or other transactions than that height had), and per instance at most maxExtras extra calls from {SetFinal(h) for EVERY h of bounds.setfinal_heights = 0..maxBlocks+2, whatever has been executed so far (so finalisation behind, at, one and two heights ahead of the execution, before the block exists, and SetFinal(0)), InjectTx, GetTxs, InitChain again, reopen, re-execute the last block}; the reference map applies the transactions of every accepted ExecuteTxs in call order, whatever its height, and every root returned by either instance must equal it; each history is run from scratch on two fresh real KVExecutors; histories are merged when both datastore images, both mempools, the fed-back roots/heights, the used budgets and the reference map agree (the executor has no other state; extra struct fields would be part of the key), modulo swapping A and B; states/transitions refer to this part (transitions also counts histories rejected by bounds/preconditions). Part 1 consists of the searches listed under bounds.part1_runs, each exhaustive within its own bounds (quick: one search; thorough: one WITHOUT the order dimension - blocks only at the next height, SetFinal only for executed heights - at the larger extras budget, and one with it at 4 ExecuteTxs calls per instance and the extras budget of quick; a block set of size n is the first n blocks of bounds.block_set); states and transitions are summed over them. " +
			"PART 2 (block size, plain nested loops, no sampling): one block of n transactions k00000..k<n-1> for every n of size_part.sizes, from each pre-state of size_part.plan.pre_states (empty = fresh store; half = a previous block wrote the even-numbered ones of the n keys with other values, and one more key, so that a partially applied block shows both as overwritten and as new keys), with exactly one deviation at an enumerated position: an invalid transaction of each kind at tx position p (only instance A is offered the block); the same transactions executed as one block on A and as two blocks split at p on B; a duplicate key (tx[p] rewrites tx[0] / tx[p-1]; the last tx rewrites tx[p]); a crash before, or an I/O error at, EVERY durable write that a fault-free ExecuteTxs of that block performs (measured per block), followed by reopen/retry; every position p for the sizes listed under every_position_*, otherwise the boundary positions (positions_otherwise); after a rejected or interrupted block a small valid block follows; each case ends with InitChain again and a reopen; the pre-state of a (size, value length, pre-state) group is produced once by real calls and every case runs on fresh real KVExecutors over a copy of that datastore image. Each case of part 2 is a distinct input by construction. " +
			"evaluations = enabled histories executed in part 1 + cases executed in part 2; distinct = distinct merged states of part 1 + cases of part 2",
		Exhaustive: part1Done && sz.capped == "", Caps: caps,
		Bounds: map[string]any{"part1_runs": runInfo, "block_set": uni.blocks,
			"size_part": map[string]any{"plan": sz.plan, "distinct_block_sizes": sz.sizes, "largest_block_txs": sz.maxSize, "largest_block_bytes": sz.maxBytes}},
		Extra: map[string]any{"histories_disabled": disabled.Load(), "histories_ending_in_a_block": blockRuns.Load(),
			"histories_ending_in_a_block_executed_again_at_the_current_height": againCur.Load(), "histories_ending_in_a_block_executed_again_at_an_older_height": againOlder.Load(),
			"histories_ending_in_setfinal_ahead_of_execution": finalAhead.Load(), "returned_roots_compared_with_reference": rootChecks.Load() + sz.rootCmp,
			"part1_histories_executed": executed.Load(), "part1_wall_s": part1Wall.Seconds(),
			"size_part_cases": sz.cases, "size_part_cases_by_kind": sz.byKind, "size_part_outcomes": sz.outcomeKeys, "size_part_roots_compared_with_reference": sz.rootCmp,
			"size_part_max_durable_writes_per_executetxs": sz.maxWrites, "size_part_wall_s": sz.wall.Seconds(), "size_part_cpu_s": sz.cpu.Seconds(), "size_part_groups": sz.groups},
	})
}
