package c15

import (
	"bytes"
	"fmt"
	"runtime"
	"runtime/debug"
	"sort"
	"strings"
	"sync"
	"sync/atomic"
	"syscall"
	"time"

	kvexec "github.com/evstack/ev-node/apps/testapp/kv"

	"verif/harness/vf"
	"verif/harness/world"
)

// C15, second part — the block SIZE dimension.
//
// The BFS part interleaves every kind of call but only ever executes blocks of at most three transactions. Here
// the sequence of calls is fixed and simple and the size of one block is the enumerated dimension: a block of n
// transactions (n in a dense range plus boundary values around powers of two and of ten, with thin and with fat
// values) is executed on fresh real KVExecutors, with exactly one deviation per case at an enumerated position:
//
//	invalid:<which>  tx[p] is replaced by a malformed / empty-key / reserved-key transaction
//	split            A executes the n transactions as one block, B as the two blocks [0,p) and [p,n)
//	dup-first|prev   tx[p] writes the key of tx[0] | tx[p-1] again (last write wins); B gets the block split at p
//	dup-last         the last transaction writes the key of tx[p] again; B gets the block split at p
//	crash            A's process dies before the p-th durable write ExecuteTxs performs; A is reopened on the
//	                 image the crash left and the block is executed again (what a node does after a restart)
//	ioerr            the p-th durable write of ExecuteTxs fails with an I/O error; the block is then retried
//
// after a rejected or interrupted block one more small valid block is executed (nothing of the rejected block may
// leak into the next one); every case ends with a repeated InitChain and a reopen of A. The second instance B is
// only needed for the grouping cases; the pre-state of a (size, value length, pre-state) group is produced once by
// real calls and every case starts from a copy of that datastore image (the same notion of "reopen" as in part 1).
//
// Oracle (nothing but the statement): a block that ExecuteTxs rejects changes nothing (key space and root); a block
// interrupted by a crash or an I/O error is applied completely or not at all (the root afterwards is the root
// before it or the reference root with the whole block applied); every returned root equals the reference map of
// the transactions of the accepted blocks, on A and on B, however the transactions were grouped into blocks;
// InitChain again returns the first genesis root and changes nothing; reopening changes nothing.

type sizeCase struct {
	N    int    `json:"n"`    // transactions in the block
	VLen int    `json:"vlen"` // minimum length of every value in bytes (1 = thin)
	Pre  string `json:"pre"`  // "empty" | "half" (a previous block wrote the even-numbered ones of the n keys, with other values, and one more key)
	Kind string `json:"kind"`
	P    int    `json:"p"` // position: tx index, split point, or index of the durable write (-1 = every write, expanded by the worker)
}

func (c sizeCase) String() string {
	return fmt.Sprintf("size-case{n=%d vlen=%d pre=%s %s p=%d}", c.N, c.VLen, c.Pre, c.Kind, c.P)
}

var invalidTxs = map[string]string{
	"malformed":          txMalformed,
	"empty-key":          "=v",
	"reserved-key":       "genesis/initialized=x",
	"reserved-stateroot": "/genesis/stateroot=zz",
}

func pad(s string, vlen int) string {
	if len(s) < vlen {
		return s + strings.Repeat("x", vlen-len(s))
	}
	return s
}

func skey(i int) string { return fmt.Sprintf("k%05d", i) }

// mkBlock builds n transactions "k<i>=<tag><i>" with values padded to vlen.
func mkBlock(n, vlen int, tag string) []string {
	blk := make([]string, n)
	for i := range blk {
		blk[i] = skey(i) + "=" + pad(fmt.Sprintf("%s%d", tag, i), vlen)
	}
	return blk
}

func describeBlock(c sizeCase) string {
	base := fmt.Sprintf("block of %d txs %s=v0.. %s=v%d (values >= %d bytes)", c.N, skey(0), skey(c.N-1), c.N-1, c.VLen)
	switch {
	case strings.HasPrefix(c.Kind, "invalid:"):
		return fmt.Sprintf("%s with tx[%d] replaced by %q", base, c.P, invalidTxs[strings.TrimPrefix(c.Kind, "invalid:")])
	case c.Kind == "split":
		return fmt.Sprintf("%s; B executes it as the two blocks tx[0:%d], tx[%d:%d]", base, c.P, c.P, c.N)
	case c.Kind == "dup-first":
		return fmt.Sprintf("%s where tx[%d] writes the key of tx[0] again; B executes it split at %d", base, c.P, c.P)
	case c.Kind == "dup-prev":
		return fmt.Sprintf("%s where tx[%d] writes the key of tx[%d] again; B executes it split at %d", base, c.P, c.P-1, c.P)
	case c.Kind == "dup-last":
		return fmt.Sprintf("%s where the last tx writes the key of tx[%d] again; B executes it split at %d", base, c.P, c.P)
	case c.Kind == "crash":
		return fmt.Sprintf("%s; A crashes before durable write #%d of ExecuteTxs, is reopened and executes the block again", base, c.P)
	case c.Kind == "ioerr":
		return fmt.Sprintf("%s; durable write #%d of A's ExecuteTxs fails with an I/O error, then the block is retried", base, c.P)
	}
	return base
}

// build returns the block of the case and the split point for B (-1 = the case needs no second instance).
func (c sizeCase) build() (blk []string, splitB int) {
	blk = mkBlock(c.N, c.VLen, "v")
	switch {
	case strings.HasPrefix(c.Kind, "invalid:"):
		blk[c.P] = invalidTxs[strings.TrimPrefix(c.Kind, "invalid:")]
		return blk, -1
	case c.Kind == "split":
		return blk, c.P
	case c.Kind == "dup-first":
		blk[c.P] = skey(0) + "=" + pad(fmt.Sprintf("d%d", c.P), c.VLen)
		return blk, c.P
	case c.Kind == "dup-prev":
		blk[c.P] = skey(c.P-1) + "=" + pad(fmt.Sprintf("d%d", c.P), c.VLen)
		return blk, c.P
	case c.Kind == "dup-last":
		blk[c.N-1] = skey(c.P) + "=" + pad(fmt.Sprintf("d%d", c.P), c.VLen)
		return blk, c.P
	}
	return blk, -1 // crash, ioerr
}

// positions of a kind for a block of n transactions: [lo, hi]
func positionRange(kind string, n int) (lo, hi int) {
	switch kind {
	case "split":
		return 0, n
	case "dup-first", "dup-prev":
		return 1, n - 1
	case "dup-last":
		return 0, n - 2
	}
	return 0, n - 1 // invalid:*
}

// boundaryPositions: first, second, middle, last ones, and every 2^j-1, 2^j, 2^j+1 and 10^j-1, 10^j, 10^j+1 in range.
func boundaryPositions(lo, hi int) []int {
	set := map[int]bool{}
	add := func(p int) {
		if p >= lo && p <= hi {
			set[p] = true
		}
	}
	for _, p := range []int{lo, lo + 1, (lo + hi) / 2, hi - 2, hi - 1, hi} {
		add(p)
	}
	for b := 2; b-1 <= hi; b *= 2 {
		add(b - 1)
		add(b)
		add(b + 1)
	}
	for b := 10; b-1 <= hi; b *= 10 {
		add(b - 1)
		add(b)
		add(b + 1)
	}
	out := make([]int, 0, len(set))
	for p := range set {
		out = append(out, p)
	}
	sort.Ints(out)
	return out
}

type sizePlan struct {
	DenseMax       int      `json:"every_size_from_1_to"`           // every n in 1..DenseMax
	AllPosMax      int      `json:"every_position_for_sizes_up_to"` // every position for n <= AllPosMax
	AllPosSizes    []int    `json:"every_position_also_for_sizes"`  // and for these sizes
	BoundarySizes  []int    `json:"boundary_sizes_beyond"`          // sizes > DenseMax, boundary positions
	FatVLens       []int    `json:"fat_value_lengths"`              // value lengths beyond 1
	FatSizes       []int    `json:"fat_value_block_sizes"`          // sizes executed with fat values, boundary positions
	InvalidKinds   []string `json:"invalid_tx_kinds"`
	Pres           []string `json:"pre_states"`
	PositionsOther string   `json:"positions_otherwise"`
}

func mkSizePlan(r *vf.Run) sizePlan {
	p := sizePlan{
		PositionsOther: "first, second, middle, last three, and every 2^j-1, 2^j, 2^j+1, 10^j-1, 10^j, 10^j+1 within the block",
	}
	if r.Thorough() {
		p.DenseMax, p.AllPosMax = 520, 130
		p.AllPosSizes = []int{255, 256, 257, 258, 511, 512, 513, 514}
		p.BoundarySizes = []int{999, 1000, 1001, 1023, 1024, 1025, 2047, 2048, 2049, 4095, 4096, 4097, 8191, 8192, 8193, 9999, 10000, 10001, 16383, 16384, 16385}
		p.FatVLens = []int{1024, 4096}
		p.FatSizes = []int{1, 2, 3, 63, 64, 65, 127, 128, 129, 255, 256, 257, 511, 512, 513}
		p.InvalidKinds = []string{"malformed", "empty-key", "reserved-key", "reserved-stateroot"}
		p.Pres = []string{"empty", "half"}
	} else {
		p.DenseMax, p.AllPosMax = 260, 40
		p.AllPosSizes = []int{129, 257}
		p.BoundarySizes = []int{511, 512, 513, 999, 1000, 1001, 1023, 1024, 1025}
		p.FatVLens = []int{1024}
		p.FatSizes = []int{1, 2, 3, 127, 128, 129, 255, 256, 257}
		p.InvalidKinds = []string{"malformed", "empty-key", "reserved-key"}
		p.Pres = []string{"half"}
	}
	return p
}

// a group = all cases of one (size, value length, pre-state); they share the pre-state image
type sizeGroup struct {
	n, vlen int
	pre     string
	cases   []sizeCase
}

func (p sizePlan) groups() []sizeGroup {
	allPos := map[int]bool{}
	for _, n := range p.AllPosSizes {
		allPos[n] = true
	}
	kinds := []string{}
	for _, k := range p.InvalidKinds {
		kinds = append(kinds, "invalid:"+k)
	}
	kinds = append(kinds, "split", "dup-first", "dup-prev", "dup-last")
	var out []sizeGroup
	gen := func(n, vlen int, dense bool) {
		for _, pre := range p.Pres {
			g := sizeGroup{n: n, vlen: vlen, pre: pre}
			for _, k := range kinds {
				lo, hi := positionRange(k, n)
				if hi < lo {
					continue
				}
				if dense {
					for q := lo; q <= hi; q++ {
						g.cases = append(g.cases, sizeCase{N: n, VLen: vlen, Pre: pre, Kind: k, P: q})
					}
				} else {
					for _, q := range boundaryPositions(lo, hi) {
						g.cases = append(g.cases, sizeCase{N: n, VLen: vlen, Pre: pre, Kind: k, P: q})
					}
				}
			}
			for _, k := range []string{"ioerr", "crash"} {
				g.cases = append(g.cases, sizeCase{N: n, VLen: vlen, Pre: pre, Kind: k, P: -1})
			}
			out = append(out, g)
		}
	}
	for n := 1; n <= p.DenseMax; n++ {
		gen(n, 1, n <= p.AllPosMax || allPos[n])
	}
	for _, n := range p.BoundarySizes {
		gen(n, 1, false)
	}
	for _, vlen := range p.FatVLens {
		for _, n := range p.FatSizes {
			gen(n, vlen, false)
		}
	}
	return out
}

// ---------------------------------------------------------------------------------------------------------------

type sinst struct {
	*inst
	ref    map[string]string // transactions of the blocks this instance accepted
	height uint64
}

func newSinst(name string, vs *[]viol, tags []string) *sinst {
	kv := world.NewKV(nil)
	x := &sinst{inst: &inst{name: name, kv: kv, ex: kvexec.VerifNewKVExecutorOn(fastKV{kv}, mempoolCap)}, ref: map[string]string{}}
	root, _, err := x.ex.InitChain(ctx, genesisTime, 1, chainID)
	if err != nil {
		*vs = append(*vs, viol{clause: "root-determinism", tags: append([]string{"first-initchain"}, tags...), msg: "first InitChain failed: " + err.Error()})
	} else if string(root) != "" {
		*vs = append(*vs, viol{clause: "root-determinism", tags: append([]string{"first-initchain"}, tags...), msg: fmt.Sprintf("InitChain on an empty store returned root %q, reference \"\"", root)})
	}
	x.genesis, x.last = string(root), string(root)
	return x
}

func short(s string) string {
	if len(s) > 48 {
		return fmt.Sprintf("%s…(%d bytes)", s[:48], len(s))
	}
	return s
}

func shortB(b []byte) string { return short(string(b)) }

// diffImages describes how two key spaces differ ("" = equal).
func diffImages(before, after map[string][]byte) string {
	var keys []string
	for k, v := range after {
		if w, ok := before[k]; !ok || !bytes.Equal(v, w) {
			keys = append(keys, k)
		}
	}
	for k := range before {
		if _, ok := after[k]; !ok {
			keys = append(keys, k)
		}
	}
	if len(keys) == 0 {
		return ""
	}
	sort.Strings(keys)
	var sb strings.Builder
	fmt.Fprintf(&sb, "%d of %d keys differ:", len(keys), len(after))
	for i, k := range keys {
		if i == 3 && len(keys) > 4 {
			fmt.Fprintf(&sb, " … %s", describeKey(keys[len(keys)-1], before, after))
			break
		}
		fmt.Fprintf(&sb, " %s", describeKey(k, before, after))
	}
	return sb.String()
}

func describeKey(k string, before, after map[string][]byte) string {
	b, okb := before[k]
	a, oka := after[k]
	switch {
	case !okb:
		return fmt.Sprintf("%s: absent -> %q;", k, shortB(a))
	case !oka:
		return fmt.Sprintf("%s: %q -> absent;", k, shortB(b))
	}
	return fmt.Sprintf("%s: %q -> %q;", k, shortB(b), shortB(a))
}

func applyRef(ref map[string]string, blk []string) map[string]string {
	out := make(map[string]string, len(ref)+len(blk))
	for k, v := range ref {
		out[k] = v
	}
	for _, tx := range blk {
		if k, v, cl := parseTx(tx); cl != txBad {
			out[k] = v
		}
	}
	return out
}

type sizeRun struct {
	c    sizeCase
	tags []string
	vs   []viol
	out  []string // outcome words
	nCmp int      // returned roots compared with the reference

	finalEntries int // entries of A's last returned root
}

func (s *sizeRun) add(clause string, extra []string, format string, a ...any) {
	s.vs = append(s.vs, viol{clause: clause, tags: append(append([]string{}, extra...), s.tags...), msg: fmt.Sprintf(format, a...)})
}

// exec executes one block without faults and checks verdict, atomicity of a rejection and the returned root.
func (s *sizeRun) exec(x *sinst, blk []string, what string) (accepted bool) {
	cls := classify(blk)
	var probeBefore string
	if cls != mustSucceed {
		probeBefore = x.probe()
	}
	w0 := x.kv.NumWrites()
	prev := x.last
	root, _, err := x.ex.ExecuteTxs(ctx, toBytes(blk), x.height+1, ts(x.height+1), []byte(prev))
	if err != nil {
		changed := false
		if x.kv.NumWrites() != w0 { // without a durable write the key space cannot have changed
			if d := diffImages(x.kv.ImageAfter(w0), x.kv.Image()); d != "" {
				changed = true
				s.add("malformed-block-atomic", nil, "instance %s rejected %s (%v) but its key space changed: %s", x.name, what, err, d)
			}
		}
		if p := x.probe(); !changed && cls != mustSucceed && p != probeBefore {
			s.add("malformed-block-atomic", nil, "instance %s rejected %s (%v) but its root changed from %q to %q", x.name, what, err, short(probeBefore), short(p))
		}
		if cls == mustSucceed {
			s.add("root-determinism", []string{"valid-block-rejected"}, "instance %s rejected the well-formed %s: %v", x.name, what, err)
		}
		return false
	}
	if cls == mustFail {
		s.add("malformed-block-atomic", nil, "instance %s accepted %s, which contains a malformed/reserved transaction (root %q)", x.name, what, short(string(root)))
	}
	s.accepted(x, blk, string(root), what)
	return true
}

func (s *sizeRun) accepted(x *sinst, blk []string, root, what string) {
	x.ref = applyRef(x.ref, blk)
	x.height++
	x.last = root
	s.nCmp++
	if want := rootOf(x.ref); root != want {
		s.add("root-determinism", nil, "instance %s: %s returned a root that is not the root of the executed transactions: %s", x.name, what, diffRoots(root, want))
	}
}

// diffRoots shows the first entry in which two "key:value;" roots differ.
func diffRoots(got, want string) string {
	g, w := strings.Split(got, ";"), strings.Split(want, ";")
	for i := 0; i < len(g) || i < len(w); i++ {
		var a, b string
		if i < len(g) {
			a = g[i]
		}
		if i < len(w) {
			b = w[i]
		}
		if a != b {
			return fmt.Sprintf("entry %d is %q, the reference has %q (returned %d entries, reference %d)", i, short(a), short(b), len(g)-1, len(w)-1)
		}
	}
	return "equal"
}

func (x *sinst) reopen() {
	x.kv = world.NewKV(x.kv.Image())
	x.ex = kvexec.VerifNewKVExecutorOn(fastKV{x.kv}, mempoolCap)
}

// preBlock: the even-numbered keys of the block with other values, and one key the block does not touch.
func preBlock(c sizeCase) []string {
	var blk []string
	for i, tx := range mkBlock(c.N, c.VLen, "o") {
		if i%2 == 0 {
			blk = append(blk, tx)
		}
	}
	return append(blk, "j=1")
}

// snapshot = the pre-state of a group, produced by real calls on a fresh executor.
type snapshot struct {
	image   map[string][]byte
	ref     map[string]string
	genesis string
	last    string
	height  uint64
}

// buildPre runs InitChain and, for pre-state "half", the pre-block on a fresh real executor (checked like every
// other execution; s collects what the oracle says about it).
func buildPre(c sizeCase) (*snapshot, *sizeRun) {
	c.Kind, c.P = "pre-state", 0
	s := &sizeRun{c: c, tags: sizeTags(c)}
	x := newSinst("A", &s.vs, s.tags)
	if c.Pre == "half" {
		pb := preBlock(c)
		s.exec(x, pb, fmt.Sprintf("the pre-block of %d txs (%s=o0, %s=o2, .., j=1)", len(pb), skey(0), skey(2)))
	}
	return &snapshot{image: x.kv.Image(), ref: x.ref, genesis: x.genesis, last: x.last, height: x.height}, s
}

func (sn *snapshot) instance(name string) *sinst {
	kv := world.NewKV(sn.image)
	return &sinst{inst: &inst{name: name, kv: kv, ex: kvexec.VerifNewKVExecutorOn(fastKV{kv}, mempoolCap), genesis: sn.genesis, last: sn.last}, ref: sn.ref, height: sn.height}
}

// measureWrites: number of durable writes one fault-free ExecuteTxs of the case's block performs in the pre-state.
func measureWrites(c sizeCase, sn *snapshot) int {
	x := sn.instance("W")
	blk, _ := c.build()
	n0 := x.kv.NumWrites()
	_, _, _ = x.ex.ExecuteTxs(ctx, toBytes(blk), x.height+1, ts(x.height+1), []byte(x.last))
	return x.kv.NumWrites() - n0
}

func sizeTags(c sizeCase) []string {
	kind := c.Kind
	switch {
	case strings.HasPrefix(kind, "invalid:"):
		kind = "invalid-tx-at-position"
	case kind == "split":
		kind = "same-txs-grouped-differently"
	case strings.HasPrefix(kind, "dup-"):
		kind = "duplicate-key-in-block"
	case kind == "crash":
		kind = "crash-inside-execute"
	case kind == "ioerr":
		kind = "io-error-inside-execute"
	}
	tags := []string{kind, "pre-" + c.Pre}
	if c.N > 3 {
		tags = append(tags, "block-size>3")
	} else {
		tags = append(tags, "block-size<=3")
	}
	if c.VLen > 1 {
		tags = append(tags, "fat-values")
	}
	return tags
}

// runSizeCase executes one case (c.P concrete) on fresh instances started from the group's pre-state.
func runSizeCase(c sizeCase, sn *snapshot) *sizeRun {
	s := &sizeRun{c: c, tags: sizeTags(c)}
	A := sn.instance("A")
	blk, splitB := c.build()
	what := describeBlock(c)
	switch c.Kind {
	case "crash":
		s.crash(A, blk, what)
	case "ioerr":
		s.ioerr(A, blk, what)
	default:
		if s.exec(A, blk, what) {
			s.out = append(s.out, "accepted")
		} else {
			s.out = append(s.out, "rejected")
		}
		if splitB >= 0 {
			B := sn.instance("B")
			s.exec(B, blk[:splitB], fmt.Sprintf("the first part tx[0:%d] of the %s", splitB, what))
			s.exec(B, blk[splitB:], fmt.Sprintf("the second part tx[%d:%d] of the %s", splitB, len(blk), what))
			if A.last != B.last {
				s.add("root-determinism", []string{"instances-disagree"}, "after the %s A and B, which executed the same ordered transactions, returned different roots: %s", what, diffRoots(A.last, B.last))
			}
		}
	}
	if splitB < 0 || c.Kind == "crash" || c.Kind == "ioerr" {
		// a rejected or interrupted block must not leak into the next one
		s.exec(A, []string{"z=1"}, "the follow-up block [z=1] after the "+what)
	}
	s.finalEntries = strings.Count(A.last, ";")
	w0 := A.kv.NumWrites()
	root, _, err := A.ex.InitChain(ctx, genesisTime, 1, chainID)
	if err != nil {
		s.add("idempotence", nil, "repeated InitChain on instance A after the %s failed: %v", what, err)
	} else if string(root) != A.genesis {
		s.add("idempotence", nil, "repeated InitChain on instance A after the %s returned %q, the first call returned %q", what, short(string(root)), A.genesis)
	}
	if A.kv.NumWrites() != w0 {
		if d := diffImages(A.kv.ImageAfter(w0), A.kv.Image()); d != "" {
			s.add("idempotence", nil, "repeated InitChain on instance A after the %s changed the key space: %s", what, d)
		}
	}
	A.reopen()
	if p := A.probe(); p != A.last {
		s.add("reopen", nil, "after the %s and a reopen the root of instance A is not the root it returned last: %s", what, diffRoots(p, A.last))
	}
	return s
}

// allOrNothing: after an interrupted ExecuteTxs the root must be the one before the block or the reference root with
// the whole block applied.
func (s *sizeRun) allOrNothing(x *sinst, blk []string, probeBefore, what, how string) {
	full := rootOf(applyRef(x.ref, blk))
	switch p := x.probe(); p {
	case probeBefore:
		s.out = append(s.out, "nothing-applied")
	case full:
		s.out = append(s.out, "all-applied")
	default:
		s.out = append(s.out, "partially-applied")
		s.add("block-all-or-nothing", nil, "%s: %s; afterwards the root of instance %s is neither the root before the block nor the root with the whole block applied: against the root before: %s; against the complete block: %s", what, how, x.name, diffRoots(p, probeBefore), diffRoots(p, full))
	}
}

func (s *sizeRun) crash(x *sinst, blk []string, what string) {
	probeBefore := x.probe()
	base := x.kv.NumWrites()
	x.kv.OnWrite = func(idx int, w world.Write) bool { return idx == base+s.c.P }
	var root []byte
	var err error
	completed := world.Go(func() {
		root, _, err = x.ex.ExecuteTxs(ctx, toBytes(blk), x.height+1, ts(x.height+1), []byte(x.last))
	})
	x.kv.OnWrite = nil
	if completed {
		// fewer durable writes than measured: no crash happened, judge it as an ordinary execution
		s.out = append(s.out, "no-crash")
		if err == nil {
			s.accepted(x, blk, string(root), what)
		} else {
			s.add("root-determinism", []string{"valid-block-rejected"}, "instance %s rejected the well-formed %s: %v", x.name, what, err)
		}
		return
	}
	x.reopen() // a new process on what the crash left behind
	s.allOrNothing(x, blk, probeBefore, what, fmt.Sprintf("the process died before durable write #%d of ExecuteTxs", s.c.P))
	if root, _, err := x.ex.InitChain(ctx, genesisTime, 1, chainID); err != nil || string(root) != x.genesis {
		s.add("idempotence", nil, "InitChain after the crash in the %s returned %q, %v; the first call returned %q", what, short(string(root)), err, x.genesis)
	}
	s.exec(x, blk, "re-execution after the crash of the "+what)
}

func (s *sizeRun) ioerr(x *sinst, blk []string, what string) {
	probeBefore := x.probe()
	base := x.kv.NumWrites()
	x.kv.FailWrite = func(idx int, w world.Write) bool { return idx == base+s.c.P }
	root, _, err := x.ex.ExecuteTxs(ctx, toBytes(blk), x.height+1, ts(x.height+1), []byte(x.last))
	x.kv.FailWrite = nil
	if err == nil {
		// the executor claims success: then the returned root must be the root of the whole block
		s.out = append(s.out, "io-error-swallowed")
		s.accepted(x, blk, string(root), what)
		return
	}
	s.out = append(s.out, "io-error-returned")
	s.allOrNothing(x, blk, probeBefore, what, fmt.Sprintf("durable write #%d failed and ExecuteTxs returned %q", s.c.P, err))
	s.exec(x, blk, "retry after the I/O error of the "+what)
}

// ---------------------------------------------------------------------------------------------------------------

type sizeStats struct {
	plan        sizePlan
	cases       int64 // executed cases (fault cases expanded per durable write), not counting the pre-state builds
	groups      int64
	byKind      map[string]int64
	rootCmp     int64
	maxWrites   int
	sizes       int
	maxSize     int
	maxBytes    int
	capped      string
	wall        time.Duration
	cpu         time.Duration // user+system time of the process during this part
	outcomeKeys map[string]int64
}

func sizeCost(costBase int, c sizeCase) int {
	vr := 0
	if c.VLen > 1 {
		vr = 1
	}
	pr := 0
	if c.Pre != "empty" {
		pr = 1
	}
	return costBase + (((c.N*2+vr)*2+pr)*32768+c.P+1)*16 + kindRank(c.Kind)
}

func kindRank(k string) int {
	for i, x := range []string{"pre-state", "invalid:malformed", "invalid:empty-key", "invalid:reserved-key", "invalid:reserved-stateroot", "split", "dup-first", "dup-prev", "dup-last", "ioerr", "crash"} {
		if x == k {
			return i
		}
	}
	return 15
}

func reportSize(r *vf.Run, costBase int, s *sizeRun) {
	for _, v := range s.vs {
		r.Report(vf.Violation{Clause: v.clause, Tags: v.tags, Msg: fmt.Sprintf("%s\n size part, case %s: InitChain on a fresh store ; pre-state %q ; %s", v.msg, s.c, s.c.Pre, describeBlock(s.c)), Cost: sizeCost(costBase, s.c), History: s.c})
	}
}

// replaySizeCase re-executes one recorded case from scratch.
func replaySizeCase(r *vf.Run, costBase int, c sizeCase) {
	sn, pre := buildPre(c)
	if c.Kind == "pre-state" || len(pre.vs) > 0 {
		reportSize(r, costBase, pre)
	}
	if c.Kind != "pre-state" {
		reportSize(r, costBase, runSizeCase(c, sn))
	}
}

func runSizePhase(r *vf.Run, costBase int, deadline time.Time) sizeStats {
	plan := mkSizePlan(r)
	groups := plan.groups()
	// small blocks first: a deadline, if it ever strikes, cuts off the largest sizes, and the smallest counterexample is found early
	sort.SliceStable(groups, func(i, j int) bool { return groups[i].n*(groups[i].vlen+7) < groups[j].n*(groups[j].vlen+7) })
	st := sizeStats{plan: plan, byKind: map[string]int64{}, outcomeKeys: map[string]int64{}}
	sizes := map[int]bool{}
	for _, g := range groups {
		sizes[g.n] = true
		if g.n > st.maxSize {
			st.maxSize = g.n
		}
		if b := g.n * (g.vlen + 7); b > st.maxBytes {
			st.maxBytes = b
		}
	}
	st.sizes = len(sizes)
	started, cpu0 := time.Now(), cpuTime()
	defer debug.SetGCPercent(debug.SetGCPercent(400)) // many short-lived instances, small live heap
	var next atomic.Int64
	var timedOut atomic.Bool
	var mu sync.Mutex
	var wg sync.WaitGroup
	one := func(c sizeCase, sn *snapshot) {
		s := runSizeCase(c, sn)
		reportSize(r, costBase, s)
		kind := c.Kind
		if strings.HasPrefix(kind, "invalid:") {
			kind = "invalid"
		}
		ok := "size part: " + c.Kind + " -> " + strings.Join(s.out, ",")
		r.Outcome(ok)
		mu.Lock()
		st.cases++
		st.byKind[kind]++
		st.rootCmp += int64(s.nCmp)
		st.outcomeKeys[ok]++
		mu.Unlock()
		if c.N == 129 && c.VLen == 1 && len(s.vs) == 0 && (c.Kind == "invalid:malformed" && c.P == 128 || c.Kind == "split" && c.P == 128 || c.Kind == "crash") {
			r.Sample(fmt.Sprintf("size part, pre-state %s: %s  =>  %s ; last root returned by A has %d entries", c.Pre, describeBlock(c), strings.Join(s.out, ","), s.finalEntries))
		}
	}
	for w := 0; w < runtime.NumCPU(); w++ {
		wg.Add(1)
		go func() {
			defer wg.Done()
			for {
				i := int(next.Add(1) - 1)
				if i >= len(groups) {
					return
				}
				g := groups[i]
				sn, pre := buildPre(g.cases[0])
				reportSize(r, costBase, pre)
				mu.Lock()
				st.groups++
				st.rootCmp += int64(pre.nCmp)
				mu.Unlock()
				for _, c := range g.cases {
					if time.Now().After(deadline) {
						timedOut.Store(true)
						return
					}
					if c.P >= 0 {
						one(c, sn)
						continue
					}
					w := measureWrites(c, sn)
					mu.Lock()
					if w > st.maxWrites {
						st.maxWrites = w
					}
					mu.Unlock()
					for p := 0; p < w; p++ {
						cc := c
						cc.P = p
						one(cc, sn)
					}
				}
			}
		}()
	}
	wg.Wait()
	if timedOut.Load() {
		st.capped = fmt.Sprintf("size part: deadline reached after %d cases", st.cases)
	}
	st.wall, st.cpu = time.Since(started), cpuTime()-cpu0
	return st
}

func cpuTime() time.Duration {
	var ru syscall.Rusage
	if syscall.Getrusage(syscall.RUSAGE_SELF, &ru) != nil {
		return 0
	}
	return time.Duration(ru.Utime.Nano() + ru.Stime.Nano())
}
