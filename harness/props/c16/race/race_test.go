// Package race is the free-running supplement of C16 (see props/c13/race for the rationale): several callers use ONE real
// jsonrpc client against ONE real server over loopback TCP concurrently, on all cores, under the Go race detector.
// Sampling; decides nothing. The parent check turns reports that involve repository code into clause "data-race".
package race

import (
	"context"
	"encoding/hex"
	"fmt"
	"os"
	"strconv"
	"sync"
	"testing"
	"time"

	logging "github.com/ipfs/go-log/v2"

	coreda "github.com/evstack/ev-node/core/da"
	proxy "github.com/evstack/ev-node/da/jsonrpc"
	"github.com/evstack/ev-node/types"
)

func run(callers, ops int) (submitted, fetched int) {
	logger := logging.Logger("c16race")
	_ = logging.SetLogLevel("c16race", "FATAL")
	backing := coreda.NewDummyDA(4096, 0, 0, 50*time.Millisecond)
	backing.StartHeightTicker()
	defer backing.StopHeightTicker()
	srv := proxy.NewServer(logger, "127.0.0.1", "0", backing)
	if err := srv.Start(context.Background()); err != nil {
		panic(err)
	}
	defer srv.Stop(context.Background())
	cli, err := proxy.NewClient(context.Background(), logger, "http://"+srv.VerifListenAddr().String(), "", hex.EncodeToString([]byte("c16")))
	if err != nil {
		panic(err)
	}
	defer cli.Close()
	cli.DA.MaxBlobSize = 4096
	var wg sync.WaitGroup
	var mu sync.Mutex
	for c := 0; c < callers; c++ {
		wg.Add(1)
		go func(c int) {
			defer wg.Done()
			ctx := context.Background()
			for i := 0; i < ops; i++ {
				blobs := [][]byte{[]byte(fmt.Sprintf("c%d-op%d-a", c, i)), []byte(fmt.Sprintf("c%d-op%d-b", c, i))}
				res := types.SubmitWithHelpers(ctx, &cli.DA, logger, blobs, 0, nil)
				if res.Code == coreda.StatusSuccess {
					mu.Lock()
					submitted += int(res.SubmittedCount)
					mu.Unlock()
					if got, err := cli.DA.Get(ctx, res.IDs, []byte("c16")); err == nil {
						mu.Lock()
						fetched += len(got)
						mu.Unlock()
					}
				}
				_ = types.RetrieveWithHelpers(ctx, &cli.DA, logger, uint64(i), nil)
				_, _ = cli.DA.GasPrice(ctx)
			}
		}(c)
	}
	wg.Wait()
	return
}

func TestRaceFree(t *testing.T) {
	rounds := 1
	if n, err := strconv.Atoi(os.Getenv("VERIF_RACE_ROUNDS")); err == nil && n > 0 {
		rounds = n
	}
	runs, sub, fet := 0, 0, 0
	for r := 0; r < rounds; r++ {
		for _, callers := range []int{2, 3, 8} {
			s, f := run(callers, 6)
			runs++
			sub += s
			fet += f
		}
	}
	fmt.Printf("RACE-PASS runs=%d blobs_submitted=%d blobs_fetched=%d\n", runs, sub, fet)
}
