package c16

import (
	"bytes"
	"context"
	"crypto/sha256"
	"encoding/binary"
	"encoding/hex"
	"errors"
	"fmt"
	"hash/fnv"
	"os"
	"runtime"
	"sort"
	"strings"
	"sync"
	"sync/atomic"
	"testing"
	"time"

	logging "github.com/ipfs/go-log/v2"

	coreda "github.com/evstack/ev-node/core/da"
	proxy "github.com/evstack/ev-node/da/jsonrpc"
	"github.com/evstack/ev-node/types"

	"verif/harness/explore"
	"verif/harness/vf"
)

// C16 — a DA layer behind the JSON-RPC proxy behaves like the same DA layer in-process.
//
// Differential, bounded-exhaustive: two identically prepared backing DAs; one is called directly by the node helpers
// (types.SubmitWithHelpers / types.RetrieveWithHelpers), the other one through the real jsonrpc.Server + Client over
// loopback TCP. Results are compared call by call; the backing store behind the proxy is compared with what the
// reported SubmittedCount claims.

const limit = 4 // max blob size of the backing DA == MaxBlobSize of the client

var blobSizes = []int{0, 1, limit - 1, limit, limit + 1}

var logger logging.EventLogger

func init() {
	logging.SetAllLoggers(logging.LevelFatal)
	logger = logging.Logger("c16")
	_ = logging.SetLogLevel("c16", "fatal")
	_ = logging.SetLogLevel("rpc", "fatal")
}

// ---------------------------------------------------------------------------------------------------------------
// injected errors

type errKind struct {
	Name     string // unique name (replayable)
	Sentinel string // name of the error whose identity matters
	Err      error
}

var coreErrs = []struct {
	name string
	err  error
}{
	{"ErrBlobNotFound", coreda.ErrBlobNotFound},
	{"ErrBlobSizeOverLimit", coreda.ErrBlobSizeOverLimit},
	{"ErrTxTimedOut", coreda.ErrTxTimedOut},
	{"ErrTxAlreadyInMempool", coreda.ErrTxAlreadyInMempool},
	{"ErrTxIncorrectAccountSequence", coreda.ErrTxIncorrectAccountSequence},
	{"ErrContextDeadline", coreda.ErrContextDeadline},
	{"ErrHeightFromFuture", coreda.ErrHeightFromFuture},
	{"ErrContextCanceled", coreda.ErrContextCanceled},
}

func isCoreSentinel(s string) bool {
	for _, c := range coreErrs {
		if c.name == s {
			return true
		}
	}
	return false
}

var errKinds = func() []errKind {
	var ks []errKind
	for _, c := range coreErrs {
		ks = append(ks, errKind{c.name, c.name, c.err})
	}
	for _, c := range coreErrs {
		ks = append(ks, errKind{"wrapped:" + c.name, c.name, fmt.Errorf("backing DA failed: %w", c.err)})
	}
	ks = append(ks,
		errKind{"context.Canceled", "context.Canceled", context.Canceled},
		errKind{"wrapped:context.Canceled", "context.Canceled", fmt.Errorf("backing DA failed: %w", context.Canceled)},
		errKind{"generic", "generic", errors.New("backing DA exploded")},
		errKind{"context.DeadlineExceeded", "context.DeadlineExceeded", context.DeadlineExceeded},
	)
	return ks
}()

func kindByName(n string) (errKind, bool) {
	for _, k := range errKinds {
		if k.Name == n {
			return k, true
		}
	}
	return errKind{}, false
}

// ---------------------------------------------------------------------------------------------------------------
// backing DAs

func mkID(height uint64, blob []byte) []byte {
	id := make([]byte, 8, 8+32)
	binary.LittleEndian.PutUint64(id, height)
	h := sha256.Sum256(blob)
	return append(id, h[:]...)
}

// backing is a DA the harness can prepare, tick and look into.
type backing interface {
	coreda.DA
	tick()
	snapshot() (uint64, map[uint64][][]byte)
	arm(point string, err error) // the next call of that kind fails with err (before touching the store)
	disarm()
}

// fakeDA has DummyDA-compatible semantics plus next-call error injection and context awareness.
type fakeDA struct {
	mu       sync.Mutex
	cur      uint64
	byHeight map[uint64][]coreda.ID
	blobs    map[string][]byte
	injPoint string
	injErr   error
	// sameHeight (concurrent part only): a submission lands on the current height and is visible to GetIDs at once,
	// so that what a retrieval returns depends on the order in which the DA saw the calls.
	sameHeight bool
	// lim (large-payload part only): the DA's blob size limit; 0 = the tiny `limit` of the other parts
	lim uint64
}

func (d *fakeDA) maxSize() uint64 {
	if d.lim != 0 {
		return d.lim
	}
	return limit
}

func newFakeDA() *fakeDA {
	return &fakeDA{byHeight: map[uint64][]coreda.ID{}, blobs: map[string][]byte{}}
}

func (d *fakeDA) arm(point string, err error) {
	d.mu.Lock()
	d.injPoint, d.injErr = point, err
	d.mu.Unlock()
}
func (d *fakeDA) disarm() { d.arm("", nil) }

// fail reports the error of this call, if any: a dead context first, then the armed injection (consumed).
func (d *fakeDA) fail(ctx context.Context, point string) error {
	if err := ctx.Err(); err != nil {
		return err
	}
	if d.injErr != nil && d.injPoint == point {
		err := d.injErr
		d.injPoint, d.injErr = "", nil
		return err
	}
	return nil
}

func (d *fakeDA) tick() {
	d.mu.Lock()
	d.cur++
	d.mu.Unlock()
}

func (d *fakeDA) snapshot() (uint64, map[uint64][][]byte) {
	d.mu.Lock()
	defer d.mu.Unlock()
	out := map[uint64][][]byte{}
	for h, ids := range d.byHeight {
		for _, id := range ids {
			out[h] = append(out[h], append([]byte{}, d.blobs[string(id)]...))
		}
	}
	return d.cur, out
}

func (d *fakeDA) GasPrice(context.Context) (float64, error)      { return 1, nil }
func (d *fakeDA) GasMultiplier(context.Context) (float64, error) { return 1, nil }

func (d *fakeDA) Get(ctx context.Context, ids []coreda.ID, _ []byte) ([]coreda.Blob, error) {
	d.mu.Lock()
	defer d.mu.Unlock()
	if err := d.fail(ctx, "get"); err != nil {
		return nil, err
	}
	out := make([]coreda.Blob, 0, len(ids))
	for _, id := range ids {
		b, ok := d.blobs[string(id)]
		if !ok {
			return nil, coreda.ErrBlobNotFound
		}
		out = append(out, append([]byte{}, b...))
	}
	return out, nil
}

func (d *fakeDA) GetIDs(ctx context.Context, height uint64, _ []byte) (*coreda.GetIDsResult, error) {
	d.mu.Lock()
	defer d.mu.Unlock()
	if err := d.fail(ctx, "getids"); err != nil {
		return nil, err
	}
	if height > d.cur {
		return nil, fmt.Errorf("%w: requested %d, current %d", coreda.ErrHeightFromFuture, height, d.cur)
	}
	ids := append([]coreda.ID{}, d.byHeight[height]...)
	return &coreda.GetIDsResult{IDs: ids, Timestamp: time.Unix(int64(1000+height), 0).UTC()}, nil
}

func (d *fakeDA) GetProofs(_ context.Context, ids []coreda.ID, _ []byte) ([]coreda.Proof, error) {
	out := make([]coreda.Proof, len(ids))
	for i, id := range ids {
		out[i] = id
	}
	return out, nil
}

func (d *fakeDA) Commit(_ context.Context, blobs []coreda.Blob, _ []byte) ([]coreda.Commitment, error) {
	out := make([]coreda.Commitment, len(blobs))
	for i, b := range blobs {
		h := sha256.Sum256(b)
		out[i] = h[:]
	}
	return out, nil
}

func (d *fakeDA) Validate(_ context.Context, ids []coreda.ID, _ []coreda.Proof, _ []byte) ([]bool, error) {
	d.mu.Lock()
	defer d.mu.Unlock()
	out := make([]bool, len(ids))
	for i, id := range ids {
		_, out[i] = d.blobs[string(id)]
	}
	return out, nil
}

func (d *fakeDA) Submit(ctx context.Context, blobs []coreda.Blob, gasPrice float64, ns []byte) ([]coreda.ID, error) {
	return d.SubmitWithOptions(ctx, blobs, gasPrice, ns, nil)
}

func (d *fakeDA) SubmitWithOptions(ctx context.Context, blobs []coreda.Blob, _ float64, _ []byte, _ []byte) ([]coreda.ID, error) {
	d.mu.Lock()
	defer d.mu.Unlock()
	// Conditions of the input come first (the same order in which the proxy client looks at a call), then the context,
	// then the injected failure: which of several simultaneously applicable outcomes wins is not part of the property.
	if len(blobs) == 0 {
		return []coreda.ID{}, nil
	}
	// DummyDA's scan: an individually oversize blob met before the cumulative cut fails the whole call
	n := 0
	var size uint64
	for _, b := range blobs {
		if uint64(len(b)) > d.maxSize() {
			return nil, coreda.ErrBlobSizeOverLimit
		}
		if size+uint64(len(b)) > d.maxSize() {
			break
		}
		size += uint64(len(b))
		n++
	}
	if err := d.fail(ctx, "submit"); err != nil {
		return nil, err
	}
	height := d.cur + 1
	if d.sameHeight {
		height = d.cur
	}
	ids := make([]coreda.ID, 0, n)
	for _, b := range blobs[:n] {
		id := mkID(height, b)
		d.blobs[string(id)] = append([]byte{}, b...)
		ids = append(ids, id)
	}
	if len(ids) > 0 {
		d.byHeight[height] = append(d.byHeight[height], ids...)
	}
	return ids, nil
}

// dummyBacking is the repository's own DummyDA (no injection, ignores contexts).
type dummyBacking struct{ *coreda.DummyDA }

func (d dummyBacking) tick()                                   { d.VerifAdvanceHeight() }
func (d dummyBacking) snapshot() (uint64, map[uint64][][]byte) { return d.VerifSnapshot() }
func (d dummyBacking) arm(string, error)                       { panic("DummyDA has no error injection") }
func (d dummyBacking) disarm()                                 {}

// swapDA lets one long-lived server serve a fresh backing instance per explored history.
type swapDA struct {
	mu    sync.RWMutex
	inner backing
}

func (s *swapDA) get() backing {
	s.mu.RLock()
	defer s.mu.RUnlock()
	return s.inner
}
func (s *swapDA) set(b backing) {
	s.mu.Lock()
	s.inner = b
	s.mu.Unlock()
}
func (s *swapDA) GasPrice(ctx context.Context) (float64, error) { return s.get().GasPrice(ctx) }
func (s *swapDA) GasMultiplier(ctx context.Context) (float64, error) {
	return s.get().GasMultiplier(ctx)
}
func (s *swapDA) Get(ctx context.Context, ids []coreda.ID, ns []byte) ([]coreda.Blob, error) {
	return s.get().Get(ctx, ids, ns)
}
func (s *swapDA) GetIDs(ctx context.Context, h uint64, ns []byte) (*coreda.GetIDsResult, error) {
	return s.get().GetIDs(ctx, h, ns)
}
func (s *swapDA) GetProofs(ctx context.Context, ids []coreda.ID, ns []byte) ([]coreda.Proof, error) {
	return s.get().GetProofs(ctx, ids, ns)
}
func (s *swapDA) Commit(ctx context.Context, blobs []coreda.Blob, ns []byte) ([]coreda.Commitment, error) {
	return s.get().Commit(ctx, blobs, ns)
}
func (s *swapDA) Validate(ctx context.Context, ids []coreda.ID, proofs []coreda.Proof, ns []byte) ([]bool, error) {
	return s.get().Validate(ctx, ids, proofs, ns)
}
func (s *swapDA) Submit(ctx context.Context, blobs []coreda.Blob, gp float64, ns []byte) ([]coreda.ID, error) {
	return s.get().Submit(ctx, blobs, gp, ns)
}
func (s *swapDA) SubmitWithOptions(ctx context.Context, blobs []coreda.Blob, gp float64, ns []byte, opts []byte) ([]coreda.ID, error) {
	return s.get().SubmitWithOptions(ctx, blobs, gp, ns, opts)
}

var _ coreda.DA = (*swapDA)(nil)
var _ coreda.DA = (*fakeDA)(nil)

// ---------------------------------------------------------------------------------------------------------------
// a rig: one direct instance, one instance behind a real server + client on loopback

type rig struct {
	kind   string // "fake" | "dummyda"
	direct *swapDA
	behind *swapDA
	srv    *proxy.Server
	cli    *proxy.Client
}

func newRig(kind string) (*rig, error) { return newRigWith(kind, limit) }

// newRigWith: clientLimit 0 leaves the client's MaxBlobSize as proxy.NewClient set it (the large-payload part).
func newRigWith(kind string, clientLimit uint64) (*rig, error) {
	g := &rig{kind: kind, direct: &swapDA{}, behind: &swapDA{}}
	g.reset("empty")
	g.srv = proxy.NewServer(logger, "127.0.0.1", "0", g.behind)
	if err := g.srv.Start(context.Background()); err != nil {
		return nil, fmt.Errorf("server start: %w", err)
	}
	// Start returns after net.Listen succeeded: the kernel queues connections from now on, no start-up race.
	addr := g.srv.VerifListenAddr()
	if addr == nil {
		return nil, errors.New("server has no listener after Start")
	}
	cli, err := proxy.NewClient(context.Background(), logger, "http://"+addr.String(), "", hex.EncodeToString([]byte("c16")))
	if err != nil {
		return nil, fmt.Errorf("client: %w", err)
	}
	if clientLimit != 0 {
		cli.DA.MaxBlobSize = clientLimit
	}
	g.cli = cli
	if _, err := cli.DA.GasPrice(context.Background()); err != nil {
		return nil, fmt.Errorf("warm-up call through the proxy failed: %w", err)
	}
	return g, nil
}

func (g *rig) close() {
	g.cli.Close()
	_ = g.srv.Stop(context.Background())
}

var preBlobs = [][]byte{{0xA1}, {0xB2, 0xB2}}

// newBacking builds a backing DA in one of the two pre-states:
//
//	empty:     current height 0, nothing stored (height 0 is empty, 1.. are in the future)
//	populated: current height 2, two blobs at height 1, height 2 empty, 3.. in the future
func newBacking(kind, pre string) backing {
	var b backing
	if kind == "dummyda" {
		b = dummyBacking{coreda.NewDummyDA(limit, 1, 1, time.Hour)}
	} else {
		b = newFakeDA()
	}
	if pre == "populated" {
		if ids, err := b.SubmitWithOptions(context.Background(), preBlobs, 1, nil, nil); err != nil || len(ids) != len(preBlobs) {
			panic(fmt.Sprintf("preparing the populated pre-state failed: %v %d", err, len(ids)))
		}
		b.tick()
		b.tick()
	}
	return b
}

func (g *rig) reset(pre string) {
	g.direct.set(newBacking(g.kind, pre))
	g.behind.set(newBacking(g.kind, pre))
}

type storeModel struct {
	cur     uint64
	heights map[uint64][][]byte
}

func canon(cur uint64, hs map[uint64][][]byte) string {
	keys := make([]uint64, 0, len(hs))
	for h, bs := range hs {
		if len(bs) > 0 {
			keys = append(keys, h)
		}
	}
	sort.Slice(keys, func(i, j int) bool { return keys[i] < keys[j] })
	var sb strings.Builder
	fmt.Fprintf(&sb, "cur=%d", cur)
	for _, h := range keys {
		fmt.Fprintf(&sb, ";h%d=", h)
		for i, b := range hs[h] {
			if i > 0 {
				sb.WriteByte(',')
			}
			fmt.Fprintf(&sb, "%x.", b)
		}
	}
	return sb.String()
}

// ---------------------------------------------------------------------------------------------------------------
// actions

type action struct {
	Kind      string `json:"kind"` // submit | retrieve | tick
	Sizes     []int  `json:"sizes,omitempty"`
	Height    uint64 `json:"height,omitempty"`
	Inj       string `json:"inj,omitempty"`   // errKind name, "" = none
	Point     string `json:"point,omitempty"` // submit | getids | get
	Cancelled bool   `json:"cancelled_ctx,omitempty"`
}

func (a action) String() string {
	s := a.Kind
	switch a.Kind {
	case "submit":
		s += fmt.Sprintf("(sizes=%v)", a.Sizes)
	case "retrieve":
		s += fmt.Sprintf("(height=%d)", a.Height)
	}
	if a.Inj != "" {
		s += fmt.Sprintf("+backing-fails[%s@%s]", a.Inj, a.Point)
	}
	if a.Cancelled {
		s += "+caller-ctx-cancelled"
	}
	return s
}

type replay struct {
	Backing  string      `json:"backing,omitempty"`
	Pre      string      `json:"pre,omitempty"`
	Actions  []action    `json:"actions,omitempty"`
	Conc     *concReplay `json:"concurrent,omitempty"`     // set: a history of the concurrent part (concurrent_test.go)
	Large    *largeCase  `json:"large_payload,omitempty"`  // set: a case of the large-payload part (large_test.go)
	Latency  *latCase    `json:"latency,omitempty"`        // set: a case of the latency part (latency_test.go)
	Mismatch *mmCase     `json:"limit_mismatch,omitempty"` // set: a case of the limit-mismatch part (mismatch_test.go)
}

func sizeLists(maxLen int) [][]int {
	out := [][]int{{}}
	level := [][]int{{}}
	for l := 1; l <= maxLen; l++ {
		var next [][]int
		for _, p := range level {
			for _, s := range blobSizes {
				n := append(append([]int{}, p...), s)
				next = append(next, n)
			}
		}
		out = append(out, next...)
		level = next
	}
	return out
}

func eqInts(a, b []int) bool {
	if len(a) != len(b) {
		return false
	}
	for i := range a {
		if a[i] != b[i] {
			return false
		}
	}
	return true
}

var retrieveHeights = []uint64{0, 1, 2, 3, 4}

// isCore: the actions allowed in non-final positions of a history (they produce every kind of state change and
// every kind of failed call); the final position ranges over the whole alphabet.
func isCore(a action, thorough bool) bool {
	plain := a.Inj == "" && !a.Cancelled
	switch a.Kind {
	case "tick":
		return true
	case "submit":
		if plain {
			for _, l := range [][]int{{1}, {limit - 1, 1, 1}, {1, limit + 1}, {}} {
				if eqInts(a.Sizes, l) {
					return true
				}
			}
			if thorough && len(a.Sizes) <= 2 { // every list of <=2 blobs over the sizes {1, limit-1, limit}
				for _, s := range a.Sizes {
					if s != 1 && s != limit-1 && s != limit {
						return false
					}
				}
				return true
			}
			return false
		}
		if eqInts(a.Sizes, []int{1}) {
			return a.Cancelled || a.Inj == "ErrTxTimedOut" || a.Inj == "context.Canceled" || a.Inj == "generic"
		}
	case "retrieve":
		if plain {
			return thorough || a.Height == 1 || a.Height == 3
		}
		if a.Height == 1 {
			return a.Cancelled || (a.Inj == "generic" && a.Point == "getids") || (thorough && a.Inj == "ErrBlobNotFound" && a.Point == "get")
		}
	}
	return false
}

func alphabet(thorough bool) (acts []action, nCore int) {
	var all []action
	for _, l := range sizeLists(3) {
		all = append(all, action{Kind: "submit", Sizes: l})
		all = append(all, action{Kind: "submit", Sizes: l, Cancelled: true})
		for _, k := range errKinds {
			all = append(all, action{Kind: "submit", Sizes: l, Inj: k.Name, Point: "submit"})
		}
	}
	for _, h := range retrieveHeights {
		all = append(all, action{Kind: "retrieve", Height: h})
		all = append(all, action{Kind: "retrieve", Height: h, Cancelled: true})
		for _, k := range errKinds {
			all = append(all, action{Kind: "retrieve", Height: h, Inj: k.Name, Point: "getids"})
			all = append(all, action{Kind: "retrieve", Height: h, Inj: k.Name, Point: "get"})
		}
	}
	all = append(all, action{Kind: "tick"})
	for _, a := range all {
		if isCore(a, thorough) {
			acts = append(acts, a)
		}
	}
	nCore = len(acts)
	for _, a := range all {
		if !isCore(a, thorough) {
			acts = append(acts, a)
		}
	}
	return acts, nCore
}

// mkBlobs: the content is a function of (position, size), so equal stores have equal canonical forms.
func mkBlobs(sizes []int) [][]byte {
	out := make([][]byte, len(sizes))
	for i, s := range sizes {
		out[i] = bytes.Repeat([]byte{byte(0x10*(i+1) + s)}, s)
	}
	return out
}

// longestFit is the reference for the client-side contract: oversize = some blob scanned before the cumulative cut is
// individually over the limit (then nothing may be submitted), otherwise n = length of the longest prefix whose total fits.
func longestFit(sizes []int) (n int, oversize bool) {
	sum := 0
	for _, s := range sizes {
		if s > limit {
			oversize = true
			continue
		}
		if sum+s > limit {
			break
		}
		sum += s
		n++
	}
	if oversize {
		return 0, true
	}
	return n, false
}

// ---------------------------------------------------------------------------------------------------------------
// running one history

type histResult struct {
	key      string // canonical state after the history ("" if it must not be extended)
	preKey   string // canonical state before the last action
	viols    []vf.Violation
	hard     bool // a violation other than the narrowly classified status degradation: do not extend
	engine   string
	outcome  string
	calls    int
	states   []string
	trace    []string
	lastCode string
}

func eqBytesList(a, b [][]byte) bool {
	if len(a) != len(b) {
		return false
	}
	for i := range a {
		if !bytes.Equal(a[i], b[i]) {
			return false
		}
	}
	return true
}

func fmtList(l [][]byte) string {
	parts := make([]string, len(l))
	for i, b := range l {
		parts[i] = fmt.Sprintf("%x", b)
	}
	return "[" + strings.Join(parts, " ") + "]"
}

var transportMarks = []string{"connection refused", "connection reset", "dial tcp", "broken pipe", "http status", "EOF", "server closed"}

func transportTrouble(msg string) bool {
	for _, m := range transportMarks {
		if strings.Contains(msg, m) {
			return true
		}
	}
	return false
}

func mkCtx(cancelled bool) context.Context {
	if !cancelled {
		return context.Background()
	}
	ctx, cancel := context.WithCancel(context.Background())
	cancel()
	return ctx
}

func heightClass(m *storeModel, h uint64) string {
	switch {
	case h > m.cur:
		return "height:future"
	case len(m.heights[h]) > 0:
		return "height:populated"
	}
	return "height:empty"
}

func (g *rig) features(pre string, a action, m *storeModel) []string {
	tags := []string{"backing:" + g.kind, "pre:" + pre, "call:" + a.Kind}
	if a.Cancelled {
		tags = append(tags, "cancelled-ctx")
	}
	if a.Inj != "" {
		tags = append(tags, "inject:"+a.Inj+"@"+a.Point)
	}
	switch a.Kind {
	case "submit":
		n, over := longestFit(a.Sizes)
		switch {
		case len(a.Sizes) == 0:
			tags = append(tags, "empty-list")
		case over:
			tags = append(tags, "oversize-blob")
		case n < len(a.Sizes):
			tags = append(tags, "truncated-batch")
		default:
			tags = append(tags, "batch-fits")
		}
	case "retrieve":
		tags = append(tags, heightClass(m, a.Height))
	}
	return tags
}

func arm(b backing, a action) {
	if a.Inj == "" {
		return
	}
	k, ok := kindByName(a.Inj)
	if !ok {
		panic("unknown error kind " + a.Inj)
	}
	b.arm(a.Point, k.Err)
}

func (g *rig) retrieveBoth(ctxA, ctxB context.Context, h uint64) (coreda.ResultRetrieve, coreda.ResultRetrieve) {
	ra := types.RetrieveWithHelpers(ctxA, g.direct, logger, h, []byte("c16"))
	rb := types.RetrieveWithHelpers(ctxB, &g.cli.DA, logger, h, []byte("c16"))
	return ra, rb
}

// compareRetrieve: same status code, ids and blobs on both paths (messages and timestamps are not compared).
func compareRetrieve(ra, rb coreda.ResultRetrieve, what string, tags []string) []vf.Violation {
	var vs []vf.Violation
	if ra.Code != rb.Code {
		vs = append(vs, vf.Violation{Clause: "status-classification", Tags: tags,
			Msg: fmt.Sprintf("%s: direct status %d (%q), proxied status %d (%q)", what, ra.Code, ra.Message, rb.Code, rb.Message)})
	}
	if !eqBytesList(ra.IDs, rb.IDs) || !eqBytesList(ra.Data, rb.Data) {
		vs = append(vs, vf.Violation{Clause: "ids-and-blobs", Tags: tags,
			Msg: fmt.Sprintf("%s: direct ids=%s blobs=%s, proxied ids=%s blobs=%s", what, fmtList(ra.IDs), fmtList(ra.Data), fmtList(rb.IDs), fmtList(rb.Data))})
	}
	return vs
}

func (g *rig) runHistory(pre string, acts []action) histResult {
	var res histResult
	g.reset(pre)
	da, db := g.direct.get(), g.behind.get()
	cur0, hs0 := db.snapshot()
	m := &storeModel{cur: cur0, heights: hs0}
	preCur := cur0
	res.key = canon(m.cur, m.heights)
	for step, a := range acts {
		last := step == len(acts)-1
		res.trace = append(res.trace, a.String())
		if last {
			res.preKey = res.key + "|" + res.lastCode
		}
		var vs []vf.Violation
		tags := g.features(pre, a, m)
		switch a.Kind {
		case "tick":
			da.tick()
			db.tick()
			m.cur++
			res.lastCode = "tick"
			res.outcome = "tick"
		case "submit":
			arm(da, a)
			ra := types.SubmitWithHelpers(mkCtx(a.Cancelled), g.direct, logger, mkBlobs(a.Sizes), 1, nil)
			da.disarm()
			arm(db, a)
			input := mkBlobs(a.Sizes)
			rb := types.SubmitWithHelpers(mkCtx(a.Cancelled), &g.cli.DA, logger, mkBlobs(a.Sizes), 1, nil)
			db.disarm()
			res.calls += 2
			if !a.Cancelled && transportTrouble(rb.Message) {
				res.engine = "transport trouble on the loopback proxy: " + rb.Message
				return res
			}
			what := a.String()
			restAgree := ra.SubmittedCount == rb.SubmittedCount && eqBytesList(ra.IDs, rb.IDs)
			if ra.Code != rb.Code {
				t := tags
				known := false
				// narrow classification of the identity loss of DA errors over the wire (and nothing else):
				// only the status differs, the proxied status is the generic one (or, for the DA's own
				// "context canceled" error, the cancellation status that the client derives from the message).
				if a.Inj != "" && !a.Cancelled && restAgree {
					k, _ := kindByName(a.Inj)
					if isCoreSentinel(k.Sentinel) &&
						(rb.Code == coreda.StatusError || (k.Sentinel == "ErrContextCanceled" && rb.Code == coreda.StatusContextCanceled && ra.Code == coreda.StatusError)) {
						t = append(append([]string{}, tags...), "submit-error:"+k.Sentinel)
						known = true
					}
				}
				if !known {
					res.hard = true
				}
				vs = append(vs, vf.Violation{Clause: "status-classification", Tags: t,
					Msg: fmt.Sprintf("%s: direct status %d (%q), proxied status %d (%q)", what, ra.Code, ra.Message, rb.Code, rb.Message)})
			}
			if !restAgree {
				res.hard = true
				vs = append(vs, vf.Violation{Clause: "ids-and-blobs", Tags: tags,
					Msg: fmt.Sprintf("%s: direct count=%d ids=%s, proxied count=%d ids=%s", what, ra.SubmittedCount, fmtList(ra.IDs), rb.SubmittedCount, fmtList(rb.IDs))})
			}
			// prefix accounting on the proxied path: the store holds exactly input[:SubmittedCount] more than before
			n := int(rb.SubmittedCount)
			if n > len(input) {
				res.hard = true
				vs = append(vs, vf.Violation{Clause: "prefix-accounting", Tags: tags,
					Msg: fmt.Sprintf("%s: proxied SubmittedCount=%d exceeds the %d blobs handed in", what, rb.SubmittedCount, len(input))})
				n = len(input)
			}
			if n > 0 {
				m.heights[m.cur+1] = append(m.heights[m.cur+1], input[:n]...)
			}
			if a.Inj == "" && !a.Cancelled && rb.Code == coreda.StatusSuccess {
				if want, over := longestFit(a.Sizes); !over && int(rb.SubmittedCount) != want {
					res.hard = true
					vs = append(vs, vf.Violation{Clause: "prefix-accounting", Tags: tags,
						Msg: fmt.Sprintf("%s: proxied submit took %d blobs, the longest prefix that fits has %d", what, rb.SubmittedCount, want)})
				}
			}
			res.lastCode = fmt.Sprintf("%d/%d", ra.Code, rb.Code)
			res.outcome = fmt.Sprintf("submit:%d/%d:n=%d/%d", ra.Code, rb.Code, ra.SubmittedCount, rb.SubmittedCount)
		case "retrieve":
			arm(da, a)
			ra := types.RetrieveWithHelpers(mkCtx(a.Cancelled), g.direct, logger, a.Height, []byte("c16"))
			da.disarm()
			arm(db, a)
			rb := types.RetrieveWithHelpers(mkCtx(a.Cancelled), &g.cli.DA, logger, a.Height, []byte("c16"))
			db.disarm()
			res.calls += 2
			if !a.Cancelled && transportTrouble(rb.Message) {
				res.engine = "transport trouble on the loopback proxy: " + rb.Message
				return res
			}
			vs = compareRetrieve(ra, rb, a.String(), tags)
			if len(vs) > 0 {
				res.hard = true
			}
			res.lastCode = fmt.Sprintf("%d/%d", ra.Code, rb.Code)
			res.outcome = fmt.Sprintf("retrieve:%d/%d:n=%d/%d", ra.Code, rb.Code, len(ra.Data), len(rb.Data))
		}
		// after every call: the store behind the proxy is exactly what the reported counts say, and equals the direct one
		curB, hsB := db.snapshot()
		gotB := canon(curB, hsB)
		if want := canon(m.cur, m.heights); gotB != want {
			res.hard = true
			vs = append(vs, vf.Violation{Clause: "prefix-accounting", Tags: tags,
				Msg: fmt.Sprintf("after %s the store behind the proxy differs from what the reported submitted counts say:\n store  %s\n counts %s", a, gotB, want)})
			m.cur, m.heights = curB, hsB // continue from what is really there
		}
		curA, hsA := da.snapshot()
		if gotA := canon(curA, hsA); gotA != gotB {
			res.hard = true
			vs = append(vs, vf.Violation{Clause: "ids-and-blobs", Tags: tags,
				Msg: fmt.Sprintf("after %s the directly used DA and the DA behind the proxy hold different blobs:\n direct  %s\n proxied %s", a, gotA, gotB)})
		}
		res.key = gotB
		if last {
			res.viols = append(res.viols, vs...)
			res.states = append(res.states, gotB)
		}
	}
	if len(acts) == 0 {
		return res
	}
	// observation sweep through both paths: one more DA block, then every height written since the pre-state
	keyBefore := res.key
	da.tick()
	db.tick()
	m.cur++
	lastA := acts[len(acts)-1]
	tags := append(g.features(pre, lastA, m)[:2], "call:sweep-after-"+lastA.Kind)
	for h := preCur + 1; h <= m.cur; h++ {
		ra, rb := g.retrieveBoth(context.Background(), context.Background(), h)
		res.calls += 2
		if transportTrouble(rb.Message) {
			res.engine = "transport trouble on the loopback proxy: " + rb.Message
			return res
		}
		what := fmt.Sprintf("read-back of height %d after [%s]", h, strings.Join(res.trace, " ; "))
		vs := compareRetrieve(ra, rb, what, tags)
		want := m.heights[h]
		if len(want) == 0 {
			if rb.Code != coreda.StatusNotFound {
				vs = append(vs, vf.Violation{Clause: "status-classification", Tags: tags,
					Msg: fmt.Sprintf("%s: nothing was reported as submitted there, proxied status %d (%q)", what, rb.Code, rb.Message)})
			}
		} else if rb.Code != coreda.StatusSuccess || !eqBytesList(rb.Data, want) {
			vs = append(vs, vf.Violation{Clause: "ids-and-blobs", Tags: tags,
				Msg: fmt.Sprintf("%s: proxied status %d blobs %s, the blobs reported as submitted are %s", what, rb.Code, fmtList(rb.Data), fmtList(want))})
		}
		if len(vs) > 0 {
			res.hard = true
			res.viols = append(res.viols, vs...)
		}
	}
	res.key = keyBefore + "|last=" + res.lastCode
	return res
}

// ---------------------------------------------------------------------------------------------------------------

func hash64(s string) uint64 {
	h := fnv.New64a()
	_, _ = h.Write([]byte(s))
	return h.Sum64()
}

func TestCheck(t *testing.T) {
	r := vf.Start("C16", "exploration")
	// supplement (sampling, decides nothing): concurrent callers on one real client/server over loopback under the race detector
	r.RacePass(vf.Pick(r, 2, 30), "github.com/evstack/ev-node/")
	if out := os.Getenv("VERIF_C16_CONC_OUT"); out != "" { // a shard process of the concurrent part
		concChild(t, r.Thorough(), out)
		return
	}
	depth := vf.Pick(r, 2, 3)
	acts, nCore := alphabet(r.Thorough())
	r.Assume = []string{
		"loopback TCP between the real jsonrpc.Server and Client is reliable (transport failures are reported as machinery errors, not verdicts)",
		"the backing DA honours a dead context (the double does; DummyDA does not and is therefore only run without cancellation and injection)",
		"the backing DA fails before it stores anything (no store-then-fail injection); cancellation is only explored as a context that is already dead when the call starts (mid-flight cancellation is timing dependent)",
		"client MaxBlobSize equals the backing DA's limit in the sequential, concurrent and latency parts (both shrunk to `blob_size_limit` bytes) and in the large-payload part (both are the default proxy.NewClient sets) except its limit-mismatch cases; different limits are the subject of the limit-mismatch part only",
		"limit-mismatch part: a backing DA with a limit of its own behaves like core/da DummyDA (takes the longest prefix whose total fits ITS limit and returns that many ids; fails the whole call with ErrBlobSizeOverLimit for a blob over its limit met before that cut) - both DummyDA itself and the double; the in-process reference of SubmitWithHelpers is the same DA handed the prefix that the client contract of the property statement selects (longest prefix that fits the client's MaxBlobSize; an individually oversize blob scanned on the way fails the call with StatusTooBig and sends nothing), which for equal limits is the plain direct call; DA.Submit is compared with the plain direct call and only as success/failure + ids (a caller of the bare interface has no status); fault-free calls, one caller, only the limits, sizes and list lengths in bounds.limit_mismatch",
		"large-payload part: blob sizes and counts only within the stated grid (totals, shapes, tails in bounds.large_payload; smallest blob size and therefore largest encoding overhead per raw byte as stated); fault-free calls, one caller, HTTP over loopback TCP; a liveness guard of 5 minutes per case (a proxied call that has not returned by then is compared as a failed call); a failing case is run twice and counts only if it fails both times",
		"latency part: REAL time (the only part whose cases last as long as the latency they describe): the backing DA's first call of one kind waits L on the wall clock before it answers, or the caller pauses for L between two calls; L only from the list in bounds.latency (+1 s above the common server-side timeout values 5/10/15/30 s, 55 s = just below the node's own 60 s budget per DA call, +1 s above every timeout NewServer configures on its http.Server as read through the VerifHTTPTimeouts hook; idle gaps also 125 s); the waiting DA honours its context and stores only after the wait; fault-free calls, one caller per server/client pair, loopback TCP; callers carry no deadline of their own except a liveness guard of L + 2 minutes (a call that has not returned by then is compared as a failed call); a failing case is run twice and counts only if it fails both times. The verdict does not depend on the machine's speed: the unchanged code has no timeout a call of these lengths can reach and a slow machine only lengthens calls; a timeout that is introduced at one of the listed values is exceeded by >= 1 s",
		"server, client and node helpers keep no state between calls other than the backing store, the HTTP connection pool and the request counter: histories are merged when store contents and the status of the last call agree",
		"messages and timestamps of DA results are not compared",
		"concurrent part: another caller of the shared client can run at every log call of the client and of the server (the injected logger), between marshalling a request and handing it to the server (HTTP round trip) and at the entry of the DA; client.go/server.go are not preempted between two such points (da/jsonrpc is built with the lock shim: a caller waiting for a sync.Mutex/RWMutex of that package is parked until the lock is free instead of stalling the scheduler), the DA operation itself is atomic",
		"concurrent part: the HTTP layer is an in-memory http.RoundTripper that calls the real server's http.Handler on the caller's goroutine (real network goroutines never reach the quiescence the cooperative scheduler needs); client and server are built by the real NewClient/NewServer, go-jsonrpc's package-level default http.Client is re-routed for the hosts of this part only; loopback TCP stays covered by the sequential part",
		"concurrent part: the in-process reference is the same caller programs run directly on an identically prepared DA double with its DA calls forced into the order the DA behind the proxy observed; fault-free calls only, delay-bounded interleavings (bound stated in bounds.concurrent)",
	}
	workers := runtime.NumCPU()
	started := time.Now()
	budget := vf.Pick(r, 90*time.Second, 15*time.Minute) // for all searches together

	if r.ReplayPath() != "" {
		var rp replay
		if _, err := r.LoadReplay(&rp); err != nil {
			r.EngineError(err.Error())
		} else if rp.Conc != nil {
			c := explore.ReplayOne(rp.Conc.Choices, func(c *explore.Ctx) {
				o := concBody(t, c, rp.Conc.Programs, rp.Conc.Warm)
				if o.engine != "" {
					r.EngineError(o.engine)
				}
				for _, v := range o.viols {
					v.Cost, v.History = c.Cost(), rp
					r.Report(v)
				}
			})
			if c.Diverged != "" {
				r.EngineError("nondeterminism (concurrent part): " + c.Diverged)
			}
		} else if rp.Latency != nil {
			res := runLatency(*rp.Latency)
			if res.engine != "" {
				r.EngineError(res.engine)
			}
			for _, v := range res.viols {
				v.Cost, v.History = rp.Latency.Seconds, rp
				r.Report(v)
			}
		} else if rp.Mismatch != nil {
			if g, err := newRigWith(rp.Mismatch.Backing, uint64(rp.Mismatch.ClientLimit)); err != nil {
				r.EngineError(err.Error())
			} else {
				res := g.runMismatch(*rp.Mismatch)
				g.close()
				if res.engine != "" {
					r.EngineError(res.engine)
				}
				for _, v := range res.viols {
					v.Cost, v.History = 1, rp
					r.Report(v)
				}
			}
		} else if rp.Large != nil {
			if g, err := newRigWith(rp.Large.Backing, 0); err != nil {
				r.EngineError(err.Error())
			} else {
				res := g.runLarge(*rp.Large)
				g.close()
				if res.engine != "" {
					r.EngineError(res.engine)
				}
				for _, v := range res.viols {
					v.Cost, v.History = 1, rp
					r.Report(v)
				}
			}
		} else if g, err := newRig(rp.Backing); err != nil {
			r.EngineError(err.Error())
		} else {
			res := g.runHistory(rp.Pre, rp.Actions)
			g.close()
			if res.engine != "" {
				r.EngineError(res.engine)
			}
			for _, v := range res.viols {
				v.Cost, v.History = len(rp.Actions), rp
				r.Report(v)
			}
		}
		r.Finish(vf.Coverage{Evaluations: 1, DistinctNontrivial: 1})
		return
	}

	var histories, calls, submitCalls, affected, seqSamples atomic.Int64
	var mu sync.Mutex
	distinct := map[uint64]struct{}{}
	states := map[uint64]struct{}{}
	pairs := map[string]int{} // injected error -> "direct/proxied" status pairs seen on submit (evidence)
	var caps []string
	perRun := map[string]any{}
	exhaustive := true

	kinds := []string{"fake", "dummyda"}
	only := os.Getenv("VERIF_C16_PART") // development aid: "seq" | "large" | "conc" | "lat" | "mm"; a partial run is reported as capped
	if only == "conc" || only == "large" || only == "lat" || only == "mm" {
		kinds = nil
	}
	// latency part (latency_test.go): real time, every case on its own server/client pair, all at once and next to the other parts
	latDone := make(chan latResult, 1)
	if only == "" || only == "lat" {
		go func() { latDone <- latencyPart(r) }()
	} else {
		latDone <- latResult{}
	}
	if only != "" {
		caps = append(caps, "development run of part "+only+" only")
	}
	for _, kind := range kinds {
		pool := make(chan *rig, workers)
		var rigs []*rig
		for i := 0; i < workers; i++ {
			g, err := newRig(kind)
			if err != nil {
				r.EngineError(err.Error())
				break
			}
			rigs = append(rigs, g)
			pool <- g
		}
		if len(rigs) < workers {
			for _, g := range rigs {
				g.close()
			}
			exhaustive = false
			break
		}
		for _, pre := range []string{"empty", "populated"} {
			left := budget - time.Since(started)
			if left < time.Second {
				left = time.Second
			}
			st := explore.BFS(explore.BFSConfig{Depth: depth, Actions: len(acts), Workers: workers, Deadline: left}, func(hist []int) explore.Step {
				seq := make([]action, len(hist))
				for i, ai := range hist {
					seq[i] = acts[ai]
					if i < len(hist)-1 && ai >= nCore {
						return explore.Step{Prune: true} // non-final positions range over the core alphabet
					}
					if kind == "dummyda" && (seq[i].Inj != "" || seq[i].Cancelled) {
						return explore.Step{Prune: true}
					}
				}
				g := <-pool
				res := g.runHistory(pre, seq)
				pool <- g
				if res.engine != "" {
					r.EngineError(res.engine)
					return explore.Step{Prune: true}
				}
				if len(hist) == 0 {
					return explore.Step{Key: res.key}
				}
				histories.Add(1)
				calls.Add(int64(res.calls))
				lastA := seq[len(seq)-1]
				rp := replay{Backing: kind, Pre: pre, Actions: seq}
				// cost = length first, then the lexicographic rank of the history: the example kept per clause and per
				// known finding is the same on every run (workers report in no particular order)
				cost := len(hist)
				for i := 0; i < depth; i++ {
					cost *= len(acts)
					if i < len(hist) {
						cost += hist[i]
					}
				}
				for _, v := range res.viols {
					v.Cost, v.History = cost, rp
					v.Msg += "\n history (" + kind + ", pre-state " + pre + "): " + strings.Join(res.trace, " ; ")
					r.Report(v)
				}
				r.Outcome(res.outcome)
				mu.Lock()
				distinct[hash64(kind+"|"+pre+"|"+res.preKey+"|"+lastA.String())] = struct{}{}
				for _, s := range res.states {
					states[hash64(kind+"|"+s)] = struct{}{}
				}
				if lastA.Kind == "submit" && lastA.Inj != "" {
					pairs[lastA.Inj+" -> direct/proxied "+res.lastCode]++
				}
				mu.Unlock()
				if lastA.Kind == "submit" {
					submitCalls.Add(1)
				}
				for _, v := range res.viols {
					if v.Clause == "status-classification" && !res.hard {
						affected.Add(1)
						break
					}
				}
				if len(hist) <= 2 && (lastA.Inj != "" || len(lastA.Sizes) == 3) && histories.Load()%97 == 0 && seqSamples.Add(1) <= 4 {
					r.Sample(map[string]any{"backing": kind, "pre": pre, "history": res.trace, "last_status_direct/proxied": res.lastCode, "state_after": res.key})
				}
				if res.hard || hist[len(hist)-1] >= nCore {
					return explore.Step{Prune: true}
				}
				return explore.Step{Key: res.key}
			})
			if st.Capped != "" {
				caps = append(caps, kind+"/"+pre+": "+st.Capped)
			}
			if st.DepthDone != depth {
				exhaustive = false
			}
			perRun[kind+"/"+pre] = map[string]any{"depth_done": st.DepthDone, "extendable_states_per_level": st.PerLevel}
		}
		for _, g := range rigs {
			g.close()
		}
	}

	// limit-mismatch part (mismatch_test.go): the backing DA's limit differs from the client's MaxBlobSize
	var mr mmResult
	if only == "" || only == "mm" {
		mr = mismatchPart(r, workers, vf.Pick(r, 2*time.Minute, 10*time.Minute))
		caps = append(caps, mr.Caps...)
	}

	// large-payload part (large_test.go): the same comparison with the client's real default size limit
	var lr largeResult
	if only == "" || only == "large" {
		lr = largePart(r, workers, vf.Pick(r, 3*time.Minute, 12*time.Minute))
		caps = append(caps, lr.Caps...)
	}

	// concurrent part (concurrent_test.go): callers sharing one client, every interleaving within the delay bound
	var cr concResult
	if only == "" || only == "conc" {
		cr = concPartSharded(t, r)
	}
	for i, v := range cr.Viols {
		for n := 0; n < cr.ViolCounts[i]; n++ {
			r.Report(v)
		}
	}
	for _, e := range cr.Engine {
		r.EngineError("concurrent part: " + e)
	}
	for _, o := range cr.Outcomes {
		r.Outcome(o)
	}
	for _, sm := range cr.Samples {
		r.Sample(sm)
	}
	caps = append(caps, cr.Caps...)
	concLins := map[uint64]struct{}{}
	for _, h := range cr.Lins {
		concLins[h] = struct{}{}
	}

	tr := <-latDone
	caps = append(caps, tr.Caps...)

	pairList := make([]string, 0, len(pairs))
	for k, n := range pairs {
		pairList = append(pairList, fmt.Sprintf("%s (%d histories)", k, n))
	}
	sort.Strings(pairList)
	r.Finish(vf.Coverage{
		Evaluations: histories.Load() + cr.Execs + lr.Cases + tr.Cases + mr.Cases, DistinctNontrivial: int64(len(distinct)+len(concLins)) + lr.Cases + tr.Cases + mr.Distinct, States: int64(len(states)), Transitions: calls.Load() + cr.DACalls + lr.Calls + tr.Calls + mr.Calls,
		Rule: "SEQUENTIAL PART: every history of at most `depth` calls whose non-final calls come from the core alphabet and whose final call ranges over the whole alphabet " +
			"(SubmitWithHelpers with every blob list of length <=3 over sizes {0,1,limit-1,limit,limit+1} x {no fault, each injected backing error, caller context already cancelled}; " +
			"RetrieveWithHelpers at heights 0..4 (empty, populated, future in both pre-states) x {no fault, each injected error at GetIDs, at Get, cancelled context}; one DA block passes), " +
			"from the empty and the populated pre-state, on the error-injecting double and (fault-free calls only) on core/da DummyDA; each history is executed on a direct instance and on an identically prepared " +
			"instance behind a real jsonrpc server+client on loopback, followed by a read-back of every newly written height through both paths; " +
			"histories are merged when backing store and status of the last call agree; evaluations = histories executed, transitions = helper calls made, " +
			"distinct = distinct (backing, pre-state, store before the last call, status of the previous call, last call) tuples, states = distinct backing stores reached. " +
			"CONCURRENT PART: for every multiset of `callers` caller programs (1-2 operations each: SubmitWithHelpers with a batch that fits / is truncated to a prefix / [thorough] has an oversize blob, DA.Submit, RetrieveWithHelpers at the height being written / [thorough] an old / a future height, DA.Get of the ids the caller just got back; every blob content unique to its caller) " +
			"on ONE real jsonrpc client in front of ONE real server, fresh or [thorough] already used for a completed submission: every interleaving with at most `max_preemptive_switches` preemptions (switching away from a caller that could go on costs 1 per position in the ready list; switching when a caller returns is free) over the scheduling points listed in the assumptions, enumerated by the engine with replay-divergence checking; " +
			"oracle per interleaving: all callers return; each result (status, submitted count, ids, blobs) equals that of the same program run in-process in the DA call order observed behind the proxy; both stores are equal; behind the proxy the ids handed to a caller hold exactly the first `count` blobs of that caller and the number of stored blobs equals the sum of the reported counts; " +
			"LATENCY PART (real time, bounds.latency): for every latency L of the tier and each of {SubmitWithHelpers whose DA SubmitWithOptions waits L (batch cut to a prefix), RetrieveWithHelpers whose DA GetIDs waits L, RetrieveWithHelpers whose DA Get waits L}: the slow call, then fast calls on the same client (read-back of the written height / retrieve + submit); and for every idle-gap length: submit, pause, retrieve + submit + read-back on the same client; each case on its own real server + client pair over loopback with a direct and a proxied instance of the same waiting double called at the same time, all cases running concurrently with each other and with the other parts; " +
			"oracle: status, submitted count, ids and blobs of every call equal on both paths, both stores equal, the store behind the proxy holds exactly the prefixes reported as submitted; " +
			"LARGE-PAYLOAD PART: see bounds.large_payload and the assumptions; " +
			"LIMIT-MISMATCH PART (bounds.limit_mismatch): client MaxBlobSize = `blob_size_limit`, backing DA limit from `backing_DA_limits` (below the client's: one byte less, half, one smallest blob; above it), every blob list up to `max_list_len` blobs over `blob_sizes` (every size 0..limit+1), from both pre-states, on the double and on DummyDA, submitted the way the node's submitter does " +
			"(types.SubmitWithHelpers or bare DA.Submit; after a successful call that took a proper non-empty prefix the rest of the list is submitted again), then one DA block and a read-back of every written height through both paths; " +
			"oracle per call: status, submitted count and ids equal to the in-process reference (see assumptions), both stores equal, the store behind the proxy holds exactly the prefixes reported as submitted; " +
			"evaluations = sequential histories + interleavings executed + large-payload cases + latency cases + limit-mismatch cases, transitions = helper calls + DA calls behind the proxy, distinct additionally counts distinct (workload, DA call order) pairs, the cases of the large-payload and latency parts and the distinct (backing, pre-state, backing limit, method, sequence of result pairs, final store) tuples of the limit-mismatch part",
		Exhaustive: exhaustive && len(caps) == 0, Caps: caps,
		Bounds: map[string]any{"depth": depth, "alphabet": len(acts), "core_alphabet": nCore, "blob_size_limit": limit, "blob_sizes": blobSizes, "max_list_len": 3,
			"retrieve_heights": retrieveHeights, "injected_error_kinds": len(errKinds), "pre_states": []string{"empty", "populated"}, "backings": []string{"fake(error-injecting double)", "core/da.DummyDA"}, "runs": perRun, "concurrent": cr.Bounds, "large_payload": lr.Bounds, "latency": tr.Bounds, "limit_mismatch": mr.Bounds},
		Extra: map[string]any{"latency_cases": tr.Cases, "latency_helper_calls": tr.Calls, "latency_DA_calls_that_waited_the_whole_latency": tr.Waited, "latency_outcome_classes": tr.Classes,
			"limit_mismatch_cases": mr.Cases, "limit_mismatch_helper_and_DA_calls": mr.Calls, "limit_mismatch_proxied_calls_answered_with_fewer_ids_than_blobs_sent": mr.Partial, "limit_mismatch_outcome_classes": mr.Classes,
			"large_payload_cases": lr.Cases, "large_payload_calls": lr.Calls, "large_payload_raw_blob_bytes_through_the_proxy": lr.RawBytes,
			"large_payload_largest_raw_request_bytes": lr.MaxReq, "large_payload_largest_raw_response_bytes": lr.MaxResp, "large_payload_outcome_classes": lr.Classes,
			"sequential_histories": histories.Load(), "concurrent_interleavings_executed": cr.Execs, "concurrent_interleavings_with_overlapping_calls": cr.Overlap,
			"concurrent_workloads": cr.Workloads, "concurrent_distinct_(workload, DA call order)": len(concLins), "concurrent_scheduling_decisions": cr.Points, "concurrent_max_decisions_in_one_interleaving": cr.MaxDepth,
			"concurrent_DA_calls_behind_the_proxy": cr.DACalls, "concurrent_process_shards": cr.Shards,
			"submit_histories": submitCalls.Load(), "histories_with_only_the_classified_status_degradation": affected.Load(), "submit_status_pairs_by_injected_error": pairList},
	})
}
