package c16

import (
	"context"
	"crypto/sha256"
	"fmt"
	"math/rand"
	"sort"
	"strings"
	"sync"
	"sync/atomic"
	"time"

	coreda "github.com/evstack/ev-node/core/da"
	"github.com/evstack/ev-node/types"

	"verif/harness/vf"
)

// Large-payload part of C16: the same differential oracle as the sequential part, at the REAL size limit.
//
// The other two parts shrink the client's MaxBlobSize to `limit` = 4 bytes, so nothing that depends on the absolute
// size of what crosses the wire (base64-in-JSON inflation of [][]byte, the RPC library's request size limit, HTTP
// body limits, read limits of the server, response sizes of Get) is in their alphabet. Here the client keeps the
// MaxBlobSize proxy.NewClient gives it (internal.DefaultMaxBytes), the backing DA has the same limit, and the
// enumerated blob lists are described relative to that limit L:
//
//	base list   total raw size T (a grid of fractions of L, the bytes around 3L/4 and L, and totals above L) cut into a
//	            shape (1, 2, 4, ... equal blobs, or blobs of a fixed small size: many ids, larger inflation)
//	tail        nothing | one more blob that misses the remaining room by one byte | a blob that fills the room exactly and
//	            then a 1-byte blob | a blob of L bytes | a blob of L+1 bytes after / before the base list
//	method      types.SubmitWithHelpers (-> SubmitWithOptions, the client packs the longest prefix that fits) |
//	            DA.Submit (the client sends the whole list, the DA behind the server cuts it)
//	crowding    0..k earlier full batches (L bytes each) stored at the same DA height, so that what is read back from that
//	            height is (k+1) times as large
//
//	mismatch    a few full batches (L bytes, no blob over either limit) on a backing DA whose limit is BELOW L: the client
//	            sends the whole list, the DA takes a prefix and answers with fewer ids than blobs (all sizes and limits of
//	            that class at the small scale: mismatch_test.go)
//
// Every case runs on a direct DA and on an identically prepared DA behind a real jsonrpc server + client on loopback
// TCP: submit, proofs + validation of the returned ids, DA.Get of the returned ids, one DA block, RetrieveWithHelpers
// of the written height; status, submitted count, ids, proofs, blobs and both stores are compared, and the store behind
// the proxy must hold exactly the first `count` blobs of the list.

const largeMaxBefore = 3

type largeShape struct {
	Parts    int `json:"equal_parts,omitempty"`      // the total is cut into this many (almost) equal blobs
	BlobSize int `json:"blobs_of_n_bytes,omitempty"` // or into blobs of this size plus a remainder
}

func (s largeShape) String() string {
	if s.Parts > 0 {
		return fmt.Sprintf("%d-equal", s.Parts)
	}
	return fmt.Sprintf("%dB-blobs", s.BlobSize)
}

type largeCase struct {
	Backing   string     `json:"backing"`
	Limit     uint64     `json:"limit"` // the client's default MaxBlobSize when the case was recorded
	Method    string     `json:"method"`
	TotalName string     `json:"total"`
	Total     int        `json:"total_bytes"`
	Shape     largeShape `json:"shape"`
	Tail      string     `json:"tail"`
	Before    int        `json:"earlier_full_batches_at_the_same_height,omitempty"`
	// limit-mismatch cases: the backing DA's limit is this instead of the client's (0 = equal limits); only with lists
	// without a blob over this limit, so the DA takes the longest prefix that fits IT and returns fewer ids than blobs sent
	BackingLimit uint64 `json:"backing_limit_below_the_clients,omitempty"`
}

func (c largeCase) String() string {
	s := fmt.Sprintf("%s(total=%s=%d bytes as %s, tail=%s)", c.Method, c.TotalName, c.Total, c.Shape, c.Tail)
	if c.Before > 0 {
		s += fmt.Sprintf(" after %d full batches at the same height", c.Before)
	}
	if c.BackingLimit != 0 {
		s += fmt.Sprintf(" on a backing DA with limit %d", c.BackingLimit)
	}
	return s
}

// sizes of the blob list of a case; ok=false: the combination does not exist (e.g. a tail that needs room above L).
func (c largeCase) sizes(L int) (out []int, ok bool) {
	T := c.Total
	if c.Shape.Parts > 0 {
		n := c.Shape.Parts
		if T < n {
			return nil, false
		}
		q := T / n
		for i := 0; i < n-1; i++ {
			out = append(out, q)
		}
		out = append(out, T-(n-1)*q)
	} else {
		b := c.Shape.BlobSize
		for rest := T; rest > 0; rest -= b {
			if rest < b {
				out = append(out, rest)
				break
			}
			out = append(out, b)
		}
	}
	switch c.Tail {
	case "none":
	case "misses-by-1":
		if T < 1 || T > L {
			return nil, false
		}
		out = append(out, L-T+1)
	case "fills-exactly+1":
		if T > L {
			return nil, false
		}
		out = append(out, L-T, 1)
	case "blob-of-L":
		if T > L {
			return nil, false
		}
		out = append(out, L)
	case "oversize-last":
		if T > L {
			return nil, false
		}
		out = append(out, L+1)
	case "oversize-first":
		if T > L {
			return nil, false
		}
		out = append([]int{L + 1}, out...)
	default:
		panic("unknown tail " + c.Tail)
	}
	return out, true
}

// longestFitAt is longestFit (the reference for the client-side contract) for an arbitrary limit.
func longestFitAt(sizes []int, L int) (n int, oversize bool) {
	sum := 0
	for _, s := range sizes {
		if s > L {
			oversize = true
			continue
		}
		if sum+s > L {
			break
		}
		sum += s
		n++
	}
	if oversize {
		return 0, true
	}
	return n, false
}

// ---------------------------------------------------------------------------------------------------------------
// blob contents: slices of one pseudo-random pad (no per-case generation, no copies); the blobs of one list are
// disjoint regions, so equal sizes at different positions have different contents; fillers come from a second pad.

var (
	largePadOnce        sync.Once
	largePad, largeFill []byte
)

func largePads(L int) {
	largePadOnce.Do(func() {
		rng := rand.New(rand.NewSource(0xC16))
		largePad = make([]byte, 3*L+64)
		rng.Read(largePad)
		largeFill = make([]byte, largeMaxBefore*L)
		rng.Read(largeFill)
	})
}

func mkLargeBlobs(sizes []int) [][]byte {
	out := make([][]byte, len(sizes))
	off := 0
	for i, s := range sizes {
		if off+s > len(largePad) {
			panic(fmt.Sprintf("large-payload part: list of %d bytes does not fit the pad", off+s))
		}
		out[i] = largePad[off : off+s : off+s]
		off += s
	}
	return out
}

// fillerBatch j: exactly L bytes in four blobs.
func fillerBatch(j, L int) [][]byte {
	reg := largeFill[j*L : (j+1)*L]
	q := L / 4
	return [][]byte{reg[0:q:q], reg[q : 2*q : 2*q], reg[2*q : 3*q : 3*q], reg[3*q : L : L]}
}

func sumLens(l [][]byte) (n int64) {
	for _, b := range l {
		n += int64(len(b))
	}
	return n
}

// describe a list without printing it
func descList(l [][]byte) string {
	h := sha256.New()
	for _, b := range l {
		fmt.Fprintf(h, "%d:", len(b))
		h.Write(b)
	}
	return fmt.Sprintf("{%d blobs, %d bytes, digest %x}", len(l), sumLens(l), h.Sum(nil)[:6])
}

func descStore(cur uint64, hs map[uint64][][]byte) string {
	keys := make([]uint64, 0, len(hs))
	for h, bs := range hs {
		if len(bs) > 0 {
			keys = append(keys, h)
		}
	}
	sort.Slice(keys, func(i, j int) bool { return keys[i] < keys[j] })
	parts := []string{fmt.Sprintf("cur=%d", cur)}
	for _, h := range keys {
		parts = append(parts, fmt.Sprintf("h%d=%s", h, descList(hs[h])))
	}
	return strings.Join(parts, " ")
}

func eqStores(ca uint64, a map[uint64][][]byte, cb uint64, b map[uint64][][]byte) bool {
	if ca != cb {
		return false
	}
	for h, l := range a {
		if !eqBytesList(l, b[h]) {
			return false
		}
	}
	for h, l := range b {
		if !eqBytesList(l, a[h]) {
			return false
		}
	}
	return true
}

func newLargeBacking(kind string, L uint64) backing {
	if kind == "dummyda" {
		return dummyBacking{coreda.NewDummyDA(L, 1, 1, time.Hour)}
	}
	d := newFakeDA()
	d.lim = L
	return d
}

// ---------------------------------------------------------------------------------------------------------------
// one case

type largeRes struct {
	viols    []vf.Violation
	engine   string
	outcome  string
	calls    int
	rawBytes int64 // raw blob bytes that crossed the proxy (requests + responses)
	maxReq   int64 // largest raw blob payload of one proxied request
	maxResp  int64 // largest raw blob payload of one proxied response
}

func errText(err error) string {
	if err == nil {
		return "<nil>"
	}
	s := err.Error()
	if len(s) > 300 {
		s = s[:300] + "..."
	}
	return s
}

func short(s string) string {
	if len(s) > 300 {
		return s[:300] + "..."
	}
	return s
}

// rawSubmit classifies DA.Submit's outcome only as far as a caller of the bare interface can without error identity.
func rawSubmit(ctx context.Context, da coreda.DA, blobs [][]byte) coreda.ResultSubmit {
	ids, err := da.Submit(ctx, blobs, 1, []byte("c16"))
	if err != nil {
		return coreda.ResultSubmit{BaseResult: coreda.BaseResult{Code: coreda.StatusError, Message: err.Error(), IDs: ids, SubmittedCount: uint64(len(ids))}}
	}
	return coreda.ResultSubmit{BaseResult: coreda.BaseResult{Code: coreda.StatusSuccess, IDs: ids, SubmittedCount: uint64(len(ids))}}
}

func (g *rig) runLarge(c largeCase) (res largeRes) {
	L := int(g.cli.DA.MaxBlobSize)
	if uint64(L) != c.Limit {
		res.engine = fmt.Sprintf("large-payload part: the case was made for limit %d, the client's default MaxBlobSize is %d", c.Limit, L)
		return res
	}
	largePads(L)
	sizes, ok := c.sizes(L)
	if !ok {
		res.engine = "large-payload part: case " + c.String() + " does not exist"
		return res
	}
	input := mkLargeBlobs(sizes)
	bl := uint64(L)
	if c.BackingLimit != 0 {
		bl = c.BackingLimit
	}
	da, db := newLargeBacking(c.Backing, bl), newLargeBacking(c.Backing, bl)
	g.direct.set(da)
	g.behind.set(db)
	defer g.reset("empty") // let go of the large stores

	want, over := longestFitAt(sizes, L)
	class := "batch-fits"
	switch {
	case over:
		class = "oversize-blob"
	case want < len(sizes):
		class = "truncated-batch"
	}
	method := "call:submit-helpers"
	if c.Method == "da-submit" {
		method = "call:da-submit"
	}
	tags := []string{"part:large-payload", "backing:" + c.Backing, method, "total:" + c.TotalName, "shape:" + c.Shape.String(), "tail:" + c.Tail, class}
	if c.Before > 0 {
		tags = append(tags, "crowded-height")
	}
	taken := want // what the DA behind the server takes of the list
	if c.BackingLimit != 0 {
		tags = append(tags, "backing-limit-below-client")
		var o bool
		if c.Method == "da-submit" {
			taken, o = longestFitAt(sizes, int(bl))
		} else {
			taken, o = longestFitAt(sizes[:want], int(bl))
		}
		if over || o || bl >= uint64(L) || c.Before > 0 {
			res.engine = "large-payload part: limit-mismatch case " + c.String() + " is outside what the part is built for (no blob over either limit, backing limit below the client's, no crowding)"
			return res
		}
	}
	report := func(clause, format string, a ...any) {
		res.viols = append(res.viols, vf.Violation{Clause: clause, Tags: tags, Msg: c.String() + ": " + fmt.Sprintf(format, a...)})
	}
	ctx, cancel := context.WithTimeout(context.Background(), 5*time.Minute) // liveness guard only
	defer cancel()
	wire := func(req, resp int64) {
		res.rawBytes += req + resp
		if req > res.maxReq {
			res.maxReq = req
		}
		if resp > res.maxResp {
			res.maxResp = resp
		}
	}
	model := map[uint64][][]byte{}

	// earlier full batches at the same height
	for j := 0; j < c.Before; j++ {
		fb := fillerBatch(j, L)
		ra := types.SubmitWithHelpers(ctx, g.direct, logger, fb, 1, nil)
		rb := types.SubmitWithHelpers(ctx, &g.cli.DA, logger, fb, 1, nil)
		res.calls += 2
		wire(sumLens(fb), 0)
		if ra.Code != rb.Code || ra.SubmittedCount != rb.SubmittedCount || !eqBytesList(ra.IDs, rb.IDs) {
			report("ids-and-blobs", "earlier full batch %d (four blobs, %d bytes): direct status %d count %d (%q), proxied status %d count %d (%q)",
				j, L, ra.Code, ra.SubmittedCount, short(ra.Message), rb.Code, rb.SubmittedCount, short(rb.Message))
			res.outcome = "large:filler-differs"
			return res
		}
		if ra.Code != coreda.StatusSuccess || int(ra.SubmittedCount) != len(fb) {
			res.engine = fmt.Sprintf("large-payload part: a full batch of exactly the limit was not taken in-process (status %d, count %d)", ra.Code, ra.SubmittedCount)
			return res
		}
		model[1] = append(model[1], fb...)
	}

	// the submission under test
	var ra, rb coreda.ResultSubmit
	sent := input // what crosses the wire
	if c.Method == "da-submit" {
		ra = rawSubmit(ctx, g.direct, input)
		rb = rawSubmit(ctx, &g.cli.DA, input)
	} else {
		ra = types.SubmitWithHelpers(ctx, g.direct, logger, input, 1, nil)
		rb = types.SubmitWithHelpers(ctx, &g.cli.DA, logger, input, 1, nil)
		if over {
			sent = nil
		} else {
			sent = input[:want]
		}
	}
	res.calls += 2
	wire(sumLens(sent), 0)
	res.outcome = fmt.Sprintf("large:%s:%s:%d/%d", c.Method, class, ra.Code, rb.Code)
	hard := false
	if ra.Code != rb.Code {
		hard = true
		report("status-classification", "direct status %d (%q), proxied status %d (%q)", ra.Code, short(ra.Message), rb.Code, short(rb.Message))
	}
	if ra.SubmittedCount != rb.SubmittedCount || !eqBytesList(ra.IDs, rb.IDs) {
		hard = true
		report("ids-and-blobs", "direct count=%d ids=%s, proxied count=%d ids=%s (proxied message %q)", ra.SubmittedCount, descList(ra.IDs), rb.SubmittedCount, descList(rb.IDs), short(rb.Message))
	}
	n := int(rb.SubmittedCount)
	if n > len(input) {
		hard = true
		report("prefix-accounting", "proxied SubmittedCount=%d exceeds the %d blobs handed in", rb.SubmittedCount, len(input))
		n = len(input)
	}
	if rb.Code == coreda.StatusSuccess && !over && n != taken {
		hard = true
		report("prefix-accounting", "proxied submit took %d blobs, the longest prefix that fits the limit %d (client) and %d (backing DA) has %d", n, L, bl, taken)
	}
	if n > 0 {
		model[1] = append(model[1], input[:n]...)
	}
	curA, hsA := da.snapshot()
	curB, hsB := db.snapshot()
	if !eqStores(0, model, curB, hsB) {
		hard = true
		report("prefix-accounting", "the store behind the proxy differs from what the reported submitted counts say:\n store  %s\n counts %s", descStore(curB, hsB), descStore(0, model))
	}
	if !eqStores(curA, hsA, curB, hsB) {
		hard = true
		report("ids-and-blobs", "the directly used DA and the DA behind the proxy hold different blobs:\n direct  %s\n proxied %s", descStore(curA, hsA), descStore(curB, hsB))
	}
	if hard {
		return res
	}

	// proofs, validation and blobs of the ids that came back (what the sequencer and a reader do with them)
	if ids := ra.IDs; len(ids) > 0 {
		pa, ea := g.direct.GetProofs(ctx, ids, []byte("c16"))
		pb, eb := g.cli.DA.GetProofs(ctx, ids, []byte("c16"))
		res.calls += 2
		if (ea == nil) != (eb == nil) || !eqBytesList(pa, pb) {
			report("ids-and-blobs", "GetProofs of the %d returned ids: direct %s err=%s, proxied %s err=%s", len(ids), descList(pa), errText(ea), descList(pb), errText(eb))
		} else if ea == nil {
			va, ea := g.direct.Validate(ctx, ids, pa, []byte("c16"))
			vb, eb := g.cli.DA.Validate(ctx, ids, pb, []byte("c16"))
			res.calls += 2
			if (ea == nil) != (eb == nil) || fmt.Sprint(va) != fmt.Sprint(vb) {
				report("ids-and-blobs", "Validate of the %d returned ids: direct err=%s, proxied err=%s, results differ or one call failed", len(ids), errText(ea), errText(eb))
			}
		}
		ba, ea := g.direct.Get(ctx, ids, []byte("c16"))
		bb, eb := g.cli.DA.Get(ctx, ids, []byte("c16"))
		res.calls += 2
		wire(0, sumLens(bb))
		if (ea == nil) != (eb == nil) || !eqBytesList(ba, bb) {
			report("ids-and-blobs", "DA.Get of the %d returned ids: direct %s err=%s, proxied %s err=%s", len(ids), descList(ba), errText(ea), descList(bb), errText(eb))
		} else if ea == nil && !eqBytesList(bb, input[:n]) {
			report("ids-and-blobs", "DA.Get of the %d returned ids through the proxy gives %s, the blobs reported as submitted are %s", len(ids), descList(bb), descList(input[:n]))
		}
	}

	// one DA block later: read the written height back through both paths
	da.tick()
	db.tick()
	qa := types.RetrieveWithHelpers(ctx, g.direct, logger, 1, []byte("c16"))
	qb := types.RetrieveWithHelpers(ctx, &g.cli.DA, logger, 1, []byte("c16"))
	res.calls += 2
	wire(0, sumLens(qb.Data))
	res.outcome += fmt.Sprintf(":read=%d/%d", qa.Code, qb.Code)
	if qa.Code != qb.Code {
		report("status-classification", "read-back of the written height: direct status %d (%q), proxied status %d (%q)", qa.Code, short(qa.Message), qb.Code, short(qb.Message))
	}
	if !eqBytesList(qa.IDs, qb.IDs) || !eqBytesList(qa.Data, qb.Data) {
		report("ids-and-blobs", "read-back of the written height: direct ids=%s blobs=%s, proxied ids=%s blobs=%s (proxied message %q)", descList(qa.IDs), descList(qa.Data), descList(qb.IDs), descList(qb.Data), short(qb.Message))
	}
	if len(model[1]) == 0 {
		if qb.Code != coreda.StatusNotFound {
			report("status-classification", "read-back of the written height: nothing was reported as submitted there, proxied status %d (%q)", qb.Code, short(qb.Message))
		}
	} else if qb.Code != coreda.StatusSuccess || !eqBytesList(qb.Data, model[1]) {
		report("ids-and-blobs", "read-back of the written height: proxied status %d (%q) blobs %s, the blobs reported as submitted are %s", qb.Code, short(qb.Message), descList(qb.Data), descList(model[1]))
	}
	return res
}

// ---------------------------------------------------------------------------------------------------------------
// the enumeration

type largeTotal struct {
	Name  string
	Bytes int
}

type largeBounds struct {
	totals  []largeTotal
	shapes  []largeShape // full treatment
	tails   []string
	tailsOn []largeShape // shapes that get the tails other than "none" (all of `shapes` at the thorough tier)
	crowd   []int
	crowdT  []largeTotal
	crowdS  []largeShape
	kinds   []string
	// limit mismatch: backing limits below L, on the full batch in these shapes
	mismatch  []uint64
	mismatchT largeTotal
	mismatchS []largeShape
}

func largeTotals(L int, thorough bool) []largeTotal {
	var out []largeTotal
	seen := map[int]bool{}
	add := func(name string, b int) {
		if b < 1 || seen[b] {
			return
		}
		seen[b] = true
		out = append(out, largeTotal{name, b})
	}
	frac := func(num, den int) { add(fmt.Sprintf("%d/%d L", num, den), int(int64(L)*int64(num)/int64(den))) }
	if !thorough {
		for k := 4; k <= 8; k++ {
			frac(k, 8)
		}
		for _, pm := range []int{760, 770, 780, 900, 990} {
			frac(pm, 1000)
		}
		add("3/4 L-1", L*3/4-1)
		add("3/4 L+1", L*3/4+1)
		add("L-1", L-1)
		add("L+1", L+1)
		frac(5, 4)
		return out
	}
	for k := 16; k <= 64; k += 2 {
		frac(k, 64)
	}
	for pm := 700; pm <= 1000; pm += 20 {
		frac(pm, 1000)
	}
	for d := -3; d <= 3; d++ {
		if d != 0 {
			add(fmt.Sprintf("3/4 L%+d", d), L*3/4+d)
		}
	}
	for d := -3; d <= 3; d++ {
		if d != 0 {
			add(fmt.Sprintf("L%+d", d), L+d)
		}
	}
	frac(9, 8)
	frac(5, 4)
	frac(3, 2)
	frac(2, 1)
	return out
}

func largeBoundsOf(L int, thorough bool) largeBounds {
	b := largeBounds{totals: largeTotals(L, thorough)}
	full := largeTotal{"8/8 L", L}
	if thorough {
		full.Name = "64/64 L"
	}
	half := largeTotal{"4/8 L", L / 2}
	if thorough {
		half.Name = "32/64 L"
	}
	b.tails = []string{"none", "misses-by-1", "fills-exactly+1", "blob-of-L", "oversize-last", "oversize-first"}
	b.mismatchT = full
	b.mismatch = []uint64{uint64(L) - 1, uint64(L) / 2}
	b.mismatchS = []largeShape{{Parts: 4}, {BlobSize: 128}}
	if thorough {
		b.mismatch = []uint64{uint64(L) - 1, uint64(L) * 3 / 4, uint64(L) / 2, uint64(L) / 4, 100_000}
		b.mismatchS = []largeShape{{Parts: 2}, {Parts: 4}, {Parts: 8}, {Parts: 64}, {BlobSize: 1024}, {BlobSize: 128}}
	}
	if !thorough {
		b.shapes = []largeShape{{Parts: 1}, {Parts: 2}, {Parts: 4}, {Parts: 64}, {BlobSize: 128}}
		b.tailsOn = []largeShape{{Parts: 1}, {Parts: 4}}
		b.crowd = []int{1, 2}
		b.crowdT = []largeTotal{full}
		b.crowdS = []largeShape{{Parts: 1}, {Parts: 4}, {BlobSize: 128}}
		b.kinds = []string{"dummyda"}
		return b
	}
	b.shapes = []largeShape{{Parts: 1}, {Parts: 2}, {Parts: 4}, {Parts: 8}, {Parts: 64}, {BlobSize: 1024}, {BlobSize: 128}, {BlobSize: 16}}
	b.tailsOn = b.shapes
	b.crowd = []int{1, 2, 3}
	b.crowdT = []largeTotal{half, full}
	b.crowdS = b.shapes
	b.kinds = []string{"dummyda", "fake"}
	return b
}

func largeCases(L int, thorough bool) (cases []largeCase, b largeBounds) {
	b = largeBoundsOf(L, thorough)
	seen := map[string]bool{}
	add := func(c largeCase) {
		sizes, ok := c.sizes(L)
		if !ok {
			return
		}
		// two descriptions of the same list (e.g. 1974272 as one blob with and without a name) are run once
		k := fmt.Sprintf("%s|%s|%d|%v|%d", c.Backing, c.Method, c.Before, sizes, c.BackingLimit)
		if len(sizes) > 8 {
			k = fmt.Sprintf("%s|%s|%d|%d|%s|%s|%d", c.Backing, c.Method, c.Before, c.Total, c.Shape, c.Tail, c.BackingLimit)
		}
		if seen[k] {
			return
		}
		seen[k] = true
		cases = append(cases, c)
	}
	tailed := func(s largeShape) bool {
		for _, x := range b.tailsOn {
			if x == s {
				return true
			}
		}
		return false
	}
	for _, kind := range b.kinds {
		for _, t := range b.totals {
			for _, s := range b.shapes {
				for _, method := range []string{"submit-helpers", "da-submit"} {
					for _, tail := range b.tails {
						if tail != "none" && (!tailed(s) || kind != b.kinds[0]) {
							continue // the second backing (the double) only gets the plain lists
						}
						if method == "da-submit" && tail != "none" && tail != "oversize-last" && !(thorough && tail == "blob-of-L") {
							continue // DA.Submit sends everything: the list shapes matter, not where the client would cut
						}
						add(largeCase{Backing: kind, Limit: uint64(L), Method: method, TotalName: t.Name, Total: t.Bytes, Shape: s, Tail: tail})
					}
				}
			}
		}
		for _, k := range b.crowd {
			for _, t := range b.crowdT {
				for _, s := range b.crowdS {
					add(largeCase{Backing: kind, Limit: uint64(L), Method: "submit-helpers", TotalName: t.Name, Total: t.Bytes, Shape: s, Tail: "none", Before: k})
				}
			}
		}
		// limit mismatch at the real limit: a full batch the client sends whole, the DA takes a prefix of
		for _, bl := range b.mismatch {
			for _, s := range b.mismatchS {
				for _, method := range []string{"submit-helpers", "da-submit"} {
					c := largeCase{Backing: kind, Limit: uint64(L), Method: method, TotalName: b.mismatchT.Name, Total: b.mismatchT.Bytes, Shape: s, Tail: "none", BackingLimit: bl}
					if sizes, ok := c.sizes(L); !ok || uint64(sizes[0]) > bl || uint64(sizes[len(sizes)-1]) > bl {
						continue // only lists the DA takes a prefix of (a blob over the DA's own limit: limit-mismatch part)
					}
					add(c)
				}
			}
		}
	}
	return cases, b
}

type largeResult struct {
	Cases, Calls, RawBytes, MaxReq, MaxResp int64
	Limit                                   uint64
	Caps                                    []string
	Bounds                                  map[string]any
	Classes                                 map[string]int
}

func sameClauses(a, b []vf.Violation) bool {
	if len(a) != len(b) {
		return false
	}
	for i := range a {
		if a[i].Clause != b[i].Clause {
			return false
		}
	}
	return true
}

// largePart runs every case of the tier on `workers` rigs. A case that fails is run a second time on fresh backings:
// only a failure that repeats is a verdict (size-dependent failures of the transport are what this part looks for, so
// they cannot be set aside as machinery trouble the way the small-payload part does; a failure that does not repeat is
// reported as a machinery error).
func largePart(r *vf.Run, workers int, deadline time.Duration) (out largeResult) {
	probe, err := newRigWith("dummyda", 0)
	if err != nil {
		r.EngineError("large-payload part: " + err.Error())
		out.Caps = append(out.Caps, "large-payload part did not start")
		return out
	}
	L := int(probe.cli.DA.MaxBlobSize)
	out.Limit = uint64(L)
	if L < 1<<16 || L > 1<<28 {
		probe.close()
		r.EngineError(fmt.Sprintf("large-payload part: the client's default MaxBlobSize is %d, the part is built for limits between 64 KiB and 256 MiB", L))
		out.Caps = append(out.Caps, "large-payload part did not start")
		return out
	}
	largePads(L)
	cases, b := largeCases(L, r.Thorough())
	rigs := []*rig{probe}
	for len(rigs) < workers {
		g, err := newRigWith("dummyda", 0)
		if err != nil {
			r.EngineError("large-payload part: " + err.Error())
			break
		}
		rigs = append(rigs, g)
	}
	defer func() {
		for _, g := range rigs {
			g.close()
		}
	}()
	started := time.Now()
	var next, done, calls, raw, maxReq, maxResp, samples atomic.Int64
	var mu sync.Mutex
	classes := map[string]int{}
	var wg sync.WaitGroup
	for _, g := range rigs {
		wg.Add(1)
		go func(g *rig) {
			defer wg.Done()
			for {
				i := int(next.Add(1)) - 1
				if i >= len(cases) || time.Since(started) > deadline {
					return
				}
				c := cases[i]
				g.kind = c.Backing
				res := g.runLarge(c)
				if res.engine == "" && len(res.viols) > 0 {
					again := g.runLarge(c)
					if again.engine == "" && !sameClauses(res.viols, again.viols) {
						res.engine = fmt.Sprintf("large-payload part: %s failed with %d violations (first: %s) and gave %d on an immediate second run on fresh stores: not reproducible",
							c, len(res.viols), short(res.viols[0].Msg), len(again.viols))
					}
				}
				if res.engine != "" {
					r.EngineError(res.engine)
					continue
				}
				done.Add(1)
				calls.Add(int64(res.calls))
				raw.Add(res.rawBytes)
				for {
					old := maxReq.Load()
					if res.maxReq <= old || maxReq.CompareAndSwap(old, res.maxReq) {
						break
					}
				}
				for {
					old := maxResp.Load()
					if res.maxResp <= old || maxResp.CompareAndSwap(old, res.maxResp) {
						break
					}
				}
				for _, v := range res.viols {
					v.Cost, v.History = i+1, replay{Large: &c}
					v.Msg += "\n (large-payload part, client MaxBlobSize as NewClient sets it = " + fmt.Sprint(L) + ", backing " + c.Backing + ", failed twice in a row on fresh stores)"
					r.Report(v)
				}
				r.Outcome(res.outcome)
				mu.Lock()
				classes[res.outcome]++
				mu.Unlock()
				if (c.Tail != "none" || c.Before > 0) && i%41 == 0 && samples.Add(1) <= 3 {
					r.Sample(map[string]any{"part": "large-payload", "case": c, "outcome": res.outcome, "raw_bytes_through_the_proxy": res.rawBytes})
				}
			}
		}(g)
	}
	wg.Wait()
	out.Cases, out.Calls, out.RawBytes, out.MaxReq, out.MaxResp = done.Load(), calls.Load(), raw.Load(), maxReq.Load(), maxResp.Load()
	out.Classes = classes
	if int(out.Cases) != len(cases) {
		out.Caps = append(out.Caps, fmt.Sprintf("large-payload part: %d of %d cases done (deadline %s or machinery errors)", out.Cases, len(cases), deadline))
	}
	names := func(ts []largeTotal) []string {
		o := make([]string, len(ts))
		for i, t := range ts {
			o[i] = fmt.Sprintf("%s=%d", t.Name, t.Bytes)
		}
		return o
	}
	shapes := func(ss []largeShape) []string {
		o := make([]string, len(ss))
		for i, s := range ss {
			o[i] = s.String()
		}
		return o
	}
	out.Bounds = map[string]any{
		"limit_L(client default MaxBlobSize = backing limit)": L, "totals": names(b.totals), "shapes": shapes(b.shapes), "tails": b.tails,
		"shapes_with_tails": shapes(b.tailsOn), "methods": []string{"types.SubmitWithHelpers", "DA.Submit (tails none, oversize-last; thorough also blob-of-L)"},
		"earlier_full_batches_at_the_same_height": b.crowd, "crowded_totals": names(b.crowdT), "crowded_shapes": shapes(b.crowdS), "backings": b.kinds, "backings_after_the_first": "tail none only",
		"limit_mismatch_backing_limits(full batch of L bytes, tail none, both methods)": b.mismatch, "limit_mismatch_shapes": shapes(b.mismatchS),
		"cases": len(cases), "elapsed_s": time.Since(started).Seconds(),
	}
	return out
}
