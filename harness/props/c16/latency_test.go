package c16

import (
	"context"
	"fmt"
	"sort"
	"strings"
	"sync"
	"sync/atomic"
	"time"

	coreda "github.com/evstack/ev-node/core/da"
	proxy "github.com/evstack/ev-node/da/jsonrpc"
	"github.com/evstack/ev-node/types"

	"verif/harness/vf"
)

// Latency part of C16: the same differential oracle as the sequential part, over REAL time.
//
// Every backing DA of the other parts answers at once, so nothing that depends on how long one DA call (or the pause
// between two calls) lasts is in their alphabet: timeouts of the http.Server that serves the proxy (ReadTimeout,
// ReadHeaderTimeout, WriteTimeout, IdleTimeout), of the HTTP client, of the RPC library. A real DA's Submit blocks
// until the blob transaction is included; the node itself allows 60 s per DA call. Here the backing DA (the double of
// the sequential part) waits L before it answers one kind of call, or the caller pauses for L between two calls:
//
//	slow call   SubmitWithHelpers (the DA's SubmitWithOptions waits L, then stores a batch that is cut to a prefix)
//	            RetrieveWithHelpers with the DA's GetIDs waiting L | with the DA's Get waiting L
//	idle gap    a completed submit, nothing for L, then a retrieve and a submit on the same client (connection reuse)
//	L           just above (+1 s) each common value of a server-side timeout {5, 10, 15, 30 s}, just below (55 s) the
//	            node's own 60 s budget, and +1 s above every timeout NewServer really configures (read through a hook);
//	            idle gaps additionally above the textbook IdleTimeout of 120 s and the client's own 90 s idle limit (125 s)
//
// Every case has its own server + client pair on loopback TCP and its own two backing DAs; the direct and the proxied
// call run at the same time and all cases of a tier run at the same time (and next to the other parts), so the wall
// cost is the largest L. The waiting DA honours its context (a cancelled call stores nothing and returns ctx.Err()).
// The verdict does not depend on the machine's speed: the unchanged code has no timeout that a call of these lengths
// could reach, a slower machine only makes calls longer; a timeout T that is introduced is exceeded by at least 1 s.

const latGuard = 2 * time.Minute // liveness guard on top of L for every helper call of this part

var latOps = []string{"submit", "getids", "get", "idle"}

type latCase struct {
	Op      string `json:"slow"`      // submit | getids | get: the DA call that waits; idle: the caller pauses between calls
	Seconds int    `json:"latency_s"` // L
}

func (c latCase) String() string {
	if c.Op == "idle" {
		return fmt.Sprintf("idle-gap(%ds)", c.Seconds)
	}
	return fmt.Sprintf("slow-%s(%ds)", c.Op, c.Seconds)
}

// slowDA is the error-injecting double whose first call of one kind waits before it does anything.
type slowDA struct {
	*fakeDA
	point string
	d     time.Duration
	used  atomic.Bool  // only the first call of that kind waits
	full  atomic.Int64 // calls that waited the whole latency
	cut   atomic.Int64 // calls whose context ended during the wait
}

func (s *slowDA) wait(ctx context.Context, point string) error {
	if s.d == 0 || point != s.point || !s.used.CompareAndSwap(false, true) {
		return nil
	}
	t := time.NewTimer(s.d)
	defer t.Stop()
	select {
	case <-t.C:
		s.full.Add(1)
		return nil
	case <-ctx.Done():
		s.cut.Add(1)
		return ctx.Err()
	}
}

func (s *slowDA) Get(ctx context.Context, ids []coreda.ID, ns []byte) ([]coreda.Blob, error) {
	if err := s.wait(ctx, "get"); err != nil {
		return nil, err
	}
	return s.fakeDA.Get(ctx, ids, ns)
}

func (s *slowDA) GetIDs(ctx context.Context, h uint64, ns []byte) (*coreda.GetIDsResult, error) {
	if err := s.wait(ctx, "getids"); err != nil {
		return nil, err
	}
	return s.fakeDA.GetIDs(ctx, h, ns)
}

func (s *slowDA) Submit(ctx context.Context, blobs []coreda.Blob, gp float64, ns []byte) ([]coreda.ID, error) {
	return s.SubmitWithOptions(ctx, blobs, gp, ns, nil)
}

func (s *slowDA) SubmitWithOptions(ctx context.Context, blobs []coreda.Blob, gp float64, ns []byte, opts []byte) ([]coreda.ID, error) {
	if err := s.wait(ctx, "submit"); err != nil {
		return nil, err
	}
	return s.fakeDA.SubmitWithOptions(ctx, blobs, gp, ns, opts)
}

var _ backing = (*slowDA)(nil)

type latRes struct {
	viols   []vf.Violation
	engine  string
	outcome string
	calls   int
	waited  int64 // DA calls that waited the whole latency (both instances)
	cut     int64 // DA calls whose context ended while they waited
	elapsed time.Duration
	trace   []string
}

// latBoth runs the same helper call on the direct and on the proxied instance at the same time.
func latBoth[T any](g *rig, guard time.Duration, f func(ctx context.Context, d coreda.DA) T) (a, b T) {
	var wg sync.WaitGroup
	wg.Add(2)
	go func() {
		defer wg.Done()
		ctx, cancel := context.WithTimeout(context.Background(), guard)
		defer cancel()
		a = f(ctx, g.direct)
	}()
	go func() {
		defer wg.Done()
		ctx, cancel := context.WithTimeout(context.Background(), guard)
		defer cancel()
		b = f(ctx, &g.cli.DA)
	}()
	wg.Wait()
	return a, b
}

// runLatency executes one case on a fresh server + client pair.
func runLatency(c latCase) (res latRes) {
	began := time.Now()
	defer func() { res.elapsed = time.Since(began) }()
	g, err := newRig("fake")
	if err != nil {
		res.engine = "latency part: " + err.Error()
		return res
	}
	defer g.close()
	L := time.Duration(c.Seconds) * time.Second
	mk := func() *slowDA {
		s := &slowDA{fakeDA: newBacking("fake", "populated").(*fakeDA)}
		if c.Op != "idle" {
			s.point, s.d = c.Op, L
		}
		return s
	}
	da, db := mk(), mk()
	g.direct.set(da)
	g.behind.set(db)
	guard := L + latGuard
	tags := []string{"part:latency", "backing:fake", "pre:populated", "latency:" + c.Op, fmt.Sprintf("latency:%ds", c.Seconds)}
	cur0, hs0 := db.snapshot()
	m := &storeModel{cur: cur0, heights: hs0}
	var outs []string

	submit := func(sizes []int) {
		what := fmt.Sprintf("%s: submit(sizes=%v)", c, sizes)
		res.trace = append(res.trace, fmt.Sprintf("submit(sizes=%v)", sizes))
		input := mkBlobs(sizes)
		ra, rb := latBoth(g, guard, func(ctx context.Context, d coreda.DA) coreda.ResultSubmit {
			return types.SubmitWithHelpers(ctx, d, logger, mkBlobs(sizes), 1, nil)
		})
		res.calls += 2
		if ra.Code != rb.Code {
			res.viols = append(res.viols, vf.Violation{Clause: "status-classification", Tags: tags,
				Msg: fmt.Sprintf("%s: direct status %d (%q), proxied status %d (%q)", what, ra.Code, ra.Message, rb.Code, rb.Message)})
		}
		if ra.SubmittedCount != rb.SubmittedCount || !eqBytesList(ra.IDs, rb.IDs) {
			res.viols = append(res.viols, vf.Violation{Clause: "ids-and-blobs", Tags: tags,
				Msg: fmt.Sprintf("%s: direct count=%d ids=%s, proxied count=%d ids=%s (proxied message %q)", what, ra.SubmittedCount, fmtList(ra.IDs), rb.SubmittedCount, fmtList(rb.IDs), rb.Message)})
		}
		n := int(rb.SubmittedCount)
		if n > len(input) {
			res.viols = append(res.viols, vf.Violation{Clause: "prefix-accounting", Tags: tags,
				Msg: fmt.Sprintf("%s: proxied SubmittedCount=%d exceeds the %d blobs handed in", what, rb.SubmittedCount, len(input))})
			n = len(input)
		}
		if n > 0 {
			m.heights[m.cur+1] = append(m.heights[m.cur+1], input[:n]...)
		}
		if rb.Code == coreda.StatusSuccess {
			if want, over := longestFit(sizes); !over && n != want {
				res.viols = append(res.viols, vf.Violation{Clause: "prefix-accounting", Tags: tags,
					Msg: fmt.Sprintf("%s: proxied submit took %d blobs, the longest prefix that fits has %d", what, rb.SubmittedCount, want)})
			}
		}
		outs = append(outs, fmt.Sprintf("submit:%d/%d:n=%d/%d", ra.Code, rb.Code, ra.SubmittedCount, rb.SubmittedCount))
	}
	retrieve := func(h uint64, wantStore bool) {
		what := fmt.Sprintf("%s: retrieve(height=%d)", c, h)
		res.trace = append(res.trace, fmt.Sprintf("retrieve(height=%d)", h))
		ra, rb := latBoth(g, guard, func(ctx context.Context, d coreda.DA) coreda.ResultRetrieve {
			return types.RetrieveWithHelpers(ctx, d, logger, h, []byte("c16"))
		})
		res.calls += 2
		res.viols = append(res.viols, compareRetrieve(ra, rb, what, tags)...)
		if wantStore {
			if want := m.heights[h]; len(want) == 0 {
				if rb.Code != coreda.StatusNotFound {
					res.viols = append(res.viols, vf.Violation{Clause: "status-classification", Tags: tags,
						Msg: fmt.Sprintf("%s: nothing was reported as submitted there, proxied status %d (%q)", what, rb.Code, rb.Message)})
				}
			} else if rb.Code != coreda.StatusSuccess || !eqBytesList(rb.Data, want) {
				res.viols = append(res.viols, vf.Violation{Clause: "ids-and-blobs", Tags: tags,
					Msg: fmt.Sprintf("%s: proxied status %d blobs %s, the blobs reported as submitted are %s", what, rb.Code, fmtList(rb.Data), fmtList(want))})
			}
		}
		outs = append(outs, fmt.Sprintf("retrieve:%d/%d:n=%d/%d", ra.Code, rb.Code, len(ra.Data), len(rb.Data)))
	}
	stores := func(after string) {
		curB, hsB := db.snapshot()
		gotB := canon(curB, hsB)
		if want := canon(m.cur, m.heights); gotB != want {
			res.viols = append(res.viols, vf.Violation{Clause: "prefix-accounting", Tags: tags,
				Msg: fmt.Sprintf("%s: after %s the store behind the proxy differs from what the reported submitted counts say:\n store  %s\n counts %s", c, after, gotB, want)})
			m.cur, m.heights = curB, hsB
		}
		curA, hsA := da.snapshot()
		if gotA := canon(curA, hsA); gotA != gotB {
			res.viols = append(res.viols, vf.Violation{Clause: "ids-and-blobs", Tags: tags,
				Msg: fmt.Sprintf("%s: after %s the directly used DA and the DA behind the proxy hold different blobs:\n direct  %s\n proxied %s", c, after, gotA, gotB)})
		}
	}
	tick := func() {
		da.tick()
		db.tick()
		m.cur++
	}

	switch c.Op {
	case "submit":
		submit([]int{limit - 1, 1, 1}) // the waiting call; cut to a prefix of 2
		stores("the slow submit")
		written := m.cur + 1
		tick()
		retrieve(written, true) // fast, same client: what a node reads back
	case "getids", "get":
		retrieve(1, true) // the waiting call
		stores("the slow retrieve")
		retrieve(1, true) // fast, same client
		submit([]int{1})
		stores("the submit after the slow retrieve")
	case "idle":
		submit([]int{1})
		stores("the first submit")
		res.trace = append(res.trace, fmt.Sprintf("pause(%ds)", c.Seconds))
		time.Sleep(L)
		retrieve(1, true)
		submit([]int{2})
		stores("the submit after the pause")
		written := m.cur + 1
		tick()
		retrieve(written, true)
	default:
		res.engine = "latency part: unknown case " + c.String()
		return res
	}
	res.waited = da.full.Load() + db.full.Load()
	res.cut = da.cut.Load() + db.cut.Load()
	if c.Op != "idle" && da.full.Load() != 1 {
		res.engine = fmt.Sprintf("latency part: %s: the directly called DA waited in %d calls (context ended in %d), expected exactly 1", c, da.full.Load(), da.cut.Load())
	}
	res.outcome = "latency:" + c.Op + ":" + strings.Join(outs, ",")
	return res
}

// latencies of a tier. Timeouts the server really has configured add "T + 1 s" where the tier's cap allows.
func latencyCases(thorough bool, configured map[string]time.Duration) (cases []latCase, callL, idleL []int, notReached []string) {
	common := []int{6, 11}
	callCap, idleCap := 12, 12
	var idleExtra []int
	if thorough {
		common = append(common, 16, 31, 55)
		callCap, idleCap = 59, 130
		idleExtra = []int{125}
	}
	call, idle := map[int]bool{}, map[int]bool{}
	for _, s := range common {
		call[s], idle[s] = true, true
	}
	for _, s := range idleExtra {
		idle[s] = true
	}
	names := make([]string, 0, len(configured))
	for n := range configured {
		names = append(names, n)
	}
	sort.Strings(names)
	for _, n := range names {
		t := configured[n]
		if t <= 0 {
			continue
		}
		s := int((t+time.Second-1)/time.Second) + 1
		if s <= callCap {
			call[s] = true
		} else {
			notReached = append(notReached, fmt.Sprintf("%s=%s: no slow call of %ds at this tier (cap %ds)", n, t, s, callCap))
		}
		if s <= idleCap {
			idle[s] = true
		} else {
			notReached = append(notReached, fmt.Sprintf("%s=%s: no idle gap of %ds at this tier (cap %ds)", n, t, s, idleCap))
		}
	}
	for s := range call {
		callL = append(callL, s)
	}
	for s := range idle {
		idleL = append(idleL, s)
	}
	sort.Ints(callL)
	sort.Ints(idleL)
	for _, op := range latOps {
		ls := callL
		if op == "idle" {
			ls = idleL
		}
		for _, s := range ls {
			cases = append(cases, latCase{Op: op, Seconds: s})
		}
	}
	return cases, callL, idleL, notReached
}

type latResult struct {
	Cases, Calls, Waited int64
	Caps                 []string
	Bounds               map[string]any
	Classes              map[string]int
}

// latencyPart runs all cases of the tier at the same time. A case that fails is run a second time on a fresh pair: only
// a failure that repeats is a verdict (transport failures are what this part looks for, so they cannot be set aside as
// machinery trouble the way the sequential part does); one that does not repeat is reported as a machinery error.
func latencyPart(r *vf.Run) (out latResult) {
	started := time.Now()
	probe := proxy.NewServer(logger, "127.0.0.1", "0", newFakeDA())
	configured := probe.VerifHTTPTimeouts()
	cases, callL, idleL, notReached := latencyCases(r.Thorough(), configured)
	var mu sync.Mutex
	classes := map[string]int{}
	var done, calls, waited, samples atomic.Int64
	var wg sync.WaitGroup
	for _, c := range cases {
		wg.Add(1)
		go func(c latCase) {
			defer wg.Done()
			res := runLatency(c)
			if res.engine == "" && len(res.viols) > 0 {
				again := runLatency(c)
				if again.engine == "" && !sameClauses(res.viols, again.viols) {
					res.engine = fmt.Sprintf("latency part: %s failed with %d violations (first: %s) and gave %d on an immediate second run on a fresh server/client pair: not reproducible",
						c, len(res.viols), short(res.viols[0].Msg), len(again.viols))
				} else if again.engine != "" {
					res.engine = again.engine
				}
			}
			if res.engine != "" {
				r.EngineError(res.engine)
				return
			}
			done.Add(1)
			calls.Add(int64(res.calls))
			waited.Add(res.waited)
			for _, v := range res.viols {
				cc := c
				v.Cost, v.History = c.Seconds, replay{Latency: &cc}
				v.Msg += fmt.Sprintf("\n (latency part, real time: %s; history: %s; DA calls that waited the whole latency: %d, whose context ended while waiting: %d; failed twice in a row on fresh server/client pairs)",
					c, strings.Join(res.trace, " ; "), res.waited, res.cut)
				r.Report(v)
			}
			r.Outcome(res.outcome)
			mu.Lock()
			classes[res.outcome]++
			mu.Unlock()
			if c.Seconds == 11 && samples.Add(1) <= 2 {
				r.Sample(map[string]any{"part": "latency", "case": c, "history": res.trace, "outcome": res.outcome, "elapsed_s": res.elapsed.Seconds()})
			}
		}(c)
	}
	wg.Wait()
	out.Cases, out.Calls, out.Waited, out.Classes = done.Load(), calls.Load(), waited.Load(), classes
	if int(out.Cases) != len(cases) {
		out.Caps = append(out.Caps, fmt.Sprintf("latency part: %d of %d cases done (machinery errors)", out.Cases, len(cases)))
	}
	conf := map[string]string{}
	for n, t := range configured {
		if t > 0 {
			conf[n] = t.String()
		} else {
			conf[n] = "not set"
		}
	}
	out.Bounds = map[string]any{
		"slow_calls":                      []string{"SubmitWithHelpers (DA SubmitWithOptions waits)", "RetrieveWithHelpers (DA GetIDs waits)", "RetrieveWithHelpers (DA Get waits)"},
		"slow_call_latencies_s":           callL,
		"idle_gap_lengths_s":              idleL,
		"http.Server_timeouts_configured": conf,
		"configured_timeouts_not_reached": notReached,
		"liveness_guard_per_call":         "latency + " + latGuard.String(),
		"cases":                           len(cases),
		"server_client_pairs":             len(cases),
		"elapsed_s":                       time.Since(started).Seconds(),
	}
	return out
}
