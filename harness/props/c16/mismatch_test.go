package c16

import (
	"context"
	"fmt"
	"strings"
	"sync"
	"sync/atomic"
	"time"

	coreda "github.com/evstack/ev-node/core/da"
	"github.com/evstack/ev-node/types"

	"verif/harness/vf"
)

// Limit-mismatch part of C16: the same differential oracle as the sequential part, with a backing DA whose batch limit
// is NOT the client's MaxBlobSize.
//
// In every other part the DA behind the server takes everything the client sends (equal limits), so the answer
// "fewer ids than blobs", which the DA interface allows (a DA takes a prefix of a batch and says so by the number of ids
// it returns), never crosses the wire. Here the client keeps MaxBlobSize = `limit` and the backing DA's limit B ranges
// over values below it (one byte less, half, one smallest blob) and above it (twice):
//
//	B < client limit   the client sends a list the DA only takes a prefix of (or rejects for a blob over ITS limit)
//	B > client limit   the client cuts a list the DA would have taken whole
//
// Per case: one blob list, submitted the way the node's submitter does it (call, advance by the reported count, call
// again with the rest while the call succeeds and makes progress), through types.SubmitWithHelpers (-> the client's
// SubmitWithOptions) or through bare DA.Submit (no client-side filter); then one DA block and a read-back of every
// written height through both paths.
//
// In-process reference: the same calls on an identically prepared DA. For SubmitWithHelpers the reference DA is handed
// the prefix the client contract of the property statement selects (the longest prefix that fits the client's
// MaxBlobSize, a failed call if a blob scanned on the way is individually over it): that is the part of the proxied
// path the statement itself prescribes; with equal limits it is exactly the plain direct call (the DA's own scan is
// the same function). DA.Submit is compared with the plain direct call.

type mmCase struct {
	Backing      string `json:"backing"`
	Pre          string `json:"pre"`
	ClientLimit  int    `json:"client_limit"`
	BackingLimit int    `json:"backing_limit"`
	Method       string `json:"method"` // submit-helpers | da-submit
	Sizes        []int  `json:"sizes"`
}

func (c mmCase) String() string {
	return fmt.Sprintf("%s(sizes=%v) client MaxBlobSize=%d, backing DA limit=%d", c.Method, c.Sizes, c.ClientLimit, c.BackingLimit)
}

// clientContract is the reference for what the proxy client may do to a SubmitWithOptions call before it reaches the
// DA (property statement: "the client submits the longest prefix that fits"; anchors: "error if any single blob is
// oversize"). Everything else goes to the DA untouched.
type clientContract struct {
	coreda.DA
	limit int
}

func (c clientContract) SubmitWithOptions(ctx context.Context, blobs []coreda.Blob, gp float64, ns []byte, opts []byte) ([]coreda.ID, error) {
	sizes := make([]int, len(blobs))
	for i, b := range blobs {
		sizes[i] = len(b)
	}
	n, over := longestFitAt(sizes, c.limit)
	if over {
		return nil, coreda.ErrBlobSizeOverLimit
	}
	if len(blobs) == 0 {
		return []coreda.ID{}, nil
	}
	return c.DA.SubmitWithOptions(ctx, blobs[:n], gp, ns, opts)
}

var mmPreBlobs = [][]byte{{0xA1}, {0xB2}}

func newMismatchBacking(kind, pre string, lim int) backing {
	b := newLargeBacking(kind, uint64(lim))
	if pre == "populated" {
		for _, pb := range mmPreBlobs { // one by one: fits every backing limit >= 1
			if ids, err := b.SubmitWithOptions(context.Background(), [][]byte{pb}, 1, nil, nil); err != nil || len(ids) != 1 {
				panic(fmt.Sprintf("preparing the populated pre-state failed: %v %d", err, len(ids)))
			}
		}
		b.tick()
		b.tick()
	}
	return b
}

type mmRes struct {
	viols   []vf.Violation
	engine  string
	outcome string
	calls   int
	partial int // proxied calls answered with fewer ids than blobs sent over the wire
	key     string
}

func (g *rig) runMismatch(c mmCase) (res mmRes) {
	if int(g.cli.DA.MaxBlobSize) != c.ClientLimit {
		res.engine = fmt.Sprintf("mismatch part: rig has client limit %d, case wants %d", g.cli.DA.MaxBlobSize, c.ClientLimit)
		return res
	}
	da, db := newMismatchBacking(c.Backing, c.Pre, c.BackingLimit), newMismatchBacking(c.Backing, c.Pre, c.BackingLimit)
	g.direct.set(da)
	g.behind.set(db)
	defer g.reset("empty")
	cur0, hs0 := db.snapshot()
	m := &storeModel{cur: cur0, heights: hs0}

	rel := "backing-limit-below-client"
	if c.BackingLimit > c.ClientLimit {
		rel = "backing-limit-above-client"
	} else if c.BackingLimit == c.ClientLimit {
		rel = "backing-limit-equals-client"
	}
	base := []string{"part:limit-mismatch", "backing:" + c.Backing, "pre:" + c.Pre, "call:" + c.Method, rel}
	input := mkBlobs(c.Sizes)
	rest, restSizes := input, c.Sizes
	var ref coreda.DA = g.direct
	if c.Method == "submit-helpers" {
		ref = clientContract{DA: g.direct, limit: c.ClientLimit}
	}
	var outs []string
	hard := false
	for round := 0; round <= len(input); round++ {
		// what crosses the wire in this round, and what the DA behind the server makes of it (features only)
		sentSizes := restSizes
		tags := append([]string{}, base...)
		if c.Method == "submit-helpers" {
			n, over := longestFitAt(restSizes, c.ClientLimit)
			switch {
			case len(restSizes) == 0:
				tags = append(tags, "empty-list")
				sentSizes = nil
			case over:
				tags = append(tags, "oversize-blob")
				sentSizes = nil
			case n < len(restSizes):
				tags = append(tags, "truncated-batch")
				sentSizes = restSizes[:n]
			default:
				tags = append(tags, "batch-fits")
			}
		}
		// DummyDA semantics: a blob over the DA's limit met before the DA's own cumulative cut fails the call
		daTakes, daRejects := 0, false
		for sum := 0; daTakes < len(sentSizes); daTakes++ {
			s := sentSizes[daTakes]
			if s > c.BackingLimit {
				daRejects = true
				break
			}
			if sum+s > c.BackingLimit {
				break
			}
			sum += s
		}
		switch {
		case daRejects:
			tags = append(tags, "backing-rejects-blob-over-its-limit")
		case daTakes < len(sentSizes):
			tags = append(tags, "backing-takes-prefix-of-what-was-sent")
		}
		if round > 0 {
			tags = append(tags, "resubmitted-tail")
		}
		what := fmt.Sprintf("%s, call %d with the blobs %d.. of the list", c, round+1, len(input)-len(rest))

		var ra, rb coreda.ResultSubmit
		if c.Method == "da-submit" {
			ra = rawSubmit(context.Background(), ref, rest)
			rb = rawSubmit(context.Background(), &g.cli.DA, rest)
		} else {
			ra = types.SubmitWithHelpers(context.Background(), ref, logger, rest, 1, nil)
			rb = types.SubmitWithHelpers(context.Background(), &g.cli.DA, logger, rest, 1, nil)
		}
		res.calls += 2
		if transportTrouble(rb.Message) {
			res.engine = "transport trouble on the loopback proxy: " + rb.Message
			return res
		}
		if rb.Code == coreda.StatusSuccess && int(rb.SubmittedCount) < len(sentSizes) {
			res.partial++
		}
		outs = append(outs, fmt.Sprintf("%d/%d:n=%d/%d", ra.Code, rb.Code, ra.SubmittedCount, rb.SubmittedCount))
		restAgree := ra.SubmittedCount == rb.SubmittedCount && eqBytesList(ra.IDs, rb.IDs)
		if ra.Code != rb.Code {
			t := tags
			// the listed identity loss of DA errors over the wire, and nothing else: the DA itself rejected the call
			// with ErrBlobSizeOverLimit (a blob over ITS limit), only the status differs and the proxied one is the generic one
			if daRejects && restAgree && ra.Code == coreda.StatusTooBig && rb.Code == coreda.StatusError {
				t = append(append([]string{}, tags...), "submit-error:ErrBlobSizeOverLimit")
			} else {
				hard = true
			}
			res.viols = append(res.viols, vf.Violation{Clause: "status-classification", Tags: t,
				Msg: fmt.Sprintf("%s: in-process status %d (%q), proxied status %d (%q)", what, ra.Code, ra.Message, rb.Code, rb.Message)})
		}
		if !restAgree {
			hard = true
			res.viols = append(res.viols, vf.Violation{Clause: "ids-and-blobs", Tags: tags,
				Msg: fmt.Sprintf("%s: in-process count=%d ids=%s, proxied count=%d ids=%s (proxied message %q)", what, ra.SubmittedCount, fmtList(ra.IDs), rb.SubmittedCount, fmtList(rb.IDs), rb.Message)})
		}
		n := int(rb.SubmittedCount)
		if n > len(rest) {
			hard = true
			res.viols = append(res.viols, vf.Violation{Clause: "prefix-accounting", Tags: tags,
				Msg: fmt.Sprintf("%s: proxied SubmittedCount=%d exceeds the %d blobs handed in", what, rb.SubmittedCount, len(rest))})
			n = len(rest)
		}
		if n > 0 {
			m.heights[m.cur+1] = append(m.heights[m.cur+1], rest[:n]...)
		}
		curB, hsB := db.snapshot()
		gotB := canon(curB, hsB)
		if want := canon(m.cur, m.heights); gotB != want {
			hard = true
			res.viols = append(res.viols, vf.Violation{Clause: "prefix-accounting", Tags: tags,
				Msg: fmt.Sprintf("%s: afterwards the store behind the proxy differs from what the reported submitted counts say:\n store  %s\n counts %s", what, gotB, want)})
		}
		curA, hsA := da.snapshot()
		if gotA := canon(curA, hsA); gotA != gotB {
			hard = true
			res.viols = append(res.viols, vf.Violation{Clause: "ids-and-blobs", Tags: tags,
				Msg: fmt.Sprintf("%s: afterwards the directly used DA and the DA behind the proxy hold different blobs:\n direct  %s\n proxied %s", what, gotA, gotB)})
		}
		res.key = gotB
		if hard || rb.Code != coreda.StatusSuccess || n == 0 || n == len(rest) {
			break
		}
		rest, restSizes = rest[n:], restSizes[n:]
	}
	res.outcome = "mismatch:" + c.Method + ":" + rel + ":" + strings.Join(outs, ",")
	if hard {
		return res
	}
	// one DA block later: every height written since the pre-state, through both paths (no client-side filter on reads)
	da.tick()
	db.tick()
	m.cur++
	tags := append(append([]string{}, base...), "call:sweep-after-submit")
	for h := cur0 + 1; h <= m.cur; h++ {
		qa, qb := g.retrieveBoth(context.Background(), context.Background(), h)
		res.calls += 2
		if transportTrouble(qb.Message) {
			res.engine = "transport trouble on the loopback proxy: " + qb.Message
			return res
		}
		what := fmt.Sprintf("%s: read-back of height %d", c, h)
		vs := compareRetrieve(qa, qb, what, tags)
		want := m.heights[h]
		if len(want) == 0 {
			if qb.Code != coreda.StatusNotFound {
				vs = append(vs, vf.Violation{Clause: "status-classification", Tags: tags,
					Msg: fmt.Sprintf("%s: nothing was reported as submitted there, proxied status %d (%q)", what, qb.Code, qb.Message)})
			}
		} else if qb.Code != coreda.StatusSuccess || !eqBytesList(qb.Data, want) {
			vs = append(vs, vf.Violation{Clause: "ids-and-blobs", Tags: tags,
				Msg: fmt.Sprintf("%s: proxied status %d blobs %s, the blobs reported as submitted are %s", what, qb.Code, fmtList(qb.Data), fmtList(want))})
		}
		res.viols = append(res.viols, vs...)
	}
	return res
}

// ---------------------------------------------------------------------------------------------------------------

func mmSizeLists(sizes []int, maxLen int) [][]int {
	out := [][]int{{}}
	level := [][]int{{}}
	for l := 1; l <= maxLen; l++ {
		var next [][]int
		for _, p := range level {
			for _, s := range sizes {
				next = append(next, append(append([]int{}, p...), s))
			}
		}
		out = append(out, next...)
		level = next
	}
	return out
}

type mmResult struct {
	Cases, Calls, Partial, Distinct int64
	Caps                            []string
	Bounds                          map[string]any
	Classes                         int
}

func mismatchPart(r *vf.Run, workers int, deadline time.Duration) (out mmResult) {
	maxLen := vf.Pick(r, 4, 5)
	sizes := []int{0, 1, 2, limit - 1, limit, limit + 1}
	backingLimits := []int{limit - 1, limit / 2, 1, 2 * limit}
	if r.Thorough() {
		backingLimits = []int{limit - 1, limit / 2, 1, limit, limit + 1, 2 * limit, 3 * limit}
	}
	kinds := []string{"fake", "dummyda"}
	pres := []string{"empty", "populated"}
	methods := []string{"submit-helpers", "da-submit"}
	lists := mmSizeLists(sizes, maxLen)
	var cases []mmCase
	for _, k := range kinds {
		for _, p := range pres {
			for _, bl := range backingLimits {
				for _, me := range methods {
					for _, l := range lists {
						cases = append(cases, mmCase{Backing: k, Pre: p, ClientLimit: limit, BackingLimit: bl, Method: me, Sizes: l})
					}
				}
			}
		}
	}
	var rigs []*rig
	for len(rigs) < workers {
		g, err := newRigWith("fake", limit)
		if err != nil {
			r.EngineError("mismatch part: " + err.Error())
			break
		}
		rigs = append(rigs, g)
	}
	defer func() {
		for _, g := range rigs {
			g.close()
		}
	}()
	if len(rigs) == 0 {
		out.Caps = append(out.Caps, "limit-mismatch part did not start")
		return out
	}
	started := time.Now()
	var next, done, calls, partial, samples atomic.Int64
	var mu sync.Mutex
	classes := map[string]struct{}{}
	distinct := map[uint64]struct{}{}
	var wg sync.WaitGroup
	for _, g := range rigs {
		wg.Add(1)
		go func(g *rig) {
			defer wg.Done()
			for {
				i := int(next.Add(1)) - 1
				if i >= len(cases) || time.Since(started) > deadline {
					return
				}
				c := cases[i]
				g.kind = c.Backing
				res := g.runMismatch(c)
				if res.engine != "" {
					r.EngineError(res.engine)
					continue
				}
				done.Add(1)
				calls.Add(int64(res.calls))
				partial.Add(int64(res.partial))
				for _, v := range res.viols {
					v.Cost, v.History = i+1, replay{Mismatch: &c}
					r.Report(v)
				}
				r.Outcome(res.outcome)
				mu.Lock()
				classes[res.outcome] = struct{}{}
				distinct[hash64(fmt.Sprintf("%s|%s|%d|%s|%s", c.Backing, c.Pre, c.BackingLimit, c.Method, res.outcome+res.key))] = struct{}{}
				mu.Unlock()
				if res.partial > 0 && i%997 == 0 && samples.Add(1) <= 3 {
					r.Sample(map[string]any{"part": "limit-mismatch", "case": c, "outcome": res.outcome, "store_after": res.key})
				}
			}
		}(g)
	}
	wg.Wait()
	out.Cases, out.Calls, out.Partial, out.Classes, out.Distinct = done.Load(), calls.Load(), partial.Load(), len(classes), int64(len(distinct))
	if int(out.Cases) != len(cases) {
		out.Caps = append(out.Caps, fmt.Sprintf("limit-mismatch part: %d of %d cases done (deadline %s or machinery errors)", out.Cases, len(cases), deadline))
	}
	out.Bounds = map[string]any{
		"client_MaxBlobSize": limit, "backing_DA_limits": backingLimits, "blob_sizes": sizes, "max_list_len": maxLen, "blob_lists": len(lists),
		"methods": []string{"types.SubmitWithHelpers (client SubmitWithOptions)", "DA.Submit"}, "pre_states": pres, "backings": kinds,
		"resubmission": "the rest of the list is submitted again after every successful call that took a proper non-empty prefix",
		"cases":        len(cases), "elapsed_s": time.Since(started).Seconds(),
	}
	return out
}
