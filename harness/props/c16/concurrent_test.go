package c16

import (
	"bytes"
	"context"
	"encoding/hex"
	"encoding/json"
	"fmt"
	"net/http"
	"net/http/httptest"
	"os"
	"os/exec"
	"path/filepath"
	"runtime"
	"sort"
	"strings"
	"sync"
	"sync/atomic"
	"testing"
	"testing/synctest"
	"time"
	_ "unsafe" // go:linkname below

	_ "github.com/filecoin-project/go-jsonrpc" // initialised before this package (its default HTTP client is re-routed below)
	logging "github.com/ipfs/go-log/v2"

	coreda "github.com/evstack/ev-node/core/da"
	proxy "github.com/evstack/ev-node/da/jsonrpc"
	"github.com/evstack/ev-node/types"

	"verif/harness/explore"
	"verif/harness/vf"
	"verif/harness/world"
)

// Concurrent part of C16: several callers use ONE real jsonrpc client (as block.Manager's header and data submission
// loops and the retrieve loop share m.da) against ONE real jsonrpc server in front of a DA double.
//
// The callers are threads of the cooperative scheduler world.Sched inside a synctest bubble; exactly one of them runs
// between two scheduling points and the explorer chooses who continues (delay-bounded). Scheduling points are the seams
// the client and the server really have:
//   - every call of the logger injected into the client and into the server (client.go logs "Making RPC call" between
//     packing a batch and handing it to the RPC library, and "RPC call successful/failed" after the response;
//     server.go logs "RPC server: X called" before it calls the DA),
//   - the HTTP round trip (after the RPC library has marshalled the request, before the server sees it),
//   - the entry of the DA double (the DA operation itself is atomic; the order of entries is the linearization order).
//
// Transport: world.Sched needs exact quiescence (synctest.Wait), and goroutines blocked in real network I/O (idle
// keep-alive readers of net/http on both sides) are never durably blocked, so loopback TCP cannot run under it. The
// concurrent part therefore uses an in-memory http.RoundTripper that hands the request to the real server's
// http.Handler on the caller's own goroutine (the sequential part keeps using loopback TCP). proxy.NewClient has no
// way to inject a transport: it always uses go-jsonrpc's package-level default *http.Client; the harness replaces the
// Transport of that one client by a router (hosts registered by the concurrent part -> in-memory, everything else ->
// the original transport). Client and server are built by the real proxy.NewClient / proxy.NewServer.
//
// Oracle: the same caller programs are run a second time directly on an identically prepared DA double, with the DA
// calls forced into the order the DA behind the proxy observed (a direct, in-process DA has no other shared state, so
// this is "what the same calls return in-process given that linearization"). Every caller's results must agree
// (status, ids, blobs, submitted count), both stores must agree, and behind the proxy the ids handed to a caller must
// resolve to exactly the prefix of that caller's blobs it was told were submitted; nothing else may be stored.

//go:linkname jsonrpcDefaultHTTPClient github.com/filecoin-project/go-jsonrpc._defaultHTTPClient
var jsonrpcDefaultHTTPClient *http.Client

type memRoute struct {
	handler http.Handler
	gate    func(op string)
}

type memTransport struct {
	fallback http.RoundTripper
	routes   sync.Map // host -> *memRoute
}

var (
	memT   = &memTransport{}
	memSeq atomic.Int64
)

func init() {
	memT.fallback = jsonrpcDefaultHTTPClient.Transport
	jsonrpcDefaultHTTPClient.Transport = memT
}

func (t *memTransport) RoundTrip(req *http.Request) (*http.Response, error) {
	v, ok := t.routes.Load(req.URL.Host)
	if !ok {
		return t.fallback.RoundTrip(req)
	}
	rt := v.(*memRoute)
	if req.Body != nil {
		defer req.Body.Close()
	}
	if err := req.Context().Err(); err != nil {
		return nil, err
	}
	rt.gate("http:round-trip")
	rec := httptest.NewRecorder()
	rt.handler.ServeHTTP(rec, req)
	resp := rec.Result()
	resp.Request = req
	return resp, nil
}

// gateLogger is the logger handed to the client and the server: every log call is a scheduling point.
type gateLogger struct {
	logging.EventLogger
	gate func(op string)
}

func logOp(args []interface{}) string {
	if len(args) == 0 {
		return "log"
	}
	return fmt.Sprint("log:", args[0])
}

func (l *gateLogger) Debug(args ...interface{}) { l.gate(logOp(args)); l.EventLogger.Debug(args...) }
func (l *gateLogger) Info(args ...interface{})  { l.gate(logOp(args)); l.EventLogger.Info(args...) }
func (l *gateLogger) Warn(args ...interface{})  { l.gate(logOp(args)); l.EventLogger.Warn(args...) }
func (l *gateLogger) Error(args ...interface{}) { l.gate(logOp(args)); l.EventLogger.Error(args...) }
func (l *gateLogger) Debugf(f string, args ...interface{}) {
	l.gate("log:" + f)
	l.EventLogger.Debugf(f, args...)
}
func (l *gateLogger) Infof(f string, args ...interface{}) {
	l.gate("log:" + f)
	l.EventLogger.Infof(f, args...)
}
func (l *gateLogger) Warnf(f string, args ...interface{}) {
	l.gate("log:" + f)
	l.EventLogger.Warnf(f, args...)
}
func (l *gateLogger) Errorf(f string, args ...interface{}) {
	l.gate("log:" + f)
	l.EventLogger.Errorf(f, args...)
}

// ---------------------------------------------------------------------------------------------------------------
// caller programs

// cop is one operation of a caller.
//
//	swo       types.SubmitWithHelpers (-> DA.SubmitWithOptions) with this caller's own blobs of the given sizes
//	submit    DA.Submit with this caller's own blobs
//	retrieve  types.RetrieveWithHelpers at a height (-> GetIDs, then Get)
//	get-own   DA.Get of the ids the caller's previous operation returned
type cop struct {
	Kind   string `json:"kind"`
	Sizes  []int  `json:"sizes,omitempty"`
	Height uint64 `json:"height,omitempty"`
}

func (o cop) String() string {
	switch o.Kind {
	case "swo", "submit":
		return fmt.Sprintf("%s%v", o.Kind, o.Sizes)
	case "retrieve":
		return fmt.Sprintf("retrieve(%d)", o.Height)
	}
	return o.Kind
}

func progString(p []cop) string {
	parts := make([]string, len(p))
	for i, o := range p {
		parts[i] = o.String()
	}
	return strings.Join(parts, ";")
}

func workloadString(progs [][]cop, warm bool) string {
	parts := make([]string, len(progs))
	for i, p := range progs {
		parts[i] = fmt.Sprintf("caller-%d: %s", i+1, progString(p))
	}
	s := strings.Join(parts, " || ")
	if warm {
		s = "client used before; " + s
	}
	return s
}

type concReplay struct {
	Programs [][]cop         `json:"programs"`
	Warm     bool            `json:"client_used_before"`
	Choices  []explore.Point `json:"choices"`
}

const concHeight = 2 // current height of the DA double in the concurrent part (submissions land here)

var concNS = []byte("c16")

// concBlobs: content is unique per (caller, operation, position), so an id identifies whose blob it is.
func concBlobs(caller, k int, sizes []int) [][]byte {
	out := make([][]byte, len(sizes))
	for i, s := range sizes {
		out[i] = bytes.Repeat([]byte{byte(0x20*(caller+1) + 0x10*k + i)}, s)
	}
	return out
}

var warmBlobs = [][]byte{{0x0E}, {0x0F, 0x0F}}

type copRes struct {
	Code     coreda.StatusCode
	Count    uint64
	IDs      [][]byte
	Data     [][]byte
	Msg      string
	From, To int64 // logical clock at invocation / return
}

func (r copRes) String() string {
	return fmt.Sprintf("status=%d count=%d ids=%s blobs=%s", r.Code, r.Count, fmtIDs(r.IDs), fmtList(r.Data))
}

// fmtIDs prints ids as height:hash-prefix.
func fmtIDs(ids [][]byte) string {
	parts := make([]string, len(ids))
	for i, id := range ids {
		if len(id) >= 12 {
			parts[i] = fmt.Sprintf("h%d:%x", id[0], id[8:12])
		} else {
			parts[i] = fmt.Sprintf("%x", id)
		}
	}
	return "[" + strings.Join(parts, " ") + "]"
}

func execOp(ctx context.Context, da coreda.DA, caller, k int, op cop, prev [][]byte) copRes {
	switch op.Kind {
	case "swo":
		r := types.SubmitWithHelpers(ctx, da, logger, concBlobs(caller, k, op.Sizes), 1, nil)
		return copRes{Code: r.Code, Count: r.SubmittedCount, IDs: r.IDs, Msg: r.Message}
	case "submit":
		ids, err := da.Submit(ctx, concBlobs(caller, k, op.Sizes), 1, concNS)
		res := copRes{Code: coreda.StatusSuccess, Count: uint64(len(ids)), IDs: ids}
		if err != nil {
			res.Code, res.Msg = coreda.StatusError, err.Error()
		}
		return res
	case "retrieve":
		r := types.RetrieveWithHelpers(ctx, da, logger, op.Height, concNS)
		return copRes{Code: r.Code, IDs: r.IDs, Data: r.Data, Msg: r.Message}
	case "get-own":
		blobs, err := da.Get(ctx, prev, concNS)
		res := copRes{Code: coreda.StatusSuccess, Data: blobs}
		if err != nil {
			res.Code, res.Msg = coreda.StatusError, err.Error()
		}
		return res
	}
	panic("unknown concurrent operation " + op.Kind)
}

// ---------------------------------------------------------------------------------------------------------------
// thread identity and the gated DA double

// The caller's identity travels in the context: the RPC library attaches the caller's context to the HTTP request, the
// in-memory transport hands that request to the server's handler, and the handler passes its context on to the DA.
type threadKey struct{}

func threadName(ctx context.Context) string {
	if v, ok := ctx.Value(threadKey{}).(string); ok {
		return v
	}
	return "" // the harness goroutine
}

type linEntry struct{ Thread, Method string }

func linString(l []linEntry) string {
	parts := make([]string, len(l))
	for i, e := range l {
		t := e.Thread
		if t == "" {
			t = "harness"
		}
		parts[i] = t + ":" + e.Method
	}
	return strings.Join(parts, " < ")
}

type concRun struct {
	mu      sync.Mutex
	res     [][]copRes
	lin     []linEntry
	atDA    map[string]bool
	clock   atomic.Int64
	started atomic.Bool
	inner   *fakeDA
	alive   []string
	blocked []string
	trace   []string
	engine  string
}

// gatedDA is the DA double as the callers (direct run) or the server (proxied run) see it: its entry is a scheduling
// point, and the order of entries is recorded.
type gatedDA struct {
	*fakeDA
	run    *concRun
	gate   func(op string)
	direct bool
}

// clientLocal: a submission the proxy client answers by itself (empty list / a blob over the limit); the direct run
// does not count it as a DA call (it neither depends on nor changes the DA's state).
func clientLocal(blobs [][]byte) bool {
	sizes := make([]int, len(blobs))
	for i, b := range blobs {
		sizes[i] = len(b)
	}
	_, over := longestFit(sizes)
	return len(blobs) == 0 || over
}

func (g *gatedDA) enter(ctx context.Context, method string) {
	name := threadName(ctx)
	if name == "" && g.run.started.Load() {
		g.run.mu.Lock()
		g.run.engine = "a DA call arrived without the caller's identity while the callers were running (" + method + ")"
		g.run.mu.Unlock()
	}
	if name != "" {
		g.run.mu.Lock()
		g.run.atDA[name] = true
		g.run.mu.Unlock()
		g.gate("da:" + method)
		g.run.mu.Lock()
		g.run.atDA[name] = false
		g.run.mu.Unlock()
	}
	g.run.mu.Lock()
	g.run.lin = append(g.run.lin, linEntry{name, method})
	g.run.mu.Unlock()
}

func (g *gatedDA) Get(ctx context.Context, ids []coreda.ID, ns []byte) ([]coreda.Blob, error) {
	g.enter(ctx, "Get")
	return g.fakeDA.Get(ctx, ids, ns)
}

func (g *gatedDA) GetIDs(ctx context.Context, h uint64, ns []byte) (*coreda.GetIDsResult, error) {
	g.enter(ctx, "GetIDs")
	return g.fakeDA.GetIDs(ctx, h, ns)
}

func (g *gatedDA) Submit(ctx context.Context, blobs []coreda.Blob, gp float64, ns []byte) ([]coreda.ID, error) {
	g.enter(ctx, "Submit")
	return g.fakeDA.Submit(ctx, blobs, gp, ns)
}

func (g *gatedDA) SubmitWithOptions(ctx context.Context, blobs []coreda.Blob, gp float64, ns []byte, opts []byte) ([]coreda.ID, error) {
	if !(g.direct && clientLocal(blobs)) {
		g.enter(ctx, "SubmitWithOptions")
	}
	return g.fakeDA.SubmitWithOptions(ctx, blobs, gp, ns, opts)
}

func newConcBacking() *fakeDA {
	b := newBacking("fake", "populated").(*fakeDA) // current height 2, preBlobs at height 1
	b.sameHeight = true
	return b
}

// runConc runs the caller programs once. follow == nil: through the real client and server, the explorer schedules.
// follow != nil: directly on the DA double, the DA calls forced into the given order.
func runConc(progs [][]cop, warm bool, c *explore.Ctx, follow []linEntry) *concRun {
	run := &concRun{res: make([][]copRes, len(progs)), atDA: map[string]bool{}, inner: newConcBacking()}
	proxied := follow == nil
	var choose func(n int, names []string) int
	if proxied {
		choose = func(n int, names []string) int { return c.Choose("sched", n) }
	} else {
		choose = func(n int, names []string) int {
			run.mu.Lock()
			defer run.mu.Unlock()
			for i, nm := range names { // threads that have not reached their next DA call yet go first
				if !run.atDA[nm] {
					return i
				}
			}
			if i := len(run.lin); i < len(follow) {
				for j, nm := range names {
					if nm == follow[i].Thread {
						return j
					}
				}
			}
			return 0
		}
	}
	sched := world.NewSched(choose)
	defer sched.Off()
	gda := &gatedDA{fakeDA: run.inner, run: run, gate: sched.Gate, direct: !proxied}
	var da coreda.DA = gda
	if proxied {
		glog := &gateLogger{EventLogger: logger, gate: sched.Gate}
		srv := proxy.NewServer(glog, "c16-mem", "0", gda) // never started: no listener, only its handler is used
		host := fmt.Sprintf("c16-mem-%d", memSeq.Add(1))
		memT.routes.Store(host, &memRoute{handler: srv.VerifHandler(), gate: sched.Gate})
		defer memT.routes.Delete(host)
		cli, err := proxy.NewClient(context.Background(), glog, "http://"+host, "", hex.EncodeToString(concNS))
		if err != nil {
			run.engine = "client: " + err.Error()
			return run
		}
		defer cli.Close()
		cli.DA.MaxBlobSize = limit
		da = &cli.DA
	}
	if warm { // an earlier, completed call on the same client (harness goroutine: all gates pass through)
		if r := types.SubmitWithHelpers(context.Background(), da, logger, warmBlobs, 1, nil); r.Code != coreda.StatusSuccess || r.SubmittedCount != uint64(len(warmBlobs)) {
			run.engine = fmt.Sprintf("warm-up submission failed: status %d (%s) count %d", r.Code, r.Message, r.SubmittedCount)
			return run
		}
	}
	for ci, prog := range progs {
		name := fmt.Sprintf("caller-%d", ci+1)
		run.res[ci] = make([]copRes, 0, len(prog))
		ctx := context.WithValue(context.Background(), threadKey{}, name)
		sched.Go(name, func() {
			var prev [][]byte
			for k, op := range prog {
				from := run.clock.Add(1)
				res := execOp(ctx, da, ci, k, op, prev)
				res.From, res.To = from, run.clock.Add(1)
				run.mu.Lock()
				run.res[ci] = append(run.res[ci], res)
				run.mu.Unlock()
				prev = res.IDs
			}
		})
	}
	run.started.Store(true)
	sched.Drain()
	run.alive, run.blocked = sched.Alive(), sched.Blocked()
	run.trace = append([]string{}, sched.Trace...)
	return run
}

// ---------------------------------------------------------------------------------------------------------------
// one explored execution

type concOutcome struct {
	viols    []vf.Violation
	engine   string
	lin      string
	overlap  bool
	daCalls  int
	sample   map[string]any
	resultsK string
}

func kindTag(k string) string {
	if k == "swo" {
		return "call:submit-with-options"
	}
	return "call:" + k
}

// overlapping lists the kinds of the other callers' operations whose call interval intersects that of (ci, k).
func overlapping(res [][]copRes, progs [][]cop, ci, k int) []string {
	if k >= len(res[ci]) {
		return nil
	}
	me := res[ci][k]
	set := map[string]bool{}
	for cj := range res {
		if cj == ci {
			continue
		}
		for kj, o := range res[cj] {
			if o.From < me.To && me.From < o.To {
				set["overlaps:"+progs[cj][kj].Kind] = true
			}
		}
	}
	out := make([]string, 0, len(set))
	for s := range set {
		out = append(out, s)
	}
	sort.Strings(out)
	return out
}

func concBody(t *testing.T, c *explore.Ctx, progs [][]cop, warm bool) (out concOutcome) {
	synctest.Test(t, func(t *testing.T) { out = concBubble(c, progs, warm) })
	return
}

func concBubble(c *explore.Ctx, progs [][]cop, warm bool) (out concOutcome) {
	wl := workloadString(progs, warm)
	px := runConc(progs, warm, c, nil)
	if px.engine != "" {
		out.engine = px.engine
		return
	}
	for _, e := range px.lin {
		if e.Thread == "" && !warm {
			out.engine = "a DA call behind the proxy could not be attributed to a caller"
			return
		}
	}
	base := []string{"concurrent", fmt.Sprintf("callers:%d", len(progs))}
	if warm {
		base = append(base, "client-used-before")
	}
	for ci := range progs {
		for k := range px.res[ci] {
			if len(overlapping(px.res, progs, ci, k)) > 0 {
				out.overlap = true
			}
		}
	}
	if out.overlap {
		base = append(base, "calls-overlap")
	} else {
		base = append(base, "calls-one-after-another")
	}
	out.lin = linString(px.lin)
	out.daCalls = len(px.lin)
	tail := func() string {
		return fmt.Sprintf("\n workload: %s\n order in which the DA behind the proxy saw the calls: %s\n schedule (thread:point granted): %s",
			wl, out.lin, strings.Join(px.trace, " "))
	}
	if len(px.alive) > 0 {
		out.viols = append(out.viols, vf.Violation{Clause: "call-completes", Tags: base,
			Msg: fmt.Sprintf("calls through the shared proxy client never returned: threads %v (waiting: %v); the same calls on an in-process DA cannot block each other", px.alive, px.blocked) + tail()})
		return
	}
	dr := runConc(progs, warm, nil, append([]linEntry{}, px.lin...))
	if dr.engine != "" {
		out.engine = "direct run: " + dr.engine
		return
	}
	if len(dr.alive) > 0 {
		out.engine = fmt.Sprintf("direct run did not finish: %v", dr.alive)
		return
	}
	sameOrder := linString(dr.lin) == out.lin
	orderNote := ""
	if !sameOrder {
		orderNote = "\n (the directly called DA saw a different call sequence: " + linString(dr.lin) + ")"
	}
	// 1. every caller's results agree with the in-process run in the same DA order
	var rk strings.Builder
	for ci, prog := range progs {
		for k, op := range prog {
			tags := append(append([]string{}, base...), kindTag(op.Kind))
			tags = append(tags, overlapping(px.res, progs, ci, k)...)
			if k >= len(px.res[ci]) || k >= len(dr.res[ci]) {
				out.engine = "a caller finished without a result for every operation"
				return
			}
			p, d := px.res[ci][k], dr.res[ci][k]
			fmt.Fprintf(&rk, "%d.%d:%d/%d/%d;", ci, k, p.Code, p.Count, len(p.Data))
			what := fmt.Sprintf("caller-%d %s", ci+1, op)
			if p.Code != d.Code {
				out.viols = append(out.viols, vf.Violation{Clause: "status-classification", Tags: tags,
					Msg: fmt.Sprintf("%s: in-process status %d (%q), through the shared proxy client status %d (%q)", what, d.Code, d.Msg, p.Code, p.Msg) + orderNote + tail()})
			}
			if p.Count != d.Count || !eqBytesList(p.IDs, d.IDs) || !eqBytesList(p.Data, d.Data) {
				out.viols = append(out.viols, vf.Violation{Clause: "ids-and-blobs", Tags: tags,
					Msg: fmt.Sprintf("%s: in-process %s, through the shared proxy client %s", what, d, p) + orderNote + tail()})
			}
			// 2. behind the proxy, the ids handed to the caller hold exactly the prefix it was told was submitted
			if (op.Kind == "swo" || op.Kind == "submit") && p.Code == coreda.StatusSuccess {
				input := concBlobs(ci, k, op.Sizes)
				n := int(p.Count)
				if n > len(input) || len(p.IDs) != n {
					out.viols = append(out.viols, vf.Violation{Clause: "prefix-accounting", Tags: tags,
						Msg: fmt.Sprintf("%s: %d blobs handed in, reported count %d with %d ids", what, len(input), p.Count, len(p.IDs)) + tail()})
					continue
				}
				stored, err := px.inner.Get(context.Background(), p.IDs, concNS)
				if err != nil || !eqBytesList(stored, input[:n]) {
					out.viols = append(out.viols, vf.Violation{Clause: "prefix-accounting", Tags: tags,
						Msg: fmt.Sprintf("%s was told that its first %d blobs %s were submitted under ids %s; the DA behind the proxy holds %s under these ids (err=%v): a blob that never reached the DA is marked as submitted",
							what, n, fmtList(input[:n]), fmtIDs(p.IDs), fmtList(stored), err) + tail()})
				}
			}
		}
	}
	out.resultsK = rk.String()
	// 3. both stores agree, and the store behind the proxy holds exactly what was reported as submitted
	curP, hsP := px.inner.snapshot()
	curD, hsD := dr.inner.snapshot()
	if sp, sd := canon(curP, hsP), canon(curD, hsD); sp != sd {
		out.viols = append(out.viols, vf.Violation{Clause: "ids-and-blobs", Tags: append(append([]string{}, base...), "store-differs"),
			Msg: fmt.Sprintf("after all callers returned the DA behind the proxy and the directly used DA hold different blobs:\n direct  %s\n proxied %s", sd, sp) + orderNote + tail()})
	}
	want := 0
	if warm {
		want += len(warmBlobs)
	}
	for ci, prog := range progs {
		for k, op := range prog {
			if op.Kind == "swo" || op.Kind == "submit" {
				want += int(px.res[ci][k].Count)
			}
		}
	}
	if got := len(hsP[concHeight]); got != want {
		out.viols = append(out.viols, vf.Violation{Clause: "prefix-accounting", Tags: append(append([]string{}, base...), "stored-count-differs"),
			Msg: fmt.Sprintf("the callers were told that %d blobs were submitted in total, the DA behind the proxy stored %d at that height (%s): something was posted twice or dropped", want, got, canon(curP, hsP)) + tail()})
	}
	if !sameOrder && len(out.viols) == 0 {
		// same results and same store although the call sequences differ: nothing the node could observe
		out.lin += " (direct: " + linString(dr.lin) + ")"
	}
	out.sample = map[string]any{"workload": wl, "da_call_order": out.lin, "calls_overlap": out.overlap, "schedule": px.trace}
	return
}

// ---------------------------------------------------------------------------------------------------------------
// workloads

var (
	opFits2     = cop{Kind: "swo", Sizes: []int{1, 2}}          // everything fits
	opFits1     = cop{Kind: "swo", Sizes: []int{limit - 1}}     // one blob
	opTruncated = cop{Kind: "swo", Sizes: []int{2, 2, 1}}       // the first two fit, the third is left to the caller
	opOversize  = cop{Kind: "swo", Sizes: []int{1, limit + 1}}  // answered by the client itself
	opPlain     = cop{Kind: "submit", Sizes: []int{2, 1}}       // DA.Submit (no client-side filter)
	opRetrCur   = cop{Kind: "retrieve", Height: concHeight}     // sees what has been submitted so far
	opRetrOld   = cop{Kind: "retrieve", Height: 1}              // populated before
	opRetrFut   = cop{Kind: "retrieve", Height: concHeight + 1} // from the future
	opGetOwn    = cop{Kind: "get-own"}
)

func concPrograms(thorough bool) [][]cop {
	ps := [][]cop{
		{opFits2},
		{opTruncated},
		{opPlain},
		{opRetrCur},
		{opFits2, opGetOwn},
		{opFits1, opFits2},
		{opRetrCur, opFits1},
	}
	if thorough {
		ps = append(ps,
			[]cop{opFits1},
			[]cop{opOversize},
			[]cop{opRetrOld},
			[]cop{opRetrFut},
			[]cop{opTruncated, opRetrCur},
			[]cop{opPlain, opGetOwn},
			[]cop{opOversize, opFits2},
		)
	}
	return ps
}

// concWorkloads: every multiset of `callers` programs (the callers are symmetric up to their blob contents).
func concWorkloads(progs [][]cop, callers int) [][][]cop {
	var out [][][]cop
	var rec func(from int, cur [][]cop)
	rec = func(from int, cur [][]cop) {
		if len(cur) == callers {
			out = append(out, append([][]cop{}, cur...))
			return
		}
		for i := from; i < len(progs); i++ {
			rec(i, append(cur, progs[i]))
		}
	}
	rec(0, nil)
	return out
}

// ---------------------------------------------------------------------------------------------------------------
// driver: every workload, every interleaving within the delay bound; spread over processes (bubbles and the
// scheduler's goroutine identification do not scale with threads inside one process)

type concResult struct {
	Viols      []vf.Violation   `json:"viols"` // per (clause, tags) class the cheapest example ...
	ViolCounts []int            `json:"viol_counts"`
	Engine     []string         `json:"engine"`
	Caps       []string         `json:"caps"`
	Outcomes   []string         `json:"outcomes"`
	Lins       []uint64         `json:"lins"` // hashes of (workload, DA call order)
	Samples    []any            `json:"samples"`
	Execs      int64            `json:"execs"`
	Points     int64            `json:"points"`
	Overlap    int64            `json:"overlap"`
	DACalls    int64            `json:"da_calls"`
	MaxDepth   int64            `json:"max_depth"`
	Workloads  int              `json:"workloads"`
	Shards     int              `json:"shards"`
	PerCfg     []int64          `json:"per_cfg"`
	Bounds     []map[string]any `json:"bounds"`
}

type concCfg struct {
	callers, budget int
	progs           [][]cop
	warms           []bool
}

func concCfgs(thorough bool) []concCfg {
	if thorough {
		return []concCfg{
			{callers: 2, budget: 5, progs: concPrograms(true), warms: []bool{false, true}},
			{callers: 3, budget: 4, progs: concPrograms(false), warms: []bool{false}},
		}
	}
	return []concCfg{{callers: 2, budget: 4, progs: concPrograms(false), warms: []bool{false}}}
}

// concPart runs this process's share of the concurrent part (all of it when VERIF_SHARD is not set: the engine deals
// the subtrees below each workload's default interleaving out to the shards; the default interleaving itself is run
// by every shard and counted by shard 0 only).
func concPart(t *testing.T, thorough bool) concResult {
	var res concResult
	shard0 := true
	if sp := os.Getenv("VERIF_SHARD"); sp != "" && !strings.HasPrefix(sp, "0/") {
		shard0 = false
	}
	var mu sync.Mutex
	classes := map[string]int{}
	outcomes := map[string]struct{}{}
	lins := map[uint64]struct{}{}
	started := time.Now()
	deadline := 40 * time.Minute // safety cap only (the machine may be shared); a capped run is not called exhaustive
	if !thorough {
		deadline = 10 * time.Minute
	}
	for _, cc := range concCfgs(thorough) {
		wls := concWorkloads(cc.progs, cc.callers)
		var execs int64
		for _, progs := range wls {
			for _, warm := range cc.warms {
				left := deadline - time.Since(started)
				if left < time.Second {
					left = time.Second
				}
				wl := workloadString(progs, warm)
				st := explore.Explore(explore.Config{Budgets: map[string]int{"sched": cc.budget}, Deadline: left}, func(c *explore.Ctx) {
					o := concBody(t, c, progs, warm)
					mu.Lock()
					defer mu.Unlock()
					if o.engine != "" {
						if len(res.Engine) < 10 {
							res.Engine = append(res.Engine, o.engine+" ["+wl+"]")
						}
						return
					}
					if c.Cost() == 0 && !shard0 {
						return // the default interleaving: counted by shard 0
					}
					execs++
					res.Points += int64(len(c.Choices()))
					if d := int64(len(c.Choices())); d > res.MaxDepth {
						res.MaxDepth = d
					}
					rp := replay{Conc: &concReplay{Programs: progs, Warm: warm, Choices: c.Choices()}}
					for _, v := range o.viols {
						v.Cost, v.History = c.Cost(), rp
						key := v.Clause + "|" + strings.Join(v.Tags, ",")
						if i, ok := classes[key]; ok {
							res.ViolCounts[i]++
							if v.Cost < res.Viols[i].Cost {
								res.Viols[i] = v
							}
						} else {
							classes[key] = len(res.Viols)
							res.Viols = append(res.Viols, v)
							res.ViolCounts = append(res.ViolCounts, 1)
						}
					}
					outcomes[fmt.Sprintf("conc:%d:overlap=%v:%s", cc.callers, o.overlap, o.resultsK)] = struct{}{}
					lins[hash64(wl+"|"+o.lin)] = struct{}{}
					res.DACalls += int64(o.daCalls)
					if o.overlap {
						res.Overlap++
					}
					if o.overlap && c.Cost() == 2 && len(o.viols) == 0 && len(res.Samples) < 2 && len(progs[0]) > 1 {
						res.Samples = append(res.Samples, o.sample)
					}
				})
				res.Workloads++
				for _, m := range st.Nondet {
					if len(res.Engine) < 10 {
						res.Engine = append(res.Engine, "nondeterminism: "+m+" ["+wl+"]")
					}
				}
				if st.Capped != "" {
					res.Caps = append(res.Caps, fmt.Sprintf("concurrent part, %s: %s", wl, st.Capped))
				}
			}
		}
		res.Execs += execs
		res.PerCfg = append(res.PerCfg, execs)
	}
	for o := range outcomes {
		res.Outcomes = append(res.Outcomes, o)
	}
	sort.Strings(res.Outcomes)
	for h := range lins {
		res.Lins = append(res.Lins, h)
	}
	sort.Slice(res.Lins, func(i, j int) bool { return res.Lins[i] < res.Lins[j] })
	return res
}

func concBoundsOf(thorough bool, perCfg []int64) []map[string]any {
	var out []map[string]any
	for i, cc := range concCfgs(thorough) {
		names := make([]string, len(cc.progs))
		for j, p := range cc.progs {
			names[j] = progString(p)
		}
		b := map[string]any{"callers_on_one_client": cc.callers, "caller_programs": names,
			"workloads (multisets of programs x client fresh / used before)": len(concWorkloads(cc.progs, cc.callers)) * len(cc.warms),
			"client_used_before_variants":                                    cc.warms, "max_preemptive_switches (sched budget)": cc.budget}
		if i < len(perCfg) {
			b["interleavings_executed"] = perCfg[i]
		}
		out = append(out, b)
	}
	return out
}

// concChild is the body of a shard process.
func concChild(t *testing.T, thorough bool, out string) {
	res := concPart(t, thorough)
	bz, err := json.Marshal(res)
	if err == nil {
		err = os.WriteFile(out, bz, 0o644)
	}
	if err != nil {
		fmt.Println("ENGINE-ERROR: concurrent shard cannot write its result:", err)
		os.Exit(2)
	}
}

// concPartSharded runs the concurrent part in one process per core and merges the measured results.
func concPartSharded(t *testing.T, r *vf.Run) concResult {
	n := runtime.NumCPU()
	if n > 16 {
		n = 16
	}
	if n <= 1 || os.Getenv("VERIF_NOSHARD") != "" {
		res := concPart(t, r.Thorough())
		res.Shards = 1
		res.Bounds = concBoundsOf(r.Thorough(), res.PerCfg)
		return res
	}
	var merged concResult
	merged.Shards = n
	dir, err := os.MkdirTemp("", "c16-conc")
	if err != nil {
		merged.Engine = append(merged.Engine, err.Error())
		return merged
	}
	defer os.RemoveAll(dir)
	type job struct {
		cmd *exec.Cmd
		out string
		buf *bytes.Buffer
	}
	var jobs []job
	for i := 0; i < n; i++ {
		out := filepath.Join(dir, fmt.Sprintf("shard-%d.json", i))
		cmd := exec.Command(os.Args[0], "-test.run", "^TestCheck$", "-test.timeout", "0")
		cmd.Env = append(os.Environ(), fmt.Sprintf("VERIF_SHARD=%d/%d", i, n), "VERIF_C16_CONC_OUT="+out, "GOMAXPROCS=2", "VERIF_WORKERS=1")
		buf := &bytes.Buffer{}
		cmd.Stdout, cmd.Stderr = buf, buf
		if err := cmd.Start(); err != nil {
			merged.Engine = append(merged.Engine, "cannot start shard: "+err.Error())
			continue
		}
		jobs = append(jobs, job{cmd, out, buf})
	}
	classes := map[string]int{}
	outcomes := map[string]struct{}{}
	lins := map[uint64]struct{}{}
	for i, j := range jobs {
		err := j.cmd.Wait()
		bz, rerr := os.ReadFile(j.out)
		var res concResult
		if err == nil && rerr == nil {
			rerr = json.Unmarshal(bz, &res)
		}
		if err != nil || rerr != nil {
			tail := j.buf.String()
			if len(tail) > 1500 {
				tail = tail[len(tail)-1500:]
			}
			merged.Engine = append(merged.Engine, fmt.Sprintf("shard %d failed (%v, %v): %s", i, err, rerr, tail))
			continue
		}
		for k, v := range res.Viols {
			key := v.Clause + "|" + strings.Join(v.Tags, ",")
			if m, ok := classes[key]; ok {
				merged.ViolCounts[m] += res.ViolCounts[k]
				if v.Cost < merged.Viols[m].Cost {
					merged.Viols[m] = v
				}
			} else {
				classes[key] = len(merged.Viols)
				merged.Viols = append(merged.Viols, v)
				merged.ViolCounts = append(merged.ViolCounts, res.ViolCounts[k])
			}
		}
		for _, e := range res.Engine {
			merged.Engine = append(merged.Engine, fmt.Sprintf("shard %d: %s", i, e))
		}
		for _, c := range res.Caps {
			merged.Caps = append(merged.Caps, fmt.Sprintf("shard %d: %s", i, c))
		}
		for _, o := range res.Outcomes {
			outcomes[o] = struct{}{}
		}
		for _, h := range res.Lins {
			lins[h] = struct{}{}
		}
		if len(merged.Samples) < 2 {
			merged.Samples = append(merged.Samples, res.Samples...)
		}
		merged.Execs += res.Execs
		merged.Points += res.Points
		merged.Overlap += res.Overlap
		merged.DACalls += res.DACalls
		if res.MaxDepth > merged.MaxDepth {
			merged.MaxDepth = res.MaxDepth
		}
		merged.Workloads = res.Workloads // every shard walks every workload
		for k, e := range res.PerCfg {
			if k >= len(merged.PerCfg) {
				merged.PerCfg = append(merged.PerCfg, 0)
			}
			merged.PerCfg[k] += e
		}
	}
	for o := range outcomes {
		merged.Outcomes = append(merged.Outcomes, o)
	}
	sort.Strings(merged.Outcomes)
	for h := range lins {
		merged.Lins = append(merged.Lins, h)
	}
	merged.Bounds = concBoundsOf(r.Thorough(), merged.PerCfg)
	return merged
}
