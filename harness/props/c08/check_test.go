package c08

import (
	"context"
	"crypto/sha256"
	"encoding/json"
	"fmt"
	"hash/fnv"
	"os"
	"path/filepath"
	"strings"
	"sync"
	"sync/atomic"
	"testing"
	"testing/synctest"
	"time"

	"google.golang.org/protobuf/proto"

	coreseq "github.com/evstack/ev-node/core/sequencer"
	"github.com/evstack/ev-node/types"
	pb "github.com/evstack/ev-node/types/pb/evnode/v1"

	"verif/harness/explore"
	"verif/harness/vf"
	"verif/harness/world"
)

// C08 — the pending-submission limit throttles but never deadlocks block production.
// Real production step + the UNMODIFIED submission loops under virtual time; every sequence of
// {produce non-empty, produce empty, DA block with accepting DA, DA block with DA outage, crash + restart, clean stop +
// restart} up to the depth bound, for limits 1..3 and initial heights 1 and 3. A restart builds a NEW Manager over the
// key/value image the old process left behind (same DA layer, executor, sequencing layer): whatever the new process
// believes to be pending it has read back from the store.
// A DA outage has two forms: the DA layer ANSWERS every request of a DA block with an error, or it gives NO ANSWER to
// the requests of a DA block (header requests, data requests or both are lost: the call returns only when the caller
// gives it up); afterwards the DA layer accepts. After a lost request the closing phase lasts lostHorizon DA blocks
// longer, in all of which the DA layer accepts everything it is sent.
// Part 3 (long_test.go): outages LONGER than the retry budget of one submission call (read from the code under test),
// measured in failed submission attempts per stream, with boundary values around that budget.

const daBlock = time.Second

// lostHorizon: how many accepting DA blocks the node is given, after a history in which a request got no answer, to
// give that request up and send the blobs again (the code under test abandons an attempt after 60 s) before
// "production resumes" is demanded. The property says "never stops permanently"; this is the finite horizon of the check.
const lostHorizon = 90

// lost-request kinds (choice values of the "lost" point of a DA block; 0 = every request is answered)
const (
	lostHeaders = 1 // header submissions sent during this DA block get no answer
	lostData    = 2 // data submissions sent during this DA block get no answer
	lostBoth    = 3
)

type item struct {
	header bool
	height uint64
}

var memo sync.Map

func classify(blob []byte) (item, bool) {
	k := sha256.Sum256(blob)
	if v, ok := memo.Load(k); ok {
		it := v.(item)
		return it, it.height != 0
	}
	it := item{}
	var hp pb.SignedHeader
	if err := proto.Unmarshal(blob, &hp); err == nil {
		sh := new(types.SignedHeader)
		if err := sh.FromProto(&hp); err == nil && sh.ValidateBasic() == nil {
			it = item{true, sh.Height()}
		}
	}
	if it.height == 0 {
		var sd types.SignedData
		if err := sd.UnmarshalBinary(blob); err == nil && sd.Metadata != nil && len(sd.Txs) > 0 {
			it = item{false, sd.Height()}
		}
	}
	memo.Store(k, it)
	return it, it.height != 0
}

type outcome struct {
	skipped bool // the history prefix belongs to another shard process (nothing was checked here)
	early   bool // the run ended before the shard cut (every shard process sees it)
	fail    *world.Fail
	tags    []string
	events  []string
	sig     string
	lost    int // DA requests of this history that got no answer
	// part 3: failed attempts the long outage inflicted on the header / the data stream, and whether one stream used up a whole retry budget
	longFailed [2]int
	exhausted  bool
	also       []also // violations after which the run went on (the listed residual finding; everything after it stays checked)
}

type also struct {
	fail *world.Fail
	tags []string
}

// spec bounds one part of the exploration. lostBlocks = 0: part 1 (every request is answered). lostBlocks = k > 0:
// part 1b — every history contains between 1 and k DA blocks whose requests get no answer; their positions among the
// depth steps and their kinds are configuration choices made up front (so that every such history is enumerated
// exactly once and none without a lost request is repeated), the other steps are chosen freely from the alphabet of part 1.
type spec struct {
	depth      int
	lostBlocks int
	long       *longSpec // part 3: the depth steps are a prefix, then comes one LONG outage (long_test.go)
}

// lostPlacements lists the non-empty sets of at most k step indices out of 1..depth-1, in a fixed order. Step 0 is
// left out: before the first production step nothing is committed, so no request is sent that could be lost.
func lostPlacements(depth, k int) (out [][]int) {
	var rec func(from int, cur []int)
	rec = func(from int, cur []int) {
		if len(cur) > 0 {
			out = append(out, append([]int(nil), cur...))
		}
		if len(cur) == k {
			return
		}
		for p := from; p < depth; p++ {
			rec(p+1, append(cur, p))
		}
	}
	rec(1, nil)
	return
}

func body(t *testing.T, c *explore.Ctx, sp spec, sh sharder) (out outcome) {
	synctest.Test(t, func(t *testing.T) { out = bubble(c, sp, sh) })
	return
}

// sharder deals the exploration out to the shard processes by a hash of the first decisions of a history: every
// shard walks the (small) tree of history prefixes up to the cut, and exactly one shard continues below each prefix.
// The engine's own dealing (by the children of the root execution) gives one third of this tree to one process.
type sharder struct{ i, n int }

func takeShard() sharder {
	sh := sharder{0, 1}
	if sp := os.Getenv("VERIF_SHARD"); sp != "" {
		fmt.Sscanf(sp, "%d/%d", &sh.i, &sh.n)
		if sh.n < 1 || sh.i < 0 || sh.i >= sh.n {
			sh = sharder{0, 1}
		}
		os.Unsetenv("VERIF_SHARD") // the engine must not deal the tree out a second time
	}
	return sh
}

func (sh sharder) mine(c *explore.Ctx) bool {
	if sh.n <= 1 {
		return true
	}
	h := fnv.New64a()
	for _, p := range c.Choices() {
		h.Write([]byte{byte(p.Choice), byte(p.N)})
	}
	v := h.Sum64()
	v ^= v >> 33
	v *= 0xff51afd7ed558ccd
	v ^= v >> 33
	return int(v%uint64(sh.n)) == sh.i
}

// restart kinds (choice values of the "restart" point; 0 = no restart at this step)
const (
	restartCrash = 1 // the process is killed: from this instant no call of the old process reaches the store, the DA layer, the executor or the sequencer
	restartClean = 2 // the loops are cancelled and run to their end (whatever they do on the way out takes effect), then the process ends
)

func bubble(c *explore.Ctx, sp spec, sh sharder) (out outcome) {
	t0 := time.Now()
	depth := sp.depth
	limit := uint64(1 + c.Choose("config", 3))
	initial := uint64(1)
	if c.Choose("config", 2) == 1 {
		initial = 3
	}
	lostAt := map[int]int{} // step -> kind of the lost-request DA block forced there (part 1b)
	if sp.lostBlocks > 0 {
		pl := lostPlacements(depth, sp.lostBlocks)
		for _, pos := range pl[c.Choose("config", len(pl))] {
			lostAt[pos] = 1 + c.Choose("config", 3)
		}
	}
	var lg *longRun
	if sp.long != nil {
		lg = chooseLong(c, sp.long)
	}
	p := world.Params{InitialHeight: initial, MaxPending: limit, DABlockTime: daBlock, MempoolTTL: 2, GenesisTime: t0.Add(-time.Hour)}
	env := world.NewEnv()
	clock := t0.Add(-time.Hour)
	fresh := 0
	nextEmpty := false
	env.Seq.Next = func(req coreseq.GetNextBatchRequest) world.SeqAnswer {
		clock = clock.Add(time.Second)
		if nextEmpty {
			return world.SeqAnswer{Kind: "batch", Time: clock}
		}
		fresh++
		return world.SeqAnswer{Kind: "batch", Txs: [][]byte{[]byte(fmt.Sprintf("tx-%d", fresh))}, Time: clock}
	}
	outage := false
	lostMask, lostCalls := 0, 0
	defer func() { out.lost = lostCalls }()
	// stopping: a clean stop is in progress (the loop context is cancelled). A loop that was parked in an unanswered
	// call has a ticker tick waiting for it and may win one more round of its select against ctx.Done() (Go picks at
	// random); a Submit made in that round carries a cancelled context and is answered "cancelled" (what a client that
	// honours its context returns), so that the outcome does not depend on that coin.
	stopping := false
	env.DA.SubmitPolicy = func(blobs [][]byte) world.SubmitAnswer {
		if stopping {
			return world.SubmitCanceled
		}
		if lg != nil && lg.on && len(blobs) > 0 {
			if it, ok := classify(blobs[0]); ok {
				if ans, hit := lg.answer(it.header); hit {
					if ans == world.SubmitNoAnswer {
						lostCalls++
					}
					return ans
				}
			}
		}
		if outage {
			return world.SubmitGenericError
		}
		if lostMask != 0 && len(blobs) > 0 {
			if it, ok := classify(blobs[0]); ok && (it.header && lostMask&lostHeaders != 0 || !it.header && lostMask&lostData != 0) {
				lostCalls++
				return world.SubmitNoAnswer
			}
		}
		return world.SubmitAcceptAll
	}
	// one process life: a Manager over the key/value image (nil = empty) and the shared environment, with the two real
	// submission loops; the harness acts 504 ms after the header loop's ticker started, i.e. between two DA blocks
	var n *world.Node
	cancel := func() {}
	boot := func(image map[string][]byte) *world.Fail {
		nn, err := world.StartNode(p, env, image, world.NodeOpts{Aggregator: true})
		if err != nil {
			return &world.Fail{Clause: "startup", Msg: "the node cannot start: " + err.Error()}
		}
		n = nn
		var ctx context.Context
		ctx, cancel = context.WithCancel(context.Background())
		go n.M.HeaderSubmissionLoop(ctx)
		time.Sleep(time.Millisecond)
		go n.M.DataSubmissionLoop(ctx)
		time.Sleep(503 * time.Millisecond)
		synctest.Wait()
		return nil
	}
	defer func() {
		if n != nil {
			n.Fate.Kill()
		}
		cancel()
		synctest.Wait()
	}()
	if f := boot(nil); f != nil {
		out.fail = f
		return
	}

	allEmpty, sawOutage := true, false
	sawLost := 0 // union of the lost-request kinds chosen so far
	restarts, restartAfterAck := 0, false
	var extraTags []string
	tags := func() []string {
		tg := append([]string(nil), extraTags...)
		if allEmpty {
			tg = append(tg, "all-blocks-empty")
		} else {
			tg = append(tg, "some-block-non-empty")
		}
		// the run of empty blocks directly above the data watermark
		if sawOutage {
			tg = append(tg, "da-outage")
		}
		if lostCalls > 0 {
			tg = append(tg, "da-request-unanswered")
		}
		if initial > 1 {
			tg = append(tg, "initial-height>1")
		}
		if restarts > 0 {
			tg = append(tg, "node-restart")
		}
		if restartAfterAck {
			tg = append(tg, "restart-after-da-acceptance")
		}
		if lg != nil {
			tg = append(tg, lg.tags()...)
		}
		return tg
	}
	// waiting = committed blocks whose header, or non-empty data, the DA has not acknowledged
	waiting := func() (int, string) {
		ackH, ackD := map[uint64]bool{}, map[uint64]bool{}
		for _, call := range env.DA.SubmitLog() {
			for i := 0; i < call.Acked && i < len(call.Blobs); i++ {
				if it, ok := classify(call.Blobs[i]); ok {
					if it.header {
						ackH[it.height] = true
					} else {
						ackD[it.height] = true
					}
				}
			}
		}
		h, blocks, _ := world.ReadChain(world.ImageStore(n.KV.Image()), initial)
		w := 0
		var sb strings.Builder
		for i, b := range blocks {
			x := initial + uint64(i)
			if !ackH[x] || (len(b.D.Txs) > 0 && !ackD[x]) {
				w++
				fmt.Fprintf(&sb, "%d ", x)
			}
		}
		_ = h
		return w, sb.String()
	}
	var sig strings.Builder
	closing := 3 // length of the closing phase in DA blocks (longer after a lost request)
	produce := func(empty bool, must bool) *world.Fail {
		nextEmpty = empty
		before := n.Height()
		err, _ := n.Produce(context.Background())
		if err != nil {
			return &world.Fail{Clause: "engine", Msg: "production step failed: " + err.Error()}
		}
		after := n.Height()
		if after == before+1 {
			if !empty && before+1 > initial { // the block at the initial height is the (empty) genesis block
				allEmpty = false
			}
			sig.WriteString("P")
			return nil
		}
		sig.WriteString("d")
		w, which := waiting()
		if uint64(w) < limit {
			// history feature: is the shortfall explained by EMPTY committed blocks above the data watermark
			// (nothing to submit for them, yet they are counted as pending data until the next data tick)?
			_, blocks, _ := world.ReadChain(world.ImageStore(n.KV.Image()), initial)
			emptyAbove := 0
			for i, b := range blocks {
				if x := initial + uint64(i); x > n.M.VerifLastSubmittedData() && len(b.D.Txs) == 0 {
					emptyAbove++
				}
			}
			if uint64(w+emptyAbove) >= limit && n.M.VerifNumPendingHeaders() < limit {
				extraTags = append(extraTags, "empty-blocks-counted-as-pending-data")
			}
			return &world.Fail{Clause: "declines-only-while-waiting", Msg: fmt.Sprintf("production was declined at height %d with limit %d although only %d committed block(s) [%s] are still waiting to be accepted by the DA layer (pending counters: headers %d, data %d)", before, limit, w, which, n.M.VerifNumPendingHeaders(), n.M.VerifNumPendingData())}
		}
		if must && w > 0 {
			return &world.Fail{Clause: "resumes-after-acceptance", Msg: fmt.Sprintf("the DA layer has accepted every submission it was sent during the last %d DA blocks, yet %d committed block(s) [%s] are still not acknowledged — the node did not send them again — and production is still declined at height %d (limit %d; pending counters: headers %d, data %d; %d request(s) of an earlier DA block got no answer)", closing, w, which, before, limit, n.M.VerifNumPendingHeaders(), n.M.VerifNumPendingData(), lostCalls)}
		}
		if must {
			return &world.Fail{Clause: "resumes-after-acceptance", Msg: fmt.Sprintf("the DA layer accepted everything and both submission loops ran twice, yet production is still declined at height %d (limit %d; pending counters: headers %d, data %d)", before, limit, n.M.VerifNumPendingHeaders(), n.M.VerifNumPendingData())}
		}
		return nil
	}
	// tick: one DA block. out_ = the DA layer answers every request with an error; lost = the requests of the given
	// kinds get no answer at all (the calls stay open when the DA block is over; from then on the DA layer accepts).
	tick := func(out_ bool, lost int) {
		outage, lostMask = out_, lost
		switch {
		case out_:
			sawOutage = true
			sig.WriteString("x")
		case lost != 0:
			sawLost |= lost
			sig.WriteString([]string{"", "h", "a", "b"}[lost])
		default:
			sig.WriteString("t")
		}
		time.Sleep(daBlock)
		synctest.Wait()
		lostMask = 0
	}
	// restart: the process ends between two actions (crash or clean stop) and a NEW Manager is constructed over the
	// key/value image the old one left behind; DA layer, executor and sequencing layer live on. Whatever the new
	// process knows about "pending" it has read back from the store.
	restart := func(kind int) *world.Fail {
		restarts++
		for _, call := range env.DA.SubmitLog() {
			if call.Acked > 0 {
				restartAfterAck = true
			}
		}
		if kind == restartCrash {
			n.Fate.Kill()
			cancel()
			synctest.Wait()
			sig.WriteString("K")
		} else {
			stopping = true
			cancel()
			synctest.Wait()
			n.Fate.Kill()
			stopping = false
			sig.WriteString("R")
		}
		return boot(n.KV.Image())
	}
	cut := depth / 2
	out.early = true
	for step := 0; step < depth; step++ {
		if step == cut {
			if !sh.mine(c) {
				out.skipped = true // another shard process continues below this prefix
				return
			}
			out.early = false
		}
		if lost := lostAt[step]; lost != 0 {
			out.events = append(out.events, "DA-block("+[]string{"", "header", "data", "header and data"}[lost]+" requests get no answer)")
			tick(false, lost)
			continue
		}
		if k := c.Choose("restart", 3); k != 0 {
			out.events = append(out.events, map[int]string{restartCrash: "crash+restart", restartClean: "clean-stop+restart"}[k])
			if f := restart(k); f != nil {
				out.fail, out.tags = f, tags()
				return
			}
			continue
		}
		if c.Choose("act", 2) == 0 {
			empty := c.Choose("chain", 2) == 1
			out.events = append(out.events, map[bool]string{true: "produce-empty", false: "produce-nonempty"}[empty])
			if f := produce(empty, false); f != nil {
				out.fail, out.tags = f, tags()
				return
			}
		} else {
			o := c.Choose("outage", 2) == 1
			out.events = append(out.events, map[bool]string{true: "DA-block(outage)", false: "DA-block(accepting)"}[o])
			tick(o, 0)
		}
	}
	// part 3: one LONG outage, counted in failed submission attempts of the affected stream(s), then (optionally) a restart
	if lg != nil {
		stop := func(f *world.Fail) bool {
			tg := tags()
			if f.Clause == "declines-only-while-waiting" && len(extraTags) > 0 {
				// the listed residual finding (an empty block above the data watermark counted as pending while the data
				// loop is busy): recorded once per history, and the run goes on so that everything after it stays checked
				if len(out.also) == 0 {
					out.also = append(out.also, also{f, tg})
				}
				extraTags = nil
				return false
			}
			out.fail, out.tags = f, tg
			return true
		}
		out.events = append(out.events, lg.describe())
		if lg.kind != longLost {
			sawOutage = true
		} else {
			sawLost |= lg.stream
		}
		lg.on = true
		el := 0
		for el < lg.capBlocks() && !lg.done() {
			if lg.fill {
				if f := produce(false, false); f != nil && stop(f) {
					return
				}
			}
			k := 1
			if lg.kind == longLost && el > int(limit) {
				k = 10 // an unanswered attempt lasts 60 DA blocks: the harness looks in every 10 DA blocks
			}
			time.Sleep(time.Duration(k) * daBlock)
			synctest.Wait()
			el += k
		}
		lg.on = false
		out.longFailed, out.exhausted = lg.failed, lg.exhausted()
		fmt.Fprintf(&sig, "[O s%d k%d n%d f%v h%d/d%d]", lg.stream, lg.kind, lg.n, lg.fill, lg.failed[0], lg.failed[1])
		out.events = append(out.events, fmt.Sprintf("the outage is over after %d DA blocks (%d header / %d data submission attempts failed); from now on the DA layer accepts", el, lg.failed[0], lg.failed[1]))
		if lg.restart != 0 {
			out.events = append(out.events, map[int]string{restartCrash: "crash+restart", restartClean: "clean-stop+restart"}[lg.restart])
			if f := restart(lg.restart); f != nil {
				out.fail, out.tags = f, tags()
				return
			}
		}
	}
	// the DA accepts; after both loops ran (two DA blocks, which also covers the longest back-off) production resumes.
	// After a history with a lost request the node is first given lostHorizon accepting DA blocks to give the
	// unanswered call up and send the blobs again.
	if sawLost != 0 {
		closing += lostHorizon
		outage, lostMask = false, 0
		time.Sleep(lostHorizon * daBlock)
		synctest.Wait()
		sig.WriteString("T")
	}
	tick(false, 0)
	tick(false, 0)
	tick(false, 0)
	if w, which := waiting(); w != 0 {
		// is production stopped by it? (the property's own liveness half: the DA layer accepts, production must not stay
		// stopped); otherwise it is C06's liveness — report there, here only as a precondition failure
		if f := produce(false, true); f != nil {
			out.fail, out.tags = f, tags()
			return
		}
		out.fail = &world.Fail{Clause: "precondition-submission-completes", Msg: fmt.Sprintf("after %d accepting DA blocks items are still unacknowledged: %s", closing, which)}
		out.tags = tags()
		return
	}
	if f := produce(false, true); f != nil {
		out.fail, out.tags = f, tags()
		return
	}
	out.sig = fmt.Sprintf("L%d i%d %s", limit, initial, sig.String())
	return
}

func TestCheck(t *testing.T) {
	r := vf.Start("C08", "model_checking")
	if r.RunShards(16) { // bubble-heavy: one process per shard of the exploration
		return
	}
	sh := takeShard()
	depth := vf.Pick(r, 6, 8)
	maxRestarts := vf.Pick(r, 2, 2)
	lazyBlocks := vf.Pick(r, 6, 8)
	lazyRestarts := vf.Pick(r, 1, 2)
	budgets := map[string]int{"outage": 3, "restart": maxRestarts}
	// part 1b: histories with 1..lostSpec.lostBlocks DA blocks whose requests get no answer
	lostSpec := spec{depth: vf.Pick(r, 5, 6), lostBlocks: vf.Pick(r, 1, 2)}
	lostBudgets := map[string]int{"outage": vf.Pick(r, 1, 1), "restart": vf.Pick(r, 1, 1)}
	// part 2b: one lost-request DA block (on an idle chain only the header loop sends requests, and it stays parked on
	// the unanswered call for longer than the whole pattern, so a second such block could only be seen after a restart)
	lazyLost := lazySpec{blocks: lazyBlocks, lostBlocks: vf.Pick(r, 1, 1)}
	lazyLostRestarts := vf.Pick(r, 0, 1)
	// part 3 / 3b: long outages around the retry budget of the code under test
	thorough := vf.Pick(r, 0, 1) == 1
	longPart := spec{depth: vf.Pick(r, 2, 3), long: &longSpec{lens: longLens(thorough)}}
	longBudgets := map[string]int{"outage": 0, "restart": 0} // the prefix is made of production steps and accepting DA blocks only
	lazyLong := lazySpec{blocks: vf.Pick(r, 2, 3), long: longPart.long}
	r.Assume = []string{
		"virtual time; DA block time 1 s; a DA outage rejects every Submit during one DA block with a generic error",
		"'genuinely still waiting' is read in the weakest way: committed blocks whose header, or non-empty data, has not been acknowledged by the DA layer, counted once per block",
		"'resumes as soon as accepted': checked after three accepting DA blocks in which nothing is left unacknowledged",
		fmt.Sprintf("DA outages have two forms: a DA block in which every Submit is ANSWERED with a generic error, and a DA block in which the header submissions, the data submissions or both get NO ANSWER at all (neither success nor error: the DA double logs the request, stores nothing, and the call returns only when its context is done, with the context's error); the unanswered calls stay open when that DA block is over, every later request is answered 'accepted'. The node cannot tell a lost request from a slow one before it gives the call up, so after a history with a lost request the closing phase is %d accepting DA blocks longer (the code under test abandons an attempt after 60 s; 'never stops permanently' is checked as 'production has resumed after %d+3 DA blocks in which the DA layer accepted every submission it was sent'). The declines-only-while-waiting oracle stays armed all the time: blocks whose request got no answer are genuinely unacknowledged", lostHorizon, lostHorizon),
		"node restarts: between any two actions the process may end — crash (from that instant no call of the old process reaches the store, the DA layer, the executor or the sequencer) or clean stop (the loops are cancelled and run to their end first; a Submit call made with the cancelled context is answered 'cancelled') — and a NEW Manager is constructed over the key/value image the old process left behind, with the same DA layer, executor and sequencing layer; the submission loops are started again and the harness keeps acting between two DA blocks. The oracle is the same before and after a restart (the ground truth is the DA double's acknowledgement log and the chain in the image, both of which outlive the process). Restarts happen at action boundaries only: no crash in the middle of a store write or of a DA call (after such a crash the node cannot know about an acceptance, so counting the block as waiting is not a violation; C04/C06/C07 explore those instants). The on-disk cache files are not part of this world (root directory absent); the pending counts do not use them. A node that cannot be constructed over its own image is reported (clause startup)",
		"part 2: lazy mode (block interval 1 s, idle interval 2 s), idle chain (only empty batches), real AggregationLoop and submission loops under the cooperative scheduler in canonical order; every outage pattern over 6/8 DA blocks, limits 1-2, with up to 1/2 restarts (crash or clean stop; new Manager and new loops over the image left behind) at any DA-block boundary including the one before the closing phase; after the DA accepted everything for 4 DA blocks a block must appear within two idle intervals and a block interval. Part 2b: one of the DA blocks (any) gives no answer to the requests sent during them (on an idle chain: header submissions), every other DA block accepting or down, up to 0/1 restarts; closing phase 4+" + fmt.Sprint(lostHorizon) + " accepting DA blocks",
		fmt.Sprintf("part 3 (LONG outages): one call of the submission helper makes at most %d attempts (read from the code under test through the hook block.VerifMaxSubmitAttempts; back-off between two answered attempts at most one DA block, two DA blocks after 'not included in a block'; an attempt that gets no answer is abandoned after 60 s) and then gives the submission up until the next DA tick. A long outage is measured in what the node sees of it: after a prefix of production steps and accepting DA blocks the DA layer fails the next n submission ATTEMPTS of the header stream, of the data stream, or of both (each stream counted on its own) and accepts every request after them; the failed attempts are all answered with a generic error, all answered 'not included in a block', or all given no answer. n takes the values listed under long_part.outage_lengths_in_failed_attempts (budget-1: the last attempt of the first call succeeds; budget: the first call is given up and the next tick succeeds at once; budget+1; 2*budget+1: two calls are given up). While the outage lasts the harness either only waits or makes a production attempt (non-empty batch) before every step (1 DA block; 10 DA blocks during an unanswered outage once limit+1 steps are done), with the declines-only-while-waiting oracle armed. If a stream stops sending before n of its attempts have failed (nothing pending for it; a node that has given up) the outage is over after 2n+n/budget+10 DA blocks (answered kinds) or 61n+70 DA blocks (unanswered) anyway: from then on the DA layer accepts whatever it is sent. Then no restart / crash + restart / clean stop + restart, then the closing phase and the oracle of part 1 (3 accepting DA blocks, %d more after an unanswered outage, then production must not be declined and nothing may be left unacknowledged). In part 3 the listed residual finding (trigger empty-blocks-counted-as-pending-data) does not end a history: it is recorded once and the history goes on to the closing phase. Part 3b: the same on the idle chain in lazy mode after every outage pattern over lazy_long_part.da_blocks DA blocks (there only headers are submitted: the outage hits every request; the chain fills up to the limit by itself), closing phase and oracle of part 2", retryBudget(), lostHorizon),
		"the exploration is dealt out to 16 processes by a hash of the first half of each history (each process walks the prefix tree, exactly one continues below a prefix); evaluations counts complete histories only, each once",
	}
	run := func(c *explore.Ctx) outcome { return body(t, c, spec{depth: depth}, sh) }
	if r.ReplayPath() != "" {
		var ch []explore.Point
		var lz struct {
			Lazy    bool
			Lost    bool
			Long    bool
			Choices []explore.Point
		}
		if _, err := r.LoadReplay(&lz); err == nil && lz.Long {
			explore.ReplayOne(lz.Choices, func(c *explore.Ctx) {
				var o outcome
				if lz.Lazy {
					o = lazyBody(t, c, lazyLong, sh)
				} else {
					o = body(t, c, longPart, sh)
				}
				for _, a := range o.also {
					fmt.Println(a.fail.Msg, o.events)
					r.Report(vf.Violation{Clause: a.fail.Clause, Tags: a.tags, Msg: a.fail.Msg, History: lz})
				}
				if o.fail != nil {
					fmt.Println(o.fail.Msg, o.events)
					r.Report(vf.Violation{Clause: o.fail.Clause, Tags: o.tags, Msg: o.fail.Msg, History: lz})
				}
			})
		} else if _, err := r.LoadReplay(&lz); err == nil && lz.Lost && lz.Lazy {
			explore.ReplayOne(lz.Choices, func(c *explore.Ctx) {
				if o := lazyBody(t, c, lazyLost, sh); o.fail != nil {
					fmt.Println(o.fail.Msg, o.events)
					r.Report(vf.Violation{Clause: o.fail.Clause, Tags: o.tags, Msg: o.fail.Msg, History: lz})
				}
			})
		} else if err == nil && lz.Lost {
			explore.ReplayOne(lz.Choices, func(c *explore.Ctx) {
				if o := body(t, c, lostSpec, sh); o.fail != nil {
					fmt.Println(o.fail.Msg, o.events)
					r.Report(vf.Violation{Clause: o.fail.Clause, Tags: o.tags, Msg: o.fail.Msg, History: lz})
				}
			})
		} else if err == nil && lz.Lazy {
			explore.ReplayOne(lz.Choices, func(c *explore.Ctx) {
				if o := lazyBody(t, c, lazySpec{blocks: lazyBlocks}, sh); o.fail != nil {
					fmt.Println(o.fail.Msg, o.events)
					r.Report(vf.Violation{Clause: o.fail.Clause, Tags: o.tags, Msg: o.fail.Msg, History: lz})
				}
			})
		} else if _, err := r.LoadReplay(&ch); err != nil {
			r.EngineError(err.Error())
		} else {
			explore.ReplayOne(ch, func(c *explore.Ctx) {
				if o := run(c); o.fail != nil {
					fmt.Println(o.fail.Msg, o.events)
					r.Report(vf.Violation{Clause: o.fail.Clause, Tags: o.tags, Msg: o.fail.Msg, History: ch})
				}
			})
		}
		r.Finish(vf.Coverage{Evaluations: 1, DistinctNontrivial: 1})
		return
	}
	var full, lostFull, points atomic.Int64           // complete histories of this process (prefix stubs of other shards are not counted)
	var lostRuns, lostReqs, lazyLostRuns atomic.Int64 // histories in which at least one DA request got no answer / such requests
	var sampled [8]atomic.Int32
	var longFull, lazyLongFull, longExhausted, lazyLongExhausted, longFailedReqs atomic.Int64 // part 3 / 3b
	countLong := func(o outcome, exhausted *atomic.Int64) {
		longFailedReqs.Add(int64(o.longFailed[0] + o.longFailed[1]))
		if o.exhausted {
			exhausted.Add(1)
		}
	}
	const sigKey = "signature(P=produced,d=declined,t=DA block,x=outage,h/a/b=DA block whose header/data/all requests get no answer,T=lostHorizon accepting DA blocks,K=crash+restart,R=clean stop+restart)"
	handle := func(c *explore.Ctx, o outcome, count *atomic.Int64, history any) {
		if o.skipped || (o.early && !sh.mine(c)) {
			return
		}
		count.Add(1)
		points.Add(int64(len(c.Choices())))
		if o.lost > 0 {
			lostRuns.Add(1)
			lostReqs.Add(int64(o.lost))
		}
		restarted := strings.ContainsAny(o.sig, "KR")
		if count == &longFull {
			countLong(o, &longExhausted)
		}
		for _, a := range o.also {
			r.Report(vf.Violation{Clause: a.fail.Clause, Tags: a.tags, Msg: fmt.Sprintf("%s\n events: %v", a.fail.Msg, o.events), Cost: len(o.events), History: history})
		}
		if o.fail != nil {
			r.Report(vf.Violation{Clause: o.fail.Clause, Tags: o.tags, Msg: fmt.Sprintf("%s\n events: %v", o.fail.Msg, o.events), Cost: len(o.events), History: history})
			r.Outcome("fail:" + o.fail.Clause)
			return
		}
		r.Outcome(o.sig)
		if strings.Contains(o.sig, "d") {
			k := 0
			if restarted {
				k = 1
			}
			if o.lost > 0 {
				k = 3
			}
			if o.exhausted {
				k = 5
				if o.lost > 0 {
					k = 6
				}
			}
			if sampled[k].Add(1) == 1 {
				r.Sample(map[string]any{"events": o.events, "requests_without_answer": o.lost, sigKey: o.sig})
			}
		}
	}
	// development aid (never set by the registered commands): VERIF_C08_ONLY=long runs part 3 / 3b only; such a run is
	// reported as capped, never as exhaustive
	onlyLong := os.Getenv("VERIF_C08_ONLY") == "long"
	st := explore.Explore(explore.Config{Budgets: budgets, Deadline: vf.Pick(r, 240*time.Second, 25*time.Minute)}, func(c *explore.Ctx) {
		if onlyLong {
			return
		}
		handle(c, run(c), &full, c.Choices())
	})
	for _, m := range st.Nondet {
		r.EngineError("nondeterminism: " + m)
	}
	// part 1b: lost requests
	st1b := explore.Explore(explore.Config{Budgets: lostBudgets, Deadline: vf.Pick(r, 240*time.Second, 15*time.Minute)}, func(c *explore.Ctx) {
		if onlyLong {
			return
		}
		handle(c, body(t, c, lostSpec, sh), &lostFull, map[string]any{"Lost": true, "Choices": c.Choices()})
	})
	for _, m := range st1b.Nondet {
		r.EngineError("nondeterminism (lost-request part): " + m)
	}
	// part 2: lazy mode, idle chain, real AggregationLoop; part 2b: the same with lost requests
	var lazyFull, lazyLostFull atomic.Int64
	handleLazy := func(c *explore.Ctx, o outcome, count *atomic.Int64, history any) {
		if o.skipped || (o.early && !sh.mine(c)) {
			return
		}
		count.Add(1)
		points.Add(int64(len(c.Choices())))
		if o.lost > 0 {
			lazyLostRuns.Add(1)
			lostReqs.Add(int64(o.lost))
		}
		if count == &lazyLongFull {
			countLong(o, &lazyLongExhausted)
		}
		if o.fail != nil {
			if o.fail.Clause == "engine" {
				r.EngineError(o.fail.Msg)
				return
			}
			r.Report(vf.Violation{Clause: o.fail.Clause, Tags: o.tags, Msg: fmt.Sprintf("%s\n events: %v", o.fail.Msg, o.events), Cost: len(o.events), History: history})
			r.Outcome("lazy:fail:" + o.fail.Clause)
			return
		}
		r.Outcome(o.sig)
		if len(o.events) >= 2 && strings.Contains(o.sig, "restart") && sampled[2].Add(1) == 1 {
			r.Sample(map[string]any{"part": "lazy idle chain", "result": o.sig})
		}
		if o.lost > 0 && !o.exhausted && sampled[4].Add(1) == 1 {
			r.Sample(map[string]any{"part": "lazy idle chain", "requests_without_answer": o.lost, "result": o.sig})
		}
		if o.exhausted && sampled[7].Add(1) == 1 {
			r.Sample(map[string]any{"part": "lazy idle chain, long outage", "failed_attempts": o.longFailed[0], "result": o.sig})
		}
	}
	st2 := explore.Explore(explore.Config{Budgets: map[string]int{"restart": lazyRestarts}, Deadline: vf.Pick(r, 120*time.Second, 10*time.Minute)}, func(c *explore.Ctx) {
		if onlyLong {
			return
		}
		handleLazy(c, lazyBody(t, c, lazySpec{blocks: lazyBlocks}, sh), &lazyFull, map[string]any{"Lazy": true, "Choices": c.Choices()})
	})
	for _, m := range st2.Nondet {
		r.EngineError("nondeterminism (lazy part): " + m)
	}
	st2b := explore.Explore(explore.Config{Budgets: map[string]int{"restart": lazyLostRestarts}, Deadline: vf.Pick(r, 120*time.Second, 10*time.Minute)}, func(c *explore.Ctx) {
		if onlyLong {
			return
		}
		handleLazy(c, lazyBody(t, c, lazyLost, sh), &lazyLostFull, map[string]any{"Lazy": true, "Lost": true, "Choices": c.Choices()})
	})
	for _, m := range st2b.Nondet {
		r.EngineError("nondeterminism (lazy lost-request part): " + m)
	}
	// part 3: long outages (normal mode); part 3b: the same on the idle chain in lazy mode
	st3 := explore.Explore(explore.Config{Budgets: longBudgets, Deadline: vf.Pick(r, 240*time.Second, 20*time.Minute)}, func(c *explore.Ctx) {
		handle(c, body(t, c, longPart, sh), &longFull, map[string]any{"Long": true, "Choices": c.Choices()})
	})
	for _, m := range st3.Nondet {
		r.EngineError("nondeterminism (long-outage part): " + m)
	}
	st3b := explore.Explore(explore.Config{Budgets: map[string]int{"restart": 0}, Deadline: vf.Pick(r, 240*time.Second, 15*time.Minute)}, func(c *explore.Ctx) {
		handleLazy(c, lazyBody(t, c, lazyLong, sh), &lazyLongFull, map[string]any{"Lazy": true, "Long": true, "Choices": c.Choices()})
	})
	for _, m := range st3b.Nondet {
		r.EngineError("nondeterminism (lazy long-outage part): " + m)
	}
	var caps []string
	if onlyLong {
		caps = append(caps, "development aid VERIF_C08_ONLY=long: parts 1, 1b, 2, 2b were not run")
	}
	if st3.Capped != "" {
		caps = append(caps, "long-outage part: "+st3.Capped)
	}
	if st3b.Capped != "" {
		caps = append(caps, "lazy long-outage part: "+st3b.Capped)
	}
	if st.Capped != "" {
		caps = append(caps, st.Capped)
	}
	if st2.Capped != "" {
		caps = append(caps, "lazy part: "+st2.Capped)
	}
	if st1b.Capped != "" {
		caps = append(caps, "lost-request part: "+st1b.Capped)
	}
	if st2b.Capped != "" {
		caps = append(caps, "lazy lost-request part: "+st2b.Capped)
	}
	tot, counted := sumOverShards(sh, []int64{full.Load(), lostFull.Load(), lazyFull.Load(), lostRuns.Load(), lazyLostRuns.Load(), lostReqs.Load(), lazyLostFull.Load(),
		longFull.Load(), lazyLongFull.Load(), longExhausted.Load(), lazyLongExhausted.Load(), longFailedReqs.Load()})
	r.Finish(vf.Coverage{
		Evaluations: full.Load() + lostFull.Load() + lazyFull.Load() + lazyLostFull.Load() + longFull.Load() + lazyLongFull.Load(), DistinctNontrivial: int64(r.DistinctOutcomes()), States: int64(r.DistinctOutcomes()), Transitions: points.Load(),
		Rule: "part 1: every action sequence of the depth bound over {produce non-empty, produce empty, one DA block with accepting DA, one DA block of DA outage (every request answered with an error; at most max_outage_blocks), crash + restart, clean stop + restart (together at most max_restarts; a restart = a NEW Manager and new submission loops over the key/value image the old process left behind, same DA layer / executor / sequencing layer)} × limit {1,2,3} × initial height {1,3}, on the real production step and the real submission loops under virtual time, each followed by three accepting DA blocks and one production attempt; " +
			"part 1b (lost requests): every action sequence of lost_part.depth steps over the same alphabet (bounds lost_part.max_outage_blocks / max_restarts) in which 1..lost_part.max_lost_request_blocks steps — at any positions but the first, where nothing is committed yet — are DA blocks whose header submissions / data submissions / both get NO answer (the call stays open until the caller gives it up; afterwards the DA layer accepts), × limit {1,2,3} × initial height {1,3}, each followed by lost_request_horizon_da_blocks + 3 accepting DA blocks and one production attempt; " +
			"part 2 (lazy mode, idle chain, real AggregationLoop): every outage pattern over lazy_da_blocks DA blocks × limit {1,2} × at most lazy_max_restarts restarts (crash or clean stop) at the DA-block boundaries; part 2b: the same in which lazy_lost_part.max_lost_request_blocks of the DA blocks (any of them) is a DA block whose requests get NO answer, the others accepting or down in every pattern, with at most lazy_lost_part.max_restarts restarts, closing phase lost_request_horizon_da_blocks DA blocks longer; " +
			"part 3 (long outages): every prefix of long_part.prefix_depth steps over {produce non-empty, produce empty, one accepting DA block} × limit {1,2,3} × initial height {1,3} × affected stream {headers, data, both} × kind of failure {generic error, 'not included in a block', no answer} × outage length n in long_part.outage_lengths_in_failed_attempts (boundary values around the retry budget of the code under test) × {no production during the outage, a production attempt before every step of it} × {no restart, crash + restart, clean stop + restart} after the outage, each followed by 3 (after an unanswered outage lost_request_horizon_da_blocks + 3) accepting DA blocks and one production attempt; " +
			"part 3b (lazy mode, idle chain): every outage pattern over lazy_long_part.da_blocks DA blocks × limit {1,2} × kind of failure × outage length n (all requests fail) × restart after the outage {none, crash, clean stop}, closing phase and production window of part 2; distinct = distinct produced/declined/restarted signatures",
		Exhaustive: true, Caps: caps,
		Bounds: map[string]any{"depth": depth, "limits": []int{1, 2, 3}, "initial_heights": []int{1, 3}, "max_outage_blocks": 3, "max_restarts": maxRestarts, "restart_kinds": []string{"crash", "clean-stop"}, "lazy_da_blocks": lazyBlocks, "lazy_limits": []int{1, 2}, "lazy_max_restarts": lazyRestarts,
			"lost_part":                      map[string]any{"depth": lostSpec.depth, "max_lost_request_blocks": lostSpec.lostBlocks, "lost_request_kinds": []string{"header requests", "data requests", "both"}, "placements_of_lost_blocks": len(lostPlacements(lostSpec.depth, lostSpec.lostBlocks)), "max_outage_blocks": lostBudgets["outage"], "max_restarts": lostBudgets["restart"]},
			"lazy_lost_part":                 map[string]any{"da_blocks": lazyLost.blocks, "max_lost_request_blocks": lazyLost.lostBlocks, "placements_of_lost_blocks": len(lostPlacements(lazyLost.blocks+1, lazyLost.lostBlocks)), "max_restarts": lazyLostRestarts},
			"lost_request_horizon_da_blocks": lostHorizon,
			"long_part": map[string]any{"retry_budget_read_from_code": retryBudget(), "outage_lengths_in_failed_attempts": longPart.long.lens, "prefix_depth": longPart.depth, "streams": []string{"headers", "data", "both"}, "failure_kinds": longKindName[:],
				"production_during_outage": []string{"none", "attempt before every step"}, "restart_after_outage": []string{"none", "crash", "clean-stop"}, "limits": []int{1, 2, 3}, "initial_heights": []int{1, 3}},
			"lazy_long_part": map[string]any{"da_blocks": lazyLong.blocks, "outage_lengths_in_failed_attempts": lazyLong.long.lens, "failure_kinds": longKindName[:], "restart_after_outage": []string{"none", "crash", "clean-stop"}, "limits": []int{1, 2}},
			"measured_over_all_processes": map[string]any{"processes_counted": counted, "part1_histories": tot[0], "part1b_histories": tot[1], "part2_lazy_histories": tot[2],
				"part2b_lazy_histories":                             tot[6],
				"part1b_histories_in_which_a_request_got_no_answer": tot[3], "part2b_histories_in_which_a_request_got_no_answer": tot[4], "requests_that_got_no_answer": tot[5],
				"part3_long_outage_histories": tot[7], "part3b_lazy_long_outage_histories": tot[8], "part3_histories_in_which_a_stream_used_up_a_whole_retry_budget": tot[9], "part3b_histories_in_which_a_stream_used_up_a_whole_retry_budget": tot[10], "part3_and_3b_failed_attempts_of_long_outages": tot[11]}},
	})
}

// sumOverShards adds up per-process counters over all shard processes: every shard publishes its numbers next to the
// shard results; shard 0 (whose coverage record carries the bounds) waits for the others' files (bounded) and returns
// the sums and the number of processes counted. Unsharded runs return their own numbers.
func sumOverShards(sh sharder, mine []int64) (sum []int64, counted int) {
	out := os.Getenv("VERIF_SHARD_OUT")
	if out == "" || sh.n <= 1 {
		return mine, 1
	}
	dir := filepath.Dir(out)
	name := func(i int) string { return filepath.Join(dir, fmt.Sprintf("c08-counts-%d.stat", i)) }
	bz, _ := json.Marshal(mine)
	tmp := name(sh.i) + ".tmp"
	if err := os.WriteFile(tmp, bz, 0o600); err == nil {
		_ = os.Rename(tmp, name(sh.i))
	}
	sum = make([]int64, len(mine))
	if sh.i != 0 {
		return mine, 1
	}
	limit := time.Now().Add(3 * time.Minute)
	for i := 0; i < sh.n; i++ {
		for {
			var v []int64
			if bz, err := os.ReadFile(name(i)); err == nil && json.Unmarshal(bz, &v) == nil && len(v) == len(mine) {
				for k := range v {
					sum[k] += v[k]
				}
				counted++
				break
			}
			if time.Now().After(limit) {
				break
			}
			time.Sleep(20 * time.Millisecond)
		}
	}
	return
}
