package c08

import (
	"context"
	"fmt"
	"testing"
	"testing/synctest"
	"time"

	coreseq "github.com/evstack/ev-node/core/sequencer"

	"verif/harness/explore"
	"verif/harness/world"
)

// Part 2: an idle chain in LAZY mode. The REAL AggregationLoop (lazy mode, block interval 1 s, idle interval 2 s) and the
// real submission loops run as threads of the cooperative scheduler (canonical order) under virtual time; the sequencing
// layer only ever hands out empty batches (no transactions arrive). The explorer chooses, per DA block, whether the DA
// layer is down. After the outage the DA layer accepts everything; block production must resume.

func lazyBody(t *testing.T, c *explore.Ctx, blocks int) (out outcome) {
	synctest.Test(t, func(t *testing.T) { out = lazyBubble(c, blocks) })
	return
}

func lazyBubble(c *explore.Ctx, blocks int) (out outcome) {
	t0 := time.Now()
	limit := uint64(1 + c.Choose("config", 2))
	p := world.Params{InitialHeight: 1, MaxPending: limit, Lazy: true, BlockTime: time.Second, LazyInterval: 2 * time.Second, DABlockTime: daBlock, MempoolTTL: 2, GenesisTime: t0.Add(-time.Hour)}
	env := world.NewEnv()
	env.Seq.Next = func(req coreseq.GetNextBatchRequest) world.SeqAnswer {
		return world.SeqAnswer{Kind: "batch", Time: time.Now()}
	}
	outage := false
	env.DA.SubmitPolicy = func(blobs [][]byte) world.SubmitAnswer {
		if outage {
			return world.SubmitGenericError
		}
		return world.SubmitAcceptAll
	}
	sched := world.NewSched(nil)
	n, err := world.StartNode(p, env, nil, world.NodeOpts{Aggregator: true, Gate: sched.Gate})
	if err != nil {
		out.fail = &world.Fail{Clause: "startup", Msg: err.Error()}
		return
	}
	ctx, cancel := context.WithCancel(context.Background())
	errCh := make(chan error, 4)
	defer func() {
		cancel()
		n.Fate.Kill()
		sched.Off()
		synctest.Wait()
	}()
	m := n.M
	sched.Go("produce", func() { m.AggregationLoop(ctx, errCh) })
	sched.Go("hdr-submit", func() { m.HeaderSubmissionLoop(ctx) })
	sched.Go("data-submit", func() { m.DataSubmissionLoop(ctx) })
	sched.Drain()
	second := func() {
		for i := 0; i < 10; i++ {
			time.Sleep(100 * time.Millisecond)
			synctest.Wait()
			sched.Drain()
		}
	}
	sawOutage := false
	for b := 0; b < blocks; b++ {
		outage = c.Choose("outage", 2) == 1
		if outage {
			sawOutage = true
			out.events = append(out.events, fmt.Sprintf("DA block %d: outage", b+1))
		}
		second()
	}
	outage = false
	for b := 0; b < 4; b++ { // the DA layer accepts everything (covers the longest back-off)
		second()
	}
	select {
	case err := <-errCh:
		out.fail = &world.Fail{Clause: "engine", Msg: "aggregation loop error: " + err.Error()}
		return
	default:
	}
	h1 := n.Height()
	for b := 0; b < 5; b++ { // two idle intervals and one block interval
		second()
	}
	h2 := n.Height()
	tags := []string{"lazy-mode", "idle-chain"}
	if sawOutage {
		tags = append(tags, "da-outage")
	}
	if h2 <= h1 {
		out.fail = &world.Fail{Clause: "resumes-after-acceptance", Msg: fmt.Sprintf("lazy mode, idle chain, limit %d: the DA layer has been accepting everything for 4 DA blocks, yet in the following 5 s (two idle intervals and a block interval) no block was produced (height stays %d)", limit, h1)}
		out.tags = tags
		return
	}
	out.sig = fmt.Sprintf("lazy L%d %v h=%d->%d", limit, out.events, h1, h2)
	return
}
