package c08

import (
	"context"
	"fmt"
	"testing"
	"testing/synctest"
	"time"

	coreseq "github.com/evstack/ev-node/core/sequencer"

	"verif/harness/explore"
	"verif/harness/world"
)

// Part 2: an idle chain in LAZY mode. The REAL AggregationLoop (lazy mode, block interval 1 s, idle interval 2 s) and the
// real submission loops run as threads of the cooperative scheduler (canonical order) under virtual time; the sequencing
// layer only ever hands out empty batches (no transactions arrive). The explorer chooses, per DA block, whether the DA
// layer is down — answering every request with an error, or giving NO answer to the requests of that DA block (on an idle
// chain these are header submissions; the call returns only when the caller gives it up) —, and whether the node is restarted (crash or clean stop; new Manager and new loops over the image left
// behind) at that DA-block boundary. After the outage the DA layer accepts everything; block production must resume.

// lazySpec: lostBlocks = 0 is part 2 (every request is answered); lostBlocks = k > 0 is part 2b, in which 1..k of the
// DA blocks — chosen up front as a configuration, so that every such history is enumerated exactly once — are DA blocks
// whose requests get no answer; the other DA blocks are accepting or down (answering with an error) as in part 2.
type lazySpec struct {
	blocks     int
	lostBlocks int
	long       *longSpec // part 3b: after the pattern one LONG outage follows (long_test.go), then possibly a restart
}

func lazyBody(t *testing.T, c *explore.Ctx, sp lazySpec, sh sharder) (out outcome) {
	synctest.Test(t, func(t *testing.T) { out = lazyBubble(c, sp, sh) })
	return
}

func lazyBubble(c *explore.Ctx, sp lazySpec, sh sharder) (out outcome) {
	t0 := time.Now()
	blocks := sp.blocks
	limit := uint64(1 + c.Choose("config", 2))
	lostAt := map[int]bool{}
	if sp.lostBlocks > 0 {
		pl := lostPlacements(blocks+1, sp.lostBlocks) // DA blocks 1..blocks
		for _, b := range pl[c.Choose("config", len(pl))] {
			lostAt[b-1] = true
		}
	}
	var lg *longRun
	if sp.long != nil {
		// on an idle chain only headers are submitted: the outage hits every request (counted as the header stream)
		lg = &longRun{stream: lostHeaders, kind: c.Choose("config", 3), n: sp.long.lens[c.Choose("config", len(sp.long.lens))], restart: c.Choose("config", 3)}
	}
	p := world.Params{InitialHeight: 1, MaxPending: limit, Lazy: true, BlockTime: time.Second, LazyInterval: 2 * time.Second, DABlockTime: daBlock, MempoolTTL: 2, GenesisTime: t0.Add(-time.Hour)}
	env := world.NewEnv()
	env.Seq.Next = func(req coreseq.GetNextBatchRequest) world.SeqAnswer {
		return world.SeqAnswer{Kind: "batch", Time: time.Now()}
	}
	outage, lost, lostCalls := false, false, 0
	defer func() { out.lost = lostCalls }()
	stopping := false // a clean stop is in progress: a Submit made with the cancelled context is answered "cancelled" (see part 1)
	env.DA.SubmitPolicy = func(blobs [][]byte) world.SubmitAnswer {
		if stopping {
			return world.SubmitCanceled
		}
		if lg != nil && lg.on {
			if ans, hit := lg.answer(true); hit {
				if ans == world.SubmitNoAnswer {
					lostCalls++
				}
				return ans
			}
		}
		if outage {
			return world.SubmitGenericError
		}
		if lost {
			lostCalls++
			return world.SubmitNoAnswer
		}
		return world.SubmitAcceptAll
	}
	sched := world.NewSched(nil)
	var n *world.Node
	cancel := func() {}
	errCh := make(chan error, 8)
	// one process life: a Manager over the key/value image and the real loops as threads of the scheduler
	boot := func(image map[string][]byte) *world.Fail {
		nn, err := world.StartNode(p, env, image, world.NodeOpts{Aggregator: true, Gate: sched.Gate})
		if err != nil {
			return &world.Fail{Clause: "startup", Msg: "the node cannot start: " + err.Error()}
		}
		n = nn
		var ctx context.Context
		ctx, cancel = context.WithCancel(context.Background())
		m := n.M
		sched.Go("produce", func() { m.AggregationLoop(ctx, errCh) })
		sched.Go("hdr-submit", func() { m.HeaderSubmissionLoop(ctx) })
		sched.Go("data-submit", func() { m.DataSubmissionLoop(ctx) })
		sched.Drain()
		return nil
	}
	defer func() {
		cancel()
		if n != nil {
			n.Fate.Kill()
		}
		sched.Off()
		synctest.Wait()
	}()
	if f := boot(nil); f != nil {
		out.fail = f
		return
	}
	second := func() {
		for i := 0; i < 10; i++ {
			time.Sleep(100 * time.Millisecond)
			synctest.Wait()
			sched.Drain()
		}
	}
	sawOutage, sawLost, restarts, restartAfterAck := false, false, 0, false
	tags := func() []string {
		tg := []string{"lazy-mode", "idle-chain"}
		if sawOutage {
			tg = append(tg, "da-outage")
		}
		if lostCalls > 0 {
			tg = append(tg, "da-request-unanswered")
		}
		if restarts > 0 {
			tg = append(tg, "node-restart")
		}
		if restartAfterAck {
			tg = append(tg, "restart-after-da-acceptance")
		}
		if lg != nil {
			tg = append(tg, lg.tags()...)
		}
		return tg
	}
	// restart between two DA blocks: the old process ends (crash: nothing it does from now on reaches a double; clean
	// stop: its loops are cancelled and run to their end first), a new Manager is built over the image it left behind
	// and the three loops are started again. All timers of the old process have been served (the scheduler is drained),
	// so the cancelled loops can only take the ctx.Done() branch.
	restart := func(kind int, at int) *world.Fail {
		restarts++
		for _, call := range env.DA.SubmitLog() {
			if call.Acked > 0 {
				restartAfterAck = true
			}
		}
		if kind == restartCrash {
			out.events = append(out.events, fmt.Sprintf("before DA block %d: crash+restart", at))
			n.Fate.Kill()
			cancel()
		} else {
			out.events = append(out.events, fmt.Sprintf("before DA block %d: clean-stop+restart", at))
			stopping = true
			cancel()
			sched.Drain()
			n.Fate.Kill()
			stopping = false
		}
		sched.Drain()
		synctest.Wait()
		if alive := sched.Alive(); len(alive) != 0 {
			return &world.Fail{Clause: "engine", Msg: fmt.Sprintf("threads of the stopped process are still alive: %v", alive)}
		}
		return boot(n.KV.Image())
	}
	out.early = true
	for b := 0; b <= blocks; b++ {
		if b == blocks/2 {
			if !sh.mine(c) {
				out.skipped = true // another shard process continues below this prefix
				return
			}
			out.early = false
		}
		if k := c.Choose("restart", 3); k != 0 {
			if f := restart(k, b+1); f != nil {
				out.fail, out.tags = f, tags()
				return
			}
		}
		if b == blocks {
			break // the last restart point lies before the closing phase
		}
		outage, lost = false, lostAt[b]
		if !lost {
			outage = c.Choose("outage", 2) == 1
		}
		if outage {
			sawOutage = true
			out.events = append(out.events, fmt.Sprintf("DA block %d: outage", b+1))
		}
		if lost {
			sawLost = true
			out.events = append(out.events, fmt.Sprintf("DA block %d: requests get no answer", b+1))
		}
		second()
		lost = false
	}
	outage = false
	// part 3b: one LONG outage, counted in failed submission attempts, then (optionally) a restart
	if lg != nil {
		out.events = append(out.events, fmt.Sprintf("long DA outage: the next %d submission attempts are %s", lg.n, longKindName[lg.kind]))
		if lg.kind == longLost {
			sawLost = true
		} else {
			sawOutage = true
		}
		lg.on = true
		el := 0
		for ; el < lg.capBlocks() && !lg.done(); el++ {
			second()
		}
		lg.on = false
		out.longFailed, out.exhausted = lg.failed, lg.exhausted()
		out.events = append(out.events, fmt.Sprintf("the outage is over after %d DA blocks (%d submission attempts failed); from now on the DA layer accepts", el, lg.failed[0]))
		if lg.restart != 0 {
			if f := restart(lg.restart, blocks+el+1); f != nil {
				out.fail, out.tags = f, tags()
				return
			}
		}
	}
	closing := 4
	if sawLost { // the node is given lostHorizon accepting DA blocks to give the unanswered call up and send the blobs again
		closing += lostHorizon
	}
	for b := 0; b < closing; b++ { // the DA layer accepts everything (4 DA blocks cover the longest back-off)
		second()
	}
	select {
	case err := <-errCh:
		out.fail = &world.Fail{Clause: "engine", Msg: "aggregation loop error: " + err.Error()}
		return
	default:
	}
	h1 := n.Height()
	for b := 0; b < 5; b++ { // two idle intervals and one block interval
		second()
	}
	h2 := n.Height()
	if h2 <= h1 {
		out.fail = &world.Fail{Clause: "resumes-after-acceptance", Msg: fmt.Sprintf("lazy mode, idle chain, limit %d: the DA layer has been accepting everything for %d DA blocks, yet in the following 5 s (two idle intervals and a block interval) no block was produced (height stays %d; pending counters: headers %d, data %d; %d request(s) of an earlier DA block got no answer)", limit, closing, h1, n.M.VerifNumPendingHeaders(), n.M.VerifNumPendingData(), lostCalls)}
		out.tags = tags()
		return
	}
	out.sig = fmt.Sprintf("lazy L%d %v h=%d->%d", limit, out.events, h1, h2)
	return
}
