package c08

import (
	"fmt"

	"github.com/evstack/ev-node/block"

	"verif/harness/explore"
	"verif/harness/world"
)

// Part 3 / 3b: LONG DA outages. The outages of parts 1 and 2 last at most three DA blocks; one call of the code
// under test's submission helper makes up to retryBudget() attempts (with a back-off of at most one DA block between
// two of them, two DA blocks after a "not included" answer, and a deadline of 60 s on an attempt that gets no
// answer) before it gives the submission up until the next DA tick. A long outage is measured in what the node can
// see of it: the DA layer fails the next n submission ATTEMPTS of the affected stream(s) — headers, data, or both,
// each stream counted on its own — and accepts everything after them; n takes boundary values around the retry budget
// (budget-1: the last attempt of the first call succeeds; budget: the first call is given up, the next tick succeeds at
// once; budget+1; 2·budget+1: two calls are given up). The budget is read from the code under test (hook
// block.VerifMaxSubmitAttempts), not written down here.
// If a stream stops sending before its n attempts have failed (nothing pending for it, or a node that has given up),
// the outage ends after capBlocks() DA blocks anyway: from then on the DA layer is healthy whatever the node does.

func retryBudget() int { return block.VerifMaxSubmitAttempts() }

// attemptDeadlineBlocks: DA blocks (of 1 s) after which the code under test abandons an attempt that got no answer
// (block/submitter.go gives every attempt 60 s). Only used to size the cap of an unanswered outage.
const attemptDeadlineBlocks = 60

// kinds of a long outage
const (
	longErr      = 0 // every failed attempt is answered with a generic error (exponential back-off, at most one DA block)
	longTimedOut = 1 // ... answered "not included in a block" (back-off = mempool TTL = two DA blocks, gas price raised)
	longLost     = 2 // ... gets no answer at all (the attempt ends at its deadline)
)

var longKindName = [...]string{"answered with a generic error", "answered 'not included in a block'", "given no answer"}

type longSpec struct {
	lens []int // outage lengths in failed attempts per affected stream
}

// longLens: the boundary values around the retry budget (quick), and more of them (thorough).
func longLens(thorough bool) []int {
	b := retryBudget()
	if thorough {
		return []int{1, b - 1, b, b + 1, 2*b - 1, 2 * b, 2*b + 1, 3*b + 1}
	}
	return []int{b - 1, b, b + 1, 2*b + 1}
}

type longRun struct {
	stream  int  // lostHeaders / lostData / lostBoth: which stream's attempts fail
	kind    int  // longErr / longTimedOut / longLost
	n       int  // failed attempts per affected stream
	fill    bool // a production attempt (non-empty batch) before every step of the outage
	restart int  // 0 / restartCrash / restartClean: after the outage, before the closing phase
	on      bool
	failed  [2]int // attempts failed so far: [0] header stream, [1] data stream
}

func chooseLong(c *explore.Ctx, sp *longSpec) *longRun {
	return &longRun{
		stream:  1 + c.Choose("config", 3),
		kind:    c.Choose("config", 3),
		n:       sp.lens[c.Choose("config", len(sp.lens))],
		fill:    c.Choose("config", 2) == 1,
		restart: c.Choose("config", 3),
	}
}

// answer: what the DA layer does with a request of the header (or data) stream while the long outage is on.
func (l *longRun) answer(header bool) (world.SubmitAnswer, bool) {
	i, bit := 1, lostData
	if header {
		i, bit = 0, lostHeaders
	}
	if l.stream&bit == 0 || l.failed[i] >= l.n {
		return 0, false
	}
	l.failed[i]++
	return [...]world.SubmitAnswer{world.SubmitGenericError, world.SubmitTimedOut, world.SubmitNoAnswer}[l.kind], true
}

func (l *longRun) done() bool {
	return (l.stream&lostHeaders == 0 || l.failed[0] >= l.n) && (l.stream&lostData == 0 || l.failed[1] >= l.n)
}

// capBlocks: DA blocks after which the outage is over even if fewer than n attempts were made. Answered attempts are
// at most two DA blocks apart (plus up to one DA block between two calls); an unanswered one lasts its deadline plus
// the back-off.
func (l *longRun) capBlocks() int {
	if l.kind == longLost {
		return (attemptDeadlineBlocks+1)*l.n + attemptDeadlineBlocks + 10
	}
	return 2*l.n + l.n/retryBudget() + 10
}

func (l *longRun) exhausted() bool {
	return l.failed[0] >= retryBudget() || l.failed[1] >= retryBudget()
}

func (l *longRun) tags() []string {
	tg := []string{"long-da-outage"}
	if l.exhausted() {
		tg = append(tg, "retry-budget-exhausted")
	}
	return tg
}

func (l *longRun) describe() string {
	return fmt.Sprintf("long DA outage: the next %d submission attempts of %s are %s (production attempt before every step of the outage: %v)",
		l.n, [...]string{"", "the header stream", "the data stream", "the header stream and of the data stream (each)"}[l.stream], longKindName[l.kind], l.fill)
}
