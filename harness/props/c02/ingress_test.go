package c02

import (
	"fmt"
	"os"
	"path/filepath"
	"sort"
	"strings"
	"testing"
	"testing/synctest"

	"github.com/evstack/ev-node/types"

	"verif/harness/explore"
	"verif/harness/world"
)

// Level 2 (ingress level): the full node runs ALL its loops unmodified (RetrieveLoop, both P2P store loops, SyncLoop,
// DAIncluderLoop) as threads of the cooperative scheduler. The genuine blobs are placed on the DA double (bounded
// deviations from the in-order placement: any blob may sit at any of three DA heights, i.e. many per height and out of
// height order), optionally the P2P stores hold the chain as well, and the node is stopped cleanly and restarted
// (SaveCache -> NewManager -> LoadCache) BETWEEN ANY TWO STEPS of its threads — also while fetched events are still
// queued in the sync loop's input channels. At the end the node must have converged to the producer's chain.

func ingressBody(t *testing.T, c *explore.Ctx, pc *world.ProducerChain, crowded bool) (out outcome) {
	synctest.Test(t, func(t *testing.T) { out = ingressBubble(c, pc, crowded) })
	return
}

// retrievalBatch is the number of blobs types.RetrieveWithHelpers fetches with one call (measured by C09's crowded part).
const retrievalBatch = 100

// crowdFillers lists the numbers N of filler junk blobs in front of the chain's n genuine blobs (placed consecutively
// at ONE DA height) for which some genuine blob lands on an index in {b-1, b, b+1, 2b, 2b+1}; over the whole list every
// genuine blob lands on every one of these indices.
func crowdFillers(n int) []int {
	seen := map[int]bool{}
	var out []int
	for _, t := range []int{retrievalBatch - 1, retrievalBatch, retrievalBatch + 1, 2 * retrievalBatch, 2*retrievalBatch + 1} {
		for k := 0; k < n; k++ {
			if N := t - k; N >= 0 && !seen[N] {
				seen[N] = true
				out = append(out, N)
			}
		}
	}
	sort.Ints(out)
	return out
}

// crowded: the "crowded height" configuration — all genuine blobs of the chain sit at one DA height behind N filler
// junk blobs, so that the height takes more than one retrieval batch and the genuine blobs straddle the batch borders.
// DA is then the only ingress (P2P would supply the same items and hide the DA path).
func ingressBubble(c *explore.Ctx, pc *world.ProducerChain, crowded bool) (out outcome) {
	const maxDA = 3
	env := world.NewEnv()
	root := filepath.Join(os.TempDir(), fmt.Sprintf("c02-l2-%d-%d", os.Getpid(), rootSeq.Add(1)))
	defer os.RemoveAll(root)
	p2p := !crowded && c.Choose("config", 2) == 1
	// ahead: the DA layer already holds everything when the node starts (a node syncing from behind): the scan runs
	// ahead of the sync loop through all heights and the event queues fill up
	ahead := c.Choose("config", 2) == 1
	hs := &world.P2PStore[*types.SignedHeader]{}
	ds := &world.P2PStore[*types.Data]{}
	type placed struct {
		blob []byte
		at   uint64
		name string
	}
	var blobs []placed
	canon := func(i int) int { // in-order placement: block i at DA height min(i+1, maxDA)
		if i+1 > maxDA {
			return maxDA - 1
		}
		return i
	}
	pick := func(i int) uint64 {
		k := c.Choose("place", maxDA) // 0 = canonical height, then the others
		return uint64((canon(i)+k)%maxDA + 1)
	}
	fillers := 0
	if crowded {
		ns := crowdFillers(len(pc.Events()))
		fillers = ns[c.Choose("crowd", len(ns))]
		at := uint64(c.Choose("crowdat", maxDA)) + 1
		pick = func(int) uint64 { return at }
		for j := 0; j < fillers; j++ {
			blobs = append(blobs, placed{[]byte(fmt.Sprintf("filler-%d", j)), at, ""})
		}
	}
	for i := 0; i < pc.Len(); i++ {
		blobs = append(blobs, placed{pc.HdrBlobs[i], pick(i), fmt.Sprintf("H%d", i)})
		if pc.DatBlobs[i] != nil {
			blobs = append(blobs, placed{pc.DatBlobs[i], pick(i), fmt.Sprintf("D%d", i)})
		}
	}
	var layout []string
	if fillers > 0 {
		layout = append(layout, fmt.Sprintf("%d-filler-blobs@%d", fillers, blobs[0].at))
	}
	for k, b := range blobs {
		if b.name != "" {
			if crowded {
				layout = append(layout, fmt.Sprintf("%s@%d[index %d]", b.name, b.at, k))
			} else {
				layout = append(layout, fmt.Sprintf("%s@%d", b.name, b.at))
			}
		}
	}
	out.trace = append(out.trace, "DA:"+strings.Join(layout, ","), fmt.Sprintf("p2p=%v ahead=%v", p2p, ahead))
	p := world.Params{InitialHeight: pc.Initial, DAStartHeight: 1, RootDir: root, CustomPayload: pc.Params.CustomPayload}
	restarts := 0
	var f *world.FullL2
	var sched *world.Sched
	// stopSig renders everything a clean stop keeps: the store (its write log only grows) and the two caches
	lastStopSig := ""
	stopSig := func() string {
		if f == nil || f.Sched != sched {
			return "" // the node is being started
		}
		hi, hh, hd := f.N.M.VerifHeaderCache().VerifC12Dump()
		di, dh, dd := f.N.M.VerifDataCache().VerifC12Dump()
		var parts []string
		for k := range hi {
			parts = append(parts, fmt.Sprintf("hi:%v", k))
		}
		for k, v := range hh {
			parts = append(parts, fmt.Sprintf("hs:%s=%v", k, v))
		}
		for k, v := range hd {
			parts = append(parts, fmt.Sprintf("hd:%s=%d", k, v))
		}
		for k := range di {
			parts = append(parts, fmt.Sprintf("di:%v", k))
		}
		for k, v := range dh {
			parts = append(parts, fmt.Sprintf("ds:%s=%v", k, v))
		}
		for k, v := range dd {
			parts = append(parts, fmt.Sprintf("dd:%s=%d", k, v))
		}
		sort.Strings(parts)
		return fmt.Sprintf("%d|%s", f.N.KV.NumWrites(), strings.Join(parts, ","))
	}
	boot := func(img map[string][]byte) *world.Fail {
		// Decisions at this level are about EVENTS: whenever a queued event could be delivered, the explorer decides
		// who goes next — a producer thread (running ahead, filling the queues), the next header or the next data
		// event — and whether the node is restarted right there. Canonical order: producers first, then headers,
		// then data. Pure thread-level interleavings (no deliverable event) are left canonical here; they are
		// explored in C07/C13.
		sched = world.NewSched(nil)
		sched.Choose = func(n int, names []string) int {
			deliverable := false
			for _, nm := range names {
				if strings.HasPrefix(nm, "deliver:") {
					deliverable = true
				}
			}
			if !deliverable {
				return 0
			}
			rank := func(nm string) int {
				switch {
				case strings.HasPrefix(nm, "deliver:header"):
					return 1
				case strings.HasPrefix(nm, "deliver:data"):
					return 2
				}
				return 0
			}
			idx := make([]int, n)
			for i := range idx {
				idx[i] = i
			}
			sort.SliceStable(idx, func(a, b int) bool { return rank(names[idx[a]]) < rank(names[idx[b]]) })
			return idx[c.Choose("order", n)]
		}
		sched.Interrupt = func() bool {
			if sched.Interrupted {
				// the stop was decided at an earlier grant of this tick: nothing runs any more (Settle calls Drain several
				// times per tick; without this the later calls would go on granting and the queues would be empty by
				// the time the harness handles the interrupt)
				return true
			}
			if restarts >= 1 {
				return false
			}
			for _, v := range sched.Virtuals {
				if v.Enabled() {
					// A stop keeps the store and the caches (SaveCache) and nothing else: queued events and the progress
					// inside the threads are lost. Two stop points of one tick with the same store and caches therefore
					// lead to the same second life; the decision is offered once per distinct (store, caches) state.
					sig := stopSig()
					if sig != "" && sig == lastStopSig {
						return false
					}
					lastStopSig = sig
					return c.Choose("restart", 2) == 1
				}
			}
			return false
		}
		ff, err := world.StartFullL2Sched(p, env, img, hs, ds, nil, sched)
		if err != nil {
			return &world.Fail{Clause: "restart", Msg: "the node cannot start: " + err.Error()}
		}
		f = ff
		return nil
	}
	if fl := boot(nil); fl != nil {
		out.fail = fl
		return
	}
	defer func() { f.Stop() }()
	height := uint64(0)
	check := func(final bool) *world.Fail {
		if len(f.Fatal) > 0 {
			return &world.Fail{Clause: "sync-halts", Msg: "a loop stopped with a fatal error: " + f.Fatal[0]}
		}
		dH, dD := map[int]bool{}, map[int]bool{}
		for i := 0; i < pc.Len(); i++ {
			dH[i], dD[i] = final, final
		}
		h, fl := world.CheckFollows(f.N, pc, dH, dD, height)
		if fl != nil && !final && (fl.Clause == "converges" || fl.Clause == "applies-only-complete-blocks") {
			fl = nil // mid-way the delivered set is not known exactly; order/identity/monotonicity clauses stay armed
		}
		height = h
		return fl
	}
	// restart handles an interrupt raised between two steps of the threads
	handle := func() *world.Fail {
		if !sched.Interrupted {
			return nil
		}
		restarts++
		// what is lost with the process: the events still queued in front of the sync loop
		var queued []string
		for _, v := range sched.Virtuals {
			if v.Enabled() {
				queued = append(queued, strings.TrimSuffix(strings.TrimPrefix(v.Name, "deliver:"), "->sync"))
			}
		}
		out.trace = append(out.trace, fmt.Sprintf("clean-restart(after %d steps, queued and lost: %s)", sched.Steps, strings.Join(queued, "+")))
		f.Stop()
		if err := f.N.M.SaveCache(); err != nil {
			return &world.Fail{Clause: "restart", Msg: "SaveCache: " + err.Error()}
		}
		if fl := boot(f.N.KV.Image()); fl != nil {
			return fl
		}
		return check(false)
	}
	step := func(tick func()) *world.Fail {
		lastStopSig = "" // a new tick: the environment has moved on, every state is a new stop point
		tick()
		if fl := handle(); fl != nil {
			return fl
		}
		return check(false)
	}
	if ahead {
		for da := uint64(1); da <= maxDA; da++ {
			for _, b := range blobs {
				if b.at == da {
					env.DA.Place(da, b.blob)
				}
			}
		}
		env.DA.SetTip(maxDA)
	}
	for da := uint64(1); da <= maxDA; da++ {
		if !ahead {
			for _, b := range blobs {
				if b.at == da {
					env.DA.Place(da, b.blob)
				}
			}
			env.DA.SetTip(da)
		}
		if p2p && int(da) <= pc.Len() { // the P2P stores grow one block per DA block (they are contiguous)
			for hs.Height() < pc.Initial+uint64(da)-1 {
				i := int(hs.Height() + 1 - pc.Initial)
				hs.Append1(pc.Header(i))
				ds.Append1(pc.DataAt(i))
			}
		}
		if fl := step(f.TickDA); fl != nil {
			out.fail = fl
			return
		}
		if p2p {
			if fl := step(f.TickP2P); fl != nil {
				out.fail = fl
				return
			}
		}
	}
	if p2p {
		for int(hs.Height()-pc.Initial)+1 < pc.Len() {
			i := int(hs.Height() + 1 - pc.Initial)
			hs.Append1(pc.Header(i))
			ds.Append1(pc.DataAt(i))
		}
	}
	// everything is on the DA layer (and on P2P): a few more rounds of the tickers
	for r := 0; r < 4; r++ {
		if fl := step(f.TickDA); fl != nil {
			out.fail = fl
			return
		}
		if fl := step(f.TickP2P); fl != nil {
			out.fail = fl
			return
		}
	}
	if fl := check(true); fl != nil {
		out.fail = fl
		if restarts > 0 {
			out.tags = append(out.tags, "clean-restart")
		}
		if pc.Params.CustomPayload {
			out.tags = append(out.tags, "custom-signature-payload-provider")
		}
		return
	}
	out.height = height
	return
}
