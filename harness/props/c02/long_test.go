package c02

import (
	"fmt"
	"os"
	"path/filepath"
	"sort"
	"strings"
	"syscall"
	"testing"
	"testing/synctest"

	"github.com/evstack/ev-node/types"

	"verif/harness/vf"
	"verif/harness/world"
)

// Level 2, long catch-up (QUANTITY): a node that is far behind. Chains of L blocks committed by a real aggregator
// (mostly empty blocks, non-empty ones around every multiple of 64 and at the top) reach a full node that runs ALL its
// loops unmodified under the cooperative scheduler in its canonical schedule — no interleaving exploration here, the
// dimension is the SIZE of what one poll of an ingress finds:
//
//	p2p             both P2P stores hold heights 1..L when the node polls them for the first time; nothing on the DA layer
//	p2p-two-polls   the P2P stores hold 1..L/8 at the first poll and 1..L at the second (a long backlog from a cursor > 0)
//	da-one-height   every blob of the chain sits at DA height 1 (L headers + the data blobs in one retrieval); P2P empty
//	da-spread       the blobs of block i sit at DA height i+1, the DA layer is L heights ahead of the node; P2P empty
//	split-heights   the lower half of the chain only in the P2P stores, the upper half only on the DA layer
//	split-p2p-headers  all headers only in the P2P header store, all data only on the DA layer (one height)
//	split-p2p-data  all data only in the P2P data store, all headers only on the DA layer (spread)
//
// After that the tickers go on (one round = DA tick + P2P tick) for as long as the node's height moves; the node must
// reach the top of the chain with the proposer's blocks, transactions and state roots (world.CheckFollows).
var longModes = []string{"p2p", "p2p-two-polls", "da-one-height", "da-spread", "split-heights", "split-p2p-headers", "split-p2p-data"}

// idleRounds: the run ends when this many consecutive ticker rounds did not move the node's height.
const idleRounds = 3

type longCfg struct {
	Total int // blocks of the chain (heights 1..Total)
	Mode  string
}

func longBody(t *testing.T, pc *world.ProducerChain, mode string) (out outcome, rounds int, steps int) {
	synctest.Test(t, func(t *testing.T) { out, rounds, steps = longBubble(pc, mode) })
	return
}

func longBubble(pc *world.ProducerChain, mode string) (out outcome, rounds int, steps int) {
	env := world.NewEnv()
	root := filepath.Join(os.TempDir(), fmt.Sprintf("c02-long-%d-%d", os.Getpid(), rootSeq.Add(1)))
	defer os.RemoveAll(root)
	L := pc.Len()
	hs := &world.P2PStore[*types.SignedHeader]{}
	ds := &world.P2PStore[*types.Data]{}
	// what each ingress offers, poll by poll
	p2pH := func(upto int) {
		for int(hs.Height()) < upto {
			hs.Append1(pc.Header(int(hs.Height())))
		}
	}
	p2pD := func(upto int) {
		for int(ds.Height()) < upto {
			ds.Append1(pc.DataAt(int(ds.Height())))
		}
	}
	daTip := uint64(0)
	place := func(at uint64, blob []byte) {
		if blob == nil {
			return
		}
		env.DA.Place(at, blob)
		if at > daTip {
			daTip = at
		}
	}
	var secondPoll func()
	switch mode {
	case "p2p":
		p2pH(L)
		p2pD(L)
	case "p2p-two-polls":
		first := max(L/8, 1)
		p2pH(first)
		p2pD(first)
		secondPoll = func() { p2pH(L); p2pD(L) }
	case "da-one-height":
		for i := 0; i < L; i++ {
			place(1, pc.HdrBlobs[i])
			place(1, pc.DatBlobs[i])
		}
	case "da-spread":
		for i := 0; i < L; i++ {
			place(uint64(i+1), pc.HdrBlobs[i])
			place(uint64(i+1), pc.DatBlobs[i])
		}
	case "split-heights":
		p2pH(L / 2)
		p2pD(L / 2)
		for i := L / 2; i < L; i++ {
			place(uint64(i-L/2+1), pc.HdrBlobs[i])
			place(uint64(i-L/2+1), pc.DatBlobs[i])
		}
	case "split-p2p-headers":
		p2pH(L)
		for i := 0; i < L; i++ {
			place(1, pc.DatBlobs[i])
		}
	case "split-p2p-data":
		p2pD(L)
		for i := 0; i < L; i++ {
			place(uint64(i+1), pc.HdrBlobs[i])
		}
	default:
		out.fail = &world.Fail{Clause: "harness", Msg: "unknown mode " + mode}
		return
	}
	env.DA.SetTip(daTip)
	out.trace = append(out.trace, fmt.Sprintf("long catch-up: chain of %d blocks, mode %s, P2P header store height %d, P2P data store height %d, DA tip %d", L, mode, hs.Height(), ds.Height(), daTip))
	p := world.Params{InitialHeight: pc.Initial, DAStartHeight: 1, RootDir: root}
	f, err := world.StartFullL2Sched(p, env, nil, hs, ds, nil, world.NewSched(nil))
	if err != nil {
		out.fail = &world.Fail{Clause: "restart", Msg: "the node cannot start: " + err.Error()}
		return
	}
	defer func() { steps = f.Sched.StepCount(); f.Stop() }()
	height := uint64(0)
	check := func(final bool) *world.Fail {
		if len(f.Fatal) > 0 {
			return &world.Fail{Clause: "sync-halts", Msg: "a loop stopped with a fatal error: " + f.Fatal[0]}
		}
		dH, dD := map[int]bool{}, map[int]bool{}
		for i := 0; i < L; i++ {
			dH[i], dD[i] = final, final
		}
		h, fl := world.CheckFollows(f.N, pc, dH, dD, height)
		if fl != nil && !final && (fl.Clause == "converges" || fl.Clause == "applies-only-complete-blocks") {
			fl = nil // mid-way only the order/identity/monotonicity clauses are armed
		}
		height = h
		return fl
	}
	top := pc.Initial + uint64(L) - 1
	idle := 0
	for idle < idleRounds && rounds < L+8 {
		before := height
		f.TickDA()
		f.TickP2P()
		rounds++
		if rounds == 1 && secondPoll != nil {
			secondPoll()
		}
		if fl := check(false); fl != nil {
			out.fail = fl
			return
		}
		out.trace = append(out.trace, fmt.Sprintf("round %d: height %d", rounds, height))
		if height == before && !(rounds == 1 && secondPoll != nil) {
			idle++
		} else {
			idle = 0
		}
		if height == top && idle >= 1 {
			break // at the top and one more round changed nothing
		}
	}
	if fl := check(true); fl != nil {
		out.fail = fl
		return
	}
	out.height = height
	return
}

// longLengths: every chain length of the dense ranges and the sparse single ones, longest first.
func longLengths(dense [][2]int, sparse []int) []int {
	seen := map[int]bool{}
	var out []int
	for _, l := range sparse {
		seen[l] = true
	}
	for _, d := range dense {
		for l := max(d[0], 2); l <= d[1]; l++ {
			seen[l] = true
		}
	}
	for l := range seen {
		out = append(out, l)
	}
	sort.Sort(sort.Reverse(sort.IntSlice(out)))
	return out
}

// longShare deals the chain lengths (longest first) over the shard processes in snake order, so that every shard gets
// about the same number of blocks to sync; all modes of one length run in the same shard (the chain is built once).
func longShare(ls []int) []int {
	i, n := 0, 1
	if sp := os.Getenv("VERIF_SHARD"); sp != "" {
		fmt.Sscanf(sp, "%d/%d", &i, &n)
		if n < 1 || i < 0 || i >= n {
			i, n = 0, 1
		}
	}
	var out []int
	for k, l := range ls {
		pos := k % n
		if (k/n)%2 == 1 {
			pos = n - 1 - pos
		}
		if pos == i {
			out = append(out, l)
		}
	}
	return out
}

type longStats struct {
	runs, steps, blocks int64
	maxRounds           int
}

// longPart runs this shard's share of the long catch-up configurations.
func longPart(t *testing.T, r *vf.Run, ls []int) (st longStats) {
	sampled := false
	for _, L := range longShare(ls) {
		pc, err := world.BuildLongChain(L)
		if err != nil {
			r.EngineError(fmt.Sprintf("long producer chain of %d blocks: %v", L, err))
			continue
		}
		for _, mode := range longModes {
			o, rounds, steps := longBody(t, pc, mode)
			st.runs++
			st.steps += int64(steps)
			st.blocks += int64(L)
			st.maxRounds = max(st.maxRounds, rounds)
			if o.fail != nil {
				if o.fail.Clause == "harness" {
					r.EngineError(o.fail.Msg)
					continue
				}
				r.Report(vf.Violation{Clause: o.fail.Clause, Tags: []string{"ingress-level", "long-catch-up", "long-catch-up:" + mode}, Msg: fmt.Sprintf("[ingress level, long catch-up] %s\n %s", o.fail.Msg, strings.Join(o.trace, "; ")), Cost: L, History: map[string]any{"Long": true, "Total": L, "Mode": mode}})
				r.Outcome("L2:long:fail:" + o.fail.Clause + ":" + mode)
				continue
			}
			r.Outcome(fmt.Sprintf("L2:long:%s:%d blocks:%d rounds:height %d", mode, L, rounds, o.height))
			if !sampled && mode == "p2p" && r.FirstShard() {
				sampled = true
				r.Sample(map[string]any{"level": "ingress, long catch-up", "chain_blocks": L, "mode": mode, "trace": strings.Join(o.trace, "; "), "scheduler_steps": steps, "final_height": o.height})
			}
		}
	}
	return
}

// cpuSeconds is the CPU time this process has used so far (the machine may be shared: wall time says little).
func cpuSeconds() float64 {
	var ru syscall.Rusage
	if syscall.Getrusage(syscall.RUSAGE_SELF, &ru) != nil {
		return 0
	}
	return float64(ru.Utime.Nano()+ru.Stime.Nano()) / 1e9
}
