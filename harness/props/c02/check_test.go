package c02

import (
	"context"
	"fmt"
	"math"
	"os"
	"path/filepath"
	"strconv"
	"strings"
	"sync/atomic"
	"testing"
	"testing/synctest"
	"time"

	"verif/harness/explore"
	"verif/harness/vf"
	"verif/harness/world"
)

// C02 — a full node converges to exactly the proposer's chain under any delivery order.
// Level 1 (event level): the real SyncLoop runs in a synctest bubble; the harness pushes the header and data events
// of a chain produced by a real aggregator into the real input channels one at a time, in EVERY order, with one
// duplicated event anywhere and one clean stop/restart (SaveCache -> NewManager -> LoadCache) at any idle point.
// Configuration dimension: the same with a NON-DEFAULT signature payload provider (ManagerOptions.SignaturePayloadProvider)
// on the producer and on the full node (world.Params.CustomPayload): what is signed is node configuration, not part of
// any encoding, so a header that waits in the header cache across the restart comes back from the cache file without it.

var rootSeq atomic.Int64

type outcome struct {
	fail   *world.Fail
	tags   []string
	trace  []string
	height uint64
}

func fullParams(pc *world.ProducerChain, root string) world.Params {
	return world.Params{InitialHeight: pc.Initial, BlockTime: 1000 * time.Hour, DABlockTime: 1000 * time.Hour, RootDir: root, CustomPayload: pc.Params.CustomPayload}
}

func body(t *testing.T, c *explore.Ctx, pc *world.ProducerChain) (out outcome) {
	synctest.Test(t, func(t *testing.T) { out = bubble(c, pc) })
	return
}

func bubble(c *explore.Ctx, pc *world.ProducerChain) (out outcome) {
	// a unique cache directory; it is only created (by SaveCache) if a clean restart is explored
	root := filepath.Join(os.TempDir(), fmt.Sprintf("c02-root-%d-%d", os.Getpid(), rootSeq.Add(1)))
	restarted := false
	defer func() {
		if restarted {
			os.RemoveAll(root)
		}
	}()
	env := world.NewEnv()
	p := fullParams(pc, root)
	n, err := world.StartNode(p, env, nil, world.NodeOpts{})
	if err != nil {
		out.fail = &world.Fail{Clause: "startup", Msg: err.Error()}
		return
	}
	var tags []string
	if world.HasRepeatedNonEmpty(pc.Pattern) {
		tags = append(tags, "two-blocks-with-identical-transactions")
	}
	if pc.Params.CustomPayload {
		tags = append(tags, "custom-signature-payload-provider")
	}
	errCh := make(chan error, 4)
	ctx, cancel := context.WithCancel(context.Background())
	go n.M.SyncLoop(ctx, errCh)
	synctest.Wait()
	defer func() { cancel(); synctest.Wait() }()

	events := pc.Events()
	remaining := append([]world.Event(nil), events...)
	var delivered []world.Event
	dH, dD := map[int]bool{}, map[int]bool{}
	height := n.Height()
	deliver := func(e world.Event, note string) *world.Fail {
		out.trace = append(out.trace, note+e.String())
		world.Deliver(n.M, pc, e, uint64(len(out.trace)))
		synctest.Wait()
		select {
		case err := <-errCh:
			return &world.Fail{Clause: "sync-halts", Msg: "SyncLoop stopped with a fatal error: " + err.Error()}
		default:
		}
		if e.Header {
			dH[e.Idx] = true
		} else {
			dD[e.Idx] = true
		}
		h, f := world.CheckFollows(n, pc, dH, dD, height)
		height = h
		return f
	}
	for len(remaining) > 0 {
		k := c.Choose("order", len(remaining))
		e := remaining[k]
		remaining = append(remaining[:k:k], remaining[k+1:]...)
		if f := deliver(e, ""); f != nil {
			out.fail, out.tags = f, tags
			return
		}
		delivered = append(delivered, e)
		// one duplicate of any already delivered event, at any later position
		if d := c.Choose("dup", len(delivered)+1); d > 0 {
			if f := deliver(delivered[d-1], "dup:"); f != nil {
				out.fail, out.tags = f, append(tags, "duplicate-event")
				return
			}
		}
		// one clean stop/restart at any idle point
		if !restarted && len(remaining) > 0 && c.Choose("restart", 2) == 1 {
			restarted = true
			out.trace = append(out.trace, "restart")
			for i := range dH { // a header that was delivered and is not applied yet travels through the cache file
				if pc.Initial+uint64(i) > height {
					tags = append(tags, "header-waiting-in-cache-at-restart")
					break
				}
			}
			cancel()
			synctest.Wait()
			if err := n.M.SaveCache(); err != nil {
				out.fail, out.tags = &world.Fail{Clause: "restart", Msg: "SaveCache failed: " + err.Error()}, tags
				return
			}
			p2 := fullParams(pc, root)
			n2, err := world.StartNode(p2, env, n.KV.Image(), world.NodeOpts{})
			if err != nil {
				out.fail, out.tags = &world.Fail{Clause: "restart", Msg: "NewManager after a clean stop failed: " + err.Error()}, tags
				return
			}
			n = n2
			ctx, cancel = context.WithCancel(context.Background())
			go n.M.SyncLoop(ctx, errCh)
			synctest.Wait()
			h, f := world.CheckFollows(n, pc, dH, dD, height)
			if f != nil {
				out.fail, out.tags = f, append(tags, "restart")
				return
			}
			height = h
			tags = append(tags, "restart")
		}
	}
	out.height = height
	out.tags = tags
	return
}

func has(tags []string, t string) bool {
	for _, x := range tags {
		if x == t {
			return true
		}
	}
	return false
}

func TestCheck(t *testing.T) {
	r := vf.Start("C02", "exploration")
	if r.RunShards(16) { // bubble-heavy: one process per shard of the exploration
		return
	}
	nAbove := vf.Pick(r, 2, 3) // blocks above the genesis block
	budgets := vf.Pick(r, map[string]int{"dup": 1, "restart": 1}, map[string]int{"dup": 1, "restart": 1})
	r.Assume = []string{
		"event level: events are pushed into the real headerInCh/dataInCh one at a time and the SyncLoop runs to quiescence in between (a buffered pair consumed in either order has the same consumer-side history as one of the explored orders)",
		"data metadata is not compared; an empty block needs only its header",
		"producer chains are produced by a real aggregator run; executor double = hash-chain reference",
		"ingress level: all five loops of the full node under the cooperative scheduler; blobs within <=2/3 deviations from the in-order placement on 3 DA heights; P2P stores empty or holding the chain; the sends into the sync loop's input channels are diverted into harness-side FIFOs (buffered-channel semantics) and the explorer decides at every point where an event is deliverable who goes next (a producer running ahead, the next header, the next data event; <=1/2 deviations from 'producers, headers, data') and whether the node is cleanly restarted right there — between two steps of its threads, in the middle of a tick, with the scan ahead of the sync loop: the events still queued (scanned, marked DA-included, not yet taken by the sync loop) are lost with the process, the caches are saved (SaveCache) and loaded by the next NewManager from the same directory, the store image is kept, and the DA layer is scanned again; a stop keeps nothing but store and caches, so within one tick the decision is offered once per distinct (store write log, header cache, data cache) state",
		"custom signature payload provider: one fixed non-default provider (payload = sha256 of a tag and the header bytes, world.CustomPayloadProvider) configured on the producing aggregator and on the full node through ManagerOptions.SignaturePayloadProvider; header events carry the verifier the two ingress paths attach (block/retriever.go, block/store.go) before they push them; the statement's guarantees do not depend on which provider the chain is configured with",
		"long catch-up: the producer chains are committed by a real aggregator (world.BuildLongChain): the empty block at height 1, then empty blocks except the blocks on both sides of every multiple of 64 (heights 64, 65, 128, 129, ..., 256, 257, ...) and the last one, which carry 1..3 transactions naming the block (no two blocks share a data commitment); all five loops of the full node run under the cooperative scheduler in its canonical schedule (the thread that ran last goes on, else the first by name; queued events: headers before data) — interleavings are the business of the other parts, this part varies only the SIZE of what one poll of an ingress finds; the sends into the sync loop's input channels go into the harness-side FIFOs, which are unbounded — exact for the lengths explored, because a chain of L <= 4100 blocks yields fewer events than the capacity of the real channels (eventInChLength = 10000), so neither is ever full; backlogs beyond that capacity are outside the bound; liveness is judged by progress, not by a fixed number of polls: ticker rounds (DA tick + P2P tick, each run to quiescence) go on while the node's height moves and the run ends after 3 rounds without movement, so an implementation that works a backlog off in several polls is not faulted",
		"crowded heights: the retrieval batch size of types.RetrieveWithHelpers is taken as 100 (C09 measures it); filler blobs are short non-protobuf byte strings",
	}
	var patterns []string
	for k := 1; k <= nAbove; k++ {
		patterns = append(patterns, world.Patterns("eab", k)...)
	}
	ingressReserve := vf.Pick(r, 0*time.Second, 9*time.Minute)
	var total explore.Stats
	type job struct {
		pattern string
		initial uint64
		custom  bool // non-default signature payload provider on producer and full node
		budgets map[string]int
		total   int // if >0: maximal number of deviations over all classes (thorough, chains of 3 blocks: one duplicate OR one restart)
	}
	var jobs []job
	for _, pt := range patterns {
		tot := 0
		if len(pt) >= 3 {
			tot = 1
		}
		jobs = append(jobs, job{pt, 1, false, budgets, tot})
	}
	jobs = append(jobs, job{"ab", 3, false, budgets, 0}, job{"ea", 3, false, budgets, 0})
	// configuration dimension "custom signature payload provider": the same chains and every permutation of their
	// events with at most one clean restart at any idle point (quick: no duplicate — a re-delivered header replaces the
	// cached one and so hides whatever the cache file did to it; thorough: duplicates as well on chains of <=2 blocks)
	customBudgets := map[string]int{"dup": 0, "restart": 1}
	nDefaultJobs := len(jobs)
	for _, j := range jobs[:nDefaultJobs] {
		b := customBudgets
		if r.Thorough() && len(j.pattern) <= 2 {
			b = budgets
		}
		jobs = append(jobs, job{j.pattern, j.initial, true, b, j.total})
	}
	// the (small) custom-provider jobs run first so that a deadline under load never cuts them
	jobs = append(append([]job(nil), jobs[nDefaultJobs:]...), jobs[:nDefaultJobs]...)
	if r.ReplayPath() != "" {
		var h struct {
			Pattern string
			Initial uint64
			Ingress bool
			Crowded bool
			Custom  bool
			Long    bool // long catch-up part: chain of Total blocks, Mode of longModes (no choices: canonical schedule)
			Total   int
			Mode    string
			Choices []explore.Point
		}
		if _, err := r.LoadReplay(&h); err != nil {
			r.EngineError(err.Error())
		} else if h.Long {
			if pc, err := world.BuildLongChain(h.Total); err != nil {
				r.EngineError(err.Error())
			} else if o, _, _ := longBody(t, pc, h.Mode); o.fail != nil {
				fmt.Println(o.fail.Msg, o.trace)
				r.Report(vf.Violation{Clause: o.fail.Clause, Tags: []string{"ingress-level", "long-catch-up", "long-catch-up:" + h.Mode}, Msg: o.fail.Msg, Cost: h.Total, History: h})
			}
		} else if pc, err := world.BuildChainFor(h.Pattern, h.Initial, h.Custom); err != nil {
			r.EngineError(err.Error())
		} else {
			explore.ReplayOne(h.Choices, func(c *explore.Ctx) {
				o := outcome{}
				if h.Ingress {
					o = ingressBody(t, c, pc, h.Crowded)
				} else {
					o = body(t, c, pc)
				}
				if o.fail != nil {
					fmt.Println(o.fail.Msg, o.trace)
					r.Report(vf.Violation{Clause: o.fail.Clause, Tags: o.tags, Msg: o.fail.Msg, History: h})
				}
			})
		}
		r.Finish(vf.Coverage{Evaluations: 1, DistinctNontrivial: 1})
		return
	}
	budget := vf.Pick(r, 100*time.Second, 25*time.Minute)
	if k, err := strconv.Atoi(os.Getenv("VERIF_C02_DEADLINE_SCALE")); err == nil && k > 1 {
		budget *= time.Duration(k) // measuring aid for a machine that is shared with other runs (never set by ./check)
	}
	deadline := time.Now().Add(budget)
	var caps []string
	l2patterns := vf.Pick(r, []string{"ab"}, []string{"ab", "ea"})
	// level 2, long catch-up: every chain length of the dense ranges (and a few single longer ones) in every mode, canonical
	// schedule; bounded work, run first so that the deadline never cuts it
	longDense := vf.Pick(r, [][2]int{{2, 132}, {250, 264}}, [][2]int{{2, 600}, {1020, 1030}, {2044, 2052}})
	longSparse := vf.Pick(r, []int{200, 300, 400, 520, 1030}, []int{4100})
	longLs := longLengths(longDense, longSparse)
	longCPU0 := cpuSeconds()
	long := longPart(t, r, longLs)
	longCPU := cpuSeconds() - longCPU0
	// level 2, crowded heights: every (filler count, DA height, ahead) configuration; small and run first so that the deadline never cuts it
	crowdBudgets := vf.Pick(r, map[string]int{"order": 0, "restart": 0}, map[string]int{"order": 1, "restart": 1})
	var crowdRuns, crowdPoints, customRuns int64
	crowdNs, crowdConfigs := map[string][]int{}, 0
	for _, pt := range l2patterns {
		pc, err := world.BuildChain(pt, 1)
		if err != nil {
			r.EngineError(err.Error())
			continue
		}
		crowdNs[pt] = crowdFillers(len(pc.Events()))
		crowdConfigs += len(crowdNs[pt]) * 3 * 2
		left := time.Until(deadline)
		if left <= 0 {
			caps = append(caps, "deadline reached before crowded ingress pattern "+pt)
			break
		}
		st := explore.Explore(explore.Config{Budgets: crowdBudgets, Deadline: left, ShardDepth: 2}, func(c *explore.Ctx) {
			o := ingressBody(t, c, pc, true)
			if o.fail != nil {
				r.Report(vf.Violation{Clause: o.fail.Clause, Tags: append(o.tags, "ingress-level", "crowded-height"), Msg: fmt.Sprintf("[ingress level, crowded DA height, chain genesis+%q] %s\n %s", pt, o.fail.Msg, strings.Join(o.trace, " ")), Cost: c.Cost(), History: map[string]any{"Pattern": pt, "Initial": 1, "Ingress": true, "Crowded": true, "Choices": c.Choices()}})
				r.Outcome("L2:crowded:fail:" + o.fail.Clause)
				return
			}
			r.Outcome("L2:crowded:" + pt + ":" + strings.Join(o.trace, " "))
			if c.Cost() >= 2 {
				r.Sample(map[string]any{"level": "ingress, crowded height", "chain": "genesis+" + pt, "trace": strings.Join(o.trace, " "), "final_height": o.height})
			}
		})
		crowdRuns += st.Executions
		crowdPoints += st.Points
		for _, m := range st.Nondet {
			r.EngineError("nondeterminism (ingress level, crowded): " + m)
		}
		if st.Capped != "" {
			caps = append(caps, "crowded ingress "+pt+": "+st.Capped)
		}
	}
	var l2 explore.Stats
	// level 2 in the configuration 'non-default signature payload provider': the real ingress loops attach the provider,
	// the clean restart between any two steps carries whatever waits in the caches through the cache file
	l2customBudgets := vf.Pick(r, map[string]int{"place": 0, "order": 0, "restart": 1}, map[string]int{"place": 1, "order": 1, "restart": 1})
	var l2customRuns int64
	for _, pt := range l2patterns {
		pc, err := world.BuildChainCustom(pt, 1)
		if err != nil {
			r.EngineError(err.Error())
			continue
		}
		left := time.Until(deadline)
		if left <= 0 {
			caps = append(caps, "deadline reached before ingress pattern "+pt+" (custom signature payload provider)")
			break
		}
		st := explore.Explore(explore.Config{Budgets: l2customBudgets, Deadline: left, ShardDepth: 3}, func(c *explore.Ctx) {
			o := ingressBody(t, c, pc, false)
			if o.fail != nil {
				tags := append(o.tags, "ingress-level")
				if !has(tags, "custom-signature-payload-provider") {
					tags = append(tags, "custom-signature-payload-provider")
				}
				r.Report(vf.Violation{Clause: o.fail.Clause, Tags: tags, Msg: fmt.Sprintf("[ingress level, chain genesis+%q, custom signature payload provider] %s\n %s", pt, o.fail.Msg, strings.Join(o.trace, " ")), Cost: c.Cost(), History: map[string]any{"Pattern": pt, "Initial": 1, "Ingress": true, "Custom": true, "Choices": c.Choices()}})
				r.Outcome("L2:custom:fail:" + o.fail.Clause)
				return
			}
			r.Outcome("L2:custom:" + pt + ":" + strings.Join(o.trace, " "))
		})
		l2customRuns += st.Executions
		l2.Executions += st.Executions
		l2.Points += st.Points
		for _, m := range st.Nondet {
			r.EngineError("nondeterminism (ingress level, custom signature payload provider): " + m)
		}
		if st.Capped != "" {
			caps = append(caps, "ingress "+pt+" (custom signature payload provider): "+st.Capped)
		}
	}
	for _, j := range jobs {
		pc, err := world.BuildChainFor(j.pattern, j.initial, j.custom)
		if err != nil {
			r.EngineError("producer chain " + j.pattern + ": " + err.Error())
			continue
		}
		cfgName, okey := "", j.pattern
		if j.custom {
			cfgName, okey = " custom-signature-payload-provider", "custom:"+j.pattern
		}
		left := time.Until(deadline) - ingressReserve // the ingress level below keeps its share of the deadline
		if left <= 0 {
			caps = append(caps, "deadline share of the event level reached before pattern "+j.pattern)
			break
		}
		st := explore.Explore(explore.Config{Budgets: j.budgets, Total: j.total, Deadline: left, ShardDepth: 2}, func(c *explore.Ctx) {
			o := body(t, c, pc)
			if o.fail != nil {
				r.Report(vf.Violation{Clause: o.fail.Clause, Tags: o.tags, Msg: fmt.Sprintf("%s\n chain: genesis+%q initial=%d%s\n deliveries: %s", o.fail.Msg, j.pattern, j.initial, cfgName, strings.Join(o.trace, " ")), Cost: len(o.trace), History: map[string]any{"Pattern": j.pattern, "Initial": j.initial, "Custom": j.custom, "Choices": c.Choices()}})
				r.Outcome("fail:" + o.fail.Clause + ":" + okey)
				return
			}
			r.Outcome(okey + ":" + strings.Join(o.trace, " "))
			if c.Cost() >= 3 || (j.custom && c.Cost() >= 2 && len(o.trace) >= 5) {
				r.Sample(map[string]any{"chain": "genesis+" + j.pattern, "custom_signature_payload_provider": j.custom, "deliveries": strings.Join(o.trace, " "), "final_height": o.height})
			}
		})
		total.Executions += st.Executions
		total.Points += st.Points
		if j.custom {
			customRuns += st.Executions
		}
		for _, m := range st.Nondet {
			r.EngineError("nondeterminism: " + m)
		}
		if st.Capped != "" {
			caps = append(caps, j.pattern+": "+st.Capped)
		}
	}
	// level 2: ingress loops, DA placement, restart between any two steps
	l2budgets := vf.Pick(r, map[string]int{"place": 1, "order": 1, "restart": 1}, map[string]int{"place": 2, "order": 1, "restart": 1})
	for _, pt := range l2patterns {
		pc, err := world.BuildChain(pt, 1)
		if err != nil {
			r.EngineError(err.Error())
			continue
		}
		left := time.Until(deadline)
		if left <= 0 {
			caps = append(caps, "deadline reached before ingress pattern "+pt)
			break
		}
		st := explore.Explore(explore.Config{Budgets: l2budgets, Deadline: left, ShardDepth: 3}, func(c *explore.Ctx) {
			o := ingressBody(t, c, pc, false)
			if o.fail != nil {
				r.Report(vf.Violation{Clause: o.fail.Clause, Tags: append(o.tags, "ingress-level"), Msg: fmt.Sprintf("[ingress level, chain genesis+%q] %s\n %s", pt, o.fail.Msg, strings.Join(o.trace, " ")), Cost: c.Cost(), History: map[string]any{"Pattern": pt, "Initial": 1, "Ingress": true, "Choices": c.Choices()}})
				r.Outcome("L2:fail:" + o.fail.Clause)
				return
			}
			r.Outcome("L2:" + pt + ":" + strings.Join(o.trace, " "))
			if c.Cost() >= 2 {
				r.Sample(map[string]any{"level": "ingress", "chain": "genesis+" + pt, "trace": strings.Join(o.trace, " "), "final_height": o.height})
			}
		})
		l2.Executions += st.Executions
		l2.Points += st.Points
		for _, m := range st.Nondet {
			r.EngineError("nondeterminism (ingress level): " + m)
		}
		if st.Capped != "" {
			caps = append(caps, "ingress "+pt+": "+st.Capped)
		}
	}
	l2.Executions += crowdRuns + long.runs
	l2.Points += crowdPoints + long.steps
	total.Executions += l2.Executions
	total.Points += l2.Points
	r.Finish(vf.Coverage{
		Evaluations: total.Executions, DistinctNontrivial: int64(r.DistinctOutcomes()), States: total.Executions, Transitions: total.Points,
		Rule:       "for every producer chain pattern over {empty, A, B} of 1..n blocks above the genesis block (incl. identical transaction lists) and two chains with initial height 3: every permutation of the header/data events, with at most one duplicated event at any later position and at most one clean stop/restart at any idle point (chains of 3 blocks above genesis, thorough tier only: one duplicate OR one restart); the same chains once more in the configuration 'non-default signature payload provider on producer and full node' (every permutation, at most one clean restart at any idle point — so every set of headers/data waiting in the caches travels through the cache file — duplicates per custom_payload_budgets); ingress level (all five loops, restart between any two steps) once more with the non-default signature payload provider within ingress_custom_payload_budgets, and additionally in the crowded-height configuration: all genuine blobs at one DA height (each of the 3) behind N filler blobs, for every N that puts a genuine blob on an index in {b-1, b, b+1, 2b, 2b+1} of the height (b = retrieval batch size 100), scan ahead of or in step with the DA layer, DA the only ingress; ingress level, long catch-up (a node far behind; canonical schedule, no interleaving exploration): for EVERY chain length L in the ranges long_catchup_dense_ranges (all small lengths and a window around the power of two 256, more at the thorough tier) and the single lengths long_catchup_sparse_lengths, in every one of the 7 long_catchup_modes — p2p: both P2P stores hold heights 1..L at the node's first poll, nothing on DA; p2p-two-polls: the stores hold 1..L/8 at the first poll and 1..L at the second; da-one-height: all L header blobs and all data blobs at DA height 1; da-spread: block i's blobs at DA height i+1 with the DA layer L heights ahead; split-heights: lower half only in the P2P stores, upper half only on DA; split-p2p-headers: headers only in the P2P header store, data only on DA; split-p2p-data: data only in the P2P data store, headers only on DA — the node must reach height L with the proposer's header hashes, transactions, state roots and execution order (clauses of world.CheckFollows; the order/identity/monotonicity clauses are also checked after every ticker round); distinct = distinct delivery traces (long catch-up: distinct (mode, L, rounds, final height))",
		Exhaustive: true, Caps: caps,
		Bounds: map[string]any{"blocks_above_genesis": nAbove, "chains_of_3_blocks_max_deviations": 1, "patterns": nDefaultJobs, "budgets": budgets, "custom_payload_patterns": len(jobs) - nDefaultJobs, "custom_payload_budgets": customBudgets, "custom_payload_budgets_thorough_chains_up_to_2_blocks": budgets, "custom_payload_executions_shard0": customRuns, "ingress_patterns": l2patterns, "ingress_budgets": l2budgets, "ingress_executions": l2.Executions, "ingress_custom_payload_budgets": l2customBudgets, "ingress_custom_payload_executions_shard0": l2customRuns, "ingress_crowded_budgets": crowdBudgets, "ingress_crowded_executions_shard0": crowdRuns, "ingress_crowded_configurations": crowdConfigs, "ingress_crowded_filler_counts": crowdNs, "ingress_crowded_retrieval_batch": retrievalBatch,
			"long_catchup_dense_ranges": longDense, "long_catchup_sparse_lengths": longSparse, "long_catchup_modes": longModes, "long_catchup_configurations": len(longLs) * len(longModes), "long_catchup_executions_shard0": long.runs, "long_catchup_blocks_synced_shard0": long.blocks, "long_catchup_scheduler_steps_shard0": long.steps, "long_catchup_max_ticker_rounds_shard0": long.maxRounds, "long_catchup_idle_rounds_before_verdict": idleRounds, "long_catchup_cpu_seconds_shard0": math.Round(longCPU*10) / 10},
	})
}
