package c12

import (
	"encoding/json"
	"fmt"
	"os"
	"testing"
	"time"
)

// TestConcDev: development aid, part (0) alone (VERIF_C12_CONCDEV=quick|thorough).
func TestConcDev(t *testing.T) {
	tier := os.Getenv("VERIF_C12_CONCDEV")
	if tier == "" {
		t.Skip("development aid")
	}
	z := ConcSizes{Big: 8 << 20, Mid: 1 << 20, AllSize: 1 << 20, PairSize: 1 << 20, Long: 2, Short: 2000, Rounds: 2, Pairs: false, LimitPerRun: 60 * time.Second, Measure: true}
	if tier == "thorough" {
		z = ConcSizes{Big: 64 << 20, Mid: 8 << 20, AllSize: 2 << 20, PairSize: 1 << 20, Long: 3, Short: 5000, Rounds: 5, Pairs: true, LimitPerRun: 60 * time.Second, Measure: true}
	}
	t0, c0 := time.Now(), cpuSeconds()
	fs, st := RunConcurrentCalls(z, os.Getenv("VERIF_C12_CONCFN"), os.Getenv("VERIF_C12_CONCLAYOUT"), "")
	bz, _ := json.MarshalIndent(st, "", " ")
	fmt.Printf("%s\nwall %.1fs cpu %.1fs findings %d\n", bz, time.Since(t0).Seconds(), cpuSeconds()-c0, len(fs))
	for i, f := range fs {
		if i < 5 {
			fmt.Println(f.Clause, f.Fn, f.Layout, f.Kind, f.Other, "\n", f.Msg)
		}
	}
}
