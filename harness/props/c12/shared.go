package c12

import (
	"encoding/json"
	"fmt"
)

// declarations shared by the check (test files) and the non-test files that props/c12/race imports

type caseRef struct {
	Part    string          `json:"part"` // value | cache | decode | golden | commitment | history | node
	Type    string          `json:"type,omitempty"`
	Spec    json.RawMessage `json:"spec,omitempty"`
	Paths   string          `json:"paths,omitempty"`   // fast | full
	Decoder string          `json:"decoder,omitempty"` // decode: decoder name, or cache:<kind>:<file>
	Input   string          `json:"input,omitempty"`   // decode: hex of the input
	Name    string          `json:"name,omitempty"`    // golden: vector name
	Mode    string          `json:"mode,omitempty"`    // history: fresh | reuse | walk
	Hist    []string        `json:"hist,omitempty"`    // history: names of the pool messages, in decode order
}

type finding struct {
	clause string
	tags   []string
	msg    string
	ref    caseRef
	cost   int
}

type decoder struct {
	name string
	dec  func([]byte) (any, error)
	enc  func(any) ([]byte, error)
}

var decoders = []decoder{
	{"Header", decBinaryHeader, encBinary},
	{"SignedHeader", decBinarySignedHeader, encBinary},
	{"Data", decBinaryData, encBinary},
	{"SignedData", decBinarySignedData, encBinary},
	{"Metadata", decBinaryMeta, encBinary},
	{"State", decProtoState, encProto},
	{"BatchCursor", decBatch, encBatch},
}

func safeDec(d decoder, in []byte) (out any, err error, panicMsg string) {
	defer func() {
		if x := recover(); x != nil {
			panicMsg = fmt.Sprint(x)
		}
	}()
	out, err = d.dec(in)
	return
}

func safeEnc(d decoder, v any) (out []byte, err error, panicMsg string) {
	defer func() {
		if x := recover(); x != nil {
			panicMsg = fmt.Sprint(x)
		}
	}()
	out, err = d.enc(v)
	return
}
