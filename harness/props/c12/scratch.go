package c12

import (
	"os"
	"path/filepath"
	"sync"
)

// scratch directories are reused (creating and removing directories dominates the run time otherwise): "in" holds at
// most one file at a time, "out" is only ever written by SaveToDisk, which rewrites all four files.
type scratch struct {
	in, out  string
	lastFile string
}

var (
	scratchPool sync.Pool
	scratchAll  sync.Map
)

func getScratch() *scratch {
	if x := scratchPool.Get(); x != nil {
		return x.(*scratch)
	}
	root, err := os.MkdirTemp("", "c12-scratch-")
	if err != nil {
		panic(err)
	}
	sc := &scratch{in: filepath.Join(root, "in"), out: filepath.Join(root, "out")}
	if err := os.MkdirAll(sc.in, 0o755); err != nil {
		panic(err)
	}
	if err := os.MkdirAll(sc.out, 0o755); err != nil {
		panic(err)
	}
	scratchAll.Store(root, true)
	return sc
}

func putScratch(sc *scratch) { scratchPool.Put(sc) }

func removeScratch() {
	scratchAll.Range(func(k, _ any) bool { os.RemoveAll(k.(string)); return true })
}
