// Package race is the free-running supplement of C12 part (0) (see props/c13/race for the rationale): the same table of
// hash / encode / decode / validate functions is called by 2 and by 8 goroutines on different values and on one shared
// value, by all functions at once and by every pair of functions, under the Go race detector. Between the start barrier
// and their end the goroutines touch no shared harness state (no counters: atomic operations of the harness would be
// happens-before edges that hide races), so state shared by the functions themselves — a package-level digest, buffer or
// memo — is reported on every run, whatever the timing. Sampling; decides nothing. The parent check turns reports that
// involve repository code into clause "data-race".
package race

import (
	"fmt"
	"os"
	"strconv"
	"testing"

	"verif/harness/props/c12"
)

func TestRaceFree(t *testing.T) {
	rounds := 1
	if n, err := strconv.Atoi(os.Getenv("VERIF_RACE_ROUNDS")); err == nil && n > 0 {
		rounds = n
	}
	var runs, calls int64
	failed, fns := 0, 0
	for r := 0; r < rounds; r++ {
		// small sizes: the detector needs the accesses, not the overlap
		z := c12.ConcSizes{Big: 256 << 10, Mid: 64 << 10, PairSize: 32 << 10, AllSize: 64 << 10, Long: 2, Short: 8, Rounds: 1, Pairs: true, Measure: false}
		fs, st := c12.RunConcurrentCalls(z, "", "", "")
		runs += st.Runs
		calls += st.Calls
		failed += len(fs)
		fns = st.Functions
	}
	fmt.Printf("RACE-PASS functions=%d runs=%d calls=%d function_layouts_with_wrong_results_or_panics=%d\n", fns, runs, calls, failed)
}
