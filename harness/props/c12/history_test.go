package c12

import (
	"bytes"
	"encoding/json"
	"fmt"
	"os"
	"os/exec"
	"path/filepath"
	"sort"
	"strconv"
	"strings"
	"sync"
	"sync/atomic"
	"testing"

	"github.com/libp2p/go-libp2p/core/crypto"
	"google.golang.org/protobuf/proto"

	"github.com/evstack/ev-node/types"
	pb "github.com/evstack/ev-node/types/pb/evnode/v1"

	"verif/harness/vf"
)

// Part (d): decode HISTORIES.
//
// Parts (a)-(c) judge every decode on its own. A decoder whose result depends on what the process decoded earlier
// (package-level memo keyed by something weaker than the bytes, reused scratch buffer, pooled receiver that is not
// reset) passes all of them. This part enumerates ordered histories of decodes over a small pool of messages that
// collide pairwise on every sub-key one could memoize on, and demands that each message decodes exactly as it does
// when it is the first thing a process ever decodes.
//
// A package-level cache cannot be emptied from outside, so "fresh process state" is a fresh PROCESS: every history runs
// in its own child (re-exec of this test binary, TestHistoryChild), which receives the wire bytes from the parent,
// does nothing but decode them in order, and only afterwards dumps the decoded values (canonical fields, hashes,
// signature validity, ValidateBasic verdict, re-encoded bytes, re-decode fixed point). The expectation for a message
// is the dump of the one-element history [m]. The parent judges.
//
// Oracle clauses: history-decode-value, history-decode-hash, history-decode-signature, history-decode-bytes,
// decode-fixed-point, decoder-panic (tags: mode, history length, step, type, colliding sub-keys, differing fields);
// roundtrip-value for the pool messages themselves (fresh decode vs the value the bytes were encoded from).

// ---- the pool ----------------------------------------------------------------------------------------------------------

type helem struct {
	Name    string            `json:"name"`
	Dec     string            `json:"dec"`             // decoder (see hdecs) or cache:header / cache:data
	Bytes   []byte            `json:"bytes,omitempty"` // the wire bytes
	Files   map[string][]byte `json:"files,omitempty"` // cache elements: the four gob files
	Encoded bool              `json:"encoded"`         // the bytes are the encoder's output for a value
	Keys    map[string]string `json:"keys,omitempty"`  // sub-keys a memo could be keyed on
	want    []field           // parent only: canonical fields of the value the bytes were encoded from
}

// hdec decodes into a given receiver (nil = fresh zero value), exactly as the node's call sites do.
type hdec struct {
	name   string
	gotype string // receiver type; "" = the API has no receiver (function result / fresh cache)
	fresh  func() any
	into   func(recv any, b []byte) error
	enc    func(any) ([]byte, error)
}

var hdecs = []hdec{
	{"Header", "Header", func() any { return new(types.Header) }, func(r any, b []byte) error { return r.(*types.Header).UnmarshalBinary(b) }, encBinary},
	{"SignedHeader", "SignedHeader", func() any { return new(types.SignedHeader) }, func(r any, b []byte) error { return r.(*types.SignedHeader).UnmarshalBinary(b) }, encBinary},
	{"SignedHeader/proto", "SignedHeader", func() any { return new(types.SignedHeader) }, func(r any, b []byte) error { // block/retriever.go:113-121
		var p pb.SignedHeader
		if err := proto.Unmarshal(b, &p); err != nil {
			return err
		}
		return r.(*types.SignedHeader).FromProto(&p)
	}, encProto},
	{"Data", "Data", func() any { return new(types.Data) }, func(r any, b []byte) error { return r.(*types.Data).UnmarshalBinary(b) }, encBinary},
	{"SignedData", "SignedData", func() any { return new(types.SignedData) }, func(r any, b []byte) error { return r.(*types.SignedData).UnmarshalBinary(b) }, encBinary},
	{"Metadata", "Metadata", func() any { return new(types.Metadata) }, func(r any, b []byte) error { return r.(*types.Metadata).UnmarshalBinary(b) }, encBinary},
	{"State", "State", func() any { return new(types.State) }, func(r any, b []byte) error { // pkg/store/store.go:198-206
		var p pb.State
		if err := proto.Unmarshal(b, &p); err != nil {
			return err
		}
		return r.(*types.State).FromProto(&p)
	}, encProto},
}

func hdecOf(name string) *hdec {
	for i := range hdecs {
		if hdecs[i].name == name {
			return &hdecs[i]
		}
	}
	return nil
}

func goTypeOf(e *helem) string {
	if d := hdecOf(e.Dec); d != nil {
		return d.gotype
	}
	return ""
}

func short(b []byte) string {
	if len(b) > 8 {
		b = b[:8]
	}
	return hx(b)
}

func pubBytes(s types.Signer) string {
	if s.PubKey == nil {
		return "none"
	}
	raw, _ := s.PubKey.Raw()
	return fmt.Sprintf("%v:%s", s.PubKey.Type(), hx(raw))
}

func headerKeys(h *types.Header, k map[string]string) {
	k["height"] = fmt.Sprint(h.BaseHeader.Height)
	k["time"] = fmt.Sprint(h.BaseHeader.Time)
	k["chain-id"] = h.BaseHeader.ChainID
	k["proposer-address"] = hx(h.ProposerAddress)
	k["data-hash"] = hx(h.DataHash)
	k["app-hash"] = hx(h.AppHash)
	k["last-header-hash"] = hx(h.LastHeaderHash)
	k["header-hash"] = hx(h.Hash())
}

func dataKeys(d *types.Data, k map[string]string) {
	if d.Metadata != nil {
		k["metadata"] = "present"
		k["height"] = fmt.Sprint(d.Metadata.Height)
		k["time"] = fmt.Sprint(d.Metadata.Time)
		k["chain-id"] = d.Metadata.ChainID
		k["last-data-hash"] = hx(d.Metadata.LastDataHash)
	} else {
		k["metadata"] = "nil"
	}
	k["tx-count"] = fmt.Sprint(len(d.Txs))
	k["tx-list(commitment)"] = hx(d.DACommitment())
	k["data-hash-of-value"] = hx(d.Hash())
}

func signerKeys(s types.Signer, sig []byte, k map[string]string) {
	k["signer-address"] = hx(s.Address)
	k["signer-pubkey"] = pubBytes(s)
	k["signature"] = hx(sig)
}

func valueKeys(v any) map[string]string {
	k := map[string]string{}
	switch x := v.(type) {
	case *types.Header:
		headerKeys(x, k)
	case *types.SignedHeader:
		headerKeys(&x.Header, k)
		signerKeys(x.Signer, x.Signature, k)
	case *types.Data:
		dataKeys(x, k)
	case *types.SignedData:
		dataKeys(&x.Data, k)
		signerKeys(x.Signer, x.Signature, k)
	case *types.Metadata:
		k["height"] = fmt.Sprint(x.Height)
		k["time"] = fmt.Sprint(x.Time)
		k["chain-id"] = x.ChainID
		k["last-data-hash"] = hx(x.LastDataHash)
	case *types.State:
		k["height"] = fmt.Sprint(x.LastBlockHeight)
		k["chain-id"] = x.ChainID
		k["app-hash"] = hx(x.AppHash)
		k["da-height"] = fmt.Sprint(x.DAHeight)
		k["time"] = fmt.Sprint(x.LastBlockTime.UnixNano())
	case [][]byte:
		k["entries"] = fmt.Sprint(len(x))
		if len(x) > 0 {
			k["first-entry"] = hx(x[0])
		}
	}
	return k
}

type poolBuilder struct {
	out   []helem
	names map[string]bool
}

func (p *poolBuilder) add(e helem) {
	if p.names[e.Name] {
		panic("duplicate pool element " + e.Name)
	}
	p.names[e.Name] = true
	if e.Keys == nil {
		e.Keys = map[string]string{}
	}
	e.Keys["decoder"] = e.Dec
	if e.Files == nil {
		e.Keys["wire-length"] = fmt.Sprint(len(e.Bytes))
		e.Keys["wire-prefix-8"] = short(e.Bytes)
	}
	p.out = append(p.out, e)
}

// value adds the encoder's output for v.
func (p *poolBuilder) value(name, dec string, v any) {
	var enc func(any) ([]byte, error)
	if dec == "BatchCursor" {
		enc = encBatch
	} else {
		enc = hdecOf(dec).enc
	}
	bz, err := enc(v)
	if err != nil {
		panic(fmt.Sprintf("pool element %s does not encode: %v", name, err))
	}
	p.add(helem{Name: name, Dec: dec, Bytes: bz, Encoded: true, Keys: valueKeys(v), want: canonOf(v)})
}

// raw adds bytes no encoder of the repository produces (sub-messages absent, junk); keysFrom = the value whose sub-keys
// the bytes carry (for the collision tags).
func (p *poolBuilder) raw(name, dec string, m proto.Message, keysFrom any) {
	bz, err := proto.Marshal(m)
	if err != nil {
		panic(err)
	}
	p.rawBytes(name, dec, bz, keysFrom)
}

func (p *poolBuilder) rawBytes(name, dec string, bz []byte, keysFrom any) {
	var k map[string]string
	if keysFrom != nil {
		k = valueKeys(keysFrom)
	}
	p.add(helem{Name: name, Dec: dec, Bytes: bz, Keys: k})
}

func (p *poolBuilder) cacheFiles(name, kind string, cs CacheSpec, keysFrom any) {
	files, err := saveCacheFiles(cs)
	if err != nil {
		panic(err)
	}
	fb := map[string][]byte{}
	for n, h := range files {
		fb[n] = unhexBytes(h)
	}
	k := valueKeys(keysFrom)
	k["cache-item-height"] = fmt.Sprint(cs.Items[0].Height)
	p.add(helem{Name: name, Dec: "cache:" + kind, Files: fb, Encoded: true, Keys: k, want: expectedCacheDump(cs).canon()})
}

func unhexBytes(s string) []byte {
	b := make([]byte, len(s)/2)
	for i := range b {
		v, err := strconv.ParseUint(s[2*i:2*i+2], 16, 8)
		if err != nil {
			panic(err)
		}
		b[i] = byte(v)
	}
	return b
}

func mustPub(s types.Signer) []byte {
	bz, err := crypto.MarshalPublicKey(s.PubKey)
	if err != nil {
		panic(err)
	}
	return bz
}

func signHeader(h *types.Header, who int) []byte {
	payload, err := types.DefaultSignaturePayloadProvider(h)
	if err != nil {
		panic(err)
	}
	return signBy(who, payload)
}

const (
	byK1 = iota
	byK2
	bySecp
)

func signBy(who int, payload []byte) []byte {
	var sig []byte
	var err error
	switch who {
	case byK1:
		sig, err = edS().Sign(payload)
	case byK2:
		sig, err = ed2S().Sign(payload)
	default:
		sig, err = keysOnce().secpPriv.Sign(payload)
	}
	if err != nil {
		panic(err)
	}
	return sig
}

func cp(b []byte) []byte { return append([]byte(nil), b...) }

// buildPool is deterministic (fixed keys, fixed values): a history is replayable from the element names alone.
//
// Collision design: for every sub-key a memo could plausibly use there are at least two elements that agree on it and
// differ in what would be memoized under it:
//
//	signer address  — K1@A1 (genuine) vs K2@A1 vs secp@A1            signer public key — K1@A1 vs K1@A2; K2@A1 vs K2@A2
//	header hash     — same header under different signers/signatures  height/time/chain — same height, other contents
//	signature       — same signature over other contents              data hash / tx list — same txs, other/no metadata
//	metadata        — same metadata, other txs                        wire length / prefix — equal-length variants
//	sub-messages    — present vs absent (version, signer, data, metadata, timestamp), for pooled receivers not reset
//	key type        — ed25519 vs secp256k1                            decode outcome — clean failures next to successes
func buildPool() []helem {
	p := &poolBuilder{names: map[string]bool{}}
	k1 := types.Signer{PubKey: edS().Pub(), Address: cp(edS().Addr())}
	k2 := types.Signer{PubKey: ed2S().Pub(), Address: cp(ed2S().Addr())}
	ks := types.Signer{PubKey: keysOnce().secpPub, Address: cp(secpAddrB())}
	a1, a2 := k1.Address, k2.Address
	at := func(s types.Signer, addr []byte) types.Signer {
		return types.Signer{PubKey: s.PubKey, Address: cp(addr)}
	}

	// ---- headers
	h1 := typicalHeaderSpec().build() // height 42, proposer = A1
	h1b := typicalHeaderSpec().build()
	h1b.AppHash = sha("c12-other-app-hash") // same height, time, chain, proposer; other contents
	h1h := typicalHeaderSpec().build()
	h1h.BaseHeader.Height = 43 // same contents, other height
	h1p2 := typicalHeaderSpec().build()
	h1p2.ProposerAddress = cp(a2)
	h1ps := typicalHeaderSpec().build()
	h1ps.ProposerAddress = cp(ks.Address)
	hz := zeroHeaderSpec().build()
	hm := maxHeaderSpec().build()
	p.value("header/typical", "Header", &h1)
	p.value("header/same-height-other-app-hash", "Header", &h1b)
	p.value("header/same-contents-other-height", "Header", &h1h)
	p.value("header/zero", "Header", &hz)
	p.value("header/max", "Header", &hm)
	{
		ph := h1.ToProto()
		ph.Version = nil
		p.raw("header/raw-no-version-submessage", "Header", ph, &h1)
	}

	// ---- signed headers
	sh := func(h types.Header, sig []byte, s types.Signer) *types.SignedHeader {
		return &types.SignedHeader{Header: h, Signature: sig, Signer: s}
	}
	sigH1K1 := signHeader(&h1, byK1)
	shGenuine := sh(h1, sigH1K1, k1)
	shForged := sh(h1, signHeader(&h1, byK2), at(k2, a1))
	p.value("signedheader/genuine-K1@A1", "SignedHeader", shGenuine)
	p.value("signedheader/same-address-other-key-K2@A1", "SignedHeader", shForged)
	p.value("signedheader/same-key-other-address-K1@A2", "SignedHeader", sh(h1, sigH1K1, at(k1, a2)))
	p.value("signedheader/same-height-and-signer-other-contents", "SignedHeader", sh(h1b, signHeader(&h1b, byK1), k1))
	p.value("signedheader/same-signature-other-contents", "SignedHeader", sh(h1b, sigH1K1, k1))
	p.value("signedheader/genuine-K2@A2", "SignedHeader", sh(h1p2, signHeader(&h1p2, byK2), k2))
	p.value("signedheader/genuine-secp@As", "SignedHeader", sh(h1ps, signHeader(&h1ps, bySecp), ks))
	p.value("signedheader/same-address-other-key-type-secp@A1", "SignedHeader", sh(h1, signHeader(&h1, bySecp), at(ks, a1)))
	p.value("signedheader/zero", "SignedHeader", sh(hz, nil, types.Signer{}))
	p.value("signedheader/proto-path/genuine-K1@A1", "SignedHeader/proto", shGenuine)
	p.value("signedheader/proto-path/same-address-other-key-K2@A1", "SignedHeader/proto", shForged)
	p.raw("signedheader/raw-no-signer-submessage", "SignedHeader", &pb.SignedHeader{Header: h1.ToProto(), Signature: sigH1K1}, sh(h1, sigH1K1, types.Signer{}))
	p.raw("signedheader/raw-A1-with-unparsable-key", "SignedHeader", &pb.SignedHeader{Header: h1.ToProto(), Signature: sigH1K1,
		Signer: &pb.Signer{Address: cp(a1), PubKey: []byte{0x08, 0x01, 0x12, 0x03, 0x01, 0x02, 0x03}}}, sh(h1, sigH1K1, types.Signer{Address: cp(a1)}))

	// ---- data
	m1 := typicalMetaSpec().build() // height 42
	m1b := typicalMetaSpec().build()
	m1b.LastDataHash = sha("c12-other-last-data") // same height, time, chain; other contents
	m1h := typicalMetaSpec().build()
	m1h.Height = 43
	t1 := types.Txs{types.Tx("tx-one"), types.Tx{}, types.Tx(pat(0x60, 32))}
	t2 := types.Txs{types.Tx("tx-two"), types.Tx{}, types.Tx(pat(0x61, 32))} // same count and lengths
	d1 := &types.Data{Metadata: m1, Txs: t1}
	d2 := &types.Data{Metadata: m1, Txs: t2}
	d3 := &types.Data{Metadata: m1b, Txs: t1}
	d4 := &types.Data{Txs: t1}
	d5 := &types.Data{}
	d6 := &types.Data{Metadata: m1}
	p.value("data/typical", "Data", d1)
	p.value("data/same-metadata-other-txs", "Data", d2)
	p.value("data/same-txs-other-metadata", "Data", d3)
	p.value("data/same-txs-no-metadata", "Data", d4)
	p.value("data/empty", "Data", d5)
	p.value("data/metadata-only", "Data", d6)

	// ---- signed data
	sd := func(d *types.Data, who int, s types.Signer) *types.SignedData {
		payload, err := d.MarshalBinary()
		if err != nil {
			panic(err)
		}
		return &types.SignedData{Data: *d, Signature: signBy(who, payload), Signer: s}
	}
	sdGenuine := sd(d1, byK1, k1)
	p.value("signeddata/genuine-K1@A1", "SignedData", sdGenuine)
	p.value("signeddata/same-address-other-key-K2@A1", "SignedData", sd(d1, byK2, at(k2, a1)))
	p.value("signeddata/same-key-other-address-K1@A2", "SignedData", sd(d1, byK1, at(k1, a2)))
	p.value("signeddata/same-signer-and-metadata-other-txs", "SignedData", sd(d2, byK1, k1))
	p.value("signeddata/same-signature-other-txs", "SignedData", &types.SignedData{Data: *d2, Signature: cp(sdGenuine.Signature), Signer: k1})
	p.value("signeddata/same-txs-no-metadata", "SignedData", sd(d4, byK1, k1))
	p.value("signeddata/same-address-other-key-type-secp@A1", "SignedData", sd(d1, bySecp, at(ks, a1)))
	p.value("signeddata/zero", "SignedData", &types.SignedData{})
	p.raw("signeddata/raw-no-data-submessage", "SignedData", &pb.SignedData{Signature: cp(sdGenuine.Signature), Signer: &pb.Signer{Address: cp(a1), PubKey: mustPub(k1)}},
		&types.SignedData{Signature: cp(sdGenuine.Signature), Signer: k1})
	p.raw("signeddata/raw-no-signer-submessage", "SignedData", &pb.SignedData{Data: d1.ToProto(), Signature: cp(sdGenuine.Signature)},
		&types.SignedData{Data: *d1, Signature: cp(sdGenuine.Signature)})

	// ---- metadata
	p.value("metadata/typical", "Metadata", m1)
	p.value("metadata/same-height-other-contents", "Metadata", m1b)
	p.value("metadata/same-contents-other-height", "Metadata", m1h)
	p.value("metadata/zero", "Metadata", &types.Metadata{})

	// ---- state
	s1 := typicalStateSpec().build()
	s1b := typicalStateSpec().build()
	s1b.AppHash = sha("c12-other-app")
	s1h := typicalStateSpec().build()
	s1h.LastBlockHeight = 43
	p.value("state/typical", "State", s1)
	p.value("state/same-height-other-app-hash", "State", s1b)
	p.value("state/same-contents-other-height", "State", s1h)
	p.value("state/zero", "State", &types.State{})
	p.raw("state/raw-no-version-no-time-submessages", "State", &pb.State{ChainId: s1.ChainID, LastBlockHeight: s1.LastBlockHeight, AppHash: cp(s1.AppHash)}, s1)

	// ---- batch cursor lists
	b1 := [][]byte{[]byte("a"), {}, pat(0x10, 32)}
	p.value("batch/typical", "BatchCursor", b1)
	p.value("batch/same-shape-other-entries", "BatchCursor", [][]byte{[]byte("b"), {}, pat(0x11, 32)})
	p.value("batch/same-first-entry-shorter", "BatchCursor", [][]byte{[]byte("a")})
	p.value("batch/empty", "BatchCursor", [][]byte{})
	{
		bz, _ := encBatch(b1)
		p.rawBytes("batch/raw-truncated", "BatchCursor", bz[:len(bz)-1], b1)
	}

	// ---- cache files (gob), same height and marks, different item
	mkCache := func(kind string, h *SignedHeaderSpec, d *DataSpec) CacheSpec {
		return CacheSpec{Kind: kind, Items: []CacheItem{{Height: 7, H: h, D: d}}, Seen: []string{hexs("c")}, DA: []CacheDA{{hexs("c"), 5}}}
	}
	tsh := typicalSignedHeaderSpec()
	tsh2 := typicalSignedHeaderSpec()
	tsh2.H.Hashes[4] = bs(sha("c12-other-app-hash"))
	p.cacheFiles("cache/header/typical@7", "header", mkCache("header", &tsh, nil), tsh.build())
	p.cacheFiles("cache/header/same-height-other-item@7", "header", mkCache("header", &tsh2, nil), tsh2.build())
	td := typicalDataSpec()
	td2 := typicalDataSpec()
	td2.Txs = []string{bs([]byte("tx-two")), "x", bs(pat(0x61, 32))}
	p.cacheFiles("cache/data/typical@7", "data", mkCache("data", nil, &td), td.build())
	p.cacheFiles("cache/data/same-height-other-item@7", "data", mkCache("data", nil, &td2), td2.build())
	return p.out
}

// collisionTags: the sub-keys on which element y agrees with an EARLIER, different element of the history.
func collisionTags(pool []helem, hist []int, step int) []string {
	set := map[string]bool{}
	y := &pool[hist[step]]
	for j := 0; j < step; j++ {
		x := &pool[hist[j]]
		if hist[j] == hist[step] {
			set["collide:same-message"] = true
			continue
		}
		for k, v := range y.Keys {
			if xv, ok := x.Keys[k]; ok && xv == v {
				set["collide:"+k] = true
			}
		}
	}
	out := make([]string, 0, len(set))
	for k := range set {
		out = append(out, k)
	}
	sort.Strings(out)
	return out
}

// collisionMatrix counts, per sub-key, the ordered pairs of different pool elements that agree on it (evidence that the
// pool collides on every sub-key it names).
func collisionMatrix(pool []helem) map[string]int {
	out := map[string]int{}
	for i := range pool {
		for j := range pool {
			if i == j {
				continue
			}
			for k, v := range pool[i].Keys {
				if w, ok := pool[j].Keys[k]; ok && w == v {
					out[k]++
				}
			}
		}
	}
	return out
}

// ---- the child: decodes, then dumps ---------------------------------------------------------------------------------------

type stepDump struct {
	F     []field    `json:"f"`
	Panic string     `json:"panic,omitempty"`
	Err   string     `json:"err,omitempty"`  // text of the decode / validation error (not compared)
	Copy  []copyDiff `json:"copy,omitempty"` // mode reuse-copy: earlier by-value copies that changed by this step's decode
}

type childResult struct {
	Steps           []stepDump `json:"steps"`
	CopyComparisons int64      `json:"copy_comparisons,omitempty"`
}

const childMarker = "C12HISTORY "

type decoded struct {
	val   any
	err   error
	panic string
}

// decodeElem runs one decode. recv == nil means a fresh receiver.
func decodeElem(e *helem, recv any, tmp string) (out decoded) {
	defer func() {
		if x := recover(); x != nil {
			out.panic = fmt.Sprint(x)
		}
	}()
	exact := make([]byte, len(e.Bytes)) // capacity == length, as a freshly read blob has
	copy(exact, e.Bytes)
	switch {
	case e.Dec == "BatchCursor":
		v, err := decBatch(exact)
		if err != nil {
			return decoded{err: err}
		}
		return decoded{val: v}
	case strings.HasPrefix(e.Dec, "cache:"):
		for n, b := range e.Files {
			if err := os.WriteFile(filepath.Join(tmp, n), b, 0o644); err != nil {
				panic("harness: " + err.Error())
			}
		}
		d, err := loadCacheDir(strings.TrimPrefix(e.Dec, "cache:"), tmp)
		if err != nil {
			return decoded{err: err}
		}
		return decoded{val: d}
	}
	d := hdecOf(e.Dec)
	if recv == nil {
		recv = d.fresh()
	}
	if err := d.into(recv, exact); err != nil {
		return decoded{err: err}
	}
	return decoded{val: recv}
}

func validateVerdict(v any) (verdict, text string) {
	defer func() {
		if x := recover(); x != nil {
			verdict, text = "panic", fmt.Sprint(x)
		}
	}()
	var err error
	switch x := v.(type) {
	case *types.Header:
		err = x.ValidateBasic()
	case *types.SignedHeader:
		err = x.ValidateBasic()
	case *types.Data:
		err = x.Validate()
	case *types.SignedData:
		err = x.Signature.ValidateBasic()
	default:
		return "n/a", ""
	}
	if err != nil {
		return "rejects", err.Error()
	}
	return "accepts", ""
}

// dumpDecoded renders everything the oracle compares. It runs AFTER all decodes of the history (it encodes, hashes and
// verifies, which must not sit between the decodes of a pure decode history).
func dumpDecoded(e *helem, d decoded) (out stepDump) {
	if d.panic != "" {
		return stepDump{F: []field{{"decode", "panic"}}, Panic: d.panic}
	}
	if d.err != nil {
		return stepDump{F: []field{{"decode", "fails"}}, Err: d.err.Error()}
	}
	defer func() {
		if x := recover(); x != nil {
			out.F = append(out.F, field{"dump", "panic"})
			out.Panic = "while dumping the decoded value (Hash/ValidateBasic/re-encode): " + fmt.Sprint(x)
		}
	}()
	out.F = []field{{"decode", "succeeds"}}
	for _, f := range canonOf(d.val) {
		out.F = append(out.F, field{"v." + f.K, f.V})
	}
	if strings.HasPrefix(e.Dec, "cache:") {
		return out
	}
	for _, f := range hashesOf(d.val) {
		out.F = append(out.F, field{"h." + f.K, f.V})
	}
	if app, ok := sigOK(d.val); app {
		out.F = append(out.F, field{"sig.verifies", fmt.Sprint(ok)})
	}
	verdict, text := validateVerdict(d.val)
	out.F = append(out.F, field{"validate", verdict})
	out.Err = text
	// re-encoded bytes and the re-decode fixed point (fresh receiver)
	var enc func(any) ([]byte, error)
	var dec func([]byte) (any, error)
	if e.Dec == "BatchCursor" {
		enc, dec = encBatch, decBatch
	} else {
		hd := hdecOf(e.Dec)
		enc = hd.enc
		dec = func(b []byte) (any, error) { r := hd.fresh(); return r, hd.into(r, b) }
	}
	b2, err := enc(d.val)
	if err != nil {
		out.F = append(out.F, field{"reencoded", "error"}, field{"fixedpoint", "does-not-encode"})
		return out
	}
	out.F = append(out.F, field{"reencoded", hx(b2)})
	v2, err := dec(b2)
	switch {
	case err != nil:
		out.F = append(out.F, field{"fixedpoint", "re-encoding-does-not-decode"})
	default:
		df := append(diffFields(canonOf(d.val), canonOf(v2)), diffFields(hashesOf(d.val), hashesOf(v2))...)
		if len(df) > 0 {
			out.F = append(out.F, field{"fixedpoint", "differs:" + strings.Join(df, ",")})
		} else {
			out.F = append(out.F, field{"fixedpoint", "holds"})
		}
	}
	return out
}

// runHistoryHere executes one history in THIS process. mode "fresh": every decode into a fresh receiver, all dumps after
// the last decode. mode "reuse": one receiver per Go type is reused by every decode of that type; only the last step is
// dumped (earlier values are overwritten).
func runHistoryHere(pool []helem, mode string, hist []int) childResult {
	if mode == modeReuseCopy {
		res, _ := runReuseCopyHere(pool, hist)
		return res
	}
	var tmp string
	for _, i := range hist {
		if pool[i].Files != nil && tmp == "" {
			var err error
			if tmp, err = os.MkdirTemp("", "c12-hist-"); err != nil {
				panic(err)
			}
			defer os.RemoveAll(tmp)
		}
	}
	ds := make([]decoded, len(hist))
	recv := map[string]any{}
	for k, i := range hist {
		e := &pool[i]
		var r any
		if mode == "reuse" {
			if gt := goTypeOf(e); gt != "" {
				if recv[gt] == nil {
					recv[gt] = hdecOf(e.Dec).fresh()
				}
				r = recv[gt]
			}
		}
		ds[k] = decodeElem(e, r, tmp)
	}
	res := childResult{Steps: make([]stepDump, len(hist))}
	for k, i := range hist {
		if mode == "reuse" && k != len(hist)-1 {
			continue
		}
		res.Steps[k] = dumpDecoded(&pool[i], ds[k])
	}
	return res
}

// TestHistoryChild is the other process: pool file and history come from the parent; it decodes, dumps, prints.
func TestHistoryChild(t *testing.T) {
	spec := os.Getenv("VERIF_C12_HISTORY")
	if spec == "" {
		t.Skip("only run as a child of TestCheck")
	}
	// <pool file>|<mode>|<i,j,k>
	parts := strings.Split(spec, "|")
	if len(parts) != 3 {
		t.Fatal("bad VERIF_C12_HISTORY")
	}
	bz, err := os.ReadFile(parts[0])
	if err != nil {
		t.Fatal(err)
	}
	var pool []helem
	if err := json.Unmarshal(bz, &pool); err != nil {
		t.Fatal(err)
	}
	var hist []int
	for _, s := range strings.Split(parts[2], ",") {
		i, err := strconv.Atoi(s)
		if err != nil || i < 0 || i >= len(pool) {
			t.Fatal("bad history index " + s)
		}
		hist = append(hist, i)
	}
	registerGob() // what block.Manager.LoadCache does at start-up, before any file is read
	res := runHistoryHere(pool, parts[1], hist)
	out, err := json.Marshal(res)
	if err != nil {
		t.Fatal(err)
	}
	fmt.Printf("\n%s%s\n", childMarker, out)
}

// ---- the parent ----------------------------------------------------------------------------------------------------------

type histRunner struct {
	exe      string
	poolFile string
	pool     []helem
	procs    int64
}

func newHistRunner(pool []helem) (*histRunner, error) {
	exe, err := os.Executable()
	if err != nil {
		return nil, err
	}
	f, err := os.CreateTemp("", "c12-pool-*.json")
	if err != nil {
		return nil, err
	}
	bz, err := json.Marshal(pool)
	if err != nil {
		return nil, err
	}
	if _, err := f.Write(bz); err != nil {
		return nil, err
	}
	if err := f.Close(); err != nil {
		return nil, err
	}
	return &histRunner{exe: exe, poolFile: f.Name(), pool: pool}, nil
}

func (h *histRunner) close() { os.Remove(h.poolFile) }

func histString(hist []int) string {
	s := make([]string, len(hist))
	for i, v := range hist {
		s[i] = strconv.Itoa(v)
	}
	return strings.Join(s, ",")
}

// run executes one history in its own process. crashed != "" : the process died (fatal error / unrecovered panic).
func (h *histRunner) run(mode string, hist []int) (res childResult, crashed string, err error) {
	// a child that could not be started or was killed from outside (loaded machine) is started again; a child that died
	// by itself is a result
	for attempt := 0; attempt < 3; attempt++ {
		if res, crashed, err = h.runOnce(mode, hist); err == nil {
			return
		}
	}
	return
}

func (h *histRunner) runOnce(mode string, hist []int) (res childResult, crashed string, err error) {
	atomic.AddInt64(&h.procs, 1)
	cmd := exec.Command(h.exe, "-test.run", "^TestHistoryChild$", "-test.timeout", "0")
	env := make([]string, 0, len(os.Environ())+3)
	for _, kv := range os.Environ() {
		if strings.HasPrefix(kv, "GOMAXPROCS=") || strings.HasPrefix(kv, "VERIF_C12_HISTORY=") || strings.HasPrefix(kv, "VERIF_REPLAY=") {
			continue
		}
		env = append(env, kv)
	}
	cmd.Env = append(env, "GOMAXPROCS=1", "VERIF_C12_HISTORY="+h.poolFile+"|"+mode+"|"+histString(hist))
	var stdout, stderr bytes.Buffer
	cmd.Stdout, cmd.Stderr = &stdout, &stderr
	rerr := cmd.Run()
	out := stdout.String()
	if i := strings.LastIndex(out, "\n"+childMarker); i >= 0 {
		line := out[i+1+len(childMarker):]
		if j := strings.IndexByte(line, '\n'); j >= 0 {
			line = line[:j]
		}
		if err := json.Unmarshal([]byte(line), &res); err != nil {
			return res, "", fmt.Errorf("history child printed an unreadable result: %v", err)
		}
		if len(res.Steps) != len(hist) {
			return res, "", fmt.Errorf("history child reported %d steps for a history of %d", len(res.Steps), len(hist))
		}
		return res, "", nil
	}
	all := out + stderr.String()
	if strings.Contains(all, "fatal error:") || strings.Contains(all, "panic:") || strings.Contains(all, "goroutine ") {
		return res, tailStr(all, 600), nil
	}
	return res, "", fmt.Errorf("history child produced no result (%v): %s", rerr, tailStr(all, 400))
}

func tailStr(s string, n int) string {
	if len(s) > n {
		return s[len(s)-n:]
	}
	return s
}

func fieldMap(fs []field) map[string]string {
	m := make(map[string]string, len(fs))
	for _, f := range fs {
		m[f.K] = f.V
	}
	return m
}

func dumpDecodes(s stepDump) string {
	for _, f := range s.F {
		if f.K == "decode" {
			return f.V
		}
	}
	return "?"
}

func clauseOf(diff []string) string {
	has := func(pfx string) bool {
		for _, d := range diff {
			if d == pfx || strings.HasPrefix(d, pfx) {
				return true
			}
		}
		return false
	}
	switch {
	case has("decode"), has("v."):
		return "history-decode-value"
	case has("h."):
		return "history-decode-hash"
	case has("sig."), has("validate"):
		return "history-decode-signature"
	case has("reencoded"):
		return "history-decode-bytes"
	case has("fixedpoint"):
		return "decode-fixed-point"
	}
	return "history-decode-value"
}

func histNames(pool []helem, hist []int) []string {
	out := make([]string, len(hist))
	for i, v := range hist {
		out[i] = pool[v].Name
	}
	return out
}

func renderHist(pool []helem, hist []int, mode string) string {
	n := histNames(pool, hist)
	how := "each into a fresh receiver"
	if mode == "reuse" {
		how = "all into one reused receiver per type"
	} else if mode == "walk" {
		how = "fresh receivers, inside the long in-process walk"
	} else if mode == modeReuseCopy || mode == modeReuseCopyHere {
		how = "all into one reused receiver; after every decode a by-value copy of the receiver is kept, no bytes cloned"
	}
	return "decode " + strings.Join(n, "  THEN  ") + " (" + how + ")"
}

// judgeHistory compares what a history produced with the expectations exp[m] (dump of the one-element history [m] in a
// fresh process). Demands:
//   - fresh receivers: every step's dump equals the expectation of its message, field for field;
//   - reused receiver: the last step must decode/fail as in a fresh process and satisfy the fixed point; its VALUE is
//     compared only if the bytes are an encoder output (the statement speaks of "encoding and then decoding"; what a
//     decoder leaves in a non-zero receiver for bytes no encoder writes is not constrained by it).
func judgeHistory(pool []helem, exp []stepDump, mode string, hist []int, res childResult, crashed string) (fs []finding, observations []string) {
	ref := caseRef{Part: "history", Mode: mode, Hist: histNames(pool, hist)}
	base := []string{"mode:" + mode, fmt.Sprintf("history-length:%d", len(hist))}
	if crashed != "" {
		last := &pool[hist[len(hist)-1]]
		fs = append(fs, finding{clause: "decoder-panic", tags: append(base, "type:"+last.Dec, "process-died"), cost: len(hist), ref: ref,
			msg: fmt.Sprintf("the process died while running the history: %s\n%s", renderHist(pool, hist, mode), crashed)})
		return
	}
	for k := range hist {
		if mode == "reuse" && k != len(hist)-1 {
			continue
		}
		e := &pool[hist[k]]
		got, want := res.Steps[k], exp[hist[k]]
		tags := append(append([]string{}, base...), "type:"+e.Dec, fmt.Sprintf("step:%d", k+1))
		tags = append(tags, collisionTags(pool, hist, k)...)
		if got.Panic != "" && want.Panic == "" {
			fs = append(fs, finding{clause: "decoder-panic", tags: tags, cost: len(hist), ref: ref,
				msg: fmt.Sprintf("step %d (%s) panics: %s\n history: %s", k+1, e.Name, got.Panic, renderHist(pool, hist, mode))})
			continue
		}
		gm, wm := fieldMap(got.F), fieldMap(want.F)
		diff := diffFields(want.F, got.F)
		if gm["decode"] != wm["decode"] {
			diff = []string{"decode"} // one of the two has no value to compare
		}
		if mode == "reuse" && !e.Encoded {
			var kept []string
			for _, d := range diff {
				if d == "decode" || (d == "fixedpoint" && gm["fixedpoint"] != "holds") {
					kept = append(kept, d)
				}
			}
			if len(diff) > 0 && len(kept) == 0 {
				observations = append(observations, fmt.Sprintf("reused receiver + bytes no encoder writes: %s decoded into a receiver that holds an earlier %s does not give what a fresh receiver gives (fields of the earlier value survive); the statement does not constrain this and the re-encode/decode fixed point holds, so it is recorded and not reported", e.Name, goTypeOf(e)))
			}
			diff = kept
		}
		if len(diff) == 0 {
			continue
		}
		for _, d := range diff {
			tags = append(tags, "differs:"+d)
		}
		var sb strings.Builder
		for _, d := range diff {
			fmt.Fprintf(&sb, "\n   %-22s alone: %s\n   %-22s here:  %s", d, wm[d], "", gm[d])
		}
		when := "as the first decode of a process"
		what := fmt.Sprintf("step %d of %d (%s) decodes differently than %s", k+1, len(hist), e.Name, when)
		if k < len(hist)-1 {
			what = fmt.Sprintf("the value decoded at step %d of %d (%s) is, after the later decodes, no longer what it is when decoded alone", k+1, len(hist), e.Name)
			tags = append(tags, "earlier-value-changed")
		}
		extra := ""
		if got.Err != "" || want.Err != "" {
			extra = fmt.Sprintf("\n   error text alone: %q, here: %q", want.Err, got.Err)
		}
		fs = append(fs, finding{clause: clauseOf(diff), tags: tags, cost: len(hist), ref: ref,
			msg: fmt.Sprintf("%s\n history: %s\n differing fields:%s%s", what, renderHist(pool, hist, mode), sb.String(), extra)})
	}
	return
}

type histStats struct {
	Pool            int              `json:"pool_messages"`
	PoolByDecoder   map[string]int   `json:"pool_messages_by_decoder"`
	PoolEncoded     int              `json:"pool_messages_that_are_encoder_outputs"`
	PoolRaw         int              `json:"pool_messages_no_encoder_writes"`
	Collisions      map[string]int   `json:"ordered_pairs_of_different_messages_agreeing_on_sub_key"`
	Processes       int64            `json:"child_processes"`
	Histories       map[string]int64 `json:"histories_by_mode_and_length"`
	LastStepDecoded int64            `json:"histories_whose_last_decode_succeeds"`
	LastStepFails   int64            `json:"histories_whose_last_decode_fails_cleanly"`
	Decodes         int64            `json:"decodes_in_child_processes"`
	WalkDecodes     int64            `json:"decodes_in_the_in_process_walk"`
	CopyComparisons int64            `json:"reuse_copy_comparisons_of_an_earlier_copy_after_a_later_decode"`
	AliasInProcess  int64            `json:"reuse_copy_histories_in_process"`
	EncoderChecks   int64            `json:"encoder_returned_bytes_stability_checks"`
	Observations    []string         `json:"observations,omitempty"`
	evals, distinct int64
}

// enumerate all histories of the given mode and length. reuse: all elements share one receiver type.
func enumHistories(pool []helem, mode string, length int) [][]int {
	var out [][]int
	cur := make([]int, 0, length)
	var rec func()
	rec = func() {
		if len(cur) == length {
			out = append(out, append([]int(nil), cur...))
			return
		}
		for i := range pool {
			if mode == "reuse" {
				gt := goTypeOf(&pool[i])
				if gt == "" || (len(cur) > 0 && goTypeOf(&pool[cur[0]]) != gt) {
					continue
				}
			}
			cur = append(cur, i)
			rec()
			cur = cur[:len(cur)-1]
		}
	}
	rec()
	return out
}

// expectations: the one-element histories, one process each. Also checks the pool itself: an encoder output must decode
// (in a fresh process) to the value it was encoded from.
func (h *histRunner) expectations(r *vf.Run, st *histStats) ([]stepDump, bool) {
	exp := make([]stepDump, len(h.pool))
	var failed atomic.Bool
	var mu sync.Mutex
	parallel(int64(len(h.pool)), 1, func(_ int, lo, hi int64) {
		for i := lo; i < hi; i++ {
			res, crashed, err := h.run("fresh", []int{int(i)})
			if err != nil {
				r.EngineError(err.Error())
				failed.Store(true)
				continue
			}
			e := &h.pool[i]
			ref := caseRef{Part: "history", Mode: "fresh", Hist: []string{e.Name}}
			tags := []string{"mode:fresh", "history-length:1", "type:" + e.Dec}
			if crashed != "" {
				report(r, finding{clause: "decoder-panic", tags: append(tags, "process-died"), cost: 1, ref: ref, msg: "the process died decoding " + e.Name + " as its first message: " + crashed})
				failed.Store(true)
				continue
			}
			s := res.Steps[0]
			exp[i] = s
			mu.Lock()
			st.Histories["fresh/1"]++
			st.Decodes++
			st.evals++
			if dumpDecodes(s) == "succeeds" {
				st.LastStepDecoded++
				st.distinct++
			} else {
				st.LastStepFails++
			}
			mu.Unlock()
			r.Outcome("history:first-decode-" + dumpDecodes(s))
			if s.Panic != "" {
				report(r, finding{clause: "decoder-panic", tags: tags, cost: 1, ref: ref, msg: "decoding " + e.Name + " as the first message of a process panics: " + s.Panic})
				continue
			}
			m := fieldMap(s.F)
			if e.Encoded {
				if m["decode"] != "succeeds" {
					report(r, finding{clause: "roundtrip-decode-error", tags: tags, cost: 1, ref: ref, msg: fmt.Sprintf("the encoding of pool value %s does not decode in a fresh process: %s", e.Name, s.Err)})
					continue
				}
				var got []field
				for _, f := range s.F {
					if strings.HasPrefix(f.K, "v.") {
						got = append(got, field{strings.TrimPrefix(f.K, "v."), f.V})
					}
				}
				if d := diffFields(e.want, got); len(d) > 0 {
					t := append([]string{}, tags...)
					for _, k := range d {
						t = append(t, "differs:"+k)
					}
					report(r, finding{clause: "roundtrip-value", tags: t, cost: 1, ref: ref,
						msg: fmt.Sprintf("pool value %s: decode(encode(x)) in a fresh process differs from x in %v\n x   %s\n got %s", e.Name, d, renderFields(e.want), renderFields(got))})
				}
			}
			if fp, ok := m["fixedpoint"]; ok && fp != "holds" {
				report(r, finding{clause: "decode-fixed-point", tags: tags, cost: 1, ref: ref, msg: fmt.Sprintf("%s decoded as the first message of a process: fixed point %s", e.Name, fp)})
			}
		}
	})
	return exp, !failed.Load()
}

// runHistories is part (d).
func runHistories(r *vf.Run, maxLen int) (st histStats) {
	pool := buildPool()
	st.Pool = len(pool)
	st.PoolByDecoder = map[string]int{}
	st.Histories = map[string]int64{}
	for i := range pool {
		st.PoolByDecoder[pool[i].Dec]++
		if pool[i].Encoded {
			st.PoolEncoded++
		} else {
			st.PoolRaw++
		}
	}
	st.Collisions = collisionMatrix(pool)
	h, err := newHistRunner(pool)
	if err != nil {
		r.EngineError("history part: " + err.Error())
		return
	}
	defer h.close()
	exp, ok := h.expectations(r, &st)
	if !ok {
		st.Processes = h.procs
		return
	}
	var mu sync.Mutex
	obs := map[string]bool{}
	sampled := map[string]bool{}
	for length := 2; length <= maxLen; length++ {
		for _, mode := range []string{"fresh", "reuse"} {
			hs := enumHistories(pool, mode, length)
			key := fmt.Sprintf("%s/%d", mode, length)
			parallel(int64(len(hs)), 4, func(_ int, lo, hi int64) {
				for i := lo; i < hi; i++ {
					hist := hs[i]
					res, crashed, err := h.run(mode, hist)
					if err != nil {
						r.EngineError(err.Error())
						continue
					}
					fs, ob := judgeHistory(pool, exp, mode, hist, res, crashed)
					for _, f := range fs {
						report(r, f)
					}
					lastOK := crashed == "" && dumpDecodes(res.Steps[len(hist)-1]) == "succeeds"
					mu.Lock()
					st.Histories[key]++
					st.Decodes += int64(len(hist))
					st.evals++
					if lastOK {
						st.LastStepDecoded++
						st.distinct++
					} else {
						st.LastStepFails++
					}
					for _, o := range ob {
						obs[o] = true
					}
					if !sampled[key] && i == int64(len(hs))/2 {
						sampled[key] = true
						r.Sample(map[string]any{"part": "history", "mode": mode, "history": histNames(pool, hist), "violations": len(fs)})
					}
					mu.Unlock()
					out := "as-alone"
					if len(fs) > 0 {
						out = "violation:" + fs[0].clause
					}
					r.Outcome("history:" + mode + ":" + out)
				}
			})
		}
	}
	// aliasing supplement: reused receiver, a by-value copy kept after every step (see alias_test.go)
	for length := 2; length <= maxLen; length++ {
		hs := enumAliasHistories(pool, length)
		key := fmt.Sprintf("%s/%d", modeReuseCopy, length)
		parallel(int64(len(hs)), 4, func(_ int, lo, hi int64) {
			for i := lo; i < hi; i++ {
				hist := hs[i]
				res, crashed, err := h.run(modeReuseCopy, hist)
				if err != nil {
					r.EngineError(err.Error())
					continue
				}
				fs := judgeReuseCopy(pool, modeReuseCopy, hist, res, crashed)
				for _, f := range fs {
					report(r, f)
				}
				lastOK := crashed == "" && dumpDecodes(res.Steps[len(hist)-1]) == "succeeds"
				mu.Lock()
				st.Histories[key]++
				st.Decodes += int64(len(hist))
				st.CopyComparisons += res.CopyComparisons
				st.evals++
				if lastOK {
					st.LastStepDecoded++
					st.distinct++
				} else {
					st.LastStepFails++
				}
				if !sampled[key] && i == int64(len(hs))/2 {
					sampled[key] = true
					r.Sample(map[string]any{"part": "history", "mode": modeReuseCopy, "history": histNames(pool, hist), "violations": len(fs)})
				}
				mu.Unlock()
				out := "copies-unchanged"
				if len(fs) > 0 {
					out = "violation:" + fs[0].clause
				}
				r.Outcome("history:" + modeReuseCopy + ":" + out)
			}
		})
	}
	{
		afs, nh, nc, ne := runAliasInProcess(pool)
		st.AliasInProcess = nh
		st.CopyComparisons += nc
		st.EncoderChecks = ne
		st.evals += nh
		for _, f := range afs {
			report(r, f)
		}
		r.Outcome(fmt.Sprintf("history:alias-in-process:%d-findings", len(afs)))
		if st.CopyComparisons == 0 || ne == 0 {
			r.EngineError("aliasing supplement compared nothing")
		}
	}
	st.Processes = h.procs
	// supplement: one long history inside THIS process (whose state is whatever parts (a)-(c) left behind): every ordered
	// pair decoded consecutively, each result compared with the fresh-process expectation
	wfs, n := walkInProcess(pool, exp)
	st.WalkDecodes = n
	st.evals += n
	for _, f := range wfs {
		report(r, f)
	}
	r.Outcome(fmt.Sprintf("history:walk:%d-findings", len(wfs)))
	for o := range obs {
		st.Observations = append(st.Observations, o)
	}
	sort.Strings(st.Observations)
	return st
}

// walkInProcess decodes x, y for every ordered pair (x, y) in this process and dumps each pair right away.
func walkInProcess(pool []helem, exp []stepDump) (fs []finding, decodes int64) {
	registerGob()
	for i := range pool {
		for j := range pool {
			hist := []int{i, j}
			res := runHistoryHere(pool, "fresh", hist)
			decodes += 2
			f, _ := judgeHistory(pool, exp, "walk", hist, res, "")
			fs = append(fs, f...)
		}
	}
	return
}

// replayHistory re-executes one recorded history (and the one-element histories it is judged against).
func replayHistory(r *vf.Run, ref caseRef) {
	pool := buildPool()
	idx := map[string]int{}
	for i := range pool {
		idx[pool[i].Name] = i
	}
	var hist []int
	for _, n := range ref.Hist {
		i, ok := idx[n]
		if !ok {
			r.EngineError("replay: the pool has no message " + n)
			return
		}
		hist = append(hist, i)
	}
	h, err := newHistRunner(pool)
	if err != nil {
		r.EngineError(err.Error())
		return
	}
	defer h.close()
	var st histStats
	st.Histories = map[string]int64{}
	// expectations for the messages involved (all of them: cheap, and the pool self-check is part of the oracle)
	exp, ok := h.expectations(r, &st)
	if !ok || len(hist) < 2 {
		return
	}
	if ref.Mode == modeReuseCopy || ref.Mode == modeReuseCopyHere || ref.Mode == modeEncoderStability {
		var fs []finding
		switch ref.Mode {
		case modeReuseCopy:
			res, crashed, err := h.run(ref.Mode, hist)
			if err != nil {
				r.EngineError(err.Error())
				return
			}
			fs = judgeReuseCopy(pool, ref.Mode, hist, res, crashed)
		case modeReuseCopyHere:
			res, _ := runReuseCopyHere(pool, hist)
			fs = judgeReuseCopy(pool, ref.Mode, hist, res, "")
		default:
			fs, _ = encoderStabilityPair(pool, hist[0], hist[1])
		}
		for _, f := range fs {
			report(r, f)
		}
		return
	}
	if ref.Mode == "walk" {
		fs, _ := walkInProcess(pool, exp)
		for _, f := range fs {
			report(r, f)
		}
		return
	}
	res, crashed, err := h.run(ref.Mode, hist)
	if err != nil {
		r.EngineError(err.Error())
		return
	}
	fs, _ := judgeHistory(pool, exp, ref.Mode, hist, res, crashed)
	for _, f := range fs {
		report(r, f)
	}
}
