package c12

import (
	"context"
	"encoding/json"
	"fmt"
	"os"
	"path/filepath"
	"sync/atomic"
	"testing"
	"testing/synctest"
	"time"

	"google.golang.org/protobuf/proto"

	"github.com/evstack/ev-node/block"
	"github.com/evstack/ev-node/types"

	"verif/harness/vf"
	"verif/harness/world"
)

// Part (e): verification verdicts of a NODE, per configuration of its signature payload provider.
//
// Parts (a)-(d) judge "a still-valid signature" on the decoded VALUE, with the payload computed by the harness. Whether
// a signed header is valid is however not a function of its bytes alone: the payload that was signed is node
// configuration (block.ManagerOptions.SignaturePayloadProvider), it is not part of any encoding, and every decoder
// therefore hands out a value that has to be told about it again (SignedHeader.SetCustomVerifier) by the code that
// called the decoder. The statement's "still-valid signature, whichever path it travelled" is decided here where it
// takes effect: a real full node (world.StartNode, real SyncLoop / RetrieveLoop / HeaderStoreRetrieveLoop in a
// synctest bubble) configured with provider P receives a signed header x
//   - un-encoded (the value itself enters the header cache: the reference verdict),
//   - through the cache file (x waits in the header cache, clean stop, SaveCache, new manager, LoadCache),
//   - as a DA blob (proto) through the retrieve loop,
//   - through the P2P header store (binary),
// and the missing part of the block (its data: un-encoded, or as a SignedData DA blob with a valid / a corrupted
// signature; or its predecessor block) arrives afterwards. Verdict = "the node applies the block". The verdict on the
// decoded value must be the verdict on the value that was encoded, for P in {default, non-default provider} and for x
// signed under the default payload / under the non-default payload / with a corrupted signature.

type nodeCase struct {
	Pattern string `json:"pattern"` // producer chain above the genesis block (world.BuildChainFor)
	Target  int    `json:"target"`  // index of the block whose header travels
	Custom  bool   `json:"custom"`  // the node (and the producer) is configured with world.CustomPayloadProvider
	Sig     string `json:"sig"`     // default | custom | corrupt: what the travelling header's signature was made over
	Shape   string `json:"shape"`   // in-order | before-predecessors
	HPath   string `json:"hpath"`   // memory | cache-file | da-blob | p2p
	DPath   string `json:"dpath"`   // memory | da-blob | da-blob-corrupt | none (empty block)
}

func (nc nodeCase) String() string {
	prov := "default"
	if nc.Custom {
		prov = "custom"
	}
	return fmt.Sprintf("chain genesis+%q target block %d, node provider=%s, header signed over %s payload, %s, header via %s, data via %s", nc.Pattern, nc.Target, prov, nc.Sig, nc.Shape, nc.HPath, nc.DPath)
}

func (nc nodeCase) tags() []string {
	prov := "default"
	if nc.Custom {
		prov = "custom"
	}
	return []string{"part:node-verdict", "type:SignedHeader", "path:" + nc.HPath, "data-path:" + nc.DPath, "provider:" + prov, "sig:" + nc.Sig, "shape:" + nc.Shape}
}

type nodeVerdict struct {
	Accepted bool
	Fatal    string // the sync loop's fatal error, if any
	Height   uint64
	Err      string // machinery problem
}

var nodeRootSeq atomic.Int64

// travellingHeader returns block t's header of the chain, re-signed with the proposer's key over the payload named by sig.
func travellingHeader(pc *world.ProducerChain, t int, sig string) (*types.SignedHeader, error) {
	h := pc.Header(t)
	proposer := world.NewFixedSigner(pc.Params.SignerSeed)
	switch sig {
	case "default", "custom":
		prov := types.SignaturePayloadProvider(types.DefaultSignaturePayloadProvider)
		if sig == "custom" {
			prov = world.CustomPayloadProvider
		}
		payload, err := prov(&h.Header)
		if err != nil {
			return nil, err
		}
		s, err := proposer.Sign(payload)
		if err != nil {
			return nil, err
		}
		h.Signature = s
	case "corrupt":
		s := append([]byte(nil), h.Signature...)
		s[len(s)-1] ^= 0x01
		h.Signature = s
	default:
		return nil, fmt.Errorf("unknown signature kind %q", sig)
	}
	return h, nil
}

func signedDataBlob(pc *world.ProducerChain, t int, corrupt bool) (orig *types.SignedData, blob []byte, err error) {
	sd := new(types.SignedData)
	if err = sd.UnmarshalBinary(pc.DatBlobs[t]); err != nil {
		return nil, nil, err
	}
	if corrupt {
		s := append([]byte(nil), sd.Signature...)
		s[len(s)-1] ^= 0x01
		sd.Signature = s
	}
	blob, err = sd.MarshalBinary()
	return sd, blob, err
}

// runNodeCase executes one scenario in a bubble. dataOK reports the node's verdict on the un-encoded SignedData (only
// for the DA data paths).
func runNodeCase(t *testing.T, nc nodeCase) (v nodeVerdict, dataOK bool) {
	synctest.Test(t, func(t *testing.T) { v, dataOK = nodeBubble(nc) })
	return
}

func nodeBubble(nc nodeCase) (v nodeVerdict, dataOK bool) {
	dataOK = true
	pc, err := world.BuildChainFor(nc.Pattern, 1, nc.Custom)
	if err != nil {
		v.Err = err.Error()
		return
	}
	tgt := nc.Target
	x, err := travellingHeader(pc, tgt, nc.Sig)
	if err != nil {
		v.Err = err.Error()
		return
	}
	root := filepath.Join(os.TempDir(), fmt.Sprintf("c12-node-%d-%d", os.Getpid(), nodeRootSeq.Add(1)))
	defer os.RemoveAll(root)
	env := world.NewEnv()
	hs := &world.P2PStore[*types.SignedHeader]{}
	p := world.Params{InitialHeight: pc.Initial, DAStartHeight: 1, BlockTime: 1000 * time.Hour, DABlockTime: 1000 * time.Hour, RootDir: root, CustomPayload: nc.Custom}
	var n *world.Node
	var cancel context.CancelFunc
	errCh := make(chan error, 8)
	boot := func(img map[string][]byte) error {
		nn, err := world.StartNode(p, env, img, world.NodeOpts{HStore: hs})
		if err != nil {
			return err
		}
		n = nn
		var ctx context.Context
		ctx, cancel = context.WithCancel(context.Background())
		go n.M.SyncLoop(ctx, errCh)
		go n.M.RetrieveLoop(ctx)
		go n.M.HeaderStoreRetrieveLoop(ctx)
		synctest.Wait()
		return nil
	}
	if err := boot(nil); err != nil {
		v.Err = "start: " + err.Error()
		return
	}
	defer func() { cancel(); synctest.Wait() }()
	settle := func() {
		time.Sleep(3 * time.Second) // in-call retries of the retrieve loop pause for 100 ms of virtual time
		synctest.Wait()
		for {
			select {
			case e := <-errCh:
				if v.Fatal == "" {
					v.Fatal = e.Error()
				}
				continue
			default:
			}
			break
		}
	}
	seq := uint64(0)
	pushHeader := func(h *types.SignedHeader) {
		// what both ingress paths do before they push a header event (block/retriever.go, block/store.go)
		h.SetCustomVerifier(p.PayloadProvider())
		seq++
		select {
		case n.M.VerifHeaderInCh() <- block.NewHeaderEvent{Header: h, DAHeight: seq}:
		default:
		}
		settle()
	}
	pushData := func(d *types.Data) {
		seq++
		select {
		case n.M.VerifDataInCh() <- block.NewDataEvent{Data: d, DAHeight: seq}:
		default:
		}
		settle()
	}
	nextDA := uint64(1)
	viaDA := func(blob []byte) {
		env.DA.Place(nextDA, blob)
		nextDA++
		select {
		case n.M.VerifRetrieveCh() <- struct{}{}:
		default:
		}
		settle()
	}
	viaP2P := func(h *types.SignedHeader) error {
		bz, err := h.MarshalBinary() // go-header stores and serves the binary form
		if err != nil {
			return err
		}
		out := new(types.SignedHeader)
		if err := out.UnmarshalBinary(bz); err != nil {
			return err
		}
		hs.Append1(out)
		select {
		case n.M.VerifHeaderStoreCh() <- struct{}{}:
		default:
		}
		settle()
		return nil
	}
	restart := func() error {
		cancel()
		synctest.Wait()
		if err := n.M.SaveCache(); err != nil {
			return fmt.Errorf("SaveCache: %w", err)
		}
		return boot(n.KV.Image())
	}
	genuine := func(i int) error { // block i as the producer made it, un-encoded (headers through P2P when that is the path: the store is contiguous)
		if nc.HPath == "p2p" && i < tgt {
			if err := viaP2P(pc.Header(i)); err != nil {
				return err
			}
		} else {
			pushHeader(pc.Header(i))
		}
		if len(pc.Txs[i]) > 0 {
			pushData(pc.DataAt(i))
		}
		return nil
	}
	target := func() error {
		switch nc.HPath {
		case "memory", "cache-file":
			pushHeader(x)
		case "da-blob":
			hp, err := x.ToProto() // block/submitter.go
			if err != nil {
				return err
			}
			blob, err := proto.Marshal(hp)
			if err != nil {
				return err
			}
			viaDA(blob)
		case "p2p":
			return viaP2P(x)
		default:
			return fmt.Errorf("unknown header path %q", nc.HPath)
		}
		return nil
	}
	targetData := func() error {
		switch nc.DPath {
		case "none":
		case "memory":
			pushData(pc.DataAt(tgt))
		case "da-blob", "da-blob-corrupt":
			sd, blob, err := signedDataBlob(pc, tgt, nc.DPath == "da-blob-corrupt")
			if err != nil {
				return err
			}
			dataOK = n.M.VerifIsValidSignedData(sd)
			viaDA(blob)
		default:
			return fmt.Errorf("unknown data path %q", nc.DPath)
		}
		return nil
	}
	fail := func(err error) bool {
		if err != nil {
			v.Err = err.Error()
			return true
		}
		return false
	}
	switch nc.Shape {
	case "in-order":
		for i := 0; i < tgt; i++ {
			if fail(genuine(i)) {
				return
			}
		}
		if fail(target()) {
			return
		}
		if nc.HPath == "cache-file" { // the header waits for its data (or, for an empty block, was applied already)
			if fail(restart()) {
				return
			}
		}
		if fail(targetData()) {
			return
		}
	case "before-predecessors":
		if fail(target()) {
			return
		}
		if fail(targetData()) {
			return
		}
		if nc.HPath == "cache-file" { // header (and data) wait for the predecessor blocks
			if fail(restart()) {
				return
			}
		}
		for i := 0; i < tgt; i++ {
			if fail(genuine(i)) {
				return
			}
		}
	default:
		v.Err = "unknown shape " + nc.Shape
		return
	}
	for i := tgt + 1; i < pc.Len(); i++ {
		if fail(genuine(i)) {
			return
		}
	}
	v.Height = n.Height()
	v.Accepted = v.Height >= pc.Initial+uint64(tgt)
	return
}

// nodeCases enumerates part (e) for the given chains: every target block above the first one, both configurations,
// three signatures, both shapes, every header path (P2P serves contiguous heights, so not before its predecessors) and
// every data path.
func nodeCases(patterns []string) []nodeCase {
	var out []nodeCase
	for _, pt := range patterns {
		for tgt := 1; tgt <= len(pt); tgt++ {
			dpaths := []string{"none"}
			if pt[tgt-1] != 'e' {
				dpaths = []string{"memory", "da-blob", "da-blob-corrupt"}
			}
			for _, custom := range []bool{false, true} {
				for _, sig := range []string{"default", "custom", "corrupt"} {
					for _, shape := range []string{"in-order", "before-predecessors"} {
						hpaths := []string{"memory", "cache-file", "da-blob", "p2p"}
						if shape == "before-predecessors" {
							hpaths = hpaths[:3]
						}
						for _, hp := range hpaths {
							for _, dp := range dpaths {
								out = append(out, nodeCase{pt, tgt, custom, sig, shape, hp, dp})
							}
						}
					}
				}
			}
		}
	}
	return out
}

type nodeStats struct {
	Cases          int            `json:"scenarios"`
	Judged         int            `json:"judged_against_reference"`
	References     int            `json:"reference_scenarios_unencoded"`
	AcceptedByPath map[string]int `json:"accepted_by_header_path"`
	RejectedByPath map[string]int `json:"rejected_by_header_path"`
	Patterns       []string       `json:"chains"`
}

func (nc nodeCase) refKey() string {
	return fmt.Sprintf("%s/%d/%v/%s/%s", nc.Pattern, nc.Target, nc.Custom, nc.Sig, nc.Shape)
}

// judgeNodeCase: the verdict must be (reference verdict on the un-encoded header) AND (node's verdict on the un-encoded
// signed data, for the DA data paths).
func judgeNodeCase(nc nodeCase, v nodeVerdict, dataOK bool, ref nodeVerdict) *finding {
	want := ref.Accepted && dataOK
	if v.Accepted == want {
		return nil
	}
	js, _ := json.Marshal(nc)
	what := "SignedHeader"
	if nc.HPath == "memory" { // the header did not travel through any encoding: only the signed data did
		what = "SignedData"
	}
	tags := nc.tags()
	if what == "SignedData" {
		tags[1] = "type:SignedData"
	}
	msg := fmt.Sprintf("%s: the node's verification verdict changes across the encoding: the value that was encoded is accepted=%v (header, un-encoded: block applied=%v, fatal error %q; signed data valid=%v), the decoded one is accepted=%v (chain height %d, fatal error %q)\n scenario: %s",
		what, want, ref.Accepted, ref.Fatal, dataOK, v.Accepted, v.Height, v.Fatal, nc)
	return &finding{clause: "roundtrip-signature", tags: tags, msg: msg, ref: caseRef{Part: "node", Type: what, Spec: js}, cost: 1}
}

func referenceOf(nc nodeCase) nodeCase {
	ref := nc
	ref.HPath = "memory"
	if ref.DPath != "none" {
		ref.DPath = "memory"
	}
	return ref
}

func runNodeVerdicts(t *testing.T, r *vf.Run, patterns []string) (st nodeStats, evals, distinct int64) {
	cases := nodeCases(patterns)
	st = nodeStats{Cases: len(cases), AcceptedByPath: map[string]int{}, RejectedByPath: map[string]int{}, Patterns: patterns}
	type res struct {
		v      nodeVerdict
		dataOK bool
	}
	results := make([]res, len(cases))
	parallel(int64(len(cases)), 1, func(_ int, lo, hi int64) {
		for i := lo; i < hi; i++ {
			results[i].v, results[i].dataOK = runNodeCase(t, cases[i])
		}
	})
	refs := map[string]nodeVerdict{}
	for i, nc := range cases {
		if results[i].v.Err != "" {
			r.EngineError("part (e), " + nc.String() + ": " + results[i].v.Err)
			return
		}
		if nc == referenceOf(nc) {
			refs[nc.refKey()] = results[i].v
			st.References++
		}
	}
	sampled := false
	for i, nc := range cases {
		evals++
		v := results[i].v
		if v.Accepted {
			st.AcceptedByPath[nc.HPath]++
			distinct++
		} else {
			st.RejectedByPath[nc.HPath]++
		}
		r.Outcome(fmt.Sprintf("node:%s:%s:accepted=%v", nc.HPath, nc.DPath, v.Accepted))
		if nc == referenceOf(nc) {
			continue // the reference itself: no encoding, nothing to compare (C02/C03 judge what a node accepts)
		}
		st.Judged++
		ref := refs[nc.refKey()]
		if f := judgeNodeCase(nc, v, results[i].dataOK, ref); f != nil {
			report(r, *f)
		}
		if !sampled && nc.Custom && nc.HPath == "cache-file" && nc.Sig == "custom" {
			sampled = true
			r.Sample(map[string]any{"part": "node-verdict", "scenario": nc.String(), "accepted": v.Accepted, "reference_accepted": ref.Accepted})
		}
	}
	return
}

func replayNodeCase(t *testing.T, r *vf.Run, ref caseRef) {
	var nc nodeCase
	if err := json.Unmarshal(ref.Spec, &nc); err != nil {
		r.EngineError(err.Error())
		return
	}
	v, dataOK := runNodeCase(t, nc)
	rv, _ := runNodeCase(t, referenceOf(nc))
	if v.Err != "" || rv.Err != "" {
		r.EngineError("part (e) replay: " + v.Err + " " + rv.Err)
		return
	}
	fmt.Printf("scenario: %s\n verdict %+v\n reference %+v data valid=%v\n", nc, v, rv, dataOK)
	if f := judgeNodeCase(nc, v, dataOK, rv); f != nil {
		report(r, *f)
	}
}

// TestNodeVerdictsDev runs part (e) alone at the thorough bound (development aid; skipped unless VERIF_C12_NODE_DEV is
// set; run the built check.test with VERIF_EVIDENCE_DIR pointing away from /verif/evidence).
func TestNodeVerdictsDev(t *testing.T) {
	if os.Getenv("VERIF_C12_NODE_DEV") == "" {
		t.Skip("development aid")
	}
	r := vf.Start("C12", "exploration")
	t0 := time.Now()
	st, ev, dist := runNodeVerdicts(t, r, append(world.Patterns("eab", 1), world.Patterns("eab", 2)...))
	fmt.Printf("part (e) alone: %+v evaluations=%d accepted=%d wall=%.1fs\n", st, ev, dist, time.Since(t0).Seconds())
	r.Finish(vf.Coverage{Evaluations: ev, DistinctNontrivial: dist})
}
