package c12

import (
	"bytes"
	"crypto/sha256"
	"encoding/gob"
	"encoding/hex"
	"encoding/json"
	"fmt"
	"os"
	"path/filepath"
	"sort"

	"github.com/evstack/ev-node/block"
	"github.com/evstack/ev-node/pkg/cache"
	"github.com/evstack/ev-node/types"

	"verif/harness/vf"
)

// Golden vectors: fixed values (defined here, in code) with the exact bytes and hashes the pinned tree produces for them.
// The file is written once (VERIF_C12_GOLDEN=write ./check C12 quick) and compared verbatim on every run.

type vector struct {
	Name       string          `json:"name"`
	Type       string          `json:"type"`
	Spec       json.RawMessage `json:"spec"`
	Bytes      string          `json:"bytes"`
	Hash       string          `json:"hash,omitempty"`
	Commitment string          `json:"commitment,omitempty"`
	SigValid   *bool           `json:"signature_valid,omitempty"`
}

type goldenFile struct {
	Note       string                       `json:"note"`
	Constants  map[string]string            `json:"constants"`
	Vectors    []vector                     `json:"vectors"`
	CacheFiles map[string]map[string]string `json:"cache_files"` // kind -> file name -> hex of the gob file
}

func goldenPath() string { return filepath.Join(vf.Root(), "golden", "c12.json") }

type fixedValue struct {
	name string
	typ  string
	spec any
}

func maxHeaderSpec() HeaderSpec {
	s := HeaderSpec{Block: 1<<64 - 1, App: 1<<64 - 1, Height: 1<<64 - 1, Time: 1<<64 - 1, ChainID: hexs("c")}
	for i := range s.Hashes {
		s.Hashes[i] = domB[3]
	}
	return s
}

func fixedValues() []fixedValue {
	tm := typicalMetaSpec()
	zm := MetaSpec{ChainID: hexs(""), LastDataHash: "nil"}
	secp := typicalSignedHeaderSpec()
	secp.Signer = signerSecp
	secp.H.Hashes[6] = bs(secpAddrB())
	return []fixedValue{
		{"header/typical", "Header", typicalHeaderSpec()},
		{"header/zero", "Header", zeroHeaderSpec()},
		{"header/max", "Header", maxHeaderSpec()},
		{"signedheader/typical", "SignedHeader", typicalSignedHeaderSpec()},
		{"signedheader/zero", "SignedHeader", zeroSignedHeaderSpec()},
		{"signedheader/secp256k1", "SignedHeader", secp},
		{"data/typical", "Data", typicalDataSpec()},
		{"data/empty", "Data", DataSpec{TxsNil: true}},
		{"data/txs-only", "Data", DataSpec{Txs: []string{bs([]byte{1}), bs([]byte{2}), bs([]byte{3})}}},
		{"data/zero-metadata-one-empty-tx", "Data", DataSpec{Meta: &zm, Txs: []string{"x"}}},
		{"signeddata/typical", "SignedData", SignedDataSpec{D: typicalDataSpec(), Sig: "valid", Signer: signerEd}},
		{"signeddata/zero", "SignedData", SignedDataSpec{D: DataSpec{TxsNil: true}, Sig: "nil", Signer: signerNone}},
		{"metadata/typical", "Metadata", tm},
		{"metadata/zero", "Metadata", zm},
		{"state/typical", "State", typicalStateSpec()},
		{"state/zero", "State", StateSpec{ChainID: hexs(""), LastResultsHash: "nil", AppHash: "nil"}},
		{"batch/typical", "BatchCursor", BatchSpec{Items: []string{bs([]byte("a")), "x", bs(pat(0x10, 32))}}},
		{"batch/empty", "BatchCursor", BatchSpec{Items: []string{}}},
		{"batch/300-byte-entry", "BatchCursor", BatchSpec{Items: []string{domE[4], bs([]byte{9})}}},
	}
}

// buildTyped turns (type name, spec) into the value and the primary encoder/decoder of that type.
func buildTyped(typ string, raw json.RawMessage) (v any, nonUTF8 bool, err error) {
	switch typ {
	case "Header":
		var s HeaderSpec
		if err = json.Unmarshal(raw, &s); err == nil {
			h := s.build()
			v, nonUTF8 = &h, s.nonUTF8()
		}
	case "SignedHeader":
		var s SignedHeaderSpec
		if err = json.Unmarshal(raw, &s); err == nil {
			v, nonUTF8 = s.build(), s.H.nonUTF8()
		}
	case "Data":
		var s DataSpec
		if err = json.Unmarshal(raw, &s); err == nil {
			v, nonUTF8 = s.build(), s.nonUTF8()
		}
	case "SignedData":
		var s SignedDataSpec
		if err = json.Unmarshal(raw, &s); err == nil {
			v, nonUTF8 = s.build(), s.D.nonUTF8()
		}
	case "Metadata":
		var s MetaSpec
		if err = json.Unmarshal(raw, &s); err == nil {
			v, nonUTF8 = s.build(), (DataSpec{Meta: &s}).nonUTF8()
		}
	case "State":
		var s StateSpec
		if err = json.Unmarshal(raw, &s); err == nil {
			v, nonUTF8 = s.build(), s.nonUTF8()
		}
	case "BatchCursor":
		var s BatchSpec
		if err = json.Unmarshal(raw, &s); err == nil {
			v = s.build()
		}
	default:
		err = fmt.Errorf("unknown type %q", typ)
	}
	return
}

func primaryCodec(typ string) decoder {
	for _, d := range decoders {
		if d.name == typ {
			return d
		}
	}
	panic("no codec for " + typ)
}

func computeVector(fv fixedValue) (vector, error) {
	raw, _ := json.Marshal(fv.spec)
	v, _, err := buildTyped(fv.typ, raw)
	if err != nil {
		return vector{}, err
	}
	bz, err := primaryCodec(fv.typ).enc(v)
	if err != nil {
		return vector{}, fmt.Errorf("%s: %w", fv.name, err)
	}
	out := vector{Name: fv.name, Type: fv.typ, Spec: raw, Bytes: hex.EncodeToString(bz)}
	for _, f := range hashesOf(v) {
		switch f.K {
		case "Hash":
			out.Hash = f.V
		case "DACommitment":
			out.Commitment = f.V
		}
	}
	if app, ok := sigOK(v); app {
		out.SigValid = &ok
	}
	return out, nil
}

// golden cache contents
func goldenCacheSpec(kind string) CacheSpec {
	cs := CacheSpec{Kind: kind, Seen: []string{hexs("c"), hexs("6E340B9CFFB37A98")}, DA: []CacheDA{{hexs("6E340B9CFFB37A98"), 5}, {hexs(""), 1<<64 - 1}}}
	if kind == "header" {
		t, z := typicalSignedHeaderSpec(), zeroSignedHeaderSpec()
		cs.Items = []CacheItem{{Height: 7, H: &t}, {Height: 1<<64 - 1, H: &z}}
	} else {
		t, z := typicalDataSpec(), DataSpec{TxsNil: true}
		cs.Items = []CacheItem{{Height: 7, D: &t}, {Height: 1<<64 - 1, D: &z}}
	}
	return cs
}

var cacheFileNames = []string{"items_by_height.gob", "items_by_hash.gob", "hashes.gob", "da_included.gob"}

func registerGob() {
	// exactly what block.Manager.LoadCache does before touching the files (block/manager.go:1051)
	gob.Register(&types.SignedHeader{})
	gob.Register(&types.Data{})
}

func fillCache[T any](c *cache.Cache[T], cs CacheSpec) {
	for _, it := range cs.Items {
		var v any
		if it.H != nil {
			v = it.H.build()
		} else {
			v = it.D.build()
		}
		c.SetItem(it.Height, v.(*T))
	}
	for _, s := range cs.Seen {
		c.SetSeen(unhexs(s))
	}
	for _, d := range cs.DA {
		c.SetDAIncluded(unhexs(d.Hash), d.Height)
	}
}

func saveCacheFiles(cs CacheSpec) (map[string]string, error) {
	dir, err := os.MkdirTemp("", "c12-golden-")
	if err != nil {
		return nil, err
	}
	defer os.RemoveAll(dir)
	if cs.Kind == "header" {
		c := cache.NewCache[types.SignedHeader]()
		fillCache(c, cs)
		err = c.SaveToDisk(dir)
	} else {
		c := cache.NewCache[types.Data]()
		fillCache(c, cs)
		err = c.SaveToDisk(dir)
	}
	if err != nil {
		return nil, err
	}
	out := map[string]string{}
	for _, n := range cacheFileNames {
		bz, err := os.ReadFile(filepath.Join(dir, n))
		if err != nil {
			return nil, err
		}
		out[n] = hex.EncodeToString(bz)
	}
	return out, nil
}

func expectedCacheDump(cs CacheSpec) *cacheDump {
	if cs.Kind == "header" {
		c := cache.NewCache[types.SignedHeader]()
		fillCache(c, cs)
		return dumpCache(c)
	}
	c := cache.NewCache[types.Data]()
	fillCache(c, cs)
	return dumpCache(c)
}

func loadCacheDir(kind, dir string) (*cacheDump, error) {
	if kind == "header" {
		c := cache.NewCache[types.SignedHeader]()
		if err := c.LoadFromDisk(dir); err != nil {
			return nil, err
		}
		return dumpCache(c), nil
	}
	c := cache.NewCache[types.Data]()
	if err := c.LoadFromDisk(dir); err != nil {
		return nil, err
	}
	return dumpCache(c), nil
}

func writeGolden() error {
	g := goldenFile{
		Note: "C12 golden vectors, generated once from the pinned tree with `VERIF_C12_GOLDEN=write ./check C12 quick`; compared verbatim by every run of the check. " +
			"cache_files are gob files as written by Cache.SaveToDisk; they are compared by decoding (gob type ids and map order are not part of the format contract).",
		Constants:  map[string]string{},
		CacheFiles: map[string]map[string]string{},
	}
	h := sha256.Sum256([]byte{0})
	g.Constants["sha256(0x00)"] = hex.EncodeToString(h[:])
	g.Constants["block.dataHashForEmptyTxs"] = hex.EncodeToString(block.VerifDataHashForEmptyTxs())
	g.Constants["DACommitment(empty Data)"] = hx((&types.Data{}).DACommitment())
	for _, fv := range fixedValues() {
		v, err := computeVector(fv)
		if err != nil {
			return err
		}
		g.Vectors = append(g.Vectors, v)
	}
	for _, kind := range []string{"header", "data"} {
		files, err := saveCacheFiles(goldenCacheSpec(kind))
		if err != nil {
			return err
		}
		g.CacheFiles[kind] = files
	}
	bz, err := json.MarshalIndent(g, "", " ")
	if err != nil {
		return err
	}
	if err := os.MkdirAll(filepath.Dir(goldenPath()), 0o755); err != nil {
		return err
	}
	return os.WriteFile(goldenPath(), append(bz, '\n'), 0o644)
}

func loadGolden() (*goldenFile, error) {
	bz, err := os.ReadFile(goldenPath())
	if err != nil {
		return nil, err
	}
	var g goldenFile
	if err := json.Unmarshal(bz, &g); err != nil {
		return nil, err
	}
	return &g, nil
}

func compactJSON(raw json.RawMessage) string {
	var b bytes.Buffer
	if err := json.Compact(&b, raw); err != nil {
		return string(raw)
	}
	return b.String()
}

// checkGolden compares the current tree against the file. Returns findings and the number of comparisons made.
func checkGolden(g *goldenFile, only string) (fs []finding, evals int64, engineErr string) {
	byName := map[string]vector{}
	for _, v := range g.Vectors {
		byName[v.Name] = v
	}
	add := func(clause, name, msg string) {
		fs = append(fs, finding{clause: clause, tags: []string{"vector:" + name}, msg: msg, ref: caseRef{Part: "golden", Name: name}, cost: 1})
	}
	for _, fv := range fixedValues() {
		if only != "" && only != fv.name {
			continue
		}
		gv, ok := byName[fv.name]
		if !ok {
			return nil, evals, "golden file has no vector " + fv.name + " (regenerate only from the pinned tree)"
		}
		raw, _ := json.Marshal(fv.spec)
		if compactJSON(gv.Spec) != string(raw) {
			return nil, evals, "golden vector " + fv.name + " was generated from a different fixed value than the check defines"
		}
		evals++
		cur, err := computeVector(fv)
		if err != nil {
			add("golden-bytes", fv.name, "fixed value no longer encodes: "+err.Error())
			continue
		}
		if cur.Bytes != gv.Bytes {
			add("golden-bytes", fv.name, fmt.Sprintf("encoding of the fixed value %s changed:\n golden %s\n now    %s", fv.name, gv.Bytes, cur.Bytes))
		}
		if cur.Hash != gv.Hash {
			add("golden-hash", fv.name, fmt.Sprintf("Hash() of the fixed value %s changed: golden %s now %s", fv.name, gv.Hash, cur.Hash))
		}
		if cur.Commitment != gv.Commitment {
			add("golden-commitment", fv.name, fmt.Sprintf("DACommitment() of the fixed value %s changed: golden %s now %s", fv.name, gv.Commitment, cur.Commitment))
		}
		if (cur.SigValid == nil) != (gv.SigValid == nil) || (cur.SigValid != nil && *cur.SigValid != *gv.SigValid) {
			add("golden-signature", fv.name, fmt.Sprintf("signature validity of the fixed value %s changed", fv.name))
		}
		// today's bytes must still decode to today's value, with today's hash and a still-valid signature
		gb, err := hex.DecodeString(gv.Bytes)
		if err != nil {
			return nil, evals, "golden bytes of " + fv.name + " are not hex"
		}
		v, _, _ := buildTyped(fv.typ, raw)
		evals++
		out, derr, pmsg := safeDec(primaryCodec(fv.typ), gb)
		switch {
		case pmsg != "":
			add("decoder-panic", fv.name, "decoding the golden bytes panics: "+pmsg)
		case derr != nil:
			add("golden-decode", fv.name, "the golden bytes of "+fv.name+" no longer decode: "+derr.Error())
		default:
			if d := diffFields(canonOf(v), canonOf(out)); len(d) > 0 {
				add("golden-decode", fv.name, fmt.Sprintf("the golden bytes of %s decode to a different value (fields %v):\n want %s\n got  %s", fv.name, d, renderFields(canonOf(v)), renderFields(canonOf(out))))
			}
			for _, f := range hashesOf(out) {
				if (f.K == "Hash" && f.V != gv.Hash) || (f.K == "DACommitment" && f.V != gv.Commitment) {
					add("golden-hash", fv.name, fmt.Sprintf("%s of the value decoded from the golden bytes of %s is %s, not the golden one", f.K, fv.name, f.V))
				}
			}
			if app, ok := sigOK(out); app && gv.SigValid != nil && ok != *gv.SigValid {
				add("golden-signature", fv.name, "signature validity of the value decoded from the golden bytes changed")
			}
		}
	}
	if only == "" || only == "constants" {
		evals++
		h := sha256.Sum256([]byte{0})
		want := g.Constants["block.dataHashForEmptyTxs"]
		cur := map[string]string{
			"sha256(0x00)":              hex.EncodeToString(h[:]),
			"block.dataHashForEmptyTxs": hex.EncodeToString(block.VerifDataHashForEmptyTxs()),
			"DACommitment(empty Data)":  hx((&types.Data{}).DACommitment()),
			"DACommitment(Txs{})":       hx((&types.Data{Txs: types.Txs{}}).DACommitment()),
		}
		keys := make([]string, 0, len(cur))
		for k := range cur {
			keys = append(keys, k)
		}
		sort.Strings(keys)
		for _, k := range keys {
			if cur[k] != want {
				add("golden-empty-data-constant", "constants", fmt.Sprintf("%s = %s, but the golden constant for data without transactions is %s", k, cur[k], want))
			}
		}
	}
	for _, kind := range []string{"header", "data"} {
		name := "cache/" + kind
		if only != "" && only != name {
			continue
		}
		files, ok := g.CacheFiles[kind]
		if !ok {
			return nil, evals, "golden file has no cache files for " + kind
		}
		evals++
		dir, err := os.MkdirTemp("", "c12-gc-")
		if err != nil {
			return nil, evals, err.Error()
		}
		for n, hx := range files {
			bz, err := hex.DecodeString(hx)
			if err != nil {
				return nil, evals, "golden cache file is not hex"
			}
			if err := os.WriteFile(filepath.Join(dir, n), bz, 0o644); err != nil {
				return nil, evals, err.Error()
			}
		}
		got, err := loadCacheDir(kind, dir)
		os.RemoveAll(dir)
		if err != nil {
			add("golden-cache-decode", name, "the golden cache files no longer load: "+err.Error())
			continue
		}
		want := expectedCacheDump(goldenCacheSpec(kind))
		if d := diffFields(want.canon(), got.canon()); len(d) > 0 {
			add("golden-cache-decode", name, fmt.Sprintf("the golden %s cache files load to different contents (fields %v)", kind, d))
		}
	}
	return fs, evals, ""
}
