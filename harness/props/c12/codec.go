package c12

import (
	"bytes"
	"context"
	"encoding/hex"
	"errors"
	"fmt"
	"sort"
	"strings"

	"github.com/libp2p/go-libp2p/core/crypto"
	"google.golang.org/protobuf/proto"

	"github.com/evstack/ev-node/block"
	"github.com/evstack/ev-node/pkg/cache"
	"github.com/evstack/ev-node/pkg/store"
	"github.com/evstack/ev-node/types"
	pb "github.com/evstack/ev-node/types/pb/evnode/v1"

	"verif/harness/world"
)

// ---- canonical forms (nil and empty byte strings / lists are the same value; times compare as instants) -------------

type field struct{ K, V string }

func hx(b []byte) string { return hex.EncodeToString(b) }

func canonHeader(h *types.Header) []field {
	return []field{
		{"Version.Block", fmt.Sprint(h.Version.Block)}, {"Version.App", fmt.Sprint(h.Version.App)},
		{"Height", fmt.Sprint(h.BaseHeader.Height)}, {"Time", fmt.Sprint(h.BaseHeader.Time)}, {"ChainID", hexs(h.BaseHeader.ChainID)},
		{"LastHeaderHash", hx(h.LastHeaderHash)}, {"LastCommitHash", hx(h.LastCommitHash)}, {"DataHash", hx(h.DataHash)},
		{"ConsensusHash", hx(h.ConsensusHash)}, {"AppHash", hx(h.AppHash)}, {"LastResultsHash", hx(h.LastResultsHash)},
		{"ProposerAddress", hx(h.ProposerAddress)}, {"ValidatorHash", hx(h.ValidatorHash)},
	}
}

func canonSigner(s types.Signer) []field {
	k := "none"
	if s.PubKey != nil {
		raw, err := s.PubKey.Raw()
		k = fmt.Sprintf("%v:%s:%v", s.PubKey.Type(), hx(raw), err)
	}
	return []field{{"Signer.PubKey", k}, {"Signer.Address", hx(s.Address)}}
}

func canonMeta(m *types.Metadata) []field {
	if m == nil {
		return []field{{"Metadata", "nil"}}
	}
	return []field{{"Metadata", "set"}, {"Metadata.ChainID", hexs(m.ChainID)}, {"Metadata.Height", fmt.Sprint(m.Height)},
		{"Metadata.Time", fmt.Sprint(m.Time)}, {"Metadata.LastDataHash", hx(m.LastDataHash)}}
}

func canonData(d *types.Data) []field {
	f := canonMeta(d.Metadata)
	txs := make([]string, len(d.Txs))
	for i, t := range d.Txs {
		txs[i] = hx(t)
	}
	return append(f, field{"Txs", fmt.Sprintf("%d[%s]", len(d.Txs), strings.Join(txs, ","))})
}

func canonState(s *types.State) []field {
	return []field{
		{"Version.Block", fmt.Sprint(s.Version.Block)}, {"Version.App", fmt.Sprint(s.Version.App)}, {"ChainID", hexs(s.ChainID)},
		{"InitialHeight", fmt.Sprint(s.InitialHeight)}, {"LastBlockHeight", fmt.Sprint(s.LastBlockHeight)},
		{"LastBlockTime", fmt.Sprintf("%d.%09d", s.LastBlockTime.Unix(), s.LastBlockTime.Nanosecond())},
		{"DAHeight", fmt.Sprint(s.DAHeight)}, {"LastResultsHash", hx(s.LastResultsHash)}, {"AppHash", hx(s.AppHash)},
	}
}

func canonBatch(b [][]byte) []field {
	es := make([]string, len(b))
	for i, e := range b {
		es[i] = hx(e)
	}
	return []field{{"Batch", fmt.Sprintf("%d[%s]", len(b), strings.Join(es, ","))}}
}

func canonOf(v any) []field {
	switch x := v.(type) {
	case *types.Header:
		return canonHeader(x)
	case *types.SignedHeader:
		return append(append(canonHeader(&x.Header), field{"Signature", hx(x.Signature)}), canonSigner(x.Signer)...)
	case *types.Metadata:
		return canonMeta(x)
	case *types.Data:
		return canonData(x)
	case *types.SignedData:
		return append(append(canonData(&x.Data), field{"Signature", hx(x.Signature)}), canonSigner(x.Signer)...)
	case *types.State:
		return canonState(x)
	case [][]byte:
		return canonBatch(x)
	case *cacheDump:
		return x.canon()
	}
	panic(fmt.Sprintf("canonOf(%T)", v))
}

func diffFields(a, b []field) []string {
	var out []string
	am := map[string]string{}
	for _, f := range a {
		am[f.K] = f.V
	}
	bm := map[string]string{}
	for _, f := range b {
		bm[f.K] = f.V
		if v, ok := am[f.K]; !ok || v != f.V {
			out = append(out, f.K)
		}
	}
	for _, f := range a {
		if _, ok := bm[f.K]; !ok {
			out = append(out, f.K)
		}
	}
	sort.Strings(out)
	return out
}

func renderFields(a []field) string {
	var sb strings.Builder
	for _, f := range a {
		fmt.Fprintf(&sb, "%s=%s ", f.K, f.V)
	}
	return sb.String()
}

// hashesOf returns the hashes the value defines (header hash; data hash and DA commitment).
func hashesOf(v any) []field {
	switch x := v.(type) {
	case *types.Header:
		return []field{{"Hash", hx(x.Hash())}}
	case *types.SignedHeader:
		return []field{{"Hash", hx(x.Hash())}}
	case *types.Data:
		return []field{{"Hash", hx(x.Hash())}, {"DACommitment", hx(x.DACommitment())}}
	case *types.SignedData:
		return []field{{"Hash", hx(x.Data.Hash())}, {"DACommitment", hx(x.Data.DACommitment())}}
	}
	return nil
}

func verifyKey(k crypto.PubKey, payload, sig []byte) (ok bool) {
	defer func() {
		if recover() != nil {
			ok = false
		}
	}()
	if k == nil {
		return false
	}
	ok, err := k.Verify(payload, sig)
	return ok && err == nil
}

// sigOK: does the signature verify under the carried public key (header: default payload; data: the data bytes)?
func sigOK(v any) (applicable, ok bool) {
	switch x := v.(type) {
	case *types.SignedHeader:
		p, err := types.DefaultSignaturePayloadProvider(&x.Header)
		if err != nil {
			return true, false
		}
		return true, verifyKey(x.Signer.PubKey, p, x.Signature)
	case *types.SignedData:
		p, err := x.Data.MarshalBinary()
		if err != nil {
			return true, false
		}
		return true, verifyKey(x.Signer.PubKey, p, x.Signature)
	}
	return false, false
}

// sigOKCustom: does a signed header's signature verify under the carried public key when the payload is the one of the
// NON-DEFAULT provider (world.CustomPayloadProvider) — the verdict of a node configured with that provider?
func sigOKCustom(v any) (applicable, ok bool) {
	if x, is := v.(*types.SignedHeader); is {
		p, err := world.CustomPayloadProvider(&x.Header)
		if err != nil {
			return true, false
		}
		return true, verifyKey(x.Signer.PubKey, p, x.Signature)
	}
	return false, false
}

// ---- encode / decode paths ---------------------------------------------------------------------------------------------

// A path carries a value from the writer to the reader exactly as one part of the node does.
type path struct {
	name string
	// rt encodes v and decodes the result again. wire is nil when the path has no single byte string to show.
	rt func(v any) (wire []byte, out any, encErr, decErr error)
}

func bytesPath(name string, enc func(any) ([]byte, error), dec func([]byte) (any, error)) path {
	return path{name: name, rt: func(v any) ([]byte, any, error, error) {
		bz, err := enc(v)
		if err != nil {
			return nil, nil, err, nil
		}
		out, err := dec(bz)
		return bz, out, nil, err
	}}
}

func encBinary(v any) ([]byte, error) {
	switch x := v.(type) {
	case *types.Header:
		return x.MarshalBinary()
	case *types.SignedHeader:
		return x.MarshalBinary()
	case *types.Metadata:
		return x.MarshalBinary()
	case *types.Data:
		return x.MarshalBinary()
	case *types.SignedData:
		return x.MarshalBinary()
	}
	panic("encBinary")
}

func encProto(v any) ([]byte, error) {
	switch x := v.(type) {
	case *types.Header:
		return proto.Marshal(x.ToProto())
	case *types.SignedHeader:
		p, err := x.ToProto() // block/submitter.go:180
		if err != nil {
			return nil, err
		}
		return proto.Marshal(p)
	case *types.Metadata:
		return proto.Marshal(x.ToProto())
	case *types.Data:
		return proto.Marshal(x.ToProto())
	case *types.SignedData:
		p, err := x.ToProto()
		if err != nil {
			return nil, err
		}
		return proto.Marshal(p)
	case *types.State:
		p, err := x.ToProto() // pkg/store/store.go:182
		if err != nil {
			return nil, err
		}
		return proto.Marshal(p)
	}
	panic("encProto")
}

func decBinaryHeader(b []byte) (any, error) { v := new(types.Header); return v, v.UnmarshalBinary(b) }
func decBinarySignedHeader(b []byte) (any, error) {
	v := new(types.SignedHeader)
	return v, v.UnmarshalBinary(b)
}
func decBinaryMeta(b []byte) (any, error) { v := new(types.Metadata); return v, v.UnmarshalBinary(b) }
func decBinaryData(b []byte) (any, error) { v := new(types.Data); return v, v.UnmarshalBinary(b) }
func decBinarySignedData(b []byte) (any, error) {
	v := new(types.SignedData)
	return v, v.UnmarshalBinary(b)
}

func decProtoHeader(b []byte) (any, error) {
	var p pb.Header
	if err := proto.Unmarshal(b, &p); err != nil {
		return nil, err
	}
	v := new(types.Header)
	return v, v.FromProto(&p)
}
func decProtoSignedHeader(b []byte) (any, error) { // block/retriever.go:113-121
	var p pb.SignedHeader
	if err := proto.Unmarshal(b, &p); err != nil {
		return nil, err
	}
	v := new(types.SignedHeader)
	return v, v.FromProto(&p)
}
func decProtoMeta(b []byte) (any, error) {
	var p pb.Metadata
	if err := proto.Unmarshal(b, &p); err != nil {
		return nil, err
	}
	v := new(types.Metadata)
	return v, v.FromProto(&p)
}
func decProtoData(b []byte) (any, error) {
	var p pb.Data
	if err := proto.Unmarshal(b, &p); err != nil {
		return nil, err
	}
	v := new(types.Data)
	return v, v.FromProto(&p)
}
func decProtoSignedData(b []byte) (any, error) {
	var p pb.SignedData
	if err := proto.Unmarshal(b, &p); err != nil {
		return nil, err
	}
	v := new(types.SignedData)
	return v, v.FromProto(&p)
}
func decProtoState(b []byte) (any, error) { // pkg/store/store.go:198-206
	var p pb.State
	if err := proto.Unmarshal(b, &p); err != nil {
		return nil, err
	}
	v := new(types.State)
	return v, v.FromProto(&p)
}

func encBatch(v any) ([]byte, error)   { return block.VerifConvertBatchDataToBytes(v.([][]byte)), nil }
func decBatch(b []byte) (any, error) {
	out, err := block.VerifBytesToBatchData(b)
	if err != nil {
		return nil, err
	}
	return out, nil
}

// storeBlockPath: the real DefaultStore over the in-memory datastore double (SaveBlockData / GetBlockData).
// The companion (data for a header, header for data) is a fixed valid value at the same height.
func storeHeaderPath() path {
	return path{name: "store", rt: func(v any) ([]byte, any, error, error) {
		ctx := context.Background()
		kv := world.NewKV(nil)
		s := store.New(kv)
		sh := v.(*types.SignedHeader)
		sig := types.Signature([]byte{1})
		if err := s.SaveBlockData(ctx, sh, &types.Data{}, &sig); err != nil {
			return nil, nil, err, nil
		}
		s2 := store.New(world.NewKV(kv.Image())) // read through a fresh store: nothing but the durable bytes survives
		out, _, err := s2.GetBlockData(ctx, sh.Height())
		if err != nil {
			return nil, nil, nil, err
		}
		byHash, _, err := s2.GetBlockByHash(ctx, sh.Hash())
		if err != nil {
			return nil, nil, nil, fmt.Errorf("GetBlockByHash: %w", err)
		}
		if d := diffFields(canonOf(out), canonOf(byHash)); len(d) > 0 {
			return nil, nil, nil, fmt.Errorf("GetBlockByHash and GetBlockData disagree in %v", d)
		}
		return nil, out, nil, nil
	}}
}

func storeDataPath() path {
	return path{name: "store", rt: func(v any) ([]byte, any, error, error) {
		ctx := context.Background()
		kv := world.NewKV(nil)
		s := store.New(kv)
		d := v.(*types.Data)
		sh := &types.SignedHeader{Header: types.Header{BaseHeader: types.BaseHeader{Height: 5}}}
		sig := types.Signature([]byte{1})
		if err := s.SaveBlockData(ctx, sh, d, &sig); err != nil {
			return nil, nil, err, nil
		}
		s2 := store.New(world.NewKV(kv.Image()))
		_, out, err := s2.GetBlockData(ctx, 5)
		if err != nil {
			return nil, nil, nil, err
		}
		return nil, out, nil, nil
	}}
}

func storeStatePath() path {
	return path{name: "store", rt: func(v any) ([]byte, any, error, error) {
		ctx := context.Background()
		kv := world.NewKV(nil)
		s := store.New(kv)
		if err := s.UpdateState(ctx, *v.(*types.State)); err != nil {
			return nil, nil, err, nil
		}
		s2 := store.New(world.NewKV(kv.Image()))
		out, err := s2.GetState(ctx)
		if err != nil {
			return nil, nil, nil, err
		}
		return nil, &out, nil, nil
	}}
}

// cache path for one item: Cache.SetItem, SaveToDisk, LoadFromDisk into a fresh cache, GetItem.
func cacheItemPath[T any]() path {
	return path{name: "cache", rt: func(v any) ([]byte, any, error, error) {
		sc := getScratch()
		defer putScratch(sc)
		d := sc.out
		c := cache.NewCache[T]()
		c.SetItem(7, v.(*T))
		if err := c.SaveToDisk(d); err != nil {
			return nil, nil, err, nil
		}
		c2 := cache.NewCache[T]()
		if err := c2.LoadFromDisk(d); err != nil {
			return nil, nil, nil, err
		}
		out := c2.GetItem(7)
		if out == nil {
			return nil, nil, nil, errors.New("item missing after LoadFromDisk")
		}
		return nil, any(out), nil, nil
	}}
}

var (
	pathsHeader = []path{
		bytesPath("binary(store,p2p)", encBinary, decBinaryHeader),
		bytesPath("proto(da)", encProto, decProtoHeader),
	}
	pathsSignedHeaderFast = []path{
		bytesPath("binary(store,p2p)", encBinary, decBinarySignedHeader),
		bytesPath("proto(da)", encProto, decProtoSignedHeader),
	}
	pathsMeta = []path{
		bytesPath("binary", encBinary, decBinaryMeta),
		bytesPath("proto", encProto, decProtoMeta),
	}
	pathsDataFast = []path{
		bytesPath("binary(store,p2p)", encBinary, decBinaryData),
		bytesPath("proto", encProto, decProtoData),
	}
	pathsSignedData = []path{
		bytesPath("binary(da)", encBinary, decBinarySignedData),
		bytesPath("proto", encProto, decProtoSignedData),
	}
	pathsStateFast = []path{bytesPath("proto(store)", encProto, decProtoState)}
	pathsBatch     = []path{bytesPath("cursor", encBatch, decBatch)}
)

// ---- cache dumps ------------------------------------------------------------------------------------------------------

type cacheDump struct {
	items  map[string][]field // key rendered "h:<height>" / "s:<hex>"
	hashes map[string]bool
	da     map[string]uint64
}

func dumpCache[T any](c *cache.Cache[T]) *cacheDump {
	items, hashes, da := c.VerifC12Dump()
	d := &cacheDump{items: map[string][]field{}, hashes: hashes, da: da}
	for k, v := range items {
		var key string
		switch kk := k.(type) {
		case uint64:
			key = fmt.Sprintf("h:%d", kk)
		case string:
			key = "s:" + hexs(kk)
		default:
			key = fmt.Sprintf("?%T:%v", k, k)
		}
		if v == nil {
			d.items[key] = []field{{"item", "nil"}}
			continue
		}
		val := any(v)
		d.items[key] = append(canonOf(val), hashesOf(val)...)
	}
	return d
}

func (d *cacheDump) canon() []field {
	var out []field
	for k, fs := range d.items {
		for _, f := range fs {
			out = append(out, field{"item[" + k + "]." + f.K, f.V})
		}
	}
	for k, v := range d.hashes {
		out = append(out, field{"seen[" + hexs(k) + "]", fmt.Sprint(v)})
	}
	for k, v := range d.da {
		out = append(out, field{"daIncluded[" + hexs(k) + "]", fmt.Sprint(v)})
	}
	sort.Slice(out, func(i, j int) bool { return out[i].K < out[j].K })
	return out
}

func bytesEq(a, b []byte) bool { return bytes.Equal(a, b) }
