package c12

import (
	"encoding/binary"
	"crypto/sha256"
	"encoding/hex"
	"encoding/json"
	"fmt"
	"os"
	"path/filepath"
	"runtime"
	"sort"
	"strings"
	"sync"
	"sync/atomic"
	"syscall"
	"testing"
	"time"

	"github.com/evstack/ev-node/pkg/cache"
	"github.com/evstack/ev-node/types"

	"verif/harness/explore"
	"verif/harness/vf"
	"verif/harness/world"
)

// C12 — wire encodings round-trip, hashes are stable, decoders are total.
// Bounded-exhaustive input enumeration against the real codecs (types/serialization.go, types/hashing.go,
// block/manager.go batch cursor, pkg/cache gob files, pkg/store). No sampling anywhere.
//
// Oracle clauses
//   (a) roundtrip-value, roundtrip-hash, roundtrip-signature, roundtrip-decode-error, encode-error, paths-agree,
//       commitment-metadata-independence, commitment-order-sensitivity, commitment-function-of-tx-list
//   (b) golden-bytes, golden-hash, golden-commitment, golden-signature, golden-decode, golden-empty-data-constant,
//       golden-cache-decode
//   (c) decoder-panic, decode-fixed-point

const (
	tagSHNoKeyAddr = "signedheader-nil-pubkey-with-address"
	tagSDNoKeyAddr = "signeddata-nil-pubkey-with-address"
)

// ---- (a) one value through its paths -----------------------------------------------------------------------------------

func safeRT(p path, v any) (wire []byte, out any, encErr, decErr error, panicMsg string) {
	defer func() {
		if x := recover(); x != nil {
			panicMsg = fmt.Sprint(x)
		}
	}()
	wire, out, encErr, decErr = p.rt(v)
	return
}

// classifyValueDiff computes the history features of a failed value round trip. The narrow triggers are only attached
// when the signer address is the ONLY thing that differs, so everything else stays armed on those inputs.
func classifyValueDiff(typ string, v any, d []string) []string {
	tags := []string{"type:" + typ}
	for _, k := range d {
		tags = append(tags, "differs:"+k)
	}
	if len(d) == 1 && d[0] == "Signer.Address" {
		switch x := v.(type) {
		case *types.SignedHeader:
			if x.Signer.PubKey == nil && len(x.Signer.Address) > 0 {
				tags = append(tags, tagSHNoKeyAddr)
			}
		case *types.SignedData:
			if x.Signer.PubKey == nil && len(x.Signer.Address) > 0 {
				tags = append(tags, tagSDNoKeyAddr)
			}
		}
	}
	return tags
}

type valueResult struct {
	fs         []finding
	evals      int64 // (value, path) round trips attempted
	roundTrips int64 // completed (encode and decode succeeded)
	rejected   int64 // encode refused a string that is not UTF-8 (clean error)
	outcome    string
}

func checkValue(typ string, v any, nonUTF8 bool, paths []path, ref caseRef, cost int) valueResult {
	var res valueResult
	add := func(clause string, tags []string, msg string) {
		res.fs = append(res.fs, finding{clause: clause, tags: tags, msg: msg, ref: ref, cost: cost})
	}
	want := canonOf(v)
	wantH := hashesOf(v)
	sigApp, wantSig := sigOK(v)
	sigCApp, wantSigC := sigOKCustom(v)
	var firstWire []byte
	var firstOut []field
	firstName := ""
	for _, p := range paths {
		res.evals++
		wire, out, encErr, decErr, pmsg := safeRT(p, v)
		ptag := []string{"type:" + typ, "path:" + p.name}
		if pmsg != "" {
			add("decoder-panic", ptag, fmt.Sprintf("%s via %s panics: %s\n value %s", typ, p.name, pmsg, renderFields(want)))
			continue
		}
		if encErr != nil {
			if nonUTF8 && strings.Contains(encErr.Error(), "UTF-8") {
				res.rejected++
				res.outcome = "encode-refuses-non-utf8-string"
				continue
			}
			add("encode-error", ptag, fmt.Sprintf("%s via %s does not encode: %v\n value %s", typ, p.name, encErr, renderFields(want)))
			continue
		}
		if decErr != nil {
			add("roundtrip-decode-error", ptag, fmt.Sprintf("%s via %s: the encoding %x does not decode: %v\n value %s", typ, p.name, wire, decErr, renderFields(want)))
			continue
		}
		res.roundTrips++
		got := canonOf(out)
		if d := diffFields(want, got); len(d) > 0 {
			add("roundtrip-value", append(classifyValueDiff(typ, v, d), "path:"+p.name),
				fmt.Sprintf("%s via %s: decode(encode(x)) differs from x in %v\n x    %s\n got  %s\n wire %x", typ, p.name, d, renderFields(want), renderFields(got), wire))
		}
		if d := diffFields(wantH, hashesOf(out)); len(d) > 0 {
			add("roundtrip-hash", append(ptag, "differs:"+strings.Join(d, ",")),
				fmt.Sprintf("%s via %s: %v changed across the round trip\n before %s\n after  %s\n x %s", typ, p.name, d, renderFields(wantH), renderFields(hashesOf(out)), renderFields(want)))
		}
		if sigApp {
			if _, gotSig := sigOK(out); gotSig != wantSig {
				add("roundtrip-signature", ptag, fmt.Sprintf("%s via %s: signature valid=%v before, valid=%v after the round trip\n x %s", typ, p.name, wantSig, gotSig, renderFields(want)))
			}
		}
		if sigCApp {
			if _, gotSigC := sigOKCustom(out); gotSigC != wantSigC {
				add("roundtrip-signature", append(ptag, "provider:custom"), fmt.Sprintf("%s via %s: under the non-default signature payload provider the signature is valid=%v before, valid=%v after the round trip\n x %s", typ, p.name, wantSigC, gotSigC, renderFields(want)))
			}
		}
		if firstName == "" {
			firstName, firstWire, firstOut = p.name, wire, got
		} else {
			if wire != nil && firstWire != nil && !bytesEq(wire, firstWire) {
				add("paths-agree", ptag, fmt.Sprintf("%s: path %s writes %x, path %s writes %x", typ, firstName, firstWire, p.name, wire))
			}
			if d := diffFields(firstOut, got); len(d) > 0 {
				add("paths-agree", ptag, fmt.Sprintf("%s: paths %s and %s deliver different values (fields %v)", typ, firstName, p.name, d))
			}
		}
	}
	if res.outcome == "" {
		if len(res.fs) > 0 {
			res.outcome = "violation:" + res.fs[0].clause
		} else {
			res.outcome = "round-trip-ok"
		}
	}
	return res
}

// ---- (c) decoders ------------------------------------------------------------------------------------------------------

// checkDecode: no panic; if the input decodes, the value re-encodes, and decoding that yields the same value (and the same bytes).
func checkDecode(d decoder, in []byte) (f *finding, success bool) {
	defer func() {
		if x := recover(); x != nil { // hashesOf / canonOf of a decoded value
			f = &finding{clause: "hash-or-codec-panic", tags: []string{"decoder:" + d.name}, cost: len(in),
				msg: fmt.Sprintf("%s: hashing / rendering the value decoded from %x panics: %v", d.name, in, x),
				ref: caseRef{Part: "decode", Decoder: d.name, Input: hex.EncodeToString(in)}}
		}
	}()
	mk := func(clause, msg string) *finding {
		return &finding{clause: clause, tags: []string{"decoder:" + d.name}, msg: msg, cost: len(in),
			ref: caseRef{Part: "decode", Decoder: d.name, Input: hex.EncodeToString(in)}}
	}
	// the decoder sees a slice whose capacity equals its length, as a freshly read blob has: reading one byte past
	// the end must show up as a panic and not be absorbed by spare capacity of the harness's buffer
	exact := make([]byte, len(in))
	copy(exact, in)
	in = exact
	v, err, pmsg := safeDec(d, in)
	if pmsg != "" {
		return mk("decoder-panic", fmt.Sprintf("%s decoder panics on input %x: %s", d.name, in, pmsg)), false
	}
	if err != nil {
		return nil, false
	}
	b2, err, pmsg := safeEnc(d, v)
	if pmsg != "" {
		return mk("decoder-panic", fmt.Sprintf("%s: re-encoding the value decoded from %x panics: %s", d.name, in, pmsg)), true
	}
	if err != nil {
		return mk("decode-fixed-point", fmt.Sprintf("%s: the value decoded from %x cannot be encoded again: %v", d.name, in, err)), true
	}
	v2, err, pmsg := safeDec(d, b2)
	if pmsg != "" {
		return mk("decoder-panic", fmt.Sprintf("%s decoder panics on re-encoded input %x (from %x): %s", d.name, b2, in, pmsg)), true
	}
	if err != nil {
		return mk("decode-fixed-point", fmt.Sprintf("%s: input %x decodes, its re-encoding %x does not: %v", d.name, in, b2, err)), true
	}
	if df := diffFields(canonOf(v), canonOf(v2)); len(df) > 0 {
		return mk("decode-fixed-point", fmt.Sprintf("%s: input %x decodes to a value that does not re-encode/decode to itself (fields %v)\n first  %s\n second %s", d.name, in, df, renderFields(canonOf(v)), renderFields(canonOf(v2)))), true
	}
	if df := diffFields(hashesOf(v), hashesOf(v2)); len(df) > 0 {
		return mk("decode-fixed-point", fmt.Sprintf("%s: input %x: %v differ between the decoded value and its re-decoded encoding", d.name, in, df)), true
	}
	b3, err, _ := safeEnc(d, v2)
	if err != nil || !bytesEq(b2, b3) {
		return mk("decode-fixed-point", fmt.Sprintf("%s: input %x: encoding is not stable (%x then %x, err %v)", d.name, in, b2, b3, err)), true
	}
	return nil, true
}

// cache decoder: a directory holding only the (mutated) file; LoadFromDisk must fail cleanly or load contents that
// survive SaveToDisk + LoadFromDisk unchanged.
func checkCacheDecode(kind, file string, in []byte) (f *finding, success bool) {
	name := "cache:" + kind + ":" + file
	mk := func(clause, msg string) *finding {
		return &finding{clause: clause, tags: []string{"decoder:" + name}, msg: msg, cost: len(in),
			ref: caseRef{Part: "decode", Decoder: name, Input: hex.EncodeToString(in)}}
	}
	sc := getScratch()
	defer putScratch(sc)
	d1, d2 := sc.in, sc.out
	if sc.lastFile != "" && sc.lastFile != file {
		os.Remove(filepath.Join(d1, sc.lastFile))
	}
	sc.lastFile = file
	if err := os.WriteFile(filepath.Join(d1, file), in, 0o644); err != nil {
		panic(err)
	}
	var pmsg string
	var first, second *cacheDump
	var lerr, serr, l2err error
	func() {
		defer func() {
			if x := recover(); x != nil {
				pmsg = fmt.Sprint(x)
			}
		}()
		if kind == "header" {
			first, serr, lerr, second, l2err = cacheFixedPoint[types.SignedHeader](d1, d2)
		} else {
			first, serr, lerr, second, l2err = cacheFixedPoint[types.Data](d1, d2)
		}
	}()
	if pmsg != "" {
		return mk("decoder-panic", fmt.Sprintf("LoadFromDisk(%s cache) panics on %s = %x: %s", kind, file, in, pmsg)), false
	}
	if lerr != nil {
		return nil, false
	}
	if serr != nil {
		return mk("decode-fixed-point", fmt.Sprintf("%s cache loaded from %s = %x cannot be saved again: %v", kind, file, in, serr)), true
	}
	if l2err != nil {
		return mk("decode-fixed-point", fmt.Sprintf("%s cache loaded from %s = %x, saved, does not load again: %v", kind, file, in, l2err)), true
	}
	if df := diffFields(first.canon(), second.canon()); len(df) > 0 {
		return mk("decode-fixed-point", fmt.Sprintf("%s cache loaded from %s = %x changes across save+load (fields %v)", kind, file, in, df)), true
	}
	return nil, true
}

func cacheFixedPoint[T any](d1, d2 string) (first *cacheDump, serr, lerr error, second *cacheDump, l2err error) {
	c := cache.NewCache[T]()
	if lerr = c.LoadFromDisk(d1); lerr != nil {
		return
	}
	first = dumpCache(c)
	if serr = c.SaveToDisk(d2); serr != nil {
		return
	}
	c2 := cache.NewCache[T]()
	if l2err = c2.LoadFromDisk(d2); l2err != nil {
		return
	}
	second = dumpCache(c2)
	return
}

// ---- whole-cache round trip (part a, cache files) ----------------------------------------------------------------------

func checkCacheValue(cs CacheSpec, ref caseRef, cost int) valueResult {
	var res valueResult
	res.evals = 1
	add := func(clause string, tags []string, msg string) {
		res.fs = append(res.fs, finding{clause: clause, tags: tags, msg: msg, ref: ref, cost: cost})
	}
	sc := getScratch()
	defer putScratch(sc)
	dir := sc.out // SaveToDisk rewrites all four files
	var want, got *cacheDump
	var serr, lerr error
	pmsg := ""
	func() {
		defer func() {
			if x := recover(); x != nil {
				pmsg = fmt.Sprint(x)
			}
		}()
		if cs.Kind == "header" {
			c := cache.NewCache[types.SignedHeader]()
			fillCache(c, cs)
			want = dumpCache(c)
			if serr = c.SaveToDisk(dir); serr == nil {
				got, lerr = loadCacheDir(cs.Kind, dir)
			}
		} else {
			c := cache.NewCache[types.Data]()
			fillCache(c, cs)
			want = dumpCache(c)
			if serr = c.SaveToDisk(dir); serr == nil {
				got, lerr = loadCacheDir(cs.Kind, dir)
			}
		}
	}()
	tags := []string{"type:Cache[" + cs.Kind + "]", "path:cache-files"}
	switch {
	case pmsg != "":
		add("decoder-panic", tags, "cache save/load panics: "+pmsg)
	case serr != nil:
		if cs.nonUTF8() && strings.Contains(serr.Error(), "UTF-8") {
			res.rejected++
			res.outcome = "encode-refuses-non-utf8-string"
			return res
		}
		add("encode-error", tags, "SaveToDisk fails: "+serr.Error())
	case lerr != nil:
		add("roundtrip-decode-error", tags, "LoadFromDisk of files just written by SaveToDisk fails: "+lerr.Error())
	default:
		res.roundTrips++
		if d := diffFields(want.canon(), got.canon()); len(d) > 0 {
			// the narrow trigger: only signer addresses of keyless items differ
			only := cs.Kind == "header"
			for _, k := range d {
				ok := false
				for _, it := range cs.Items {
					if it.H == nil {
						continue
					}
					sg := signerOpt(it.H.Signer)
					if k == fmt.Sprintf("item[h:%d].Signer.Address", it.Height) && sg.PubKey == nil && len(sg.Address) > 0 {
						ok = true
					}
				}
				only = only && ok
			}
			t := append([]string{}, tags...)
			for _, k := range d {
				t = append(t, "differs:"+k)
			}
			if only {
				t = append(t, tagSHNoKeyAddr)
			}
			add("roundtrip-value", t, fmt.Sprintf("%s cache differs after SaveToDisk+LoadFromDisk in %v\n before %s\n after  %s", cs.Kind, d, renderFields(want.canon()), renderFields(got.canon())))
		}
	}
	if res.outcome == "" {
		if len(res.fs) > 0 {
			res.outcome = "violation:" + res.fs[0].clause
		} else {
			res.outcome = "round-trip-ok"
		}
	}
	return res
}

// ---- enumeration -------------------------------------------------------------------------------------------------------

type job struct {
	typ   string
	spec  any
	paths string // fast | full
	cost  int
}

func pathsFor(typ, mode string) []path {
	switch typ {
	case "Header":
		return pathsHeader
	case "SignedHeader":
		if mode == "full" {
			return append(append([]path{}, pathsSignedHeaderFast...), storeHeaderPath(), cacheItemPath[types.SignedHeader]())
		}
		return pathsSignedHeaderFast
	case "Data":
		if mode == "full" {
			return append(append([]path{}, pathsDataFast...), storeDataPath(), cacheItemPath[types.Data]())
		}
		return pathsDataFast
	case "SignedData":
		return pathsSignedData
	case "Metadata":
		return pathsMeta
	case "State":
		if mode == "full" {
			return append(append([]path{}, pathsStateFast...), storeStatePath())
		}
		return pathsStateFast
	case "BatchCursor":
		return pathsBatch
	}
	panic("pathsFor " + typ)
}

// runJob never lets a panic of the code under test (a hash function tripping over state that another worker's call
// corrupted, for instance) escape into the harness: it is a finding of the job that was running.
func runJob(j job) (res valueResult) {
	raw, _ := json.Marshal(j.spec)
	ref := caseRef{Part: "value", Type: j.typ, Spec: raw, Paths: j.paths}
	defer func() {
		if x := recover(); x != nil {
			res.evals++
			res.outcome = "violation:hash-or-codec-panic"
			res.fs = append(res.fs, finding{clause: "hash-or-codec-panic", tags: []string{"type:" + j.typ}, ref: ref, cost: j.cost,
				msg: fmt.Sprintf("computing hashes / signature validity / canonical form of a %s value panics: %v\n spec %s", j.typ, x, raw)})
		}
	}()
	if j.typ == "Cache" {
		ref.Part = "cache"
		return checkCacheValue(j.spec.(CacheSpec), ref, j.cost)
	}
	v, nonUTF8, err := buildTyped(j.typ, raw)
	if err != nil {
		panic(err)
	}
	return checkValue(j.typ, v, nonUTF8, pathsFor(j.typ, j.paths), ref, j.cost)
}

type bounds struct {
	headerK, signedHeaderK, fullPathK int
	maxTxs, maxBatch                  int
	cacheCross                        bool
}

// buildJobs enumerates part (a). Every job is a distinct value (duplicates that arise from variations equal to the base
// are removed), so the number of jobs is the number of distinct values.
func buildJobs(b bounds) []job {
	var jobs []job
	seen := map[string]bool{}
	addU := func(j job) {
		raw, _ := json.Marshal(j.spec)
		k := j.typ + "|" + string(raw)
		if seen[k] {
			return
		}
		seen[k] = true
		jobs = append(jobs, j)
	}
	// Header and SignedHeader: two bases (typical, zero), all k-field variations
	for _, base := range []HeaderSpec{typicalHeaderSpec(), zeroHeaderSpec()} {
		addU(job{"Header", base, "fast", 0})
		for k := 1; k <= b.headerK; k++ {
			variations(nHeaderFields, headerDomSize, k, func(as []assign) {
				s := base
				for _, a := range as {
					s.set(a.F, a.V)
				}
				addU(job{"Header", s, "fast", k})
			})
		}
	}
	for _, base := range []SignedHeaderSpec{typicalSignedHeaderSpec(), zeroSignedHeaderSpec()} {
		addU(job{"SignedHeader", base, "full", 0})
		for k := 1; k <= b.signedHeaderK; k++ {
			mode := "fast"
			if k <= b.fullPathK {
				mode = "full"
			}
			variations(nSignedHeaderFields, signedHeaderDomSize, k, func(as []assign) {
				s := base
				for _, a := range as {
					s.set(a.F, a.V)
				}
				addU(job{"SignedHeader", s, mode, k})
			})
		}
	}
	// Metadata: full cross product
	metas := allMetaSpecs()
	for _, m := range metas {
		addU(job{"Metadata", m, "fast", 1})
	}
	// Data: (nil metadata + every metadata) x every transaction list
	lists := txLists(b.maxTxs)
	for li, l := range lists {
		mode := "fast"
		addU(job{"Data", l, "full", len(l.Txs)})
		for mi := range metas {
			d := l
			m := metas[mi]
			d.Meta = &m
			if li%16 == 0 && mi%16 == 0 {
				mode = "full"
			} else {
				mode = "fast"
			}
			addU(job{"Data", d, mode, len(l.Txs) + 1})
		}
	}
	// SignedData: {no metadata, zero metadata, typical, maximal} x lists x signatures x signers
	tm := typicalMetaSpec()
	zm := MetaSpec{ChainID: hexs(""), LastDataHash: "nil"}
	mm := MetaSpec{ChainID: hexs("c"), Height: 1<<64 - 1, Time: 1<<64 - 1, LastDataHash: domB[3]}
	for _, m := range []*MetaSpec{nil, &zm, &tm, &mm} {
		for _, l := range lists {
			for _, sig := range domSig {
				for sg := 0; sg < nSignerOpts; sg++ {
					d := l
					d.Meta = m
					addU(job{"SignedData", SignedDataSpec{D: d, Sig: sig, Signer: sg}, "fast", len(l.Txs) + 1})
				}
			}
		}
	}
	// State: full cross product (proto path = what the store writes); the real store for the variations around typical
	for _, bl := range domU {
		for _, ap := range domU {
			for _, c := range domS {
				for _, ih := range domU {
					for _, lh := range domU {
						for _, da := range domU {
							for ti := range domTime {
								for _, lr := range domB {
									for _, ah := range domB {
										jobs = append(jobs, job{"State", StateSpec{Block: bl, App: ap, ChainID: c, Initial: ih, Last: lh, DA: da, Time: ti, LastResultsHash: lr, AppHash: ah}, "fast", 1})
									}
								}
							}
						}
					}
				}
			}
		}
	}
	{
		base := typicalStateSpec()
		addU(job{"State", base, "full", 0})
		sets := []func(s *StateSpec, v int){
			func(s *StateSpec, v int) { s.Block = domU[v%4] }, func(s *StateSpec, v int) { s.App = domU[v%4] },
			func(s *StateSpec, v int) { s.ChainID = domS[v%3] }, func(s *StateSpec, v int) { s.Initial = domU[v%4] },
			func(s *StateSpec, v int) { s.Last = domU[v%4] }, func(s *StateSpec, v int) { s.DA = domU[v%4] },
			func(s *StateSpec, v int) { s.Time = v % len(domTime) }, func(s *StateSpec, v int) { s.LastResultsHash = domB[v%4] },
			func(s *StateSpec, v int) { s.AppHash = domB[v%4] },
		}
		sizes := []int{4, 4, 3, 4, 4, 4, len(domTime), 4, 4}
		for k := 1; k <= 2; k++ {
			variations(len(sets), func(i int) int { return sizes[i] }, k, func(as []assign) {
				s := base
				for _, a := range as {
					sets[a.F](&s, a.V)
				}
				addU(job{"State", s, "full", k})
			})
		}
	}
	// batch cursor lists
	for _, l := range batchLists(b.maxBatch) {
		addU(job{"BatchCursor", l, "fast", len(l.Items)})
	}
	// whole caches
	for _, cs := range cacheSpecs(b.cacheCross) {
		addU(job{"Cache", cs, "fast", len(cs.Items) + len(cs.Seen) + len(cs.DA)})
	}
	return jobs
}

func cacheSpecs(cross bool) []CacheSpec {
	var out []CacheSpec
	seenSets := [][]string{}
	strs := []string{hexs(""), hexs("c"), hexs("\xff\xfe"), hexs("6E340B9CFFB37A989CA544E6BB780A2C78901D3FB33738768511A30617AFA01D")}
	for m := 0; m < 16; m++ {
		s := []string{}
		for i := 0; i < 4; i++ {
			if m&(1<<i) != 0 {
				s = append(s, strs[i])
			}
		}
		seenSets = append(seenSets, s)
	}
	daSets := [][]CacheDA{{}}
	for _, h := range strs {
		for _, u := range domU {
			daSets = append(daSets, []CacheDA{{h, u}})
		}
	}
	daSets = append(daSets, []CacheDA{{strs[0], 0}, {strs[1], 1<<64 - 1}})
	for _, kind := range []string{"header", "data"} {
		var vals []CacheItem
		if kind == "header" {
			t, z := typicalSignedHeaderSpec(), zeroSignedHeaderSpec()
			nk := t
			nk.Signer = signerNoKeyAddr32
			mx := SignedHeaderSpec{H: maxHeaderSpec(), Sig: domSig[3], Signer: signerEdShortAddr}
			em := z
			for i := range em.H.Hashes {
				em.H.Hashes[i] = "x"
			}
			em.Sig = "x"
			em.Signer = signerNoKeyEmptyAdr
			sp := t
			sp.Signer = signerSecp
			for _, s := range []SignedHeaderSpec{t, z, nk, mx, em, sp} {
				s := s
				vals = append(vals, CacheItem{H: &s})
			}
		} else {
			zm := MetaSpec{ChainID: hexs(""), LastDataHash: "nil"}
			mm := MetaSpec{ChainID: hexs("c"), Height: 1<<64 - 1, Time: 1<<64 - 1, LastDataHash: domB[3]}
			for _, s := range []DataSpec{{TxsNil: true}, typicalDataSpec(), {Meta: &zm, Txs: []string{"x"}}, {Meta: &mm, Txs: []string{domT[4], domT[2], domT[3]}}, {Txs: []string{}}, {Txs: []string{"nil"}}} {
				s := s
				vals = append(vals, CacheItem{D: &s})
			}
		}
		itemSets := [][]CacheItem{{}}
		for _, h := range domU {
			for _, v := range vals {
				it := v
				it.Height = h
				itemSets = append(itemSets, []CacheItem{it})
			}
		}
		for _, a := range vals {
			for _, b := range vals {
				x, y := a, b
				x.Height, y.Height = 0, 1<<64-1
				itemSets = append(itemSets, []CacheItem{x, y})
			}
		}
		for _, items := range itemSets {
			for si, seen := range seenSets {
				for di, da := range daSets {
					// quick: every item set with (every seen set, no marks), (no seen, every mark set) and the fullest of both
					if !cross && !(si == 0 || di == 0 || (si == 15 && di == len(daSets)-1)) {
						continue
					}
					out = append(out, CacheSpec{Kind: kind, Items: items, Seen: seen, DA: da})
				}
			}
		}
	}
	return out
}

// ---- commitments -------------------------------------------------------------------------------------------------------

func normTxs(s DataSpec) string {
	parts := make([]string, len(s.Txs))
	for i, t := range s.Txs {
		parts[i] = hx(unbs(t))
	}
	return fmt.Sprintf("%d[%s]", len(parts), strings.Join(parts, ","))
}

func checkCommitments(maxTxs int) (fs []finding, evals, distinct int64) {
	lists := txLists(maxTxs)
	metas := allMetaSpecs()
	byNorm := map[string]string{}
	add := func(clause string, l DataSpec, msg string) {
		raw, _ := json.Marshal(l)
		fs = append(fs, finding{clause: clause, tags: []string{"type:Data"}, msg: msg, cost: len(l.Txs), ref: caseRef{Part: "commitment", Type: "Data", Spec: raw}})
	}
	for _, l := range lists {
		distinct++
		ref := hx(l.build().DACommitment())
		// a function of the (normalised) transaction list
		n := normTxs(l)
		evals++
		if prev, ok := byNorm[n]; ok && prev != ref {
			add("commitment-function-of-tx-list", l, fmt.Sprintf("two spellings (nil/empty) of the transaction list %s have commitments %s and %s", n, prev, ref))
		}
		byNorm[n] = ref
		// independent of the metadata
		for mi := range metas {
			d := l
			d.Meta = &metas[mi]
			evals++
			if got := hx(d.build().DACommitment()); got != ref {
				add("commitment-metadata-independence", d, fmt.Sprintf("DACommitment of txs %s is %s without metadata and %s with metadata %+v", n, ref, got, metas[mi]))
			}
		}
		// sensitive to the order
		explore.Permutations(len(l.Txs), func(p []int) {
			q := DataSpec{Txs: make([]string, len(l.Txs))}
			for i, pi := range p {
				q.Txs[i] = l.Txs[pi]
			}
			if normTxs(q) == n {
				return
			}
			evals++
			if got := hx(q.build().DACommitment()); got == ref {
				add("commitment-order-sensitivity", l, fmt.Sprintf("DACommitment %s is the same for txs %s and the reordered %s", ref, n, normTxs(q)))
			}
		})
	}
	return
}

// ---- decoder inputs ----------------------------------------------------------------------------------------------------

func shortCount(maxLen int) int64 {
	var n, p int64 = 0, 1
	for l := 0; l <= maxLen; l++ {
		n += p
		p *= 256
	}
	return n
}

// shortString maps an index to the idx-th byte string in length-then-lexicographic order.
func shortString(idx int64, buf []byte) []byte {
	var p int64 = 1
	l := 0
	for idx >= p {
		idx -= p
		p *= 256
		l++
	}
	buf = buf[:l]
	for i := l - 1; i >= 0; i-- {
		buf[i] = byte(idx)
		idx >>= 8
	}
	return buf
}

func substValues(orig byte, all bool) []byte {
	if all {
		out := make([]byte, 0, 255)
		for v := 0; v < 256; v++ {
			if byte(v) != orig {
				out = append(out, byte(v))
			}
		}
		return out
	}
	var out []byte
	for _, v := range []byte{0x00, 0x01, 0x7f, 0x80, 0xff, orig ^ 0x01, orig ^ 0x80, orig + 1} {
		dup := v == orig
		for _, o := range out {
			dup = dup || o == v
		}
		if !dup {
			out = append(out, v)
		}
	}
	return out
}

var boundary32 = []uint32{0, 1, 0x7f, 0x80, 0xffff, 0x10000, 0x7ffffffe, 0x7fffffff, 0x80000000, 0x80000001, 0xfffffff0, 0xfffffff8, 0xfffffffb, 0xfffffffc, 0xfffffffd, 0xfffffffe, 0xffffffff}

// mutants lists the seed, every proper prefix longer than minLen and every single-byte substitution of the seed
// (plus, when pairs is set and the seed is short, every two-position substitution with the representative values).
func mutants(seed []byte, minLen int, all, pairs bool, f func([]byte)) {
	f(seed)
	for l := minLen + 1; l < len(seed); l++ {
		f(seed[:l])
	}
	if len(seed) <= minLen {
		return
	}
	buf := append([]byte(nil), seed...)
	for i := range seed {
		for _, v := range substValues(seed[i], all) {
			buf[i] = v
			f(buf)
		}
		buf[i] = seed[i]
	}
	// boundary integers: every 4-byte window replaced by extreme 32-bit values in both byte orders (length prefixes of the
	// hand-written codecs), and every byte replaced by a maximal varint (length fields of the protobuf codecs)
	if len(seed) >= 4 {
		for i := 0; i+4 <= len(seed); i++ {
			for _, v := range boundary32 {
				for _, order := range []binary.ByteOrder{binary.LittleEndian, binary.BigEndian} {
					copy(buf, seed)
					order.PutUint32(buf[i:i+4], v)
					f(buf)
				}
			}
		}
		copy(buf, seed)
	}
	for i := range seed {
		for _, vi := range [][]byte{{0xff, 0xff, 0xff, 0xff, 0x0f}, {0xff, 0xff, 0xff, 0xff, 0xff, 0xff, 0xff, 0xff, 0xff, 0x01}, {0x80, 0x80, 0x80, 0x80, 0x08}} {
			m := append(append(append([]byte{}, seed[:i]...), vi...), seed[i+1:]...)
			f(m)
		}
	}
	if pairs && len(seed) <= 48 {
		for i := 0; i < len(seed); i++ {
			for j := i + 1; j < len(seed); j++ {
				for _, v := range substValues(seed[i], false) {
					for _, w := range substValues(seed[j], false) {
						buf[i], buf[j] = v, w
						f(buf)
					}
				}
				buf[i], buf[j] = seed[i], seed[j]
			}
		}
	}
}

type dedup struct {
	mu sync.Mutex
	m  map[[20]byte]struct{}
}

func (d *dedup) first(name string, in []byte) bool {
	h := sha256.New()
	h.Write([]byte(name))
	h.Write([]byte{0})
	h.Write(in)
	var k [20]byte
	copy(k[:], h.Sum(nil))
	d.mu.Lock()
	defer d.mu.Unlock()
	if _, ok := d.m[k]; ok {
		return false
	}
	d.m[k] = struct{}{}
	return true
}

func parallel(n int64, chunk int64, f func(worker int, lo, hi int64)) {
	var next int64
	var wg sync.WaitGroup
	w := runtime.GOMAXPROCS(0)
	for i := 0; i < w; i++ {
		wg.Add(1)
		go func(i int) {
			defer wg.Done()
			for {
				lo := atomic.AddInt64(&next, chunk) - chunk
				if lo >= n {
					return
				}
				hi := lo + chunk
				if hi > n {
					hi = n
				}
				f(i, lo, hi)
			}
		}(i)
	}
	wg.Wait()
}

// observations that are not verdicts: what the hash functions do with a value the encoder refuses.
func observations() []string {
	h := typicalHeaderSpec()
	h.ChainID = domS[2]
	hd := h.build()
	m := typicalMetaSpec()
	m.ChainID = domS[2]
	d := DataSpec{Meta: &m, Txs: []string{domT[2]}}.build()
	empty := &types.Data{}
	return []string{
		fmt.Sprintf("a Header whose ChainID is not UTF-8 cannot be encoded (clean error); Header.Hash() ignores that error and returns nil: %v (types/hashing.go:14-21)", hd.Hash() == nil),
		fmt.Sprintf("a Data whose metadata ChainID is not UTF-8 cannot be encoded; Data.Hash() ignores the error and hashes whatever partial bytes the encoder returned (equal to the hash of empty data: %v); DACommitment (which drops the metadata) is unaffected: %v (types/hashing.go:24-40)",
			hx(d.Hash()) == hx(empty.Hash()), hx(d.DACommitment()) != hx(empty.DACommitment())),
		"these values have no encoding at all, so no round trip exists for them; recorded as an observation, not a violation",
	}
}

// ---- the check ---------------------------------------------------------------------------------------------------------

func report(r *vf.Run, f finding) {
	if concUnsafe.Load() && f.ref.Part != "concurrent" {
		// part (0) failed: this part's workers call the same functions concurrently, the finding may be a consequence
		f.tags = append(append([]string{}, f.tags...), "after:stable-under-concurrent-calls-failed")
	}
	r.Report(vf.Violation{Clause: f.clause, Tags: f.tags, Msg: f.msg, Cost: f.cost, History: f.ref})
}

func replay(t *testing.T, r *vf.Run, g *goldenFile) {
	var ref caseRef
	if _, err := r.LoadReplay(&ref); err != nil {
		r.EngineError(err.Error())
		return
	}
	switch ref.Part {
	case "value":
		v, nonUTF8, err := buildTyped(ref.Type, ref.Spec)
		if err != nil {
			r.EngineError(err.Error())
			return
		}
		for _, f := range checkValue(ref.Type, v, nonUTF8, pathsFor(ref.Type, ref.Paths), ref, 0).fs {
			report(r, f)
		}
	case "cache":
		var cs CacheSpec
		if err := json.Unmarshal(ref.Spec, &cs); err != nil {
			r.EngineError(err.Error())
			return
		}
		for _, f := range checkCacheValue(cs, ref, 0).fs {
			report(r, f)
		}
	case "decode":
		in, err := hex.DecodeString(ref.Input)
		if err != nil {
			r.EngineError(err.Error())
			return
		}
		if strings.HasPrefix(ref.Decoder, "cache:") {
			p := strings.SplitN(ref.Decoder, ":", 3)
			if f, _ := checkCacheDecode(p[1], p[2], in); f != nil {
				report(r, *f)
			}
			return
		}
		if f, _ := checkDecode(primaryCodec(ref.Decoder), in); f != nil {
			report(r, *f)
		}
	case "golden":
		fs, _, eerr := checkGolden(g, ref.Name)
		if eerr != "" {
			r.EngineError(eerr)
		}
		for _, f := range fs {
			report(r, f)
		}
	case "commitment":
		fs, _, _ := checkCommitments(3)
		for _, f := range fs {
			report(r, f)
		}
	case "concurrent":
		// sampling of interleavings: the run is repeated, not re-enacted
		z := concSizes(r)
		z.Pairs = ref.Mode == layoutPair
		z.PairSize = max(z.PairSize, 1<<20)
		cfs, _ := RunConcurrentCalls(z, ref.Name, ref.Mode, ref.Decoder)
		for _, f := range cfs {
			report(r, concFinding(f))
		}
	case "history":
		replayHistory(r, ref)
	case "node":
		replayNodeCase(t, r, ref)
	default:
		r.EngineError("unknown replay part " + ref.Part)
	}
}

func cpuSeconds() float64 {
	var ru syscall.Rusage
	if syscall.Getrusage(syscall.RUSAGE_SELF, &ru) != nil {
		return 0
	}
	return float64(ru.Utime.Sec+ru.Stime.Sec) + float64(ru.Utime.Usec+ru.Stime.Usec)/1e6
}

func concSizes(r *vf.Run) ConcSizes {
	return ConcSizes{
		Big: vf.Pick(r, 8, 64) << 20, Mid: vf.Pick(r, 1, 8) << 20, AllSize: vf.Pick(r, 1, 2) << 20, PairSize: 1 << 20,
		Long: vf.Pick(r, 2, 3), Short: vf.Pick(r, 2000, 5000), Rounds: vf.Pick(r, 2, 5), Pairs: r.Thorough(),
		LimitPerRun: 60 * time.Second, Measure: true,
	}
}

func concFinding(f ConcFinding) finding {
	tags := []string{"fn:" + f.Fn, "type:" + f.Type, "layout:" + f.Layout, "kind:" + f.Kind}
	if f.Other {
		tags = append(tags, "returned-another-callers-result")
	}
	if f.With != "" {
		tags = append(tags, "with:"+f.With)
	}
	return finding{clause: f.Clause, tags: tags, msg: f.Msg, cost: 0, ref: caseRef{Part: "concurrent", Name: f.Fn, Mode: f.Layout, Decoder: f.With}}
}

func TestCheck(t *testing.T) {
	r := vf.Start("C12", "exploration")
	registerGob()
	r.Assume = []string{
		"part (0) SAMPLES interleavings: which instructions of two overlapping calls interleave is up to the Go runtime and the machine; the check fixes the shape of the runs (milliseconds-long calls on multi-MiB values overlapped by thousands of short calls, overlap measured per call and reported in coverage.concurrent_calls) so that state shared between calls — a package-level digest, buffer or memo — is hit with practical certainty, but it does not enumerate interleavings. The free-running -race supplement (props/c12/race, coverage.race_supplement) runs the same table under the Go race detector, which reports unsynchronised shared state on every run independently of timing; it samples as well and decides nothing by itself",
		"google.golang.org/protobuf, encoding/gob and libp2p key (un)marshalling are trusted as libraries; they are exercised, not modelled",
		"equality of values is modulo nil-vs-empty byte strings and lists, and State.LastBlockTime is compared as an instant (time zone and monotonic clock are not part of the value)",
		"a string that is not valid UTF-8 is refused by the protobuf encoder with an error; a clean refusal to encode is not a round-trip failure",
		"gob cache files are compared by decoding, not byte-wise (gob type ids and map iteration order are not a format contract)",
		"decoders run on fresh zero values, as every call site in the node does (part d additionally decodes into reused receivers; there the decoded VALUE is judged only for bytes an encoder wrote)",
		"part (d): 'fresh process state' is a newly started process (re-exec of the test binary) that has run the Go runtime's and the imported packages' initialisation and read the pool file, and nothing else, before its first decode; the harness builds its keys lazily so that no key or address code runs before it. Dumping a decoded value (Hash, signature check, ValidateBasic, re-encode, re-decode) happens after the last decode of the history",
		"part (d) compares the success/failure of a decode, not error texts",
		"part (d) reuse-copy: a by-value copy of a Data / SignedData copies the Metadata it points to by value as well (m := *d.Metadata); a copy that keeps the POINTER shares the Metadata object with the receiver by the caller's own doing (Data.FromProto fills an existing Metadata in place) and is not judged. In this mode dumps (Hash, re-encode, signature check) sit between the decodes",
		"part (e): one fixed non-default signature payload provider (sha256 of a tag and the header bytes, world.CustomPayloadProvider) stands for 'a provider other than the default'; producer and full node of a world share the configuration; the un-encoded reference enters the sync loop's header channel with the verifier attached, as both ingress paths do (block/retriever.go, block/store.go); for the cache-file path the header reaches the header cache the same way (for a header the node would reject this is 'a cache file written by the real encoder that holds this value', not a state the node reaches by itself); a verdict is 'the block is applied' (a dropped blob and a fatal sync error are both 'not accepted')",
	}
	if os.Getenv("VERIF_C12_GOLDEN") == "write" {
		if err := writeGolden(); err != nil {
			r.EngineError("cannot write golden file: " + err.Error())
		} else {
			fmt.Println("C12: golden vectors written to", goldenPath())
		}
	}
	g, err := loadGolden()
	if err != nil {
		r.EngineError("golden vectors missing (generate once from the pinned tree: VERIF_C12_GOLDEN=write ./check C12 quick): " + err.Error())
		r.Finish(vf.Coverage{})
		return
	}
	if r.ReplayPath() != "" {
		replay(t, r, g)
		r.Finish(vf.Coverage{Evaluations: 1, DistinctNontrivial: 1})
		return
	}

	b := bounds{
		headerK: vf.Pick(r, 2, 4), signedHeaderK: vf.Pick(r, 2, 3), fullPathK: 2,
		maxTxs: 3, maxBatch: vf.Pick(r, 3, 4), cacheCross: vf.Pick(r, false, true),
	}
	maxShort := vf.Pick(r, 2, 3)
	allSubst := r.Thorough()

	var evals, distinct, rejected, completed int64
	phase := map[string]float64{}
	t0 := time.Now()
	lap := func(name string) {
		phase[name] = time.Since(t0).Seconds()
		t0 = time.Now()
	}
	perType := map[string]*[4]int64{} // values, evaluations, round trips, refused
	var ptMu sync.Mutex

	// ---- (0) concurrent calls first: the parts below call the same functions from parallel workers and take their
	// results for functions of the arguments
	cz := concSizes(r)
	cpu0 := cpuSeconds()
	ccfs, cst := RunConcurrentCalls(cz, "", "", "")
	for _, f := range ccfs {
		report(r, concFinding(f))
		r.Outcome("concurrent:" + f.Clause)
	}
	if len(ccfs) > 0 {
		concUnsafe.Store(true)
	} else {
		r.Outcome("concurrent:all-results-equal-the-sequential-ones")
	}
	evals += cst.Runs
	distinct += cst.Runs - int64(len(cst.NoOverlap)) - int64(len(cst.Capped))
	r.Sample(map[string]any{"part": "concurrent", "function": "Data.Hash", "layout": ConcLayouts[0], "outcome": fmt.Sprintf("%d function/layout runs failed", cst.Failed)})
	var caps []string
	for _, c := range cst.Capped {
		caps = append(caps, "concurrent calls: run cut by its time limit before every goroutine made its calls: "+c)
	}
	for _, c := range cst.NoOverlap {
		caps = append(caps, "concurrent calls: no overlap of calls observed in three attempts (machine too loaded?): "+c)
	}
	lap("concurrent-calls")
	concCPU := cpuSeconds() - cpu0
	// the same table, free-running under the race detector (supplement; sampling)
	r.RacePass(vf.Pick(r, 1, 5), "github.com/evstack/ev-node/")
	lap("race-supplement")

	// ---- (b) golden vectors: everything below uses them as seeds
	gfs, gev, eerr := checkGolden(g, "")
	if eerr != "" {
		r.EngineError(eerr)
		r.Finish(vf.Coverage{})
		return
	}
	evals += gev
	for _, f := range gfs {
		report(r, f)
	}
	r.Outcome(fmt.Sprintf("golden:%d-findings", len(gfs)))
	lap("golden")

	// ---- (a) values
	jobs := buildJobs(b)
	var sampleMu sync.Mutex
	sampled := map[string]bool{}
	parallel(int64(len(jobs)), 64, func(_ int, lo, hi int64) {
		for i := lo; i < hi; i++ {
			j := jobs[i]
			res := runJob(j)
			atomic.AddInt64(&evals, res.evals)
			atomic.AddInt64(&completed, res.roundTrips)
			atomic.AddInt64(&rejected, res.rejected)
			if res.roundTrips > 0 {
				atomic.AddInt64(&distinct, 1)
			}
			ptMu.Lock()
			pt := perType[j.typ]
			if pt == nil {
				pt = &[4]int64{}
				perType[j.typ] = pt
			}
			pt[0]++
			pt[1] += res.evals
			pt[2] += res.roundTrips
			pt[3] += res.rejected
			ptMu.Unlock()
			r.Outcome(j.typ + ":" + res.outcome)
			for _, f := range res.fs {
				report(r, f)
			}
			if i%9973 == 0 {
				sampleMu.Lock()
				if !sampled[j.typ] {
					sampled[j.typ] = true
					r.Sample(map[string]any{"part": "value", "type": j.typ, "spec": j.spec, "outcome": res.outcome})
				}
				sampleMu.Unlock()
			}
		}
	})
	lap("values")
	cfs, cev, cdist := checkCommitments(b.maxTxs)
	evals += cev
	_ = cdist // the lists are already counted as Data values
	for _, f := range cfs {
		report(r, f)
	}

	lap("commitments")
	// ---- (c) decoders
	var decEvals, decOK, decFail int64
	perDec := map[string]*[2]int64{}
	for _, d := range decoders {
		perDec[d.name] = &[2]int64{}
	}
	nShort := shortCount(maxShort)
	parallel(nShort, 4096, func(_ int, lo, hi int64) {
		buf := make([]byte, 8)
		var ok, fail int64
		okBy := make([]int64, len(decoders))
		for i := lo; i < hi; i++ {
			in := shortString(i, buf)
			for di, d := range decoders {
				f, success := checkDecode(d, in)
				if success {
					ok++
					okBy[di]++
				} else {
					fail++
				}
				if f != nil {
					report(r, *f)
				}
			}
		}
		atomic.AddInt64(&decEvals, ok+fail)
		atomic.AddInt64(&decOK, ok)
		atomic.AddInt64(&decFail, fail)
		ptMu.Lock()
		for di, d := range decoders {
			perDec[d.name][0] += hi - lo
			perDec[d.name][1] += okBy[di]
		}
		ptMu.Unlock()
	})
	lap("decode-short")
	// mutants of every golden encoding, offered to every decoder (a DA blob is tried as a header and then as data)
	type seed struct {
		name string
		bz   []byte
	}
	var seeds []seed
	for _, v := range g.Vectors {
		bz, _ := hex.DecodeString(v.Bytes)
		seeds = append(seeds, seed{v.Name, bz})
	}
	var inputs [][]byte
	for _, s := range seeds {
		mutants(s.bz, maxShort, allSubst, r.Thorough(), func(b []byte) { inputs = append(inputs, append([]byte(nil), b...)) })
	}
	dd := &dedup{m: map[[20]byte]struct{}{}}
	var mutOK int64
	parallel(int64(len(inputs)), 256, func(_ int, lo, hi int64) {
		for i := lo; i < hi; i++ {
			in := inputs[i]
			for _, d := range decoders {
				f, success := checkDecode(d, in)
				atomic.AddInt64(&decEvals, 1)
				if success {
					if len(in) > maxShort && dd.first(d.name, in) {
						atomic.AddInt64(&mutOK, 1)
						ptMu.Lock()
						perDec[d.name][1]++
						ptMu.Unlock()
					}
				} else {
					atomic.AddInt64(&decFail, 1)
				}
				if f != nil {
					report(r, *f)
				}
			}
		}
		ptMu.Lock()
		for _, d := range decoders {
			perDec[d.name][0] += hi - lo
		}
		ptMu.Unlock()
	})
	lap("decode-mutants")
	// cache files: all short strings (one file system round trip per input, hence the smaller bound) and the mutants
	// of the golden files, each file alone in its directory
	type cin struct {
		kind, file string
		in         []byte
	}
	var cins []cin
	cacheShort := vf.Pick(r, 1, 2)
	kinds := []string{"header", "data"}
	for _, kind := range kinds {
		names := make([]string, 0, 4)
		for n := range g.CacheFiles[kind] {
			names = append(names, n)
		}
		sort.Strings(names)
		for _, n := range names {
			bz, _ := hex.DecodeString(g.CacheFiles[kind][n])
			mutants(bz, cacheShort, allSubst, false, func(b []byte) { cins = append(cins, cin{kind, n, append([]byte(nil), b...)}) })
		}
	}
	nCShort := shortCount(cacheShort)
	nFiles := int64(len(kinds) * len(cacheFileNames))
	var cacheEvals, cacheOK int64
	cacheRun := func(w int, kind, file string, in []byte, countDistinct bool) {
		f, success := checkCacheDecode(kind, file, in)
		atomic.AddInt64(&cacheEvals, 1)
		if success && countDistinct {
			atomic.AddInt64(&cacheOK, 1)
		}
		if f != nil {
			report(r, *f)
		}
	}
	parallel(nCShort*nFiles, 256, func(w int, lo, hi int64) {
		buf := make([]byte, 8)
		for i := lo; i < hi; i++ {
			fi := i % nFiles
			in := shortString(i/nFiles, buf)
			cacheRun(w, kinds[fi/int64(len(cacheFileNames))], cacheFileNames[fi%int64(len(cacheFileNames))], in, true)
		}
	})
	lap("decode-cache-short")
	parallel(int64(len(cins)), 64, func(w int, lo, hi int64) {
		for i := lo; i < hi; i++ {
			c := cins[i]
			first := len(c.in) > cacheShort && dd.first("cache:"+c.kind+":"+c.file, c.in)
			cacheRun(w, c.kind, c.file, c.in, first)
		}
	})
	lap("decode-cache-mutants")
	removeScratch()
	// ---- (d) decode histories, each in its own process
	histLen := vf.Pick(r, 2, 3)
	hst := runHistories(r, histLen)
	evals += hst.evals
	distinct += hst.distinct
	lap("histories")
	// ---- (e) verification verdicts of a node, per configuration of its signature payload provider
	nodePatterns := vf.Pick(r, []string{"a", "e"}, append(world.Patterns("eab", 1), world.Patterns("eab", 2)...))
	if concUnsafe.Load() {
		// the node's own goroutines call the functions that part (0) found unsafe; a panic there cannot be caught
		caps = append(caps, "node verdicts (e) not run: part (0) found hash/codec functions unsafe under concurrent calls, and a panic on a goroutine of the node under test would end the harness process")
		nodePatterns = nil
	}
	nst, nev, ndist := runNodeVerdicts(t, r, nodePatterns)
	evals += nev
	distinct += ndist
	lap("node-verdicts")
	fmt.Printf("C12 phases (s): %v\n", phase)

	evals += decEvals + cacheEvals
	distinct += decOK + mutOK + cacheOK
	r.Outcome(fmt.Sprintf("decode:ok=%v", decOK+mutOK+cacheOK > 0))
	r.Outcome(fmt.Sprintf("decode:clean-failure=%v", decFail > 0))
	r.Sample(map[string]any{"part": "decode", "decoder": "SignedHeader", "input": hex.EncodeToString(inputs[len(inputs)/2])})

	pt := map[string]any{}
	for k, v := range perType {
		pt[k] = map[string]int64{"values": v[0], "path_round_trips_attempted": v[1], "completed": v[2], "refused_non_utf8": v[3]}
	}
	pd := map[string]any{}
	for k, v := range perDec {
		pd[k] = map[string]int64{"inputs": v[0], "distinct_inputs_decoded": v[1]}
	}
	r.Finish(vf.Coverage{
		Evaluations: evals, DistinctNontrivial: distinct, Exhaustive: len(caps) == 0, Caps: caps,
		Rule: "(0) concurrent calls: every function of the table (MarshalBinary / UnmarshalBinary / ToProto+proto.Marshal / proto.Unmarshal+FromProto of Header, SignedHeader, Metadata, Data, SignedData; Hash of Header, SignedHeader, Data, SignedData; DACommitment; ValidateBasic / Validate; the signature checks; DefaultSignaturePayloadProvider; State ToProto / FromProto; the batch-cursor codec; types.Validate(header, data); the store and cache-file round trips) is called by 2 and by 8 goroutines behind a start barrier, on different values and on one shared value, in the layouts listed under bounds; then all functions run at once (two goroutines each), and at the thorough tier every ordered pair of different functions runs as two goroutines (at the quick tier pairs of different functions meet in the all-at-once layout and in the -race supplement only). In each run one side is busy for a long time inside single calls on multi-MiB values while the other side completes thousands of calls on small values; every goroutine keeps calling until all of them have made their minimal number of calls and have seen min(that number, 16) of their calls overlapped. EVERY result of every call is compared with the result the same call returned sequentially before the run (computed twice: a difference there is clause stable-under-repeated-calls); a differing result or a panic (recovered per call) is clause stable-under-concurrent-calls with tags fn:<function>, layout:<layout>, kind:mismatch|panic and returned-another-callers-result when the wrong result is the expected result of another goroutine. The overlap of calls is measured (a call counts as overlapped when another goroutine was inside a call at its start or end, or completed one meanwhile); a run in which some goroutine saw no overlap is repeated, and listed under caps after three attempts. Parts (a)-(e) run afterwards; a panic of a hash or codec function inside their parallel workers is a finding (hash-or-codec-panic), never a harness crash. " +
			"(a) every enumerated value of every wire type is carried through each of its real paths (MarshalBinary/UnmarshalBinary, ToProto+proto.Marshal / proto.Unmarshal+FromProto, the real DefaultStore, Cache.SaveToDisk/LoadFromDisk) and compared field by field, by Hash/DACommitment and by signature validity; " +
			"(b) fixed values are compared verbatim with /verif/golden/c12.json; (c) every byte string up to the length bound, every prefix and every single-byte substitution of every golden encoding is offered to every decoder; " +
			"(d) decode histories: over a pool of messages of every codec type that collide pairwise on every sub-key a memo could use (signer address / public key / key type, header hash, height, time, chain id, signature, tx list, metadata, wire length and prefix, present vs absent sub-messages, failing vs succeeding decodes), EVERY ordered history up to the length bound is run in its own freshly started process (fresh receivers: all pool^n histories; one reused receiver: all histories within one receiver type), decodes first, dumps afterwards; every step's dump (canonical fields, Hash/DACommitment, signature validity, ValidateBasic verdict, re-encoded bytes, re-decode fixed point) must equal the dump of the one-message history of that message, and a pool value must equal the value it was encoded from; plus one long in-process walk that decodes every ordered pair consecutively in the state parts (a)-(c) left behind. Aliasing supplement (mode reuse-copy): every ordered history up to the length bound of messages of one receiver type (and of the batch-cursor codec) is decoded into ONE reused receiver, in its own process and — for all ordered pairs — again in this process; after every step a by-value copy of the receiver is taken (Go struct assignment c := *recv, a pointer-valued Metadata copied the same way, no byte string cloned; for the batch cursor the returned list and a copy of its outer slice) and dumped at once, and after EVERY later decode into that receiver (succeeding or failing) every earlier copy is dumped again: canonical fields, Hash/DACommitment, signature validity, validation verdict, re-encoded bytes and fixed point must be what they were (clause earlier-copy-changed-by-later-decode, tags type, receiver, copy-of-step, after-step, collide:<sub-key>, differs:<field>). Conversely for every ordered pair (x, y) of one type: the bytes the encoder returned for x must stay byte-identical when x is encoded again (and the second encoding must be equal), when y is decoded and encoded, when y is decoded into the value, when the value is encoded again, and when every byte string of the value is overwritten in place (clause encoded-bytes-changed-later, tag stage:<stage>). " +
			"(e) verification verdicts of a node: a real full node (real SyncLoop, RetrieveLoop, HeaderStoreRetrieveLoop under virtual time) configured with signature payload provider P receives a signed header of a real producer chain, re-signed by the proposer over the default payload / the non-default payload / with a corrupted signature, un-encoded and through each of its encodings that lead back into a node (cache file across SaveCache / NewManager / LoadCache with the header waiting for its data or for its predecessor, DA blob, P2P header store) while the block's data arrives un-encoded or as a SignedData DA blob (valid / corrupted signature); 'the node applies the block' must be the same for the decoded value as for the value that was encoded, for every combination (the signed payload is node configuration, not part of any encoding); part (a) additionally compares signature validity under the non-default provider's payload before and after every path. " +
			"evaluations = (value, path) round trips attempted + commitment comparisons + golden comparisons + (decoder, input) decodes + histories (one process each) + decodes of the in-process walk + node scenarios; distinct non-trivial = distinct values that completed a round trip on at least one path + distinct (decoder, input) pairs that decoded successfully and went through the re-encode/decode fixed-point test (mutants are de-duplicated by hash, short strings are distinct by construction) + distinct histories whose last decode succeeds + node scenarios in which the block is applied",
		Bounds: map[string]any{
			"concurrent_functions": cst.Functions, "concurrent_goroutines": "2 and 8 per function; 2 per function with all functions at once; 2 for pairs of functions",
			"concurrent_layouts_per_function": ConcLayouts, "concurrent_cross_function_layouts": []string{layoutAll + fmt.Sprintf(" x %d rounds", cz.Rounds), layoutPair + vf.Pick(r, " — thorough tier only", " for every ordered pair")},
			"concurrent_value_sizes": fmt.Sprintf("multi-MiB = %s, MiB = %s, all-at-once long side = %s, pair long side = %s of payload (store and cache-file functions capped at 1 MiB); small = typical values of ~100 bytes", sizeLabel(cz.Big), sizeLabel(cz.Mid), sizeLabel(cz.AllSize), sizeLabel(cz.PairSize)),
			"concurrent_min_calls": fmt.Sprintf("%d per goroutine on a multi-MiB value (%d on a MiB value in the 8-goroutine shared layout), %d per goroutine on a small value; all goroutines keep calling until the last one has reached its minimum", cz.Long, 2*cz.Long, cz.Short),
			"byte_field_domain": "nil, empty, 1 byte, 32 bytes", "integer_domain": "0, 1, 2^63, 2^64-1", "string_domain": "empty, \"c\", ff fe (not UTF-8)",
			"tx_count": fmt.Sprintf("0..%d over {nil, empty, 01, 02, 32 bytes}", b.maxTxs), "batch_entries": fmt.Sprintf("0..%d over {nil, empty, 1, 32, 300 bytes}", b.maxBatch),
			"header_fields_varied_at_once": b.headerK, "signed_header_fields_varied_at_once": b.signedHeaderK, "store_and_cache_paths_up_to_fields_varied": b.fullPathK,
			"metadata": "full cross product", "data": "(no metadata + every metadata) x every tx list", "signed_data": "4 metadata x tx lists x 5 signatures x 8 signers", "state": "full cross product, 5 instants",
			"cache_cross_product": b.cacheCross, "decoder_short_strings_max_len": maxShort, "cache_file_short_strings_max_len": cacheShort,
			"substitution_values_per_position": vf.Pick(r, "8 representative", "all 255 others"), "pair_substitutions_on_encodings_up_to_48_bytes": r.Thorough(),
			"golden_vectors": len(g.Vectors),
			"history_max_length": histLen, "history_pool_messages": hst.Pool,
			"history_modes": "fresh receivers: all pool^n ordered histories, n = 1..max; reused receiver: all ordered histories of n = 2..max messages of one receiver type; reuse-copy (by-value copy kept after every step, re-dumped after every later decode): all ordered histories of n = 2..max messages of one receiver type or of the batch-cursor codec, one process each, plus all ordered pairs in-process; encoder stability: all ordered pairs of one type x 5-7 stages",
			"reuse_copy_receiver_types": "Header, SignedHeader (binary and proto path share the receiver), Data, SignedData, Metadata, State, batch cursor list (function result)",
			"signed_header_signatures": "nil, empty, 1 byte, 32 bytes, valid over the default payload, valid over the non-default payload (world.CustomPayloadProvider)",
			"node_verdict_chains": nodePatterns, "node_verdict_scenarios": nst.Cases,
			"node_verdict_dimensions": "every target block above the first x node provider {default, non-default} x header signed over {default payload, non-default payload, corrupted} x {in order, before its predecessor blocks} x header via {un-encoded (reference), cache file across a clean restart, DA blob, P2P store (in order only)} x data via {un-encoded, SignedData DA blob, SignedData DA blob with corrupted signature} (empty block: no data)",
		},
		Extra: map[string]any{
			"concurrent_calls": cst, "concurrent_calls_cpu_seconds": concCPU,
			"values_per_type": pt, "decoder_inputs": pd, "completed_path_round_trips": completed, "encode_refusals_non_utf8": rejected,
			"decoder_evaluations": decEvals, "cache_decoder_evaluations": cacheEvals, "value_jobs": len(jobs),
			"observations": observations(), "phase_seconds": phase, "decode_histories": hst, "node_verdicts": nst,
		},
	})
}
