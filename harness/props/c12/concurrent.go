package c12

import (
	"crypto/sha256"
	"encoding/binary"
	"encoding/hex"
	"fmt"
	"hash"
	"sort"
	"sync"
	"sync/atomic"
	"time"

	"github.com/evstack/ev-node/types"
)

// Part (0): the hash / encode / decode / validate functions under CONCURRENT calls.
//
// A node calls them from many goroutines at once (go-header's store flush loop and syncer, the aggregation, sync, retrieve
// and submission loops of block.Manager), so "the hash of a value is a function of the value" has to hold when calls
// overlap. Every function of the table below is called by G goroutines behind a start barrier, on DIFFERENT values and
// on the SAME value; every single result is compared with the result the same call gave sequentially before. Interleavings
// are SAMPLED here (the Go runtime schedules the goroutines on all cores); what makes the verdict reproducible is the
// shape of the runs: one goroutine is busy for milliseconds inside ONE call on a value of several MiB while the others
// complete thousands of calls on small values, and the overlap is measured, not assumed (see Overlapped).
// The same table is run by props/c12/race under the Go race detector, which reports a shared digest or buffer on every
// run, whatever the timing.

// ConcFn is one function under test. Prep runs sequentially before the barrier (e.g. encodes the value a decoder will
// be given); Call is what the goroutines execute, it renders the result as a short string (digests are computed with a
// digest instance of the caller's own).
type ConcFn struct {
	Name    string
	Type    string // type of the values it is called on
	MaxSize int    // payload cap (functions that go through files / a datastore); 0 = none
	Slow    bool   // a call costs tens of microseconds or more even on a small value: a twentieth of the short calls
	Prep    func(v any) (any, error)
	Call    func(in any) string
}

// BlockPair is the argument of types.Validate.
type BlockPair struct {
	H *types.SignedHeader
	D *types.Data
}

func wb(h hash.Hash, b []byte) {
	var l [8]byte
	binary.LittleEndian.PutUint64(l[:], uint64(len(b)))
	h.Write(l[:])
	h.Write(b)
}

func dg(parts ...[]byte) string {
	h := sha256.New() // the harness's own instance, one per call
	for _, p := range parts {
		wb(h, p)
	}
	return hex.EncodeToString(h.Sum(nil)[:16])
}

func wHeader(h hash.Hash, x *types.Header) {
	wb(h, []byte(fmt.Sprintf("%d/%d/%d/%d", x.Version.Block, x.Version.App, x.BaseHeader.Height, x.BaseHeader.Time)))
	wb(h, []byte(x.BaseHeader.ChainID))
	for _, b := range [][]byte{x.LastHeaderHash, x.LastCommitHash, x.DataHash, x.ConsensusHash, x.AppHash, x.LastResultsHash, x.ProposerAddress, x.ValidatorHash} {
		wb(h, b)
	}
}

func wSigner(h hash.Hash, sig []byte, s types.Signer) {
	wb(h, sig)
	if s.PubKey == nil {
		wb(h, []byte("no key"))
	} else {
		raw, err := s.PubKey.Raw()
		wb(h, []byte(fmt.Sprintf("%v/%v", s.PubKey.Type(), err)))
		wb(h, raw)
	}
	wb(h, s.Address)
}

func wMeta(h hash.Hash, m *types.Metadata) {
	if m == nil {
		wb(h, []byte("no metadata"))
		return
	}
	wb(h, []byte(fmt.Sprintf("%d/%d", m.Height, m.Time)))
	wb(h, []byte(m.ChainID))
	wb(h, m.LastDataHash)
}

func wData(h hash.Hash, d *types.Data) {
	wMeta(h, d.Metadata)
	wb(h, []byte(fmt.Sprint(len(d.Txs))))
	for _, t := range d.Txs {
		wb(h, t)
	}
}

// digestOf renders a value (same equality as canonOf: nil and empty byte strings are one value) without hex-dumping it.
func digestOf(v any) string {
	h := sha256.New()
	switch x := v.(type) {
	case *types.Header:
		wHeader(h, x)
	case *types.SignedHeader:
		wHeader(h, &x.Header)
		wSigner(h, x.Signature, x.Signer)
	case *types.Metadata:
		wMeta(h, x)
	case *types.Data:
		wData(h, x)
	case *types.SignedData:
		wData(h, &x.Data)
		wSigner(h, x.Signature, x.Signer)
	case *types.State:
		wb(h, []byte(fmt.Sprintf("%d/%d/%d/%d/%d/%d.%09d", x.Version.Block, x.Version.App, x.InitialHeight, x.LastBlockHeight, x.DAHeight, x.LastBlockTime.Unix(), x.LastBlockTime.Nanosecond())))
		wb(h, []byte(x.ChainID))
		wb(h, x.LastResultsHash)
		wb(h, x.AppHash)
	case [][]byte:
		wb(h, []byte(fmt.Sprint(len(x))))
		for _, e := range x {
			wb(h, e)
		}
	default:
		panic(fmt.Sprintf("digestOf(%T)", v))
	}
	return hex.EncodeToString(h.Sum(nil)[:16])
}

func encRes(b []byte, err error) string {
	if err != nil {
		return "error: " + err.Error()
	}
	return fmt.Sprintf("%d bytes %s", len(b), dg(b))
}

func decRes(v any, err error) string {
	if err != nil {
		return "error: " + err.Error()
	}
	return "value " + digestOf(v)
}

func errRes(err error) string {
	if err != nil {
		return "rejects: " + err.Error()
	}
	return "accepts"
}

func prepWith(enc func(any) ([]byte, error)) func(any) (any, error) {
	return func(v any) (any, error) { return enc(v) }
}

// a decoder is handed a private copy of the bytes in every call, as a freshly read blob is
func decCall(dec func([]byte) (any, error)) func(any) string {
	return func(in any) string {
		src := in.([]byte)
		b := make([]byte, len(src))
		copy(b, src)
		return decRes(dec(b))
	}
}

func pathCall(p path) func(any) string {
	return func(v any) string {
		_, out, encErr, decErr := p.rt(v)
		if encErr != nil {
			return "write error: " + encErr.Error()
		}
		if decErr != nil {
			return "read error: " + decErr.Error()
		}
		return "value " + digestOf(out)
	}
}

func hashOf(v any) []byte {
	switch x := v.(type) {
	case *types.Header:
		return x.Hash()
	case *types.SignedHeader:
		return x.Hash()
	case *types.Data:
		return x.Hash()
	case *types.SignedData:
		return x.Hash()
	}
	panic("hashOf")
}

// ConcTypes lists the value types in the order the check walks them.
var ConcTypes = []string{"Header", "SignedHeader", "Metadata", "Data", "SignedData", "State", "BatchCursor", "Block"}

// ConcFns is the table of functions under test.
func ConcFns() []ConcFn {
	const fileCap = 1 << 20
	codec := func(typ string, decBin, decProto func([]byte) (any, error)) []ConcFn {
		return []ConcFn{
			{Name: typ + ".MarshalBinary", Type: typ, Call: func(v any) string { return encRes(encBinary(v)) }},
			{Name: typ + ".UnmarshalBinary", Type: typ, Prep: prepWith(encBinary), Call: decCall(decBin)},
			{Name: typ + ".ToProto+proto.Marshal", Type: typ, Call: func(v any) string { return encRes(encProto(v)) }},
			{Name: "proto.Unmarshal+" + typ + ".FromProto", Type: typ, Prep: prepWith(encProto), Call: decCall(decProto)},
		}
	}
	hashFn := func(typ string) ConcFn {
		return ConcFn{Name: typ + ".Hash", Type: typ, Call: func(v any) string { return hx(hashOf(v)) }}
	}
	sigFn := func(typ string) ConcFn {
		return ConcFn{Name: typ + " signature check", Type: typ, Call: func(v any) string { _, ok := sigOK(v); return fmt.Sprint("verifies=", ok) }}
	}
	var out []ConcFn
	// Header
	out = append(out, codec("Header", decBinaryHeader, decProtoHeader)...)
	out = append(out, hashFn("Header"),
		ConcFn{Name: "Header.ValidateBasic", Type: "Header", Call: func(v any) string { return errRes(v.(*types.Header).ValidateBasic()) }},
		ConcFn{Name: "DefaultSignaturePayloadProvider", Type: "Header", Call: func(v any) string { return encRes(types.DefaultSignaturePayloadProvider(v.(*types.Header))) }})
	// SignedHeader
	out = append(out, codec("SignedHeader", decBinarySignedHeader, decProtoSignedHeader)...)
	out = append(out, hashFn("SignedHeader"),
		ConcFn{Name: "SignedHeader.ValidateBasic", Type: "SignedHeader", Call: func(v any) string { return errRes(v.(*types.SignedHeader).ValidateBasic()) }},
		sigFn("SignedHeader"),
		ConcFn{Name: "Store.SaveBlockData+GetBlockData+GetBlockByHash(header)", Type: "SignedHeader", MaxSize: fileCap, Slow: true, Call: pathCall(storeHeaderPath())},
		ConcFn{Name: "Cache[SignedHeader].SaveToDisk+LoadFromDisk", Type: "SignedHeader", MaxSize: fileCap, Slow: true, Call: pathCall(cacheItemPath[types.SignedHeader]())})
	// Metadata
	out = append(out, codec("Metadata", decBinaryMeta, decProtoMeta)...)
	// Data
	out = append(out, codec("Data", decBinaryData, decProtoData)...)
	out = append(out, hashFn("Data"),
		ConcFn{Name: "Data.DACommitment", Type: "Data", Call: func(v any) string { return hx(v.(*types.Data).DACommitment()) }},
		ConcFn{Name: "Data.Validate", Type: "Data", Call: func(v any) string { return errRes(v.(*types.Data).Validate()) }},
		ConcFn{Name: "Store.SaveBlockData+GetBlockData(data)", Type: "Data", MaxSize: fileCap, Slow: true, Call: pathCall(storeDataPath())},
		ConcFn{Name: "Cache[Data].SaveToDisk+LoadFromDisk", Type: "Data", MaxSize: fileCap, Slow: true, Call: pathCall(cacheItemPath[types.Data]())})
	// SignedData
	out = append(out, codec("SignedData", decBinarySignedData, decProtoSignedData)...)
	out = append(out, hashFn("SignedData"),
		ConcFn{Name: "SignedData.DACommitment", Type: "SignedData", Call: func(v any) string { return hx(v.(*types.SignedData).DACommitment()) }},
		sigFn("SignedData"))
	// State
	out = append(out,
		ConcFn{Name: "State.ToProto+proto.Marshal", Type: "State", Call: func(v any) string { return encRes(encProto(v)) }},
		ConcFn{Name: "proto.Unmarshal+State.FromProto", Type: "State", Prep: prepWith(encProto), Call: decCall(decProtoState)},
		ConcFn{Name: "Store.UpdateState+GetState", Type: "State", MaxSize: fileCap, Slow: true, Call: pathCall(storeStatePath())})
	// batch cursor
	out = append(out,
		ConcFn{Name: "BatchCursor.encode", Type: "BatchCursor", Call: func(v any) string { return encRes(encBatch(v)) }},
		ConcFn{Name: "BatchCursor.decode", Type: "BatchCursor", Prep: prepWith(encBatch), Call: decCall(decBatch)})
	// header against data
	out = append(out, ConcFn{Name: "types.Validate(header,data)", Type: "Block", Call: func(v any) string { b := v.(*BlockPair); return errRes(types.Validate(b.H, b.D)) }})
	return out
}

func fill(slot, n int) []byte {
	b := make([]byte, n)
	x := uint64(slot)*0x9E3779B97F4A7C15 + 0x1234567
	i := 0
	for ; i+8 <= n; i += 8 {
		x ^= x << 13
		x ^= x >> 7
		x ^= x << 17
		binary.LittleEndian.PutUint64(b[i:], x)
	}
	for ; i < n; i++ {
		b[i] = byte(slot + i)
	}
	return b
}

func concHeader(slot, size int) types.Header {
	s := typicalHeaderSpec()
	s.Height = 1000 + uint64(slot)
	h := s.build()
	if size > 0 {
		h.AppHash = fill(slot, size)
	}
	return h
}

// values of odd slots are signed with the secp256k1 key, values of even slots with the ed25519 key
func concSigner(slot int) int {
	if slot%2 == 1 {
		return signerSecp
	}
	return signerEd
}

func concSign(h *types.Header, slot int) *types.SignedHeader {
	sh := &types.SignedHeader{Header: *h, Signer: signerOpt(concSigner(slot))}
	sh.ProposerAddress = append([]byte(nil), sh.Signer.Address...)
	payload, err := types.DefaultSignaturePayloadProvider(&sh.Header)
	if err != nil {
		panic(err)
	}
	sh.Signature = signWith(concSigner(slot), payload)
	return sh
}

func concData(slot, size int) *types.Data {
	m := typicalMetaSpec().build()
	m.Height = 1000 + uint64(slot)
	d := &types.Data{Metadata: m, Txs: types.Txs{types.Tx(fmt.Sprintf("tx of slot %d", slot)), types.Tx{}}}
	if size > 0 {
		p := fill(slot, size)
		const chunk = 256 << 10
		for len(p) > 0 {
			n := min(chunk, len(p))
			d.Txs = append(d.Txs, types.Tx(p[:n]))
			p = p[n:]
		}
	}
	return d
}

// ConcValue builds the value of the given type for goroutine slot `slot` (values of different slots differ) that
// carries `size` bytes of payload (0 = a small typical value).
func ConcValue(typ string, slot, size int) any {
	switch typ {
	case "Header":
		h := concHeader(slot, size)
		return &h
	case "SignedHeader":
		h := concHeader(slot, size)
		return concSign(&h, slot)
	case "Metadata":
		m := typicalMetaSpec().build()
		m.Height = 1000 + uint64(slot)
		if size > 0 {
			m.LastDataHash = fill(slot, size)
		}
		return m
	case "Data":
		return concData(slot, size)
	case "SignedData":
		sd := &types.SignedData{Data: *concData(slot, size), Signer: signerOpt(concSigner(slot))}
		payload, err := sd.Data.MarshalBinary()
		if err != nil {
			panic(err)
		}
		sd.Signature = signWith(concSigner(slot), payload)
		return sd
	case "State":
		s := typicalStateSpec().build()
		s.LastBlockHeight = 1000 + uint64(slot)
		if size > 0 {
			s.AppHash = fill(slot, size)
		}
		return s
	case "BatchCursor":
		out := [][]byte{[]byte(fmt.Sprintf("entry of slot %d", slot)), {}}
		if size > 0 {
			p := fill(slot, size)
			q := len(p) / 4
			out = append(out, p[:q], p[q:2*q], p[2*q:3*q], p[3*q:])
		}
		return out
	case "Block":
		d := concData(slot, size)
		h := concHeader(slot, 0)
		h.DataHash = d.DACommitment()
		return &BlockPair{H: concSign(&h, slot), D: d}
	}
	panic("ConcValue " + typ)
}

// ---- the runner --------------------------------------------------------------------------------------------------------

// ConcTask is one goroutine of a run: it calls Fn.Call(In) at least MinCalls times and compares every result with Want.
type ConcTask struct {
	Fn       *ConcFn
	In       any
	Want     string
	MinCalls int
	Label    string // which value: "16 MiB #0", "small #3"
}

type ConcTaskResult struct {
	Calls      int64
	Overlapped int64 // calls during which another goroutine of the run was seen inside a call, or completed one
	Mismatches int64
	Panics     int64
	FirstGot   string
	FirstPanic string
}

func safeConcCall(f *ConcFn, in any) (res string, panicMsg string) {
	defer func() {
		if x := recover(); x != nil {
			panicMsg = fmt.Sprint(x)
			if panicMsg == "" {
				panicMsg = "panic"
			}
		}
	}()
	return f.Call(in), ""
}

// RunConcurrent starts one goroutine per task behind a barrier. measure=true: the overlap of calls is recorded through
// two shared counters, and the goroutines keep calling until every one of them has made its MinCalls calls and has seen
// min(MinCalls, 16) of its calls overlapped by a call of another goroutine (so the short calls keep running for as long
// as the long ones last, and fast functions are called until the goroutines really run at the same time). measure=false (race detector): every goroutine makes
// exactly MinCalls calls and touches NO shared harness state between the barrier and its end — atomic operations of
// the harness would be happens-before edges that hide races from the detector.
func RunConcurrent(tasks []ConcTask, measure bool, limit time.Duration) (res []ConcTaskResult, capped bool) {
	res = make([]ConcTaskResult, len(tasks))
	var ready, done sync.WaitGroup
	start := make(chan struct{})
	var completed, inCall, remaining atomic.Int64
	var abort atomic.Bool
	remaining.Store(int64(len(tasks)))
	for g := range tasks {
		ready.Add(1)
		done.Add(1)
		go func(g int) {
			defer done.Done()
			t := tasks[g]
			var r ConcTaskResult // local; published by done.Wait()
			judge := func(got, pmsg string) {
				r.Calls++
				if pmsg != "" {
					if r.Panics == 0 {
						r.FirstPanic = pmsg
					}
					r.Panics++
				} else if got != t.Want {
					if r.Mismatches == 0 {
						r.FirstGot = got
					}
					r.Mismatches++
				}
			}
			ready.Done()
			<-start
			if !measure {
				for i := 0; i < t.MinCalls; i++ {
					judge(safeConcCall(t.Fn, t.In))
				}
				res[g] = r
				return
			}
			satisfied := false
			for !abort.Load() {
				c0 := completed.Load()
				over := inCall.Add(1) > 1
				got, pmsg := safeConcCall(t.Fn, t.In)
				over = inCall.Add(-1) > 0 || over
				over = completed.Load() != c0 || over
				completed.Add(1)
				if over {
					r.Overlapped++
				}
				judge(got, pmsg)
				// satisfied = made its calls AND saw enough of them overlapped (two fast goroutines keep calling until
				// they really run at the same time)
				if !satisfied && r.Calls >= int64(t.MinCalls) && r.Overlapped >= int64(min(t.MinCalls, 16)) {
					satisfied = true
					remaining.Add(-1)
				}
				if satisfied && remaining.Load() <= 0 {
					break
				}
			}
			res[g] = r
		}(g)
	}
	ready.Wait()
	var timer *time.Timer
	if measure && limit > 0 {
		timer = time.AfterFunc(limit, func() { abort.Store(true) })
	}
	close(start)
	done.Wait()
	if timer != nil {
		timer.Stop()
	}
	capped = abort.Load()
	return
}

// ---- layouts -----------------------------------------------------------------------------------------------------------

// ConcSizes are the payload sizes and call counts of a tier.
type ConcSizes struct {
	Big, Mid     int // bytes
	Long, Short  int // minimal number of calls on a big / mid value, on a small value
	PairSize     int // payload of the long side of a cross-function pair
	AllSize      int // payload of the long side of every function in the all-functions-at-once layout
	Rounds       int // rounds of the all-functions-at-once layout
	Pairs        bool
	LimitPerRun  time.Duration
	Measure      bool
	SkipSameType bool
}

func sizeLabel(n int) string {
	switch {
	case n == 0:
		return "small"
	case n >= 1<<20:
		return fmt.Sprintf("%d MiB", n>>20)
	}
	return fmt.Sprintf("%d KiB", n>>10)
}

// ConcInput is a value prepared for one function, with the result of the sequential call.
type ConcInput struct {
	In    any
	Want  string
	Label string
}

// ConcFinding is one failed (function, layout).
type ConcFinding struct {
	Clause  string // stable-under-concurrent-calls | stable-under-repeated-calls
	Fn      string
	Type    string
	Layout  string
	Kind    string // mismatch | panic | mismatch+panic
	Other   bool   // a wrong result equals the expected result of ANOTHER goroutine of the run
	With    string // cross-function layouts: the other function
	Msg     string
	Wrong   int64
	OfCalls int64
}

type ConcStats struct {
	Functions        int                `json:"functions"`
	Runs             int64              `json:"runs"`
	RunsPerLayout    map[string]int     `json:"runs_per_layout"`
	CallsPerLayout   map[string]int64   `json:"calls_per_layout"`
	SecondsPerLayout map[string]float64 `json:"wall_seconds_per_layout"`
	Calls            int64              `json:"calls"`
	OverlappedCalls  int64              `json:"calls_overlapped_by_another_goroutines_call"`
	LongCalls        int64              `json:"calls_on_multi_MiB_values"`
	LongOverlapped   int64              `json:"calls_on_multi_MiB_values_overlapped"`
	MinOverlapTask   int64              `json:"min_overlapped_calls_of_any_goroutine"`
	Retries          int64              `json:"runs_repeated_because_a_goroutine_saw_no_overlap"`
	NoOverlap        []string           `json:"runs_without_observed_overlap"`
	Capped           []string           `json:"runs_cut_by_time_limit"`
	Failed           int                `json:"function_layouts_failed"`
	SeqCalls         int64              `json:"sequential_reference_calls"`
}

type concRunner struct {
	sz    ConcSizes
	st    *ConcStats
	fs    []ConcFinding
	cache map[string]any // values: typ/slot/size
	ins   map[string]ConcInput
}

func (c *concRunner) forget() {
	c.cache = map[string]any{}
	c.ins = map[string]ConcInput{}
}

func (c *concRunner) value(typ string, slot, size int) any {
	k := fmt.Sprintf("%s/%d/%d", typ, slot, size)
	if v, ok := c.cache[k]; ok {
		return v
	}
	v := ConcValue(typ, slot, size)
	c.cache[k] = v
	return v
}

// input prepares (sequentially) what fn is called with and computes the reference result, twice.
func (c *concRunner) input(fn *ConcFn, slot, size int, layout string) (ConcInput, bool) {
	if fn.MaxSize > 0 && size > fn.MaxSize {
		size = fn.MaxSize
	}
	label := fmt.Sprintf("%s #%d", sizeLabel(size), slot)
	var in any = c.value(fn.Type, slot, size)
	if fn.Prep != nil {
		p, err := fn.Prep(in)
		if err != nil {
			panic("harness: cannot prepare the input of " + fn.Name + ": " + err.Error())
		}
		in = p
	}
	w1, p1 := safeConcCall(fn, in)
	w2, p2 := safeConcCall(fn, in)
	c.st.SeqCalls += 2
	if p1 != "" || p2 != "" || w1 != w2 {
		c.fs = append(c.fs, ConcFinding{Clause: "stable-under-repeated-calls", Fn: fn.Name, Type: fn.Type, Layout: layout, Kind: "sequential",
			Msg: fmt.Sprintf("%s called twice in a row by one goroutine on the same unchanged %s (%s): first %q %s, then %q %s", fn.Name, fn.Type, label, w1, p1, w2, p2)})
		return ConcInput{}, false
	}
	return ConcInput{In: in, Want: w1, Label: label}, true
}

type concSlot struct {
	fn   *ConcFn
	slot int
	size int
	min  int
}

// run executes one layout; victims are judged per function.
func (c *concRunner) run(layout string, slots []concSlot, with func(fn *ConcFn) string) {
	tasks := make([]ConcTask, 0, len(slots))
	inputs := c.ins
	for i := range slots {
		s := slots[i]
		k := fmt.Sprintf("%s/%d/%d", s.fn.Name, s.slot, s.size)
		in, ok := inputs[k]
		if !ok {
			if in, ok = c.input(s.fn, s.slot, s.size, layout); !ok {
				return
			}
			inputs[k] = in
		}
		n := s.min
		if s.fn.Slow && s.size == 0 {
			n = max(n/20, 4)
		}
		tasks = append(tasks, ConcTask{Fn: s.fn, In: in.In, Want: in.Want, MinCalls: n, Label: in.Label})
	}
	name := layout
	var res []ConcTaskResult
	var capped bool
	for attempt := 0; ; attempt++ {
		t0 := time.Now()
		res, capped = RunConcurrent(tasks, c.sz.Measure, c.sz.LimitPerRun)
		c.st.Runs++
		if c.st.RunsPerLayout == nil {
			c.st.RunsPerLayout = map[string]int{}
			c.st.CallsPerLayout = map[string]int64{}
			c.st.SecondsPerLayout = map[string]float64{}
		}
		c.st.RunsPerLayout[layout]++
		c.st.SecondsPerLayout[layout] += time.Since(t0).Seconds()
		for g := range res {
			c.st.CallsPerLayout[layout] += res[g].Calls
		}
		bad, starved := false, false
		for g := range res {
			c.st.Calls += res[g].Calls
			c.st.OverlappedCalls += res[g].Overlapped
			if slots[g].size > 0 {
				c.st.LongCalls += res[g].Calls
				c.st.LongOverlapped += res[g].Overlapped
			}
			bad = bad || res[g].Mismatches+res[g].Panics > 0
			starved = starved || res[g].Overlapped == 0
		}
		if bad || !c.sz.Measure {
			break
		}
		if !starved && !capped {
			break
		}
		if attempt == 2 {
			id := name + ": " + tasks[0].Fn.Name
			if capped {
				c.st.Capped = append(c.st.Capped, id)
			} else {
				c.st.NoOverlap = append(c.st.NoOverlap, id)
			}
			break
		}
		c.st.Retries++
	}
	if c.sz.Measure {
		for g := range res {
			if c.st.MinOverlapTask < 0 || res[g].Overlapped < c.st.MinOverlapTask {
				c.st.MinOverlapTask = res[g].Overlapped
			}
		}
	}
	// one finding per function that returned a wrong result or panicked
	type agg struct {
		wrong, panics, calls int64
		other                bool
		msgs                 []string
	}
	byFn := map[string]*agg{}
	var order []string
	for g := range res {
		r := res[g]
		if r.Mismatches+r.Panics == 0 {
			continue
		}
		fn := tasks[g].Fn
		a := byFn[fn.Name]
		if a == nil {
			a = &agg{}
			byFn[fn.Name] = a
			order = append(order, fn.Name)
		}
		a.wrong += r.Mismatches
		a.panics += r.Panics
		a.calls += r.Calls
		if r.Mismatches > 0 {
			whose := ""
			for o := range tasks {
				if o != g && tasks[o].Want == r.FirstGot && tasks[o].Want != tasks[g].Want {
					a.other = true
					whose = fmt.Sprintf(" — that is the result of goroutine %d's call (%s on %s)", o, tasks[o].Fn.Name, tasks[o].Label)
					break
				}
			}
			a.msgs = append(a.msgs, fmt.Sprintf("goroutine %d (%s on the unchanged value %s): %d of %d calls returned a result other than the sequential one; first: got %s, want %s%s", g, fn.Name, tasks[g].Label, r.Mismatches, r.Calls, r.FirstGot, tasks[g].Want, whose))
		}
		if r.Panics > 0 {
			a.msgs = append(a.msgs, fmt.Sprintf("goroutine %d (%s on %s): %d of %d calls panicked; first: %s", g, fn.Name, tasks[g].Label, r.Panics, r.Calls, r.FirstPanic))
		}
	}
	for _, n := range order {
		a := byFn[n]
		kind := "mismatch"
		if a.panics > 0 && a.wrong > 0 {
			kind = "mismatch+panic"
		} else if a.panics > 0 {
			kind = "panic"
		}
		var fn *ConcFn
		for g := range tasks {
			if tasks[g].Fn.Name == n {
				fn = tasks[g].Fn
			}
		}
		f := ConcFinding{Clause: "stable-under-concurrent-calls", Fn: n, Type: fn.Type, Layout: layout, Kind: kind, Other: a.other, Wrong: a.wrong + a.panics, OfCalls: a.calls}
		if with != nil {
			f.With = with(fn)
		}
		desc := make([]string, len(tasks))
		for g := range tasks {
			desc[g] = fmt.Sprintf("%d: %s on %s", g, tasks[g].Fn.Name, tasks[g].Label)
		}
		if len(desc) > 10 {
			desc = append(desc[:10], fmt.Sprintf("... %d goroutines in all", len(tasks)))
		}
		f.Msg = fmt.Sprintf("%s is not a function of its argument while other calls are in progress (layout %s; goroutines behind one start barrier: %v; every call is compared with the result the same call gave sequentially):", n, layout, desc)
		for _, m := range a.msgs {
			f.Msg += "\n  " + m
		}
		c.fs = append(c.fs, f)
		c.st.Failed++
	}
}

// ConcLayouts names the layouts in the order they are run for every function.
var ConcLayouts = []string{
	"2-goroutines-different-values(one-multi-MiB,one-small)",
	"2-goroutines-same-multi-MiB-value",
	"8-goroutines-different-values(two-multi-MiB,six-small)",
	"8-goroutines-same-MiB-value",
	"8-goroutines-same-small-value",
}

const (
	layoutAll  = "all-functions-at-once(each:one-MiB-value,one-small-value)"
	layoutPair = "2-goroutines-different-functions(one-MiB-value,one-small-value)"
)

func (c *concRunner) sameFunction(fn *ConcFn, layout string) {
	z := c.sz
	switch layout {
	case ConcLayouts[0]:
		c.run(layout, []concSlot{{fn, 0, z.Big, z.Long}, {fn, 3, 0, z.Short}}, nil)
	case ConcLayouts[1]:
		c.run(layout, []concSlot{{fn, 0, z.Big, z.Long}, {fn, 0, z.Big, z.Long}}, nil)
	case ConcLayouts[2]:
		s := []concSlot{{fn, 0, z.Big, z.Long}, {fn, 1, z.Big, z.Long}}
		for i := 2; i < 8; i++ {
			s = append(s, concSlot{fn, i, 0, z.Short})
		}
		c.run(layout, s, nil)
	case ConcLayouts[3]:
		var s []concSlot
		for i := 0; i < 8; i++ {
			s = append(s, concSlot{fn, 0, z.Mid, 2 * z.Long})
		}
		c.run(layout, s, nil)
	case ConcLayouts[4]:
		var s []concSlot
		for i := 0; i < 8; i++ {
			s = append(s, concSlot{fn, 2, 0, z.Short})
		}
		c.run(layout, s, nil)
	default:
		panic("layout " + layout)
	}
}

// RunConcurrentCalls runs part (0) with the given sizes. only != "" restricts it to one function (replay); onlyLayout to
// one layout.
func RunConcurrentCalls(z ConcSizes, only, onlyLayout, onlyWith string) ([]ConcFinding, ConcStats) {
	keysOnce() // keys and addresses exist before any goroutine starts
	st := ConcStats{MinOverlapTask: -1}
	c := &concRunner{sz: z, st: &st}
	c.forget()
	fns := ConcFns()
	st.Functions = len(fns)
	want := func(l string) bool { return onlyLayout == "" || onlyLayout == l }
	for _, typ := range ConcTypes {
		for i := range fns {
			fn := &fns[i]
			if fn.Type != typ || (only != "" && only != fn.Name) {
				continue
			}
			for _, l := range ConcLayouts {
				if want(l) {
					c.sameFunction(fn, l)
				}
			}
		}
		c.forget() // the multi-MiB values of this type are garbage now
	}
	if want(layoutAll) && (only == "" || onlyLayout == layoutAll) {
		for round := 0; round < z.Rounds; round++ {
			var s []concSlot
			for i := range fns {
				s = append(s, concSlot{&fns[i], 0, z.AllSize, z.Long}, concSlot{&fns[i], 3, 0, z.Short})
			}
			c.run(layoutAll, s, nil)
		}
		c.forget()
	}
	if z.Pairs && want(layoutPair) {
		for i := range fns {
			for j := range fns {
				if i == j || (only != "" && only != fns[j].Name && only != fns[i].Name) || (onlyWith != "" && onlyWith != fns[i].Name && onlyWith != fns[j].Name) {
					continue
				}
				a, b := &fns[i], &fns[j]
				c.run(layoutPair, []concSlot{{a, 0, z.PairSize, z.Long}, {b, 3, 0, z.Short}}, func(fn *ConcFn) string {
					if fn == a {
						return b.Name
					}
					return a.Name
				})
			}
		}
	}
	sort.Strings(st.NoOverlap)
	sort.Strings(st.Capped)
	return c.fs, st
}

// used by the guards of the other parts: once part (0) has failed, wrong hashes in the parallel workers of the other
// parts may be consequences of it
var concUnsafe atomic.Bool
