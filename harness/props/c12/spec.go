package c12

import (
	"crypto/sha256"
	"encoding/hex"
	"fmt"
	"sync"
	"time"
	"unicode/utf8"

	"github.com/libp2p/go-libp2p/core/crypto"

	"github.com/evstack/ev-node/types"

	"verif/harness/world"
)

// Specs are the JSON-able descriptions of the enumerated values (replayable); build() turns a spec into the real value.
// Byte fields are written "nil" or "x"+hex (so nil and empty stay distinguishable in a spec); strings are hex of their bytes
// (JSON cannot carry invalid UTF-8).

func bs(b []byte) string {
	if b == nil {
		return "nil"
	}
	return "x" + hex.EncodeToString(b)
}

func unbs(s string) []byte {
	if s == "nil" || s == "" {
		return nil
	}
	b, err := hex.DecodeString(s[1:])
	if err != nil {
		panic("bad byte spec " + s)
	}
	if b == nil {
		b = []byte{}
	}
	return b
}

func hexs(s string) string { return hex.EncodeToString([]byte(s)) }
func unhexs(s string) string {
	b, err := hex.DecodeString(s)
	if err != nil {
		panic("bad string spec " + s)
	}
	return string(b)
}

func pat(seed byte, n int) []byte {
	b := make([]byte, n)
	for i := range b {
		b[i] = seed + byte(i)
	}
	return b
}

func sha(s string) []byte { h := sha256.Sum256([]byte(s)); return h[:] }

// ---- domains -------------------------------------------------------------------------------------------------------

var (
	domU = []uint64{0, 1, 1 << 63, 1<<64 - 1}
	domS = []string{hexs(""), hexs("c"), hexs("\xff\xfe")}                           // the last one is not valid UTF-8
	domB = []string{"nil", "x", bs([]byte{0x01}), bs(pat(0x40, 32))}                 // nil, empty, 1 byte, 32 bytes
	domT = []string{"nil", "x", bs([]byte{0x01}), bs([]byte{0x02}), bs(pat(0x60, 32))} // a transaction: nil, empty, two 1-byte, 32 bytes
	domE = []string{"nil", "x", bs([]byte{0x07}), bs(pat(0x10, 32)), bs(pat(0x00, 300))} // a batch entry; 300 bytes needs a 2-byte length

	domSig = []string{"nil", "x", bs([]byte{0x05}), bs(pat(0x80, 32)), "valid"}
	// a signed header additionally carries a signature made under a NON-DEFAULT signature payload provider
	// (world.CustomPayloadProvider, the configuration dimension ManagerOptions.SignaturePayloadProvider)
	domSigHeader = append(append([]string(nil), domSig...), "valid-custom")
)

var domTime = []time.Time{
	{},
	time.Unix(0, 0).UTC(),
	time.Unix(1700000000, 123456789).In(time.FixedZone("verif", 2*3600+1800)),
	time.Unix(-5, 999999999).UTC(),
	time.Unix(253402300799, 999999999).UTC(),
}

// The keys are built on first use and not at package initialisation: a history child (history_test.go) must reach its
// first decode without the harness having touched any key or address code of the repository.
type c12Keys struct {
	ed, ed2  *world.FixedSigner
	secpPriv crypto.PrivKey
	secpPub  crypto.PubKey
	secpAddr []byte
}

var keysOnce = sync.OnceValue(func() *c12Keys {
	k := &c12Keys{ed: world.NewFixedSigner("c12"), ed2: world.NewFixedSigner("c12-other")}
	var err error
	k.secpPriv, err = crypto.UnmarshalSecp256k1PrivateKey(sha("verif-c12-secp"))
	if err != nil {
		panic(err)
	}
	k.secpPub = k.secpPriv.GetPublic()
	k.secpAddr = types.KeyAddress(k.secpPub)
	return k
})

func edS() *world.FixedSigner  { return keysOnce().ed }
func ed2S() *world.FixedSigner { return keysOnce().ed2 }
func secpAddrB() []byte        { return keysOnce().secpAddr }

const (
	signerNone          = 0
	signerEd            = 1
	signerEdNilAddr     = 2
	signerEdShortAddr   = 3
	signerNoKeyAddr32   = 4
	signerNoKeyEmptyAdr = 5
	signerNoKeyAddr1    = 6
	signerSecp          = 7
	nSignerOpts         = 8
)

func signerOpt(i int) types.Signer {
	switch i {
	case signerNone:
		return types.Signer{}
	case signerEd:
		return types.Signer{PubKey: edS().Pub(), Address: append([]byte(nil), edS().Addr()...)}
	case signerEdNilAddr:
		return types.Signer{PubKey: edS().Pub()}
	case signerEdShortAddr:
		return types.Signer{PubKey: edS().Pub(), Address: []byte{0x09}}
	case signerNoKeyAddr32:
		return types.Signer{Address: append([]byte(nil), edS().Addr()...)}
	case signerNoKeyEmptyAdr:
		return types.Signer{Address: []byte{}}
	case signerNoKeyAddr1:
		return types.Signer{Address: []byte{0x09}}
	case signerSecp:
		return types.Signer{PubKey: keysOnce().secpPub, Address: append([]byte(nil), secpAddrB()...)}
	}
	panic("signer option")
}

func signWith(opt int, payload []byte) []byte {
	var sig []byte
	var err error
	if opt == signerSecp {
		sig, err = keysOnce().secpPriv.Sign(payload)
	} else {
		sig, err = edS().Sign(payload)
	}
	if err != nil {
		panic(err)
	}
	return sig
}

// ---- Header --------------------------------------------------------------------------------------------------------

var hashNames = [8]string{"LastHeaderHash", "LastCommitHash", "DataHash", "ConsensusHash", "AppHash", "LastResultsHash", "ProposerAddress", "ValidatorHash"}

type HeaderSpec struct {
	Block, App, Height, Time uint64
	ChainID                  string
	Hashes                   [8]string
}

func (s HeaderSpec) build() types.Header {
	return types.Header{
		BaseHeader:      types.BaseHeader{Height: s.Height, Time: s.Time, ChainID: unhexs(s.ChainID)},
		Version:         types.Version{Block: s.Block, App: s.App},
		LastHeaderHash:  unbs(s.Hashes[0]),
		LastCommitHash:  unbs(s.Hashes[1]),
		DataHash:        unbs(s.Hashes[2]),
		ConsensusHash:   unbs(s.Hashes[3]),
		AppHash:         unbs(s.Hashes[4]),
		LastResultsHash: unbs(s.Hashes[5]),
		ProposerAddress: unbs(s.Hashes[6]),
		ValidatorHash:   unbs(s.Hashes[7]),
	}
}

func (s HeaderSpec) nonUTF8() bool { return !utf8.ValidString(unhexs(s.ChainID)) }

func typicalHeaderSpec() HeaderSpec {
	s := HeaderSpec{Block: 7, App: 9, Height: 42, Time: 1700000000000000001, ChainID: hexs("verif-c12")}
	for i := range s.Hashes {
		s.Hashes[i] = bs(sha("c12-" + hashNames[i]))
	}
	s.Hashes[6] = bs(edS().Addr()) // proposer address = address of the signer
	return s
}

func zeroHeaderSpec() HeaderSpec {
	s := HeaderSpec{}
	for i := range s.Hashes {
		s.Hashes[i] = "nil"
	}
	return s
}

// header fields by index: 0 Block, 1 App, 2 Height, 3 Time, 4 ChainID, 5..12 the eight byte fields
const nHeaderFields = 13

func headerFieldName(f int) string {
	switch f {
	case 0:
		return "Version.Block"
	case 1:
		return "Version.App"
	case 2:
		return "Height"
	case 3:
		return "Time"
	case 4:
		return "ChainID"
	}
	return hashNames[f-5]
}

func headerDomSize(f int) int {
	switch {
	case f < 4:
		return len(domU)
	case f == 4:
		return len(domS)
	}
	return len(domB)
}

func (s *HeaderSpec) set(f, v int) {
	switch f {
	case 0:
		s.Block = domU[v]
	case 1:
		s.App = domU[v]
	case 2:
		s.Height = domU[v]
	case 3:
		s.Time = domU[v]
	case 4:
		s.ChainID = domS[v]
	default:
		s.Hashes[f-5] = domB[v]
	}
}

// ---- SignedHeader --------------------------------------------------------------------------------------------------

type SignedHeaderSpec struct {
	H      HeaderSpec
	Sig    string // "valid" = signature by the signer option's key (ed25519 key when the option has none) over the header; "valid-custom" = the same over world.CustomPayloadProvider(header)
	Signer int
}

const nSignedHeaderFields = nHeaderFields + 2

func signedHeaderFieldName(f int) string {
	switch f {
	case nHeaderFields:
		return "Signature"
	case nHeaderFields + 1:
		return "Signer"
	}
	return headerFieldName(f)
}

func signedHeaderDomSize(f int) int {
	switch f {
	case nHeaderFields:
		return len(domSigHeader)
	case nHeaderFields + 1:
		return nSignerOpts
	}
	return headerDomSize(f)
}

func (s *SignedHeaderSpec) set(f, v int) {
	switch f {
	case nHeaderFields:
		s.Sig = domSigHeader[v]
	case nHeaderFields + 1:
		s.Signer = v
	default:
		s.H.set(f, v)
	}
}

func (s SignedHeaderSpec) build() *types.SignedHeader {
	sh := &types.SignedHeader{Header: s.H.build(), Signer: signerOpt(s.Signer)}
	if s.Sig == "valid" {
		payload, err := types.DefaultSignaturePayloadProvider(&sh.Header)
		if err == nil {
			sh.Signature = signWith(s.Signer, payload)
		}
	} else if s.Sig == "valid-custom" {
		payload, err := world.CustomPayloadProvider(&sh.Header)
		if err == nil {
			sh.Signature = signWith(s.Signer, payload)
		}
	} else {
		sh.Signature = unbs(s.Sig)
	}
	return sh
}

func typicalSignedHeaderSpec() SignedHeaderSpec {
	return SignedHeaderSpec{H: typicalHeaderSpec(), Sig: "valid", Signer: signerEd}
}
func zeroSignedHeaderSpec() SignedHeaderSpec {
	return SignedHeaderSpec{H: zeroHeaderSpec(), Sig: "nil", Signer: signerNone}
}

// ---- Metadata / Data / SignedData ----------------------------------------------------------------------------------

type MetaSpec struct {
	ChainID      string
	Height, Time uint64
	LastDataHash string
}

func (s MetaSpec) build() *types.Metadata {
	return &types.Metadata{ChainID: unhexs(s.ChainID), Height: s.Height, Time: s.Time, LastDataHash: unbs(s.LastDataHash)}
}

func typicalMetaSpec() MetaSpec {
	return MetaSpec{ChainID: hexs("verif-c12"), Height: 42, Time: 1700000000000000001, LastDataHash: bs(sha("c12-last-data"))}
}

type DataSpec struct {
	Meta   *MetaSpec
	TxsNil bool
	Txs    []string
}

func (s DataSpec) build() *types.Data {
	d := &types.Data{}
	if s.Meta != nil {
		d.Metadata = s.Meta.build()
	}
	if !s.TxsNil {
		d.Txs = types.Txs{}
		for _, t := range s.Txs {
			d.Txs = append(d.Txs, types.Tx(unbs(t)))
		}
	}
	return d
}

func (s DataSpec) nonUTF8() bool { return s.Meta != nil && !utf8.ValidString(unhexs(s.Meta.ChainID)) }

func typicalDataSpec() DataSpec {
	m := typicalMetaSpec()
	return DataSpec{Meta: &m, Txs: []string{bs([]byte("tx-one")), "x", bs(pat(0x60, 32))}}
}

type SignedDataSpec struct {
	D      DataSpec
	Sig    string // "valid" = signature over Data.MarshalBinary(), the payload the node verifies
	Signer int
}

func (s SignedDataSpec) build() *types.SignedData {
	sd := &types.SignedData{Data: *s.D.build(), Signer: signerOpt(s.Signer)}
	if s.Sig == "valid" {
		payload, err := sd.Data.MarshalBinary()
		if err == nil {
			sd.Signature = signWith(s.Signer, payload)
		}
	} else {
		sd.Signature = unbs(s.Sig)
	}
	return sd
}

// txLists enumerates nil, the empty list and every list of 1..maxLen transactions over domT.
func txLists(maxLen int) []DataSpec {
	out := []DataSpec{{TxsNil: true}, {Txs: []string{}}}
	var rec func(cur []string)
	rec = func(cur []string) {
		if len(cur) > 0 {
			out = append(out, DataSpec{Txs: append([]string(nil), cur...)})
		}
		if len(cur) == maxLen {
			return
		}
		for _, t := range domT {
			rec(append(cur, t))
		}
	}
	rec(nil)
	return out
}

func allMetaSpecs() []MetaSpec {
	var out []MetaSpec
	for _, c := range domS {
		for _, h := range domU {
			for _, t := range domU {
				for _, l := range domB {
					out = append(out, MetaSpec{ChainID: c, Height: h, Time: t, LastDataHash: l})
				}
			}
		}
	}
	return out
}

// ---- State ---------------------------------------------------------------------------------------------------------

type StateSpec struct {
	Block, App        uint64
	ChainID           string
	Initial, Last, DA uint64
	Time              int // index into domTime
	LastResultsHash   string
	AppHash           string
}

func (s StateSpec) build() *types.State {
	return &types.State{
		Version: types.Version{Block: s.Block, App: s.App}, ChainID: unhexs(s.ChainID), InitialHeight: s.Initial,
		LastBlockHeight: s.Last, LastBlockTime: domTime[s.Time], DAHeight: s.DA,
		LastResultsHash: unbs(s.LastResultsHash), AppHash: unbs(s.AppHash),
	}
}

func (s StateSpec) nonUTF8() bool { return !utf8.ValidString(unhexs(s.ChainID)) }

func typicalStateSpec() StateSpec {
	return StateSpec{Block: 11, App: 3, ChainID: hexs("verif-c12"), Initial: 1, Last: 42, DA: 1234, Time: 2,
		LastResultsHash: bs(sha("c12-last-results")), AppHash: bs(sha("c12-app"))}
}

// ---- batch cursor --------------------------------------------------------------------------------------------------

type BatchSpec struct {
	Nil   bool
	Items []string
}

func (s BatchSpec) build() [][]byte {
	if s.Nil {
		return nil
	}
	out := [][]byte{}
	for _, e := range s.Items {
		out = append(out, unbs(e))
	}
	return out
}

func batchLists(maxLen int) []BatchSpec {
	out := []BatchSpec{{Nil: true}, {Items: []string{}}}
	var rec func(cur []string)
	rec = func(cur []string) {
		if len(cur) > 0 {
			out = append(out, BatchSpec{Items: append([]string(nil), cur...)})
		}
		if len(cur) == maxLen {
			return
		}
		for _, t := range domE {
			rec(append(cur, t))
		}
	}
	rec(nil)
	return out
}

// ---- cache ---------------------------------------------------------------------------------------------------------

type CacheItem struct {
	Height uint64
	H      *SignedHeaderSpec `json:",omitempty"`
	D      *DataSpec         `json:",omitempty"`
}
type CacheDA struct {
	Hash   string
	Height uint64
}
type CacheSpec struct {
	Kind  string // "header" | "data"
	Items []CacheItem
	Seen  []string
	DA    []CacheDA
}

func (s CacheSpec) nonUTF8() bool {
	for _, it := range s.Items {
		if it.H != nil && it.H.H.nonUTF8() {
			return true
		}
		if it.D != nil && it.D.nonUTF8() {
			return true
		}
	}
	return false
}

// ---- variations around a base value ----------------------------------------------------------------------------------

type assign struct{ F, V int }

// variations calls f for every choice of exactly k distinct fields and every assignment of domain values to them.
func variations(nFields int, domSize func(int) int, k int, f func([]assign)) {
	cur := make([]assign, 0, k)
	var rec func(start int)
	rec = func(start int) {
		if len(cur) == k {
			f(cur)
			return
		}
		for fld := start; fld < nFields; fld++ {
			for v := 0; v < domSize(fld); v++ {
				cur = append(cur, assign{fld, v})
				rec(fld + 1)
				cur = cur[:len(cur)-1]
			}
		}
	}
	rec(0)
}

func describeAssign(name func(int) string, as []assign) string {
	s := ""
	for _, a := range as {
		s += fmt.Sprintf("%s:=dom[%d] ", name(a.F), a.V)
	}
	return s
}
