package c12

import (
	"bytes"
	"fmt"
	"reflect"
	"strings"

	"github.com/evstack/ev-node/types"
)

// Part (d), aliasing supplement.
//
// The "reuse" mode judges what a reused receiver holds after the LAST decode. A decoder that writes the new message into
// the storage of the previous one (append(dst[:0], src...), pooled sub-objects) passes it: the receiver itself is right
// after every step. What changes is every BY-VALUE COPY somebody took of the earlier result (Go assignment c := *recv;
// Header and SignedHeader travel by value through the node) — the copy shares the byte arrays with the receiver.
//
// Mode "reuse-copy": one receiver per type, as in "reuse"; after every step the harness takes a shallow copy of the
// receiver (struct assignment; pointer-valued sub-objects are copied one level by struct assignment as well; NO byte
// slice is cloned, every []byte / [][]byte header of the copy points at the arrays the decoder produced), dumps it at
// once (canonical fields, hashes, signature validity, validation verdict, re-encoding, fixed point), and after EVERY later
// decode into the same receiver (successful or failing) dumps every earlier copy again: the two dumps must be equal.
// For the batch-cursor codec (a function, no receiver) the "copy" is the returned [][]byte itself and a copy of its outer
// slice. Clause earlier-copy-changed-by-later-decode.
//
// The converse for encoders (in-process pass): the bytes an encoder returned must stay what they are when the same value
// is encoded again, when another value is encoded, when another message is decoded into the value, and when the
// value's own byte strings are overwritten in place. Clause encoded-bytes-changed-later.

const modeReuseCopy = "reuse-copy"
const modeReuseCopyHere = "reuse-copy-in-process"
const modeEncoderStability = "encoder-stability"

// copyDiff: the copy taken after step Of (0-based) dumps differently after step After than when it was taken.
type copyDiff struct {
	Of    int      `json:"of"`
	After int      `json:"after"`
	Diff  []string `json:"diff"`
	Was   []string `json:"was"`
	Now   []string `json:"now"`
	Panic string   `json:"panic,omitempty"`
}

// aliasGroup: messages that share a receiver (or, for the batch cursor, a decoding function).
func aliasGroup(e *helem) string {
	if gt := goTypeOf(e); gt != "" {
		return gt
	}
	if e.Dec == "BatchCursor" {
		return "BatchCursor"
	}
	return ""
}

// shallowCopies returns the by-value copies a caller can take of a decoded value without cloning any bytes.
func shallowCopies(v any) []any {
	switch x := v.(type) {
	case *types.Header:
		c := *x
		return []any{&c}
	case *types.SignedHeader:
		c := *x
		return []any{&c}
	case *types.Metadata:
		c := *x
		return []any{&c}
	case *types.State:
		c := *x
		return []any{&c}
	case *types.Data:
		c := *x
		if x.Metadata != nil {
			m := *x.Metadata
			c.Metadata = &m
		}
		return []any{&c}
	case *types.SignedData:
		c := *x
		if x.Data.Metadata != nil {
			m := *x.Data.Metadata
			c.Data.Metadata = &m
		}
		return []any{&c}
	case [][]byte:
		return []any{x, append([][]byte(nil), x...)}
	}
	panic(fmt.Sprintf("harness: no shallow copy for %T", v))
}

type heldCopy struct {
	step int
	e    *helem
	val  any
	was  stepDump
}

func renderF(fs []field, keys []string) []string {
	m := fieldMap(fs)
	out := make([]string, len(keys))
	for i, k := range keys {
		out[i] = k + "=" + m[k]
	}
	return out
}

// runReuseCopyHere executes one reuse-copy history in this process. Steps[k].F is the dump of the first copy taken after
// step k at that moment; Steps[k].Copy lists the earlier copies that dump differently after step k.
func runReuseCopyHere(pool []helem, hist []int) (res childResult, comparisons int64) {
	res.Steps = make([]stepDump, len(hist))
	defer func() { res.CopyComparisons = comparisons }()
	recv := map[string]any{}
	var held []heldCopy
	for k, i := range hist {
		e := &pool[i]
		var r any
		if gt := goTypeOf(e); gt != "" {
			if recv[gt] == nil {
				recv[gt] = hdecOf(e.Dec).fresh()
			}
			r = recv[gt]
		}
		d := decodeElem(e, r, "")
		// every earlier copy must still be what it was
		for _, h := range held {
			now := dumpDecoded(h.e, decoded{val: h.val})
			comparisons++
			df := diffFields(h.was.F, now.F)
			if len(df) == 0 && now.Panic == h.was.Panic {
				continue
			}
			res.Steps[k].Copy = append(res.Steps[k].Copy, copyDiff{Of: h.step, After: k, Diff: df, Was: renderF(h.was.F, df), Now: renderF(now.F, df), Panic: now.Panic})
		}
		if d.panic != "" || d.err != nil {
			res.Steps[k].F = dumpDecoded(e, d).F
			res.Steps[k].Panic = d.panic
			continue
		}
		for n, c := range shallowCopies(d.val) {
			was := dumpDecoded(e, decoded{val: c})
			if n == 0 {
				res.Steps[k].F, res.Steps[k].Panic, res.Steps[k].Err = was.F, was.Panic, was.Err
			}
			held = append(held, heldCopy{step: k, e: e, val: c, was: was})
		}
	}
	return
}

// enumAliasHistories: all ordered histories of the given length within one alias group.
func enumAliasHistories(pool []helem, length int) [][]int {
	var out [][]int
	cur := make([]int, 0, length)
	var rec func()
	rec = func() {
		if len(cur) == length {
			out = append(out, append([]int(nil), cur...))
			return
		}
		for i := range pool {
			g := aliasGroup(&pool[i])
			if g == "" || (len(cur) > 0 && aliasGroup(&pool[cur[0]]) != g) {
				continue
			}
			cur = append(cur, i)
			rec()
			cur = cur[:len(cur)-1]
		}
	}
	rec()
	return out
}

func judgeReuseCopy(pool []helem, mode string, hist []int, res childResult, crashed string) (fs []finding) {
	ref := caseRef{Part: "history", Mode: mode, Hist: histNames(pool, hist)}
	base := []string{"mode:" + mode, fmt.Sprintf("history-length:%d", len(hist))}
	if crashed != "" {
		last := &pool[hist[len(hist)-1]]
		return []finding{{clause: "decoder-panic", tags: append(base, "type:"+last.Dec, "process-died"), cost: len(hist), ref: ref,
			msg: fmt.Sprintf("the process died while running the history: %s\n%s", renderHist(pool, hist, mode), crashed)}}
	}
	for k := range hist {
		if p := res.Steps[k].Panic; p != "" {
			fs = append(fs, finding{clause: "decoder-panic", tags: append(append([]string{}, base...), "type:"+pool[hist[k]].Dec, fmt.Sprintf("step:%d", k+1)), cost: len(hist), ref: ref,
				msg: fmt.Sprintf("step %d (%s) panics: %s\n history: %s", k+1, pool[hist[k]].Name, p, renderHist(pool, hist, mode))})
		}
		for _, c := range res.Steps[k].Copy {
			if c.Of < 0 || c.Of >= k {
				continue
			}
			e := &pool[hist[c.Of]]
			tags := append(append([]string{}, base...), "type:"+e.Dec, "receiver:"+aliasGroup(e), fmt.Sprintf("copy-of-step:%d", c.Of+1), fmt.Sprintf("after-step:%d", k+1),
				"later-decode:"+dumpDecodes(res.Steps[k]))
			tags = append(tags, collisionTags(pool, hist, k)...)
			for _, d := range c.Diff {
				tags = append(tags, "differs:"+d)
			}
			var sb strings.Builder
			for i := range c.Diff {
				fmt.Fprintf(&sb, "\n   when copied: %s\n   now:         %s", c.Was[i], c.Now[i])
			}
			if c.Panic != "" {
				fmt.Fprintf(&sb, "\n   dumping the copy now panics: %s", c.Panic)
			}
			fs = append(fs, finding{clause: "earlier-copy-changed-by-later-decode", tags: tags, cost: len(hist), ref: ref,
				msg: fmt.Sprintf("a by-value copy (no bytes cloned) of the %s decoded at step %d (%s) was not touched, yet after step %d (%s decoded into the same receiver) it is no longer what it was\n history: %s\n differing fields:%s",
					aliasGroup(e), c.Of+1, e.Name, k+1, pool[hist[k]].Name, renderHist(pool, hist, mode), sb.String())})
		}
	}
	return
}

// ---- encoders: returned bytes stay what they are ----------------------------------------------------------------------

// scribble overwrites, in place, every byte of every exported byte string reachable from v (no reallocation).
func scribble(v reflect.Value) {
	switch v.Kind() {
	case reflect.Pointer:
		if !v.IsNil() {
			scribble(v.Elem())
		}
	case reflect.Struct:
		for i := 0; i < v.NumField(); i++ {
			if v.Type().Field(i).PkgPath == "" {
				scribble(v.Field(i))
			}
		}
	case reflect.Slice:
		if v.Type().Elem().Kind() == reflect.Uint8 {
			b := v.Bytes()
			for i := range b {
				b[i] ^= 0xa5
			}
			return
		}
		for i := 0; i < v.Len(); i++ {
			scribble(v.Index(i))
		}
	}
}

func aliasCodec(e *helem) (enc func(any) ([]byte, error), fresh func([]byte) (any, error), into func(any, []byte) error) {
	if e.Dec == "BatchCursor" {
		return encBatch, decBatch, nil
	}
	hd := hdecOf(e.Dec)
	return hd.enc, func(b []byte) (any, error) { r := hd.fresh(); return r, hd.into(r, b) }, hd.into
}

// encoderStabilityPair: x is decoded into a fresh value v and encoded; then, stage by stage, things happen that must not
// reach the returned bytes.
func encoderStabilityPair(pool []helem, ix, iy int) (fs []finding, checks int64) {
	x, y := &pool[ix], &pool[iy]
	hist := []int{ix, iy}
	ref := caseRef{Part: "history", Mode: modeEncoderStability, Hist: histNames(pool, hist)}
	var stage string
	defer func() {
		if p := recover(); p != nil {
			fs = append(fs, finding{clause: "hash-or-codec-panic", tags: []string{"mode:" + modeEncoderStability, "type:" + x.Dec, "stage:" + stage}, cost: 2, ref: ref,
				msg: fmt.Sprintf("encoder stability (%s, %s), stage %s: panic: %v", x.Name, y.Name, stage, p)})
		}
	}()
	enc, fresh, into := aliasCodec(x)
	stage = "decode"
	v, err := fresh(cp(x.Bytes))
	if err != nil {
		return
	}
	stage = "encode"
	b1, err := enc(v)
	if err != nil {
		return
	}
	snap := cp(b1)
	check := func() {
		checks++
		if bytes.Equal(b1, snap) {
			return
		}
		tags := []string{"mode:" + modeEncoderStability, "type:" + x.Dec, "stage:" + stage}
		tags = append(tags, collisionTags(pool, hist, 1)...)
		fs = append(fs, finding{clause: "encoded-bytes-changed-later", tags: tags, cost: 2, ref: ref,
			msg: fmt.Sprintf("the bytes returned by the encoder for %s changed afterwards (stage %s; other message: %s)\n returned: %s\n now:      %s", x.Name, stage, y.Name, hx(snap), hx(b1))})
		snap = cp(b1)
	}
	stage = "same-value-encoded-again"
	if b2, err := enc(v); err == nil {
		checks++
		if !bytes.Equal(b2, snap) {
			fs = append(fs, finding{clause: "encoded-bytes-changed-later", tags: []string{"mode:" + modeEncoderStability, "type:" + x.Dec, "stage:" + stage, "second-encoding-differs"}, cost: 2, ref: ref,
				msg: fmt.Sprintf("encoding %s twice gives different bytes\n first:  %s\n second: %s", x.Name, hx(snap), hx(b2))})
		}
	}
	check()
	stage = "other-value-decoded-and-encoded"
	if w, err := fresh(cp(y.Bytes)); err == nil {
		_, _ = enc(w)
	}
	check()
	if into != nil {
		stage = "other-message-decoded-into-the-value"
		_ = into(v, cp(y.Bytes))
		check()
		stage = "value-encoded-after-redecode"
		_, _ = enc(v)
		check()
	}
	stage = "value-bytes-overwritten-in-place"
	scribble(reflect.ValueOf(v))
	check()
	stage = "value-encoded-after-overwrite"
	_, _ = enc(v)
	check()
	return
}

// runAliasInProcess: every ordered pair of one alias group, in this process: the reuse-copy history and the encoder pass.
func runAliasInProcess(pool []helem) (fs []finding, histories, comparisons, encChecks int64) {
	for _, hist := range enumAliasHistories(pool, 2) {
		res, n := runReuseCopyHere(pool, hist)
		histories++
		comparisons += n
		fs = append(fs, judgeReuseCopy(pool, modeReuseCopyHere, hist, res, "")...)
		f, c := encoderStabilityPair(pool, hist[0], hist[1])
		encChecks += c
		fs = append(fs, f...)
	}
	return
}
