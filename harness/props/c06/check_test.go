package c06

import (
	"bytes"
	"context"
	"crypto/sha256"
	"encoding/binary"
	"encoding/json"
	"fmt"
	"os"
	"path/filepath"
	"sort"
	"strings"
	"sync"
	"sync/atomic"
	"testing"
	"testing/synctest"
	"time"

	"google.golang.org/protobuf/proto"

	coreseq "github.com/evstack/ev-node/core/sequencer"
	"github.com/evstack/ev-node/types"
	pb "github.com/evstack/ev-node/types/pb/evnode/v1"

	"verif/harness/explore"
	"verif/harness/vf"
	"verif/harness/world"
)

// C06 — every committed block reaches the DA layer in order; the watermark is sound.
// The UNMODIFIED HeaderSubmissionLoop and DataSubmissionLoop run in a synctest bubble (virtual time); the explorer
// answers every Submit call, may kill the process at every watermark write and around every Submit, may stop and
// restart it cleanly (caches saved and reloaded) and picks the chain contents: which blocks are empty and which blocks
// carry byte-identical transaction lists (equal data commitments). Oracles read the DA double's ground truth.
// The exploration is cut into units (part × configuration × chain × restart instant) that the shard processes deal
// out among themselves; below a unit explore.Explore enumerates the DA answers and crash points.

const (
	daBlock = time.Second
	phase   = 507 * time.Millisecond // harness observation instants never coincide with loop timers
	// lostHorizon: after a history in which a Submit call got NO answer (the request was lost: the call returns only
	// when the caller gives it up) the accepting phase is this many DA blocks longer, so that the node can abandon the
	// call (the code under test does so after 60 s) and send the blobs again before completion is demanded.
	lostHorizon = 90
)

// unit is one configuration × chain content; the fault choices below it are enumerated by explore.Explore.
// Chain[i] describes the i-th committed block: 0 = empty, k>0 = the block carries transaction list number k. Two
// blocks with the same number carry byte-identical transaction lists (hence the same data commitment / data-cache
// key); numbers are in order of first use, so the chains are exactly the equality patterns of the tx lists.
type unit struct {
	Initial   uint64 `json:"initial"`
	DataFirst bool   `json:"data_first"`
	Chain     []int  `json:"chain"`
	RestartAt int    `json:"restart_at"` // 0 = no clean restart; k = clean stop and restart at the k-th observation instant
}

func (u unit) String() string {
	var sb strings.Builder
	for _, k := range u.Chain {
		if k == 0 {
			sb.WriteByte('-')
		} else {
			sb.WriteByte(byte('A' + k - 1))
		}
	}
	if u.RestartAt > 0 {
		fmt.Fprintf(&sb, " clean-restart@%d", u.RestartAt)
	}
	return fmt.Sprintf("init=%d dataFirst=%v chain=%s", u.Initial, u.DataFirst, sb.String())
}

func (u unit) nonEmpty() (n int) {
	for _, k := range u.Chain {
		if k > 0 {
			n++
		}
	}
	return
}

// repeats = number of blocks whose transaction list equals that of an earlier block.
func (u unit) repeats() (n int) {
	seen := map[int]bool{}
	for _, k := range u.Chain {
		if k > 0 && seen[k] {
			n++
		}
		seen[k] = true
	}
	return
}

// adjacentRepeat: two neighbouring blocks carry the same list; separatedRepeat: equal lists with a block in between.
func (u unit) adjacentRepeat() bool {
	for i := 1; i < len(u.Chain); i++ {
		if u.Chain[i] > 0 && u.Chain[i] == u.Chain[i-1] {
			return true
		}
	}
	return false
}

func (u unit) separatedRepeat() (overEmpty, overOther bool) {
	last := map[int]int{}
	for i, k := range u.Chain {
		if k == 0 {
			continue
		}
		if j, ok := last[k]; ok && i-j > 1 {
			for x := j + 1; x < i; x++ {
				if u.Chain[x] == 0 {
					overEmpty = true
				} else {
					overOther = true
				}
			}
		}
		last[k] = i
	}
	return
}

// chains enumerates every chain of n blocks up to renaming of transaction lists: each block is empty or carries a
// list that is either new or equal to the list of any earlier block (restricted-growth strings; Bell(n+1) chains).
func chains(n int) [][]int {
	var out [][]int
	var rec func(cur []int, max int)
	rec = func(cur []int, max int) {
		if len(cur) == n {
			out = append(out, append([]int(nil), cur...))
			return
		}
		for k := 0; k <= max+1; k++ {
			m := max
			if k > m {
				m = k
			}
			rec(append(cur, k), m)
		}
	}
	rec(nil, 0)
	return out
}

type history struct {
	Unit    unit            `json:"unit"`
	Choices []explore.Point `json:"choices"`
}

var rootSeq atomic.Int64

type event struct {
	T    string `json:"t"`
	What string `json:"what"`
}

type outcome struct {
	fail   *world.Fail
	tags   []string
	events []event
	sig    string
	engine string // machinery problem (never a verdict)
	lost   int    // Submit calls of this execution that got no answer
}

type item struct {
	header bool
	height uint64
}

type classified struct {
	it item
	sh *types.SignedHeader
	sd *types.SignedData
	ok bool
}

var classifyMemo sync.Map // sha256(blob) -> classified (decoding is a pure function of the bytes)

func classify(blob []byte) (item, *types.SignedHeader, *types.SignedData, bool) {
	k := sha256.Sum256(blob)
	if v, ok := classifyMemo.Load(k); ok {
		c := v.(classified)
		return c.it, c.sh, c.sd, c.ok
	}
	it, sh, sd, ok := classify0(blob)
	classifyMemo.Store(k, classified{it, sh, sd, ok})
	return it, sh, sd, ok
}

// classify0 decodes a stored blob exactly as a syncing node would.
func classify0(blob []byte) (item, *types.SignedHeader, *types.SignedData, bool) {
	var hp pb.SignedHeader
	if err := proto.Unmarshal(blob, &hp); err == nil {
		sh := new(types.SignedHeader)
		if err := sh.FromProto(&hp); err == nil && sh.ValidateBasic() == nil {
			return item{true, sh.Height()}, sh, nil, true
		}
	}
	var sd types.SignedData
	if err := sd.UnmarshalBinary(blob); err == nil && sd.Metadata != nil && len(sd.Txs) > 0 {
		return item{false, sd.Height()}, nil, &sd, true
	}
	return item{}, nil, nil, false
}

func le64(b []byte) uint64 {
	if len(b) != 8 {
		return 0
	}
	return binary.LittleEndian.Uint64(b)
}

func body(t *testing.T, c *explore.Ctx, u unit, horizon int) (out outcome) {
	// the cache files of a clean stop live here; the directory is only created when a clean restart happens
	root := filepath.Join(os.TempDir(), fmt.Sprintf("c06-root-%d-%d", os.Getpid(), rootSeq.Add(1)))
	defer os.RemoveAll(root)
	synctest.Test(t, func(t *testing.T) {
		out = bubble(c, u, horizon, root)
	})
	return
}

func bubble(c *explore.Ctx, u unit, horizon int, root string) (out outcome) {
	t0 := time.Now()
	ev := func(f string, a ...any) {
		out.events = append(out.events, event{time.Since(t0).String(), fmt.Sprintf(f, a...)})
	}
	initial := u.Initial
	dataFirst := u.DataFirst
	nBlocks := len(u.Chain) // genesis block + all sequenced blocks but the last, which is committed while submission is in progress
	p := world.Params{InitialHeight: initial, DABlockTime: daBlock, MempoolTTL: 2, GenesisTime: t0.Add(-time.Hour), RootDir: root}
	env := world.NewEnv()
	clock := t0.Add(-time.Hour)
	asked := 0
	env.Seq.Next = func(req coreseq.GetNextBatchRequest) world.SeqAnswer {
		clock = clock.Add(time.Second)
		k := 0
		if asked < len(u.Chain) {
			k = u.Chain[asked]
		} else if out.engine == "" {
			out.engine = fmt.Sprintf("the sequencing layer was asked for batch %d of a chain of %d blocks", asked+1, len(u.Chain))
		}
		asked++
		if k == 0 {
			return world.SeqAnswer{Kind: "batch", Time: clock}
		}
		// equal numbers = byte-identical transaction lists
		return world.SeqAnswer{Kind: "batch", Txs: [][]byte{[]byte(fmt.Sprintf("tx-%d", k))}, Time: clock}
	}
	armed := false   // crash / fault choices only while the loops run
	settled := false // after the fault phase the DA accepts everything
	lostCalls := 0   // Submit calls that got no answer
	defer func() { out.lost = lostCalls }()
	var tags []string
	addTag := func(s string) {
		for _, x := range tags {
			if x == s {
				return
			}
		}
		tags = append(tags, s)
	}
	if initial > 1 {
		addTag("initial-height>1")
	}
	if u.repeats() > 0 {
		addTag("repeated-tx-list")
		if u.adjacentRepeat() {
			addTag("repeat-adjacent")
		}
		if oe, oo := u.separatedRepeat(); oe || oo {
			if oe {
				addTag("repeat-across-empty-block")
			}
			if oo {
				addTag("repeat-across-other-block")
			}
		}
	}
	var n *world.Node
	var fail *world.Fail
	setFail := func(f *world.Fail) {
		if fail == nil && f != nil {
			fail = f
		}
	}
	// ground truth helpers ------------------------------------------------------------------------------------
	committed := func() (uint64, []world.Block) {
		h, blocks, _ := world.ReadChain(world.ImageStore(n.KV.Image()), initial)
		return h, blocks
	}
	// contiguous prefix (from initial) of heights whose header / non-empty data the DA holds
	truth := func() (hdrUpTo, dataUpTo uint64) {
		haveH, haveD := map[uint64]bool{}, map[uint64]bool{}
		for _, pl := range env.DA.AllBlobs() {
			if it, _, _, ok := classify(pl.Blob); ok {
				if it.header {
					haveH[it.height] = true
				} else {
					haveD[it.height] = true
				}
			}
		}
		h, blocks := committed()
		hdrUpTo, dataUpTo = initial-1, initial-1
		for x := initial; x <= h && haveH[x]; x++ {
			hdrUpTo = x
		}
		for i, b := range blocks {
			x := initial + uint64(i)
			if len(b.D.Txs) > 0 && !haveD[x] {
				break
			}
			dataUpTo = x
		}
		return
	}
	var lastWmH, lastWmD, lastPersistH, lastPersistD uint64
	checkWatermarks := func(when string) {
		if n == nil || n.M == nil {
			return
		}
		hT, dT := truth()
		wh, wd := n.M.VerifLastSubmittedHeader(), n.M.VerifLastSubmittedData()
		if v, ok := n.KV.RawGet("/m/last-submitted-header-height"); ok {
			ph := le64(v)
			if ph < lastPersistH {
				setFail(&world.Fail{Clause: "watermark-monotone", Msg: fmt.Sprintf("%s: persisted header watermark decreased from %d to %d", when, lastPersistH, ph)})
			}
			if ph > hT {
				setFail(&world.Fail{Clause: "watermark-sound", Msg: fmt.Sprintf("%s: persisted header watermark %d is past height %d, the last height up to which the DA layer holds every header", when, ph, hT)})
			}
			lastPersistH = ph
		}
		if v, ok := n.KV.RawGet("/m/last-submitted-data-height"); ok {
			pd := le64(v)
			if pd < lastPersistD {
				setFail(&world.Fail{Clause: "watermark-monotone", Msg: fmt.Sprintf("%s: persisted data watermark decreased from %d to %d", when, lastPersistD, pd)})
			}
			if pd > dT {
				setFail(&world.Fail{Clause: "watermark-sound", Msg: fmt.Sprintf("%s: persisted data watermark %d is past height %d, the last height up to which the DA layer holds all non-empty data", when, pd, dT)})
			}
			lastPersistD = pd
		}
		if wh < lastWmH || wd < lastWmD {
			setFail(&world.Fail{Clause: "watermark-monotone", Msg: fmt.Sprintf("%s: in-memory watermarks went from %d/%d to %d/%d", when, lastWmH, lastWmD, wh, wd)})
		}
		if wh > hT && wh > initial-1 {
			setFail(&world.Fail{Clause: "watermark-sound", Msg: fmt.Sprintf("%s: header watermark %d is past %d (DA ground truth)", when, wh, hT)})
		}
		if wd > dT && wd > initial-1 {
			setFail(&world.Fail{Clause: "watermark-sound", Msg: fmt.Sprintf("%s: data watermark %d is past %d (DA ground truth)", when, wd, dT)})
		}
		lastWmH, lastWmD = wh, wd
	}
	// environment policies ------------------------------------------------------------------------------------
	env.DA.SubmitPolicy = func(blobs [][]byte) world.SubmitAnswer {
		// a Submit call never re-submits below the persisted watermark, and is in increasing height order
		var prevH, prevD uint64
		for _, b := range blobs {
			it, _, _, ok := classify(b)
			if !ok {
				setFail(&world.Fail{Clause: "blob-decodes", Msg: fmt.Sprintf("a submitted blob decodes neither as a signed header nor as signed data (%d bytes)", len(b))})
				continue
			}
			if it.header {
				if it.height <= prevH {
					setFail(&world.Fail{Clause: "submit-order", Msg: fmt.Sprintf("one Submit call carries header %d after header %d", it.height, prevH)})
				}
				prevH = it.height
				if it.height <= lastPersistH {
					setFail(&world.Fail{Clause: "no-resubmit-below-watermark", Msg: fmt.Sprintf("header %d was submitted again although the recorded watermark is %d", it.height, lastPersistH)})
				}
			} else {
				if it.height <= prevD {
					setFail(&world.Fail{Clause: "submit-order", Msg: fmt.Sprintf("one Submit call carries data %d after data %d", it.height, prevD)})
				}
				prevD = it.height
				if it.height <= lastPersistD {
					setFail(&world.Fail{Clause: "no-resubmit-below-watermark", Msg: fmt.Sprintf("data %d was submitted again although the recorded watermark is %d", it.height, lastPersistD)})
				}
			}
		}
		if settled || !armed {
			return world.SubmitAcceptAll
		}
		if c.Choose("crash", 2) == 1 {
			ev("crash before Submit")
			addTag("crash")
			n.Fate.Die()
		}
		a := world.SubmitAnswer(c.Choose("da", int(world.NumSubmitAnswersWithLoss))) // the 8 answers, or no answer at all
		if a == world.SubmitNoAnswer {
			lostCalls++
		}
		if a != world.SubmitAcceptAll {
			ev("da:%s(%d blobs)", a, len(blobs))
			addTag("da:" + a.String())
		}
		return a
	}
	onWrite := func(idx int, w world.Write) bool {
		if !armed || settled {
			return false
		}
		if c.Choose("crash", 2) == 1 {
			ev("crash before write %s", w)
			addTag("crash")
			return true
		}
		return false
	}
	var cancel context.CancelFunc
	startLoops := func() {
		var ctx context.Context
		ctx, cancel = context.WithCancel(context.Background())
		a, b := n.M.HeaderSubmissionLoop, n.M.DataSubmissionLoop
		if dataFirst {
			a, b = b, a
		}
		go a(ctx)
		time.Sleep(time.Millisecond)
		go b(ctx)
	}
	boot := func(img map[string][]byte) bool {
		nn, err := world.StartNode(p, env, img, world.NodeOpts{Aggregator: true, OnWrite: onWrite})
		for err == world.ErrCrashedDuringStart { // an injected crash fired while the manager was being constructed
			ev("reboot (crashed during start-up)")
			img = nn.KV.Image()
			nn, err = world.StartNode(p, env, img, world.NodeOpts{Aggregator: true, OnWrite: onWrite})
		}
		if err != nil {
			setFail(&world.Fail{Clause: "startup", Msg: "node cannot start: " + err.Error()})
			return false
		}
		n = nn
		if v, ok := n.KV.RawGet("/m/last-submitted-header-height"); ok && n.M.VerifLastSubmittedHeader() != le64(v) {
			setFail(&world.Fail{Clause: "watermark-durable", Msg: fmt.Sprintf("after restart the header watermark is %d, the persisted one is %d", n.M.VerifLastSubmittedHeader(), le64(v))})
		}
		if v, ok := n.KV.RawGet("/m/last-submitted-data-height"); ok && n.M.VerifLastSubmittedData() != le64(v) {
			setFail(&world.Fail{Clause: "watermark-durable", Msg: fmt.Sprintf("after restart the data watermark is %d, the persisted one is %d", n.M.VerifLastSubmittedData(), le64(v))})
		}
		lastWmH, lastWmD = n.M.VerifLastSubmittedHeader(), n.M.VerifLastSubmittedData()
		return true
	}
	produce := func(k int) {
		was := armed
		armed = false
		for i := 0; i < k; i++ {
			if err, _ := n.Produce(context.Background()); err != nil {
				ev("produce-error:%v", err)
			}
		}
		armed = was
	}
	// cleanStop saves the caches of the (stopped) process and starts the next one on the same store and directory
	cleanStop := func() bool {
		ev("clean restart")
		addTag("clean-restart")
		if err := n.M.SaveCache(); err != nil {
			setFail(&world.Fail{Clause: "startup", Msg: "SaveCache at clean stop: " + err.Error()})
			return false
		}
		return boot(n.KV.Image())
	}
	if !boot(nil) {
		out.fail, out.tags = fail, tags
		return
	}
	produce(nBlocks)
	time.Sleep(phase) // move the harness off the loops' timer grid
	armed = true
	startLoops()
	produced := nBlocks
	for tick := 1; tick <= horizon && fail == nil; tick++ {
		if tick == horizon/2+1 {
			settled = true // from here on the DA accepts and nothing crashes: submission must complete
			ev("settled")
		}
		time.Sleep(daBlock)
		synctest.Wait()
		if n.Fate.Crashed() {
			cancel()
			synctest.Wait()
			img := n.KV.Image()
			ev("reboot")
			if !boot(img) {
				break
			}
			if tick == u.RestartAt && !cleanStop() {
				break
			}
			startLoops()
			continue
		}
		checkWatermarks(fmt.Sprintf("tick %d", tick))
		if tick >= 2 && produced < nBlocks+1 {
			produce(1) // a block committed while submission is in progress
			produced++
		}
		if tick == u.RestartAt {
			// clean stop between two submission attempts: the loops are cancelled, the caches are saved (node/full.go
			// does this on shutdown) and the next process loads them. A cancelled loop may win one more select round
			// against ctx.Done(); it must not consume decision points, so the old process is frozen at its next
			// environment call.
			cancel()
			n.Fate.Kill()
			synctest.Wait()
			if !cleanStop() {
				break
			}
			startLoops()
		}
	}
	// a request that got no answer keeps its loop waiting until the node gives the call up: the accepting phase goes on
	// for lostHorizon more DA blocks (nothing is produced, nothing crashes, the DA layer accepts whatever it is sent)
	accepting := horizon - horizon/2
	if lostCalls > 0 && fail == nil && !n.Fate.Crashed() {
		accepting += lostHorizon
		time.Sleep(lostHorizon * daBlock)
		synctest.Wait()
		ev("after %d more accepting DA blocks", lostHorizon)
		checkWatermarks("after the lost-request horizon")
	}
	// a cancelled loop may win one more select round against ctx.Done() (Go picks at random); when the run ends inside
	// the fault phase (a violation was found) that round must not consume decision points — nor may it put anything
	// on the DA layer after the end of the accepting phase (a loop that is still parked in an unanswered call has a
	// ticker tick waiting for it): the process is frozen at its next environment call
	armed = false
	n.Fate.Kill()
	cancel()
	synctest.Wait()
	if fail == nil {
		checkWatermarks("end")
	}
	// DA contents decode to the committed items and verify under the proposer key -----------------------------
	if fail == nil {
		h, blocks := committed()
		firstSeenH, firstSeenD := []uint64{}, []uint64{}
		seenH, seenD := map[uint64]bool{}, map[uint64]bool{}
		for _, pl := range env.DA.AllBlobs() {
			it, sh, sd, ok := classify(pl.Blob)
			if !ok {
				setFail(&world.Fail{Clause: "blob-decodes", Msg: fmt.Sprintf("blob at DA height %d decodes neither as header nor as signed data", pl.Height)})
				break
			}
			if it.height < initial || it.height > h {
				setFail(&world.Fail{Clause: "blob-is-committed", Msg: fmt.Sprintf("DA holds an item for height %d, chain is %d..%d", it.height, initial, h)})
				break
			}
			b := blocks[it.height-initial]
			if it.header {
				if !bytes.Equal(sh.Hash(), b.H.Hash()) || !bytes.Equal(sh.Signature, b.H.Signature) {
					setFail(&world.Fail{Clause: "blob-is-committed", Msg: fmt.Sprintf("header blob for height %d differs from the committed header", it.height)})
				}
				if sh.Signer.PubKey == nil || !sh.Signer.PubKey.Equals(n.Signer.Pub()) {
					setFail(&world.Fail{Clause: "blob-signed", Msg: fmt.Sprintf("header blob %d is not signed with the proposer key", it.height)})
				}
				if !seenH[it.height] {
					seenH[it.height] = true
					firstSeenH = append(firstSeenH, it.height)
				}
			} else {
				var want [][]byte
				for _, tx := range b.D.Txs {
					want = append(want, tx)
				}
				var got [][]byte
				for _, tx := range sd.Txs {
					got = append(got, tx)
				}
				if !world.TxsEqual(got, want) {
					setFail(&world.Fail{Clause: "blob-is-committed", Msg: fmt.Sprintf("data blob for height %d carries %q, committed %q", it.height, got, want)})
				}
				bz, _ := sd.Data.MarshalBinary()
				if sd.Signer.PubKey == nil || !sd.Signer.PubKey.Equals(n.Signer.Pub()) {
					setFail(&world.Fail{Clause: "blob-signed", Msg: fmt.Sprintf("data blob %d is not signed with the proposer key", it.height)})
				} else if ok, err := n.Signer.Pub().Verify(bz, sd.Signature); err != nil || !ok {
					setFail(&world.Fail{Clause: "blob-signed", Msg: fmt.Sprintf("data blob %d: signature does not verify", it.height)})
				}
				if !seenD[it.height] {
					seenD[it.height] = true
					firstSeenD = append(firstSeenD, it.height)
				}
			}
		}
		// first acceptance in increasing height order, no height skipped
		next := initial
		for _, x := range firstSeenH {
			if x != next {
				setFail(&world.Fail{Clause: "da-order", Msg: fmt.Sprintf("header %d was first accepted by the DA layer before header %d (order of first acceptance %v)", x, next, firstSeenH)})
				break
			}
			next++
		}
		var nonEmpty []uint64
		for i, b := range blocks {
			if len(b.D.Txs) > 0 {
				nonEmpty = append(nonEmpty, initial+uint64(i))
			}
		}
		for i, x := range firstSeenD {
			if i >= len(nonEmpty) || x != nonEmpty[i] {
				setFail(&world.Fail{Clause: "da-order", Msg: fmt.Sprintf("data for height %d was first accepted out of order (order of first acceptance %v, non-empty blocks %v)", x, firstSeenD, nonEmpty)})
				break
			}
		}
		// liveness: the DA accepted everything for horizon/2 ticks
		if fail == nil {
			if len(firstSeenH) != int(h-initial+1) {
				setFail(&world.Fail{Clause: "liveness", Msg: fmt.Sprintf("the DA layer accepted every submission for %d DA blocks, yet it holds headers %v of the committed heights %d..%d", accepting, firstSeenH, initial, h)})
			} else if len(firstSeenD) != len(nonEmpty) {
				setFail(&world.Fail{Clause: "liveness", Msg: fmt.Sprintf("the DA layer accepted every submission for %d DA blocks, yet it holds data %v of the non-empty heights %v", accepting, firstSeenD, nonEmpty)})
			} else if n.M.VerifLastSubmittedHeader() != h {
				setFail(&world.Fail{Clause: "liveness", Msg: fmt.Sprintf("all headers are on the DA layer but the header watermark is %d, chain height %d", n.M.VerifLastSubmittedHeader(), h)})
			}
		}
		var sb strings.Builder
		fmt.Fprintf(&sb, "h=%d H=%v D=%v submits=%d", h, firstSeenH, firstSeenD, len(env.DA.SubmitLog()))
		out.sig = sb.String()
	}
	if fail == nil && asked != len(u.Chain) && out.engine == "" {
		out.engine = fmt.Sprintf("%d of the chain's %d sequenced blocks were produced", asked, len(u.Chain))
	}
	out.fail, out.tags = fail, tags
	return
}

// claimer deals the units out among the shard processes: a unit belongs to the first shard that creates its claim
// file in the directory the parent made for the shard results (every unit is run by exactly one process, whichever
// it is; the set of executions does not depend on the assignment). Unsharded runs claim everything.
func claimer(r *vf.Run) (claim func(j int) bool, dir string, first bool) {
	out, sp := os.Getenv("VERIF_SHARD_OUT"), os.Getenv("VERIF_SHARD")
	if out == "" || sp == "" {
		return func(int) bool { return true }, "", true
	}
	first = strings.HasPrefix(sp, "0/")
	os.Unsetenv("VERIF_SHARD") // whole units are dealt out here; explore.Explore must not split them again
	dir = filepath.Dir(out)
	claim = func(j int) bool {
		f, err := os.OpenFile(filepath.Join(dir, fmt.Sprintf("c06-unit-%d.claim", j)), os.O_CREATE|os.O_EXCL|os.O_WRONLY, 0o600)
		if err != nil {
			if !os.IsExist(err) {
				r.EngineError("cannot claim a unit: " + err.Error())
			}
			return false
		}
		f.Close()
		return true
	}
	return
}

// part is one slice of the exploration: chains of Seq sequenced blocks, optionally with one clean restart, and the
// deviation budgets below it. (The block at the initial height is the genesis block that the manager stores at
// start-up: it is always empty and no batch is requested for it; the chain patterns describe the blocks after it.)
type part struct {
	Name    string         `json:"name"`
	Seq     int            `json:"sequenced_blocks"`
	Restart bool           `json:"one_clean_restart"`
	Budgets map[string]int `json:"budgets"`
	Total   int            `json:"max_faults_plus_crashes,omitempty"` // 0 = no joint limit
}

// unitStat is what one unit's exploration measured; shards publish it next to the claim files so that the shard whose
// coverage record carries the bounds (shard 0) can state totals over all shards.
type unitStat struct {
	Executions int64 `json:"executions"`
	MaxDepth   int64 `json:"max_depth"`
	Capped     bool  `json:"capped"`
	Lost       int64 `json:"executions_with_unanswered_request"`
}

type job struct {
	u    unit
	part int
}

func TestCheck(t *testing.T) {
	r := vf.Start("C06", "model_checking")
	if r.RunShards(16) { // bubble-heavy: one process per shard of the exploration
		return
	}
	horizon := vf.Pick(r, 12, 16)
	parts := vf.Pick(r,
		[]part{
			{Name: "faults", Seq: 2, Budgets: map[string]int{"da": 2, "crash": 1}},
			{Name: "faults-longer-chains", Seq: 3, Budgets: map[string]int{"da": 2, "crash": 1}, Total: 2},
			{Name: "clean-restart", Seq: 3, Restart: true, Budgets: map[string]int{"da": 1, "crash": 1}, Total: 1},
		},
		[]part{
			{Name: "faults", Seq: 3, Budgets: map[string]int{"da": 3, "crash": 2}, Total: 3},
			{Name: "faults-longer-chains", Seq: 4, Budgets: map[string]int{"da": 2, "crash": 1}},
			{Name: "clean-restart", Seq: 3, Restart: true, Budgets: map[string]int{"da": 2, "crash": 1}, Total: 2},
		})
	r.Assume = []string{
		"virtual time (testing/synctest): DA block time 1 s, mempool TTL 2 DA blocks; the two submission loops are started 1 ms apart (both orders explored) so that their timers never coincide",
		"'accepted by the DA layer' = stored by the DA double (including stored-but-acknowledgement-lost)",
		"liveness horizon: after the fault phase the DA accepts everything for horizon/2 DA blocks",
		fmt.Sprintf("DA answer menu per Submit call of the fault phase: the 8 answers of the DA double (accepted, only the first blob accepted, timed out / not included, already in mempool, too big, generic error, stored but acknowledgement lost, cancelled) and a ninth, NO ANSWER: the request is lost, nothing is stored, the call returns only when its context is done (with the context's error). The node cannot tell a lost request from a slow one, so in histories with a lost request the accepting phase is %d DA blocks longer (the code under test gives an attempt up after 60 s); all oracles (watermark sound / monotone, order, no re-submission below the watermark, completion) are the same", lostHorizon),
		"crash points: before every Submit call and before every durable write made by the submission loops (cache files are not written at a crash; the next process finds those of the last clean stop, if any)",
		"clean restart: at most one per history, at any of the horizon/2 observation instants of the fault phase (one per DA block): loops cancelled, SaveCache, new process on the same store and cache directory",
		"the block at the initial height is the genesis block the manager stores at start-up (always empty); all later blocks are made from the sequencing double's batches; all but the last are committed before submission starts, the last one two DA blocks into it",
		"chain contents are enumerated up to renaming of transaction lists: a non-empty block carries one transaction; what is varied is which blocks are empty and which blocks carry byte-identical lists (equal data commitments / data-cache keys)",
	}
	if r.ReplayPath() != "" {
		var h history
		if _, err := r.LoadReplay(&h); err != nil {
			r.EngineError(err.Error())
		} else {
			explore.ReplayOne(h.Choices, func(c *explore.Ctx) {
				if o := body(t, c, h.Unit, horizon); o.fail != nil {
					fmt.Println(o.fail.Msg, o.events)
					r.Report(vf.Violation{Clause: o.fail.Clause, Tags: o.tags, Msg: o.fail.Msg, History: h})
				}
			})
		}
		r.Finish(vf.Coverage{Evaluations: 1, DistinctNontrivial: 1})
		return
	}
	// units: part × configuration × chain content (× restart instant); they are dealt out dynamically among the
	// shard processes, larger ones first
	var jobs []job
	type partInfo struct {
		part
		Chains, RepeatChains, Adjacent, OverEmpty, OverOther, Units int
	}
	infos := make([]partInfo, len(parts))
	for pi, pt := range parts {
		infos[pi].part = pt
		for _, ch := range chains(pt.Seq) {
			u0 := unit{Chain: ch}
			infos[pi].Chains++
			if u0.repeats() > 0 {
				infos[pi].RepeatChains++
			}
			if u0.adjacentRepeat() {
				infos[pi].Adjacent++
			}
			oe, oo := u0.separatedRepeat()
			if oe {
				infos[pi].OverEmpty++
			}
			if oo {
				infos[pi].OverOther++
			}
			for _, initial := range []uint64{1, 3} {
				for _, dataFirst := range []bool{false, true} {
					from, to := 0, 0
					if pt.Restart {
						from, to = 1, horizon/2
					}
					for at := from; at <= to; at++ {
						jobs = append(jobs, job{unit{Initial: initial, DataFirst: dataFirst, Chain: ch, RestartAt: at}, pi})
						infos[pi].Units++
					}
				}
			}
		}
	}
	weight := func(j job) int { // rough size order only (any order is correct)
		pt := parts[j.part]
		w := pt.Budgets["da"] + pt.Budgets["crash"]
		if pt.Total > 0 && pt.Total < w {
			w = pt.Total
		}
		return w*100 + len(j.u.Chain)*10 + j.u.nonEmpty()
	}
	sort.SliceStable(jobs, func(a, b int) bool { return weight(jobs[a]) > weight(jobs[b]) })
	claim, shardDir, firstShard := claimer(r)
	started := time.Now()
	deadline := vf.Pick(r, 100*time.Second, 25*time.Minute)
	var st explore.Stats
	var caps []string
	stats := make([]*unitStat, len(jobs))
	notStarted := 0
	for j, jb := range jobs {
		u, pt := jb.u, parts[jb.part]
		left := deadline - time.Since(started)
		if left <= 0 {
			notStarted++ // left unclaimed: every shard passes the deadline at about the same time
			continue
		}
		if !claim(j) {
			continue
		}
		var lostExecs atomic.Int64
		s := explore.Explore(explore.Config{Budgets: pt.Budgets, Total: pt.Total, Deadline: left}, func(c *explore.Ctx) {
			o := body(t, c, u, horizon)
			if o.lost > 0 {
				lostExecs.Add(1)
			}
			if o.engine != "" {
				r.EngineError(fmt.Sprintf("%s: %s", u, o.engine))
			}
			if o.fail != nil {
				r.Report(vf.Violation{Clause: o.fail.Clause, Tags: o.tags, Msg: fmt.Sprintf("%s\n unit: %s\n events: %v\n choices: %s", o.fail.Msg, u, o.events, c.String()), Cost: c.Cost() + u.repeats() + min(u.RestartAt, 1), History: history{u, c.Choices()}})
				r.Outcome("fail:" + o.fail.Clause)
				return
			}
			r.Outcome(o.sig)
			if c.Cost() >= 1 && (u.repeats() > 0 || u.RestartAt > 0) || c.Cost() >= 3 {
				r.Sample(map[string]any{"unit": u.String(), "events": o.events, "result": o.sig})
			}
		})
		for _, m := range s.Nondet {
			r.EngineError(fmt.Sprintf("nondeterminism (%s): %s", u, m))
		}
		if s.Capped != "" {
			caps = append(caps, fmt.Sprintf("%s: %s", u, s.Capped))
		}
		st.Executions += s.Executions
		st.Points += s.Points
		if s.MaxDepth > st.MaxDepth {
			st.MaxDepth = s.MaxDepth
		}
		stats[j] = &unitStat{s.Executions, s.MaxDepth, s.Capped != "", lostExecs.Load()}
		if shardDir != "" {
			bz, _ := json.Marshal(stats[j])
			tmp := filepath.Join(shardDir, fmt.Sprintf("c06-unit-%d.tmp", j))
			if err := os.WriteFile(tmp, bz, 0o600); err == nil {
				_ = os.Rename(tmp, filepath.Join(shardDir, fmt.Sprintf("c06-unit-%d.stat", j)))
			}
		}
	}
	if notStarted > 0 {
		caps = append(caps, fmt.Sprintf("deadline %s reached: %d of %d units not started by this process", deadline, notStarted, len(jobs)))
	}
	bounds := map[string]any{"da_answer_menu": int(world.NumSubmitAnswersWithLoss), "lost_request_horizon_da_blocks": lostHorizon, "horizon_da_blocks": horizon, "clean_restart_instants": horizon / 2, "units": len(jobs), "max_decision_points": st.MaxDepth}
	// measured totals over all shards (by whichever shard ran the unit). Shard 0 — whose coverage record carries the
	// bounds — waits for the others' records; a record that does not arrive only makes the breakdown incomplete.
	if firstShard {
		limit := time.Now().Add(deadline - time.Since(started) + 30*time.Second)
		for j := range jobs {
			for stats[j] == nil && shardDir != "" {
				if _, err := os.Stat(filepath.Join(shardDir, fmt.Sprintf("c06-unit-%d.claim", j))); err != nil {
					break // nobody started this unit
				}
				if bz, err := os.ReadFile(filepath.Join(shardDir, fmt.Sprintf("c06-unit-%d.stat", j))); err == nil {
					var us unitStat
					if json.Unmarshal(bz, &us) == nil {
						stats[j] = &us
						break
					}
				}
				if time.Now().After(limit) {
					break
				}
				time.Sleep(20 * time.Millisecond)
			}
		}
		var depth int64
		var plist []map[string]any
		for pi, inf := range infos {
			var all, onRepeat, lost int64
			missing := 0
			for j, jb := range jobs {
				if jb.part != pi {
					continue
				}
				us := stats[j]
				if us == nil || us.Capped {
					missing++
				}
				if us == nil {
					continue
				}
				all += us.Executions
				lost += us.Lost
				if jb.u.repeats() > 0 {
					onRepeat += us.Executions
				}
				if us.MaxDepth > depth {
					depth = us.MaxDepth
				}
			}
			m := map[string]any{"part": inf.Name, "blocks": inf.Seq + 1, "sequenced_blocks": inf.Seq, "one_clean_restart": inf.Restart, "budgets": inf.Budgets,
				"chains": inf.Chains, "chains_with_repeated_tx_list": inf.RepeatChains, "chains_with_adjacent_repeat": inf.Adjacent,
				"chains_with_repeat_across_empty_block": inf.OverEmpty, "chains_with_repeat_across_other_block": inf.OverOther,
				"units": inf.Units, "executions": all, "executions_on_chains_with_repeated_tx_list": onRepeat, "executions_in_which_a_request_got_no_answer": lost}
			if inf.Total > 0 {
				m["max_faults_plus_crashes"] = inf.Total
			}
			if missing > 0 {
				m["units_not_completed"] = missing
			}
			plist = append(plist, m)
		}
		bounds["max_decision_points"] = depth
		bounds["parts_measured_over_all_shards"] = plist
	}
	r.Finish(vf.Coverage{
		Evaluations: st.Executions, DistinctNontrivial: int64(r.DistinctOutcomes()), States: st.Executions, Transitions: st.Points,
		Rule:       "per part (see bounds): every chain content up to renaming of transaction lists (after the always-empty genesis block each block is empty, carries a new list, or a list byte-identical to that of ANY earlier block: adjacent repeats, repeats across an empty block, repeats across another non-empty block, triple repeats; Bell(n+1) chains of n sequenced blocks) × initial height {1,3} × loop start order × every sequence of DA answers (9-element menu per Submit call: 8 answers and 'no answer at all — the request is lost and the call stays open until the caller gives it up') and crash points (before each Submit, before each durable write of the loops; caches lost) within the part's deviation budgets, without or with one clean restart (at any DA block of the fault phase; cache files saved and reloaded); the real submission loops run under virtual time; distinct = distinct (first-acceptance orders, number of Submit calls)",
		Exhaustive: true, Caps: caps,
		Bounds: bounds,
	})
}
