package c06

import (
	"bytes"
	"context"
	"crypto/sha256"
	"sync"
	"encoding/binary"
	"fmt"
	"strings"
	"testing"
	"testing/synctest"
	"time"

	"google.golang.org/protobuf/proto"

	coreseq "github.com/evstack/ev-node/core/sequencer"
	"github.com/evstack/ev-node/types"
	pb "github.com/evstack/ev-node/types/pb/evnode/v1"

	"verif/harness/explore"
	"verif/harness/vf"
	"verif/harness/world"
)

// C06 — every committed block reaches the DA layer in order; the watermark is sound.
// The UNMODIFIED HeaderSubmissionLoop and DataSubmissionLoop run in a synctest bubble (virtual time); the explorer
// answers every Submit call, may kill the process at every watermark write and around every Submit, and picks the
// chain contents. Oracles read the DA double's ground truth.

const (
	daBlock = time.Second
	phase   = 507 * time.Millisecond // harness observation instants never coincide with loop timers
)

type event struct {
	T    string `json:"t"`
	What string `json:"what"`
}

type outcome struct {
	fail   *world.Fail
	tags   []string
	events []event
	sig    string
}

type item struct {
	header bool
	height uint64
}

type classified struct {
	it item
	sh *types.SignedHeader
	sd *types.SignedData
	ok bool
}

var classifyMemo sync.Map // sha256(blob) -> classified (decoding is a pure function of the bytes)

func classify(blob []byte) (item, *types.SignedHeader, *types.SignedData, bool) {
	k := sha256.Sum256(blob)
	if v, ok := classifyMemo.Load(k); ok {
		c := v.(classified)
		return c.it, c.sh, c.sd, c.ok
	}
	it, sh, sd, ok := classify0(blob)
	classifyMemo.Store(k, classified{it, sh, sd, ok})
	return it, sh, sd, ok
}

// classify0 decodes a stored blob exactly as a syncing node would.
func classify0(blob []byte) (item, *types.SignedHeader, *types.SignedData, bool) {
	var hp pb.SignedHeader
	if err := proto.Unmarshal(blob, &hp); err == nil {
		sh := new(types.SignedHeader)
		if err := sh.FromProto(&hp); err == nil && sh.ValidateBasic() == nil {
			return item{true, sh.Height()}, sh, nil, true
		}
	}
	var sd types.SignedData
	if err := sd.UnmarshalBinary(blob); err == nil && sd.Metadata != nil && len(sd.Txs) > 0 {
		return item{false, sd.Height()}, nil, &sd, true
	}
	return item{}, nil, nil, false
}

func le64(b []byte) uint64 {
	if len(b) != 8 {
		return 0
	}
	return binary.LittleEndian.Uint64(b)
}

func body(t *testing.T, c *explore.Ctx, nBlocks, horizon int) (out outcome) {
	synctest.Test(t, func(t *testing.T) {
		out = bubble(c, nBlocks, horizon)
	})
	return
}

func bubble(c *explore.Ctx, nBlocks, horizon int) (out outcome) {
	t0 := time.Now()
	ev := func(f string, a ...any) {
		out.events = append(out.events, event{time.Since(t0).String(), fmt.Sprintf(f, a...)})
	}
	initial := uint64(1)
	if c.Choose("config", 2) == 1 {
		initial = 3
	}
	dataFirst := c.Choose("config", 2) == 1
	p := world.Params{InitialHeight: initial, DABlockTime: daBlock, MempoolTTL: 2, GenesisTime: t0.Add(-time.Hour)}
	env := world.NewEnv()
	clock := t0.Add(-time.Hour)
	fresh := 0
	env.Seq.Next = func(req coreseq.GetNextBatchRequest) world.SeqAnswer {
		clock = clock.Add(time.Second)
		if c.Choose("chain", 2) == 1 {
			return world.SeqAnswer{Kind: "batch", Time: clock}
		}
		fresh++
		return world.SeqAnswer{Kind: "batch", Txs: [][]byte{[]byte(fmt.Sprintf("tx-%d", fresh))}, Time: clock}
	}
	armed := false   // crash / fault choices only while the loops run
	settled := false // after the fault phase the DA accepts everything
	var tags []string
	addTag := func(s string) {
		for _, x := range tags {
			if x == s {
				return
			}
		}
		tags = append(tags, s)
	}
	if initial > 1 {
		addTag("initial-height>1")
	}
	var n *world.Node
	var fail *world.Fail
	setFail := func(f *world.Fail) {
		if fail == nil && f != nil {
			fail = f
		}
	}
	// ground truth helpers ------------------------------------------------------------------------------------
	committed := func() (uint64, []world.Block) {
		h, blocks, _ := world.ReadChain(world.ImageStore(n.KV.Image()), initial)
		return h, blocks
	}
	// contiguous prefix (from initial) of heights whose header / non-empty data the DA holds
	truth := func() (hdrUpTo, dataUpTo uint64) {
		haveH, haveD := map[uint64]bool{}, map[uint64]bool{}
		for _, pl := range env.DA.AllBlobs() {
			if it, _, _, ok := classify(pl.Blob); ok {
				if it.header {
					haveH[it.height] = true
				} else {
					haveD[it.height] = true
				}
			}
		}
		h, blocks := committed()
		hdrUpTo, dataUpTo = initial-1, initial-1
		for x := initial; x <= h && haveH[x]; x++ {
			hdrUpTo = x
		}
		for i, b := range blocks {
			x := initial + uint64(i)
			if len(b.D.Txs) > 0 && !haveD[x] {
				break
			}
			dataUpTo = x
		}
		return
	}
	var lastWmH, lastWmD, lastPersistH, lastPersistD uint64
	checkWatermarks := func(when string) {
		if n == nil || n.M == nil {
			return
		}
		hT, dT := truth()
		wh, wd := n.M.VerifLastSubmittedHeader(), n.M.VerifLastSubmittedData()
		if v, ok := n.KV.RawGet("/m/last-submitted-header-height"); ok {
			ph := le64(v)
			if ph < lastPersistH {
				setFail(&world.Fail{Clause: "watermark-monotone", Msg: fmt.Sprintf("%s: persisted header watermark decreased from %d to %d", when, lastPersistH, ph)})
			}
			if ph > hT {
				setFail(&world.Fail{Clause: "watermark-sound", Msg: fmt.Sprintf("%s: persisted header watermark %d is past height %d, the last height up to which the DA layer holds every header", when, ph, hT)})
			}
			lastPersistH = ph
		}
		if v, ok := n.KV.RawGet("/m/last-submitted-data-height"); ok {
			pd := le64(v)
			if pd < lastPersistD {
				setFail(&world.Fail{Clause: "watermark-monotone", Msg: fmt.Sprintf("%s: persisted data watermark decreased from %d to %d", when, lastPersistD, pd)})
			}
			if pd > dT {
				setFail(&world.Fail{Clause: "watermark-sound", Msg: fmt.Sprintf("%s: persisted data watermark %d is past height %d, the last height up to which the DA layer holds all non-empty data", when, pd, dT)})
			}
			lastPersistD = pd
		}
		if wh < lastWmH || wd < lastWmD {
			setFail(&world.Fail{Clause: "watermark-monotone", Msg: fmt.Sprintf("%s: in-memory watermarks went from %d/%d to %d/%d", when, lastWmH, lastWmD, wh, wd)})
		}
		if wh > hT && wh > initial-1 {
			setFail(&world.Fail{Clause: "watermark-sound", Msg: fmt.Sprintf("%s: header watermark %d is past %d (DA ground truth)", when, wh, hT)})
		}
		if wd > dT && wd > initial-1 {
			setFail(&world.Fail{Clause: "watermark-sound", Msg: fmt.Sprintf("%s: data watermark %d is past %d (DA ground truth)", when, wd, dT)})
		}
		lastWmH, lastWmD = wh, wd
	}
	// environment policies ------------------------------------------------------------------------------------
	env.DA.SubmitPolicy = func(blobs [][]byte) world.SubmitAnswer {
		// a Submit call never re-submits below the persisted watermark, and is in increasing height order
		var prevH, prevD uint64
		for _, b := range blobs {
			it, _, _, ok := classify(b)
			if !ok {
				setFail(&world.Fail{Clause: "blob-decodes", Msg: fmt.Sprintf("a submitted blob decodes neither as a signed header nor as signed data (%d bytes)", len(b))})
				continue
			}
			if it.header {
				if it.height <= prevH {
					setFail(&world.Fail{Clause: "submit-order", Msg: fmt.Sprintf("one Submit call carries header %d after header %d", it.height, prevH)})
				}
				prevH = it.height
				if it.height <= lastPersistH {
					setFail(&world.Fail{Clause: "no-resubmit-below-watermark", Msg: fmt.Sprintf("header %d was submitted again although the recorded watermark is %d", it.height, lastPersistH)})
				}
			} else {
				if it.height <= prevD {
					setFail(&world.Fail{Clause: "submit-order", Msg: fmt.Sprintf("one Submit call carries data %d after data %d", it.height, prevD)})
				}
				prevD = it.height
				if it.height <= lastPersistD {
					setFail(&world.Fail{Clause: "no-resubmit-below-watermark", Msg: fmt.Sprintf("data %d was submitted again although the recorded watermark is %d", it.height, lastPersistD)})
				}
			}
		}
		if settled || !armed {
			return world.SubmitAcceptAll
		}
		if c.Choose("crash", 2) == 1 {
			ev("crash before Submit")
			addTag("crash")
			n.Fate.Die()
		}
		a := world.SubmitAnswer(c.Choose("da", int(world.NumSubmitAnswers)))
		if a != world.SubmitAcceptAll {
			ev("da:%s(%d blobs)", a, len(blobs))
			addTag("da:" + a.String())
		}
		return a
	}
	onWrite := func(idx int, w world.Write) bool {
		if !armed || settled {
			return false
		}
		if c.Choose("crash", 2) == 1 {
			ev("crash before write %s", w)
			addTag("crash")
			return true
		}
		return false
	}
	var cancel context.CancelFunc
	startLoops := func() {
		var ctx context.Context
		ctx, cancel = context.WithCancel(context.Background())
		a, b := n.M.HeaderSubmissionLoop, n.M.DataSubmissionLoop
		if dataFirst {
			a, b = b, a
		}
		go a(ctx)
		time.Sleep(time.Millisecond)
		go b(ctx)
	}
	boot := func(img map[string][]byte) bool {
		nn, err := world.StartNode(p, env, img, world.NodeOpts{Aggregator: true, OnWrite: onWrite})
		if err != nil {
			setFail(&world.Fail{Clause: "startup", Msg: "node cannot start: " + err.Error()})
			return false
		}
		n = nn
		if v, ok := n.KV.RawGet("/m/last-submitted-header-height"); ok && n.M.VerifLastSubmittedHeader() != le64(v) {
			setFail(&world.Fail{Clause: "watermark-durable", Msg: fmt.Sprintf("after restart the header watermark is %d, the persisted one is %d", n.M.VerifLastSubmittedHeader(), le64(v))})
		}
		if v, ok := n.KV.RawGet("/m/last-submitted-data-height"); ok && n.M.VerifLastSubmittedData() != le64(v) {
			setFail(&world.Fail{Clause: "watermark-durable", Msg: fmt.Sprintf("after restart the data watermark is %d, the persisted one is %d", n.M.VerifLastSubmittedData(), le64(v))})
		}
		lastWmH, lastWmD = n.M.VerifLastSubmittedHeader(), n.M.VerifLastSubmittedData()
		return true
	}
	produce := func(k int) {
		was := armed
		armed = false
		for i := 0; i < k; i++ {
			if err, _ := n.Produce(context.Background()); err != nil {
				ev("produce-error:%v", err)
			}
		}
		armed = was
	}
	if !boot(nil) {
		out.fail, out.tags = fail, tags
		return
	}
	produce(nBlocks)
	time.Sleep(phase) // move the harness off the loops' timer grid
	armed = true
	startLoops()
	produced := nBlocks
	for tick := 1; tick <= horizon && fail == nil; tick++ {
		if tick == horizon/2+1 {
			settled = true // from here on the DA accepts and nothing crashes: submission must complete
			ev("settled")
		}
		time.Sleep(daBlock)
		synctest.Wait()
		if n.Fate.Crashed() {
			cancel()
			synctest.Wait()
			img := n.KV.Image()
			ev("reboot")
			if !boot(img) {
				break
			}
			startLoops()
			continue
		}
		checkWatermarks(fmt.Sprintf("tick %d", tick))
		if tick == 2 && produced < nBlocks+1 {
			produce(1) // a block committed while submission is in progress
			produced++
		}
	}
	cancel()
	synctest.Wait()
	if fail == nil {
		checkWatermarks("end")
	}
	// DA contents decode to the committed items and verify under the proposer key -----------------------------
	if fail == nil {
		h, blocks := committed()
		firstSeenH, firstSeenD := []uint64{}, []uint64{}
		seenH, seenD := map[uint64]bool{}, map[uint64]bool{}
		for _, pl := range env.DA.AllBlobs() {
			it, sh, sd, ok := classify(pl.Blob)
			if !ok {
				setFail(&world.Fail{Clause: "blob-decodes", Msg: fmt.Sprintf("blob at DA height %d decodes neither as header nor as signed data", pl.Height)})
				break
			}
			if it.height < initial || it.height > h {
				setFail(&world.Fail{Clause: "blob-is-committed", Msg: fmt.Sprintf("DA holds an item for height %d, chain is %d..%d", it.height, initial, h)})
				break
			}
			b := blocks[it.height-initial]
			if it.header {
				if !bytes.Equal(sh.Hash(), b.H.Hash()) || !bytes.Equal(sh.Signature, b.H.Signature) {
					setFail(&world.Fail{Clause: "blob-is-committed", Msg: fmt.Sprintf("header blob for height %d differs from the committed header", it.height)})
				}
				if sh.Signer.PubKey == nil || !sh.Signer.PubKey.Equals(n.Signer.Pub()) {
					setFail(&world.Fail{Clause: "blob-signed", Msg: fmt.Sprintf("header blob %d is not signed with the proposer key", it.height)})
				}
				if !seenH[it.height] {
					seenH[it.height] = true
					firstSeenH = append(firstSeenH, it.height)
				}
			} else {
				var want [][]byte
				for _, tx := range b.D.Txs {
					want = append(want, tx)
				}
				var got [][]byte
				for _, tx := range sd.Txs {
					got = append(got, tx)
				}
				if !world.TxsEqual(got, want) {
					setFail(&world.Fail{Clause: "blob-is-committed", Msg: fmt.Sprintf("data blob for height %d carries %q, committed %q", it.height, got, want)})
				}
				bz, _ := sd.Data.MarshalBinary()
				if sd.Signer.PubKey == nil || !sd.Signer.PubKey.Equals(n.Signer.Pub()) {
					setFail(&world.Fail{Clause: "blob-signed", Msg: fmt.Sprintf("data blob %d is not signed with the proposer key", it.height)})
				} else if ok, err := n.Signer.Pub().Verify(bz, sd.Signature); err != nil || !ok {
					setFail(&world.Fail{Clause: "blob-signed", Msg: fmt.Sprintf("data blob %d: signature does not verify", it.height)})
				}
				if !seenD[it.height] {
					seenD[it.height] = true
					firstSeenD = append(firstSeenD, it.height)
				}
			}
		}
		// first acceptance in increasing height order, no height skipped
		next := initial
		for _, x := range firstSeenH {
			if x != next {
				setFail(&world.Fail{Clause: "da-order", Msg: fmt.Sprintf("header %d was first accepted by the DA layer before header %d (order of first acceptance %v)", x, next, firstSeenH)})
				break
			}
			next++
		}
		var nonEmpty []uint64
		for i, b := range blocks {
			if len(b.D.Txs) > 0 {
				nonEmpty = append(nonEmpty, initial+uint64(i))
			}
		}
		for i, x := range firstSeenD {
			if i >= len(nonEmpty) || x != nonEmpty[i] {
				setFail(&world.Fail{Clause: "da-order", Msg: fmt.Sprintf("data for height %d was first accepted out of order (order of first acceptance %v, non-empty blocks %v)", x, firstSeenD, nonEmpty)})
				break
			}
		}
		// liveness: the DA accepted everything for horizon/2 ticks
		if fail == nil {
			if len(firstSeenH) != int(h-initial+1) {
				setFail(&world.Fail{Clause: "liveness", Msg: fmt.Sprintf("the DA layer accepted every submission for %d DA blocks, yet it holds headers %v of the committed heights %d..%d", horizon-horizon/2, firstSeenH, initial, h)})
			} else if len(firstSeenD) != len(nonEmpty) {
				setFail(&world.Fail{Clause: "liveness", Msg: fmt.Sprintf("the DA layer accepted every submission for %d DA blocks, yet it holds data %v of the non-empty heights %v", horizon-horizon/2, firstSeenD, nonEmpty)})
			} else if n.M.VerifLastSubmittedHeader() != h {
				setFail(&world.Fail{Clause: "liveness", Msg: fmt.Sprintf("all headers are on the DA layer but the header watermark is %d, chain height %d", n.M.VerifLastSubmittedHeader(), h)})
			}
		}
		var sb strings.Builder
		fmt.Fprintf(&sb, "h=%d H=%v D=%v submits=%d", h, firstSeenH, firstSeenD, len(env.DA.SubmitLog()))
		out.sig = sb.String()
	}
	out.fail, out.tags = fail, tags
	return
}

func TestCheck(t *testing.T) {
	r := vf.Start("C06", "model_checking")
	if r.RunShards(16) { // bubble-heavy: one process per shard of the exploration
		return
	}
	nBlocks := vf.Pick(r, 2, 3)
	horizon := vf.Pick(r, 12, 16)
	budgets := vf.Pick(r, map[string]int{"da": 2, "crash": 1}, map[string]int{"da": 3, "crash": 2})
	r.Assume = []string{
		"virtual time (testing/synctest): DA block time 1 s, mempool TTL 2 DA blocks; the two submission loops are started 1 ms apart (both orders explored) so that their timers never coincide",
		"'accepted by the DA layer' = stored by the DA double (including stored-but-acknowledgement-lost)",
		"liveness horizon: after the fault phase the DA accepts everything for horizon/2 DA blocks",
		"crash points: before every Submit call and before every durable write made by the submission loops",
	}
	run := func(c *explore.Ctx) outcome { return body(t, c, nBlocks, horizon) }
	if r.ReplayPath() != "" {
		var ch []explore.Point
		if _, err := r.LoadReplay(&ch); err != nil {
			r.EngineError(err.Error())
		} else {
			explore.ReplayOne(ch, func(c *explore.Ctx) {
				if o := run(c); o.fail != nil {
					fmt.Println(o.fail.Msg, o.events)
					r.Report(vf.Violation{Clause: o.fail.Clause, Tags: o.tags, Msg: o.fail.Msg, History: ch})
				}
			})
		}
		r.Finish(vf.Coverage{Evaluations: 1, DistinctNontrivial: 1})
		return
	}
	st := explore.Explore(explore.Config{Budgets: budgets, Deadline: vf.Pick(r, 100*time.Second, 25*time.Minute)}, func(c *explore.Ctx) {
		o := run(c)
		if o.fail != nil {
			r.Report(vf.Violation{Clause: o.fail.Clause, Tags: o.tags, Msg: fmt.Sprintf("%s\n events: %v\n choices: %s", o.fail.Msg, o.events, c.String()), Cost: c.Cost(), History: c.Choices()})
			r.Outcome("fail:" + o.fail.Clause)
			return
		}
		r.Outcome(o.sig)
		if c.Cost() >= 2 {
			r.Sample(map[string]any{"events": o.events, "result": o.sig})
		}
	})
	for _, m := range st.Nondet {
		r.EngineError("nondeterminism: " + m)
	}
	var caps []string
	if st.Capped != "" {
		caps = append(caps, st.Capped)
	}
	r.Finish(vf.Coverage{
		Evaluations: st.Executions, DistinctNontrivial: int64(r.DistinctOutcomes()), States: st.Executions, Transitions: st.Points,
		Rule:       "every chain content (empty/non-empty per block) × initial height {1,3} × loop start order × every sequence of DA answers (8-element menu per Submit call) and crash points (before each Submit, before each durable write of the loops) within the deviation budgets; the real submission loops run under virtual time; distinct = distinct (first-acceptance orders, number of Submit calls)",
		Exhaustive: true, Caps: caps,
		Bounds:     map[string]any{"blocks": nBlocks + 1, "horizon_da_blocks": horizon, "budgets": budgets, "max_decision_points": st.MaxDepth},
	})
}
