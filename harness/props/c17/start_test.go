package c17

import (
	"context"
	"fmt"
	"sync"
	"testing/synctest"
	"time"

	coreseq "github.com/evstack/ev-node/core/sequencer"

	"verif/harness/world"
)

// START HISTORIES — how the aggregation loop is STARTED relative to the chain's last block (or, on an empty store, to
// the genesis time), and a RESTART of the loop in the middle of a run.
//
// "never produces blocks faster than one per block interval" does not stop at the boundary of one run of the loop: the
// block that a freshly (re)started loop produces first is the successor of the block that is already in the store,
// and the first block of the chain is the successor of the genesis state (whose LastBlockTime is the genesis time).
// AggregationLoop enforces this by waiting until (last block time | genesis time) + block interval before it arms
// its timers. On the other parts of the grid the genesis time is chosen so that this delay is exactly 0 and the loop
// is started once; here the delay is a dimension.
//
// In this part the production function is the REAL publishBlock wrapped by the recorder (recorder notes the start
// instant, calls the real function — which takes no virtual time over the doubles —, then takes the chosen virtual
// duration). The sequencer double stamps every batch with the current virtual time, as the repository's sequencers
// do, so the block time, the stored height and the stored State.LastBlockTime that the NEXT loop start reads are
// written by the real code; nothing about "the last block" is modelled by the harness.
//
//   anchor   store holds one block (made by the real publishBlock) whose time is the loop start plus
//            {-1000, -1.5, -1, -0.7, -0.3, 0} block intervals; or empty store with genesis time = loop start plus
//            {-1, -0.3, 0, +0.5, +2} block intervals
//   restart  none; or the loop is cancelled at the instant its k-th production ends and a new AggregationLoop is
//            started on the same Manager/store {0, 0.3, 1} block intervals later
//   × mode × block:idle × production duration × every set of at most N notification instants (k·quantum ± δ, the grid
//   shifted so that the instant at which the first loop becomes ready is a grid instant; the range covers the initial
//   wait, the first loop, the downtime, the wait of the second loop and two further intervals)
//
// ORACLE for these runs. A loop j is started at L_j with anchor A_j (time of the last stored block when it starts,
// read back from the store; genesis time on an empty store); it is READY at R_j = max(L_j, A_j + B).
//   (1) min-spacing: all consecutive production starts of the run — the pair that spans the restart included — are
//       at least B apart, and the first production of every loop starts no earlier than A_j + B.
//   (2)-(4) as on the other parts, per loop, counted from R_j instead of 0: first production by R_j + I (lazy) or
//       R_j + B (normal); a notification delivered while loop j runs obliges a production start after it by
//       max(a, R_j, end of the production in flight) + B. Nothing is demanded for a notification delivered while no
//       loop runs, nor for one whose deadline lies at or after the instant the first loop is cancelled (counted as
//       exempt, not as checked); the end-of-observation bound applies to the last loop only.

type Start struct {
	// EmptyStore: no block yet, the anchor is the genesis time. Otherwise the store holds one block and the anchor is
	// that block's time.
	EmptyStore bool `json:"empty_store"`
	// AnchorNs: anchor time minus the instant the first loop is started (negative = in the past).
	AnchorNs int64 `json:"anchor_minus_loop_start_ns"`
	// StopAfter k > 0: the first loop is cancelled at the instant its k-th production ends, and a second loop is
	// started RestartNs later.
	StopAfter int   `json:"stop_after_production,omitempty"`
	RestartNs int64 `json:"restart_after_ns,omitempty"`
	// NewManager: the second loop runs on a NEW block.Manager built over the persisted store image (a restart of the
	// process: in-memory fields of the old Manager are gone); false = AggregationLoop is called again on the same Manager.
	NewManager bool `json:"restart_with_new_manager,omitempty"`
}

func (s Start) anchor() time.Duration  { return time.Duration(s.AnchorNs) }
func (s Start) restart() time.Duration { return time.Duration(s.RestartNs) }

// ready1 is the instant (relative to the start of the first loop) at which the property allows the first production.
func (p Point) ready1() time.Duration { return max(0, p.Start.anchor()+p.block()) }

// startRange: notifications are placed from the start of the first loop up to the instant by which, under the
// property's cadence, the first loop has become ready, made its StopAfter productions, the second loop has been
// started and has become ready, plus two further intervals W (W = idle interval in lazy mode, block interval in
// normal mode).
func (p Point) startRange() time.Duration {
	B := p.block()
	w := B
	if p.Lazy {
		w = cfgs[p.Cfg].Idle
	}
	r := p.ready1() + 2*w
	if k := p.Start.StopAfter; k > 0 {
		r += time.Duration(k-1)*max(w, p.maxd()+B) + p.maxd() + p.Start.restart() + B
	}
	return r
}

type loopRec struct {
	at     time.Duration // instant the loop was started
	anchor time.Duration // stored last block time (genesis time on an empty store) at that instant
	seq    int
}

const longAgo = 1000 // block intervals

func bubbleStart(p Point) (res result) {
	st := *p.Start
	c := cfgs[p.Cfg]
	B := c.Block
	bg := context.Background()
	tb := time.Now()
	env := world.NewEnv()
	// the sequencing layer stamps a batch with the time at which it hands it out (sequencers/single, sequencers/based)
	env.Seq.Next = func(coreseq.GetNextBatchRequest) world.SeqAnswer {
		return world.SeqAnswer{Kind: "batch", Time: time.Now()}
	}
	gen := tb.Add(-2 * longAgo * B)
	if st.EmptyStore {
		gen = tb.Add(st.anchor())
	}
	params := world.Params{Lazy: p.Lazy, BlockTime: B, LazyInterval: p.idle(), GenesisTime: gen}
	n, err := world.StartNode(params, env, nil, world.NodeOpts{Aggregator: true})
	if err != nil {
		res.err = "start-up: " + err.Error()
		return
	}
	realPublish := n.M.VerifPublishBlockFunc()
	pre := uint64(0)
	if !st.EmptyStore {
		if st.AnchorNs > 0 {
			res.err = "a stored block cannot lie in the future"
			return
		}
		// the chain's first block is the genesis block that the Manager stored at start-up (stamped with the genesis
		// time whenever it is published); the block after it is stamped with the time at which it is produced: now
		for pre < 2 {
			if err := realPublish(bg); err != nil || n.Height() != pre+1 {
				res.err = fmt.Sprintf("could not produce the previous blocks: height %d, %v", n.Height(), err)
				return
			}
			pre++
		}
		if st.AnchorNs < 0 {
			time.Sleep(-st.anchor())
			synctest.Wait()
		}
	}
	t0 := time.Now()
	storedAnchor := func() (time.Duration, error) {
		if n.Height() == 0 {
			return n.Genesis.GenesisDAStartTime.Sub(t0), nil
		}
		s, err := n.Store.GetState(bg)
		return s.LastBlockTime.Sub(t0), err
	}

	var mu sync.Mutex
	var starts []time.Duration
	var startSeq []int
	var loops []loopRec
	seqNo := 0
	stopAt, stopSeq := time.Duration(-1), 0
	var pubErr error
	var recordAndPublish func(ctx context.Context, realPublish func(context.Context) error) error
	ctx1, cancel1 := context.WithCancel(bg)
	ctx2, cancel2 := context.WithCancel(bg)
	stopCh, endCh, loop1Done := make(chan struct{}), make(chan struct{}), make(chan struct{})
	var install func(node *world.Node)
	install = func(node *world.Node) {
		realPublish := node.M.VerifPublishBlockFunc()
		node.M.VerifSetPublishBlock(func(ctx context.Context) error { return recordAndPublish(ctx, realPublish) })
	}
	_ = install
	recordAndPublish = func(ctx context.Context, realPublish func(context.Context) error) error {
		// a call by a loop that is already cancelled is not a production: the real function returns ctx.Err() before
		// doing anything (a cancelled loop may win one more select round against ctx.Done())
		if err := ctx.Err(); err != nil {
			return err
		}
		mu.Lock()
		idx := len(starts)
		d := p.dur(idx)
		starts = append(starts, time.Since(t0))
		seqNo++
		startSeq = append(startSeq, seqNo)
		mu.Unlock()
		if err := realPublish(ctx); err != nil {
			if ctx.Err() != nil {
				return err
			}
			mu.Lock()
			pubErr = err
			mu.Unlock()
			return err
		}
		if d > 0 {
			tm := time.NewTimer(d)
			select {
			case <-tm.C:
			case <-ctx.Done():
				tm.Stop()
			}
		}
		if st.StopAfter > 0 && idx+1 == st.StopAfter && ctx.Err() == nil {
			mu.Lock()
			stopAt = time.Since(t0)
			seqNo++
			stopSeq = seqNo
			mu.Unlock()
			cancel1()
			close(stopCh)
		}
		return nil
	}
	install(n)
	errCh := make(chan error, 4)
	a0, err := storedAnchor()
	if err != nil {
		res.err = "reading the stored state: " + err.Error()
		cancel1()
		cancel2()
		return
	}
	loops = append(loops, loopRec{at: 0, anchor: a0})
	go func() {
		n.M.AggregationLoop(ctx1, errCh)
		close(loop1Done)
	}()
	restartDone := make(chan struct{})
	go func() {
		defer close(restartDone)
		if st.StopAfter == 0 {
			return
		}
		select {
		case <-stopCh:
		case <-endCh:
			return
		}
		<-loop1Done
		if st.RestartNs > 0 {
			tm := time.NewTimer(st.restart())
			select {
			case <-tm.C:
			case <-endCh:
				tm.Stop()
				return
			}
		}
		if st.NewManager {
			n2, err := world.StartNode(params, env, n.KV.Image(), world.NodeOpts{Aggregator: true})
			if err != nil {
				mu.Lock()
				pubErr = fmt.Errorf("restart with a new manager: %w", err)
				mu.Unlock()
				return
			}
			install(n2)
			mu.Lock()
			n = n2
			mu.Unlock()
		}
		a, err := storedAnchor()
		mu.Lock()
		if err != nil {
			pubErr = err
		}
		seqNo++
		loops = append(loops, loopRec{at: time.Since(t0), anchor: a, seq: seqNo})
		node := n
		mu.Unlock()
		node.M.AggregationLoop(ctx2, errCh)
	}()

	for _, s := range p.Slots {
		at := p.instant(s)
		time.Sleep(at - time.Since(t0))
		synctest.Wait()
		mu.Lock()
		res.notifs = append(res.notifs, time.Since(t0))
		seqNo++
		res.notifSeq = append(res.notifSeq, seqNo)
		node := n
		mu.Unlock()
		node.M.NotifyNewTransactions()
		synctest.Wait()
	}
	time.Sleep(p.horizon() - time.Since(t0))
	synctest.Wait()
	mu.Lock()
	res.starts = append([]time.Duration(nil), starts...)
	res.startSeq = append([]int(nil), startSeq...)
	res.loops = append([]loopRec(nil), loops...)
	res.stopAt, res.stopSeq = stopAt, stopSeq
	if pubErr != nil {
		res.prodErr = "the real production function failed: " + pubErr.Error()
	}
	mu.Unlock()
	close(endCh)
	cancel1()
	cancel2()
	synctest.Wait()
	<-loop1Done
	<-restartDone
	select {
	case e := <-errCh:
		if res.err == "" && res.prodErr == "" {
			res.err = "aggregation loop returned an error: " + e.Error()
		}
	default:
	}
	if res.err == "" && res.prodErr == "" {
		// every recorded production stored exactly one block, stamped with its start instant
		if h := n.Height(); h != pre+uint64(len(res.starts)) {
			res.err = fmt.Sprintf("store height %d after %d recorded productions (+%d previous block)", h, len(res.starts), pre)
		} else if h > 1 { // (block 1 is the genesis block, stamped with the genesis time)
			if a, err := storedAnchor(); err != nil || a != res.starts[len(res.starts)-1] {
				res.err = fmt.Sprintf("stored last block time %v differs from the start of the last production %v (%v)", a, res.starts[len(res.starts)-1], err)
			}
		}
		if st.StopAfter > 0 && (stopAt >= 0) != (len(res.loops) == 2) {
			res.err = "the first loop was stopped but the second one was not started within the observation window"
		}
	}
	return
}

func (p Point) describeStart(res result) string {
	st := p.Start
	what := fmt.Sprintf("store holds one block stamped %v relative to the loop start", st.anchor())
	if st.EmptyStore {
		what = fmt.Sprintf("empty store, genesis time %v relative to the loop start", st.anchor())
	}
	s := "START: " + what
	for j, l := range res.loops {
		on := ""
		if j == 1 && st.NewManager {
			on = " on a new Manager over the persisted store"
		}
		s += fmt.Sprintf("; loop %d started%s at %v with stored anchor %v (ready at %v)", j+1, on, l.at, l.anchor, max(l.at, l.anchor+p.block()))
		if j == 0 && res.stopAt >= 0 {
			s += fmt.Sprintf(", cancelled at %v when its production #%d ended", res.stopAt, st.StopAfter)
		}
	}
	if st.StopAfter > 0 && res.stopAt < 0 {
		s += fmt.Sprintf("; (restart after production #%d + %v was requested but that production never ended)", st.StopAfter, st.restart())
	}
	return s
}

func startTags(p Point, res result) (tags []string) {
	B := p.block()
	for j, l := range res.loops {
		switch {
		case j == 0 && p.Start.EmptyStore && l.anchor+B > l.at:
			tags = append(tags, "loop-started-before-first-slot-after-genesis")
		case j == 0 && !p.Start.EmptyStore && l.anchor+B > l.at:
			tags = append(tags, "loop-started-within-block-interval-of-last-block")
		case j == 1 && l.anchor+B > l.at:
			tags = append(tags, "restart-within-block-interval-of-last-block")
		}
		if j == 1 {
			tags = append(tags, "restart")
			if p.Start.NewManager {
				tags = append(tags, "restart-with-new-manager")
			}
		}
	}
	return
}

// onlySpacing: the real production function failed during the run (e.g. it refuses a block whose time would lie before
// the previous block's), which ends the loop; the starts recorded up to then are still valid observations for clause
// (1), the other clauses are not evaluated on such a run.
func oracleStart(p Point, res result, baseline func() []time.Duration, onlySpacing bool) (fails []fail, unchecked, exempt int) {
	B, I, T := p.block(), p.idle(), p.horizon()
	S := res.starts
	tags := append(historyTags(p, res), startTags(p, res)...)
	// at most one failure per (clause, extra tag) is reported for a run; extra = a tag that belongs to this failure
	// only (the trigger of a listed finding), so that other failures of the same clause in the same run stay visible
	seen := map[string]bool{}
	addT := func(clause, extra, format string, args ...any) {
		if seen[clause+"/"+extra] {
			return
		}
		seen[clause+"/"+extra] = true
		tg := tags
		if extra != "" {
			tg = append(append([]string(nil), tags...), extra)
		}
		fails = append(fails, fail{clause, fmt.Sprintf(format, args...) + "\n   " + p.describe(res), tg})
	}
	add := func(clause, format string, args ...any) { addT(clause, "", format, args...) }
	type seg struct {
		L, A, R, E time.Duration
		lo, hi     int
		last       bool
	}
	segs := make([]seg, len(res.loops))
	for j, l := range res.loops {
		segs[j] = seg{L: l.at, A: l.anchor, R: max(l.at, l.anchor+B), E: T}
	}
	if len(segs) == 2 {
		k := 0
		for k < len(S) && res.startSeq[k] < res.stopSeq {
			k++
		}
		segs[0].hi, segs[0].E = k, res.stopAt
		segs[1].lo, segs[1].hi = k, len(S)
	} else {
		segs[0].hi = len(S)
	}
	segs[len(segs)-1].last = true
	anchorName := func(j int) string {
		if j == 0 && p.Start.EmptyStore {
			return "genesis time"
		}
		return "stored time of the last block"
	}

	// (1)
	for i := 1; i < len(S); i++ {
		if g := S[i] - S[i-1]; g < B {
			across, extra := "", ""
			if len(segs) == 2 && i == segs[1].lo {
				across = " (the last production of the cancelled loop and the first one of the restarted loop)"
				// the restarted loop kept one block interval from the STORED time of the last block, but that block is
				// the chain's first one, which is stored with the genesis time instead of the time it was produced at
				if p.Start.EmptyStore && i == 1 && segs[1].A == segs[0].A && segs[1].A != S[0] && S[i] >= segs[1].A+B {
					extra = "restart-after-first-block-stored-with-genesis-time"
					across += fmt.Sprintf("; the stored time of the last block is %v (the genesis time), it was produced at %v", segs[1].A, S[0])
				}
			}
			addT("min-spacing", extra, "two productions start only %v apart (at %v and %v)%s, less than the block interval %v", g, S[i-1], S[i], across, B)
		}
	}
	for j, s := range segs {
		if s.lo < s.hi && S[s.lo] < s.A+B {
			add("min-spacing", "loop %d (started at %v) starts its first production at %v, only %v after the %s (%v): less than the block interval %v", j+1, s.L, S[s.lo], S[s.lo]-s.A, anchorName(j), s.A, B)
		}
	}

	if onlySpacing {
		return
	}
	live := map[bool]string{true: "idle-interval", false: "normal-period"}[p.Lazy]
	first := B
	if p.Lazy {
		first = I
	}
	hiBound := func(i int) time.Duration { // longest allowed gap after production i
		di := p.dur(i)
		if p.Lazy {
			if di >= I {
				return di + B
			}
			return I
		}
		if di >= B {
			return di + B
		}
		return B
	}
	for j, s := range segs {
		if s.lo == s.hi {
			if s.last && T-s.R > first {
				add(live, "loop %d (started at %v, ready at %v) produced no block at all until %v", j+1, s.L, s.R, T)
			}
			continue
		}
		if S[s.lo] > s.R+first {
			add(live, "loop %d (started at %v) starts its first production at %v, later than %v after it became ready at %v", j+1, s.L, S[s.lo], first, s.R)
		}
		for i := s.lo + 1; i < s.hi; i++ {
			g := S[i] - S[i-1]
			if g > hiBound(i-1) {
				add(live, "no production starts for %v (between %v and %v), longer than the allowed %v (production %v)", g, S[i-1], S[i], hiBound(i-1), p.dur(i-1))
			}
			if !p.Lazy {
				lo := max(B, p.dur(i-1))
				if g < lo {
					add("normal-period", "productions at %v and %v are %v apart; normal mode produces once per block interval (allowed gap %v..%v after a production of %v)", S[i-1], S[i], g, lo, hiBound(i-1), p.dur(i-1))
				}
			}
		}
		if s.last && T-S[s.hi-1] > hiBound(s.hi-1) {
			add(live, "after the production at %v nothing starts for more than %v (observed until %v)", S[s.hi-1], hiBound(s.hi-1), T)
		}
	}

	if p.Lazy {
		// (2)
		for k, a := range res.notifs {
			j := 0
			if len(segs) == 2 && res.notifSeq[k] > res.stopSeq {
				if res.notifSeq[k] < res.loops[1].seq {
					exempt++ // delivered while no loop was running
					continue
				}
				j = 1
			}
			base, what := a, "the notification"
			if segs[j].R > base {
				base, what = segs[j].R, fmt.Sprintf("the instant (%v) at which loop %d became ready", segs[j].R, j+1)
			}
			if e, ok := inflightEnd(res, p, k); ok && e > base {
				base, what = e, fmt.Sprintf("the end (%v) of the production that was in flight", e)
			}
			deadline := base + B
			if !segs[j].last && deadline >= segs[j].E {
				exempt++ // the loop was cancelled before the deadline
				continue
			}
			if deadline > T {
				unchecked++
				continue
			}
			ok, next := false, "none"
			for i, s := range S {
				if res.startSeq[i] > res.notifSeq[k] {
					ok, next = s <= deadline, s.String()
					break
				}
			}
			if !ok {
				add("notified-within-block-interval", "notification at %v: no production starts within one block interval (%v) after %s, i.e. by %v; next start after the notification: %s", a, B, what, deadline, next)
			}
		}
	} else if len(res.notifs) > 0 {
		if b := baseline(); fmtTimes(b) != fmtTimes(S) {
			add("normal-regardless-of-notifications", "start times differ from the run without notifications, which are [%s]", fmtTimes(b))
		}
	}
	return
}

// startPass: one enumeration of the START HISTORIES part.
type startPass struct {
	durations      []frac
	blockAnchors   []frac // time of the stored block relative to the loop start, in block intervals
	genesisAnchors []frac
	stopAfter      []int
	stopAfterNewM  []int // restarts on a new Manager over the persisted store
	restartOffs    []frac
	maxNotif       int
	allIdleEps     bool
	qdiv           int
	tieReps        int // repetitions of points whose steady state contains a runtime-resolved timer tie
}

func (sp startPass) specs(B time.Duration) (out []Start) {
	var anchors []Start
	for _, a := range sp.blockAnchors {
		anchors = append(anchors, Start{AnchorNs: int64(a.of(B))})
	}
	for _, a := range sp.genesisAnchors {
		anchors = append(anchors, Start{EmptyStore: true, AnchorNs: int64(a.of(B))})
	}
	for _, a := range anchors {
		out = append(out, a)
		for _, k := range sp.stopAfter {
			for _, off := range sp.restartOffs {
				s := a
				s.StopAfter, s.RestartNs = k, int64(off.of(B))
				out = append(out, s)
			}
		}
		for _, k := range sp.stopAfterNewM {
			for _, off := range sp.restartOffs {
				s := a
				s.StopAfter, s.RestartNs, s.NewManager = k, int64(off.of(B)), true
				out = append(out, s)
			}
		}
	}
	return
}

func (g grid) enumerateStart(f func(p Point)) {
	for _, sp := range g.start {
		for ci, c := range cfgs {
			for _, d := range sp.durations {
				for _, lazy := range []bool{true, false} {
					eps := []int64{0}
					if sp.allIdleEps {
						eps = lazyVariants(c, lazy)
					}
					for _, e := range eps {
						for _, st := range sp.specs(c.Block) {
							st := st
							proto := Point{Cfg: ci, EpsNs: e, D: int64(d.of(c.Block)), Lazy: lazy, QDiv: sp.qdiv, Start: &st}
							reps := 1
							if lazy && proto.maxd() >= proto.idle() {
								reps = sp.tieReps
							}
							for rep := 0; rep < reps; rep++ {
								combos(proto.slots(), sp.maxNotif, func(s []int) {
									q := proto
									q.Slots, q.Rep = s, rep
									f(q)
								})
							}
						}
					}
				}
			}
		}
	}
}

func (sp startPass) describe() map[string]any {
	return map[string]any{
		"production_duration_in_blocks":                         fmt.Sprint(sp.durations),
		"stored_block_time_minus_loop_start_in_blocks":          fmt.Sprint(sp.blockAnchors),
		"genesis_time_minus_loop_start_in_blocks_(empty_store)": fmt.Sprint(sp.genesisAnchors),
		"restart":                           fmt.Sprintf("none, or first loop cancelled at the end of its production #k and second loop started %v block intervals later: on the same Manager for k in %v, on a new Manager over the persisted store for k in %v", sp.restartOffs, sp.stopAfter, sp.stopAfterNewM),
		"max_notifications":                 sp.maxNotif,
		"notification_quantum":              fmt.Sprintf("1/%d block interval, grid shifted so that the first loop's ready instant is a grid instant, each instant at -δ and +δ, plus one right after the loop start", sp.qdiv),
		"repetitions_of_runtime_tie_points": sp.tieReps,
		"idle_interval_variants_(lazy)":     map[bool]string{true: "exact, +1 ns, -1 ns", false: "exact"}[sp.allIdleEps],
	}
}
