package c17

import (
	"context"
	"fmt"
	"hash/fnv"
	"os"
	"runtime"
	"sort"
	"strconv"
	"strings"
	"sync"
	"sync/atomic"
	"testing"
	"testing/synctest"
	"time"

	"github.com/evstack/ev-node/block"

	"verif/harness/vf"
	"verif/harness/world"
)

// C17 — lazy mode: blocks on demand and on the idle interval, never a lost wake-up.
//
// The REAL Manager.AggregationLoop (lazyAggregationLoop / normalAggregationLoop / produceBlock / getRemainingSleep)
// runs inside a testing/synctest bubble (virtual time). Only the production function is replaced, through the
// setter hook (the seam the package's own tests use), by a recorder that notes its virtual start time and then takes
// a chosen virtual duration d. Notifications are delivered by the real Manager.NotifyNewTransactions (or, in the
// reaper variant, by the real Reaper.SubmitTxs after a transaction was injected into the executor's mempool) at
// enumerated virtual instants. One grid point = one execution; the whole grid is enumerated, nothing is sampled.
//
// ORACLE — every bound is read off the property statement; B = block interval, I = idle (lazy) interval, d = duration
// of a production, S[0..] = recorded production START times, a = instant of a notification.
//
//  (1) min-spacing   "never produces blocks faster than one per block interval"
//        S[i+1]-S[i] >= B, both modes. Nothing more is demanded: when a production takes longer than B the loop
//        starts the next one 1 ms after the previous one ends (getRemainingSleep returns 1 ms), i.e. the gap is
//        d+1ms > B, which the statement allows (productions are sequential, so blocks are still not faster than one
//        per block interval).
//  (2) notified-within-block-interval (lazy)  "produces a block within one block interval after it is notified" and
//        "a notification that arrives while a block is being produced is not lost: it leads to a further block"
//        for every notification at a there is a start S[j] AFTER the notification with S[j] <= max(a, end of the
//        production in flight at a) + B. "After" is decided by the order in which the harness recorded the events (a
//        production recorded after the notification call, possibly at the same virtual instant), which makes it a
//        FURTHER production when one was in flight at a (that one was recorded before the notification).
//        The statement gives no deadline for the in-flight case; "one block interval after the node is free again"
//        is the weakest reading that still distinguishes the on-demand block from the next idle-interval block.
//  (3) idle-interval (lazy)  "otherwise one block per idle interval"
//        the loop never lets more than one idle interval pass without starting a production:
//        S[0] <= I, S[i+1]-S[i] <= I, and (end of observation)-S[last] <= I. When a production itself takes d >= I the
//        bound cannot be met by any sequential producer; then the weakest bound is used: the next production starts
//        within one block interval after the long one ends (gap <= d+B). Notifications only ever make blocks come
//        earlier, so the bound is applied to every lazy run; violations carry the tag no-notifications /
//        with-notifications.
//  (4) normal-period / normal-regardless-of-notifications (normal mode)  "blocks are produced once per block
//        interval regardless of notifications"
//        d < B: S[i+1]-S[i] == B exactly (virtual time), S[0] <= B, (end)-S[last] < B... i.e. no tick is skipped;
//        d >= B: d <= gap <= d+B (weakest bound, as in (3)); and the start times of a run with notifications are
//        identical to the start times of the run of the same configuration without notifications.
//
// DURATION HISTORIES. On the plain grid every production of a run takes the same d. The second part of the grid lets
// the duration vary within a run: the first L productions take the durations of a word over seqAlphabet (instant,
// 0.3 B, B, 1.5 B, 3.5 B), all later ones a short tail duration — e.g. one overrun followed by short productions. The
// bounds above are then applied per gap with d = duration of the production that PRECEDES the gap (and, for (2), of
// the production in flight). What this adds in normal mode: "once per block interval" has no memory — after an
// overrun the loop may not catch up with a burst of blocks closer than B (clause min-spacing), and the interval
// after each short production is B again (clause normal-period). The statement says nothing else about the cadence
// after an overrun, and nothing else is demanded.
//
// Start-up delay: AggregationLoop first sleeps until genesis time + B (height 0). The genesis time is set to
// (bubble start - B), so the delay is exactly 0 and the loop's two timers (both NewTimer(0)) fire at virtual time 0;
// the oracle therefore expects the first start within the bounds above counted from 0. That holds for the plain grid
// and the duration histories; the START HISTORIES part (start_test.go) makes the delay a dimension — last stored
// block / genesis time at chosen offsets from the loop start, restarts of the loop in the middle of a run — and
// extends min-spacing to the first production of every loop.

type cfgT struct{ Block, Idle time.Duration }

var cfgs = []cfgT{
	{time.Second, time.Second},
	{time.Second, 2 * time.Second},
	{time.Second, 3 * time.Second},
	{2 * time.Second, 3 * time.Second},
}

// Point is one grid point (and the replayable history of a violation).
type Point struct {
	Cfg    int   `json:"cfg"`         // index into cfgs
	EpsNs  int64 `json:"idle_eps_ns"` // idle interval = cfg.Idle + EpsNs (orders the two timers when they would coincide)
	D      int64 `json:"production_ns"`
	Lazy   bool  `json:"lazy"`
	Reaper bool  `json:"via_reaper"`
	Slots  []int `json:"notification_slots"`
	Rep    int   `json:"repetition,omitempty"` // only where the Go runtime resolves a tie of the two timers (see Assume)
	// Seq: durations of the FIRST len(Seq) productions of the run (production i takes Seq[i]); every later production
	// takes D. Empty on the constant-duration grid.
	Seq []int64 `json:"first_productions_ns,omitempty"`
	// QDiv: notification instants are multiples of block interval / QDiv (0 = 4)
	QDiv int `json:"notification_quantum_div,omitempty"`
	// Start: START HISTORIES part (start_test.go): how the loop is started relative to the last stored block / the
	// genesis time, and an optional restart. nil on the other parts (genesis time = loop start minus one block interval).
	Start *Start `json:"start,omitempty"`
}

// dur is the duration of the i-th production of the run.
func (p Point) dur(i int) time.Duration {
	if i < len(p.Seq) {
		return time.Duration(p.Seq[i])
	}
	return time.Duration(p.D)
}

func (p Point) maxd() time.Duration {
	m := p.d()
	for i := range p.Seq {
		m = max(m, p.dur(i))
	}
	return m
}

// notifRange (points with a duration sequence): notifications are placed up to the instant by which every sequenced
// production has started and ended under the property's cadence (one production per interval W, or back to back when
// a production outlasts W; W = idle interval in lazy mode, block interval in normal mode) plus two more intervals W
// of the tail.
func (p Point) notifRange() time.Duration {
	w := p.block()
	if p.Lazy {
		w = cfgs[p.Cfg].Idle
	}
	r := 2 * w
	for i := range p.Seq {
		r += max(w, p.dur(i))
	}
	return r
}

// slots is the number of notification slots of the point.
func (p Point) slots() int {
	if p.Start != nil {
		return int(p.startRange()/p.quantum())*2 + 1
	}
	if len(p.Seq) == 0 {
		return nslots(cfgs[p.Cfg])
	}
	return int(p.notifRange()/p.quantum())*2 + 1
}

func (p Point) block() time.Duration { return cfgs[p.Cfg].Block }
func (p Point) idle() time.Duration  { return cfgs[p.Cfg].Idle + time.Duration(p.EpsNs) }
func (p Point) d() time.Duration     { return time.Duration(p.D) }

// delta is the offset of a notification from a grid instant: 1 ns on the plain grid; with an idle interval that is
// off by 1 ns per production the timers drift by a few ns over a run, so the offset is 100 ns there.
func (p Point) delta() time.Duration {
	if p.EpsNs != 0 {
		return 100 * time.Nanosecond
	}
	return time.Nanosecond
}

func (p Point) quantum() time.Duration {
	if p.QDiv > 0 {
		return p.block() / time.Duration(p.QDiv)
	}
	return p.block() / 4
}

// nslots: grid instants k*quantum for k = 0..K with K*quantum = two idle intervals; each at -delta and +delta (k=0 only +).
func nslots(c cfgT) int { return int(2*c.Idle/(c.Block/4))*2 + 1 }

func (p Point) instant(slot int) time.Duration {
	if slot == 0 {
		return p.delta()
	}
	k := (slot + 1) / 2
	at := time.Duration(k) * p.quantum()
	if p.Start != nil {
		// the grid is shifted so that the instant at which the first loop becomes ready is a grid instant
		at += p.ready1() % p.quantum()
	}
	if slot%2 == 1 {
		return at - p.delta()
	}
	return at + p.delta()
}

// horizon: the loop is observed until every obligation that a notification in the grid can create has fallen due and
// one further idle gap could be seen.
func (p Point) horizon() time.Duration {
	c := cfgs[p.Cfg]
	if p.Start != nil {
		w := c.Block
		if p.Lazy {
			w = c.Idle
		}
		return p.startRange() + 2*p.maxd() + 2*c.Block + w + 10*time.Millisecond
	}
	if len(p.Seq) > 0 {
		return p.notifRange() + 2*p.maxd() + 2*c.Block + c.Idle + 10*time.Millisecond
	}
	return 2*c.Idle + 2*p.d() + 2*c.Block + c.Idle + 10*time.Millisecond
}

type result struct {
	starts []time.Duration
	notifs []time.Duration
	// position of every start / notification in the one total order of recorded events: a production that starts at
	// the same virtual instant as a notification is "after" it iff it was recorded later
	startSeq []int
	notifSeq []int
	err      string // machinery problem
	// START HISTORIES part only
	loops   []loopRec
	stopAt  time.Duration // instant the first loop was cancelled (-1: it was not)
	stopSeq int
	prodErr string // the real production function returned an error (the loop ends with it)
}

func runPoint(t *testing.T, p Point) (res result) {
	synctest.Test(t, func(t *testing.T) {
		if p.Start != nil {
			res = bubbleStart(p)
		} else {
			res = bubble(p)
		}
	})
	return
}

func bubble(p Point) (res result) {
	t0 := time.Now()
	c := cfgs[p.Cfg]
	env := world.NewEnv()
	n, err := world.StartNode(world.Params{Lazy: p.Lazy, BlockTime: c.Block, LazyInterval: p.idle(), GenesisTime: t0.Add(-c.Block)},
		env, nil, world.NodeOpts{Aggregator: true})
	if err != nil {
		res.err = "start-up: " + err.Error()
		return
	}
	var mu sync.Mutex
	var starts []time.Duration
	var startSeq []int
	seqNo := 0
	n.M.VerifSetPublishBlock(func(ctx context.Context) error {
		mu.Lock()
		d := p.dur(len(starts))
		starts = append(starts, time.Since(t0))
		seqNo++
		startSeq = append(startSeq, seqNo)
		mu.Unlock()
		if d > 0 {
			tm := time.NewTimer(d)
			select {
			case <-tm.C:
			case <-ctx.Done():
				tm.Stop()
			}
		}
		return nil
	})
	ctx, cancel := context.WithCancel(context.Background())
	errCh := make(chan error, 4)
	notify := n.M.NotifyNewTransactions
	if p.Reaper {
		rp := block.NewReaper(ctx, &world.ExecClient{Exec: env.Exec, Fate: n.Fate}, &world.SeqClient{Seq: env.Seq, Fate: n.Fate},
			n.P.ChainID, time.Hour, world.Logger, world.NewKV(nil))
		rp.SetManager(n.M)
		seq := 0
		notify = func() {
			seq++
			env.Exec.Inject([]byte(fmt.Sprintf("tx-%d", seq)))
			rp.SubmitTxs() // real path: GetTxs, seen-filter, SubmitBatchTxs, NotifyNewTransactions
		}
	}
	if time.Since(t0) != 0 {
		res.err = "virtual time moved during start-up"
		cancel()
		return
	}
	go n.M.AggregationLoop(ctx, errCh)
	for _, s := range p.Slots {
		at := p.instant(s)
		time.Sleep(at - time.Since(t0))
		synctest.Wait()
		mu.Lock()
		res.notifs = append(res.notifs, time.Since(t0))
		seqNo++
		res.notifSeq = append(res.notifSeq, seqNo)
		mu.Unlock()
		notify()
		synctest.Wait()
	}
	time.Sleep(p.horizon() - time.Since(t0))
	synctest.Wait()
	mu.Lock()
	res.starts = append([]time.Duration(nil), starts...)
	res.startSeq = append([]int(nil), startSeq...)
	mu.Unlock()
	cancel()
	synctest.Wait()
	select {
	case e := <-errCh:
		res.err = "aggregation loop returned an error: " + e.Error()
	default:
	}
	if p.Reaper && len(env.Seq.Submitted) != len(p.Slots) {
		res.err = fmt.Sprintf("reaper submitted %d batches for %d injected transactions", len(env.Seq.Submitted), len(p.Slots))
	}
	return
}

type fail struct {
	clause string
	msg    string
	tags   []string
}

func fmtTimes(ts []time.Duration) string {
	var sb strings.Builder
	for i, x := range ts {
		if i > 0 {
			sb.WriteByte(' ')
		}
		sb.WriteString(x.String())
	}
	return sb.String()
}

func (p Point) describe(res result) string {
	mode := "normal"
	if p.Lazy {
		mode = "lazy"
	}
	via := "NotifyNewTransactions"
	if p.Reaper {
		via = "Reaper.SubmitTxs"
	}
	takes := fmt.Sprintf("production takes %v", p.d())
	if len(p.Seq) > 0 {
		ds := make([]time.Duration, len(p.Seq))
		for i := range ds {
			ds[i] = p.dur(i)
		}
		takes = fmt.Sprintf("the first %d productions take [%s], every later one %v", len(ds), fmtTimes(ds), p.d())
	}
	s := fmt.Sprintf("%s mode, block interval %v, idle interval %v, %s, notifications (%s) at [%s] ⇒ production starts [%s] (observed until %v)",
		mode, p.block(), p.idle(), takes, via, fmtTimes(res.notifs), fmtTimes(res.starts), p.horizon())
	if p.Start != nil {
		s = p.describeStart(res) + "\n   " + s
	}
	return s
}

// inflightEnd: end of the production that is in flight when notification k is delivered (ok=false: none). A production
// that ends at the very instant of the notification has ended: the harness delivers only after synctest.Wait().
func inflightEnd(res result, p Point, k int) (time.Duration, bool) {
	a := res.notifs[k]
	for i, s := range res.starts {
		if d := p.dur(i); res.startSeq[i] < res.notifSeq[k] && a < s+d {
			return s + d, true
		}
	}
	return 0, false
}

// historyTags: features of the run (not of a failure) that every violation found in it carries.
func historyTags(p Point, res result) (tags []string) {
	B, I := p.block(), p.idle()
	d := p.maxd() // the constant duration on the plain grid
	if p.Lazy {
		tags = append(tags, "lazy-mode")
	} else {
		tags = append(tags, "normal-mode")
	}
	switch {
	case d == 0:
		tags = append(tags, "production-instant")
	case d < B:
		tags = append(tags, "production-shorter-than-block-interval")
	case d == B:
		tags = append(tags, "production-equals-block-interval")
	default:
		tags = append(tags, "production-longer-than-block-interval")
	}
	if len(p.Seq) > 0 {
		for i := range p.Seq {
			if p.dur(i) != p.dur(i+1) {
				tags = append(tags, "varying-production-durations")
				break
			}
		}
		for i := range p.Seq {
			if p.dur(i) > B && p.dur(i+1) < p.dur(i) {
				tags = append(tags, "overrun-followed-by-shorter-production")
				break
			}
		}
	}
	if len(res.notifs) == 0 {
		tags = append(tags, "no-notifications")
	} else {
		tags = append(tags, "with-notifications")
	}
	during := false
	for k := range res.notifs {
		if _, ok := inflightEnd(res, p, k); ok {
			during = true
		}
	}
	if during {
		tags = append(tags, "notification-during-production")
	}
	if p.Reaper {
		tags = append(tags, "via-reaper")
	}
	if I == B {
		tags = append(tags, "idle-equals-block-interval")
	}
	return
}

func oracle(p Point, res result, baseline func() []time.Duration) (fails []fail, unchecked int) {
	B, I, T := p.block(), p.idle(), p.horizon()
	S := res.starts
	tags := historyTags(p, res)
	add := func(clause, format string, args ...any) {
		for _, f := range fails {
			if f.clause == clause {
				return
			}
		}
		fails = append(fails, fail{clause, fmt.Sprintf(format, args...) + "\n   " + p.describe(res), tags})
	}

	// (1)
	for i := 1; i < len(S); i++ {
		if g := S[i] - S[i-1]; g < B {
			add("min-spacing", "two productions start only %v apart (at %v and %v), less than the block interval %v", g, S[i-1], S[i], B)
		}
	}
	if len(S) == 0 {
		add(map[bool]string{true: "idle-interval", false: "normal-period"}[p.Lazy], "no block was produced at all in %v", T)
		return
	}
	if p.Lazy {
		// (2)
		for k, a := range res.notifs {
			base := a
			what := "the notification"
			if e, ok := inflightEnd(res, p, k); ok {
				base, what = e, fmt.Sprintf("the end (%v) of the production that was in flight", e)
			}
			deadline := base + B
			if deadline > T {
				unchecked++
				continue
			}
			ok := false
			next := "none"
			for j, s := range S {
				if res.startSeq[j] > res.notifSeq[k] {
					ok = s <= deadline
					next = s.String()
					break
				}
			}
			if !ok {
				add("notified-within-block-interval", "notification at %v: no production starts within one block interval (%v) after %s, i.e. by %v; next start after the notification: %s", a, B, what, deadline, next)
			}
		}
		// (3) the gap that FOLLOWS production i is bounded by the idle interval, or, when production i itself outlasts
		// the idle interval, by its duration plus one block interval
		bound := func(i int) time.Duration {
			if di := p.dur(i); di >= I {
				return di + B
			}
			return I
		}
		if S[0] > I {
			add("idle-interval", "the first production starts at %v, later than %v after the loop started", S[0], I)
		}
		for i := 1; i < len(S); i++ {
			if g := S[i] - S[i-1]; g > bound(i-1) {
				add("idle-interval", "no production starts for %v (between %v and %v), longer than the allowed %v (idle interval %v, production %v)", g, S[i-1], S[i], bound(i-1), I, p.dur(i-1))
			}
		}
		if last := S[len(S)-1]; T-last > bound(len(S)-1) {
			add("idle-interval", "after the production at %v nothing starts for more than %v (observed until %v)", last, bound(len(S)-1), T)
		}
		return
	}
	// (4) the gap that FOLLOWS production i is exactly one block interval, or, when production i itself takes a block
	// interval or longer, between its duration and its duration plus one block interval
	lohi := func(i int) (time.Duration, time.Duration) {
		if di := p.dur(i); di >= B {
			return di, di + B
		}
		return B, B
	}
	if S[0] > B {
		add("normal-period", "the first production starts at %v, later than one block interval after the loop started", S[0])
	}
	for i := 1; i < len(S); i++ {
		lo, hi := lohi(i - 1)
		if g := S[i] - S[i-1]; g < lo || g > hi {
			add("normal-period", "productions at %v and %v are %v apart; normal mode produces once per block interval (allowed gap %v..%v after a production of %v)", S[i-1], S[i], g, lo, hi, p.dur(i-1))
		}
	}
	if _, hi := lohi(len(S) - 1); T-S[len(S)-1] > hi {
		add("normal-period", "after the production at %v nothing starts for more than %v (observed until %v)", S[len(S)-1], hi, T)
	}
	if len(res.notifs) > 0 {
		if b := baseline(); fmtTimes(b) != fmtTimes(S) {
			add("normal-regardless-of-notifications", "start times differ from the run without notifications, which are [%s]", fmtTimes(b))
		}
	}
	return
}

// combos enumerates all k-subsets of {0..n-1} for k = 0..maxK in lexicographic order.
func combos(n, maxK int, f func([]int)) {
	var rec func(start int, cur []int)
	rec = func(start int, cur []int) {
		f(append([]int(nil), cur...))
		if len(cur) == maxK {
			return
		}
		for i := start; i < n; i++ {
			rec(i+1, append(cur, i))
		}
	}
	rec(0, nil)
}

type grid struct {
	maxNotif       int
	maxNotifReaper int
	tieReps        int
	durations      func(B time.Duration) []time.Duration
	seq            []seqPass
	start          []startPass
}

// frac is a production duration as a fraction of the block interval.
type frac struct{ num, den int64 }

func (f frac) of(B time.Duration) time.Duration {
	return B * time.Duration(f.num) / time.Duration(f.den)
}
func (f frac) String() string {
	if f.den == 1 {
		return strconv.FormatInt(f.num, 10)
	}
	return fmt.Sprintf("%d/%d", f.num, f.den)
}

// seqAlphabet: durations (in block intervals) that the sequenced productions draw from: instant, shorter than the
// interval, exactly the interval, an overrun by half an interval, an overrun by several intervals.
var seqAlphabet = []frac{{0, 1}, {3, 10}, {1, 1}, {3, 2}, {7, 2}}

// seqPass: every word of length L over seqAlphabet as the durations of the first L productions, every tail duration,
// both modes, every set of minNotif..maxNotif notification instants on the k·(block interval/qdiv) ± δ grid up to
// Point.notifRange.
type seqPass struct {
	L                  int
	tails              []frac
	minNotif, maxNotif int
	qdiv               int
}

func (sp seqPass) describe() string {
	return fmt.Sprintf("length %d, then every production takes one of %v block intervals; %d..%d notifications, quantum 1/%d block interval", sp.L, sp.tails, sp.minNotif, sp.maxNotif, sp.qdiv)
}

// lazyVariants: idle ± 1 ns orders the idle timer deterministically before/after a coinciding block timer; idle-1ns
// with idle == block would make the idle interval shorter than the block interval (outside the property's
// configurations), so only +1 ns there.
func lazyVariants(c cfgT, lazy bool) []int64 {
	if !lazy {
		return []int64{0}
	}
	if c.Idle > c.Block {
		return []int64{0, 1, -1}
	}
	return []int64{0, 1}
}

func (g grid) enumerateSeq(f func(p Point)) {
	for _, sp := range g.seq {
		word := make([]int, sp.L)
		for ci, c := range cfgs {
			for {
				seq := make([]int64, sp.L)
				for i, a := range word {
					seq[i] = int64(seqAlphabet[a].of(c.Block))
				}
				for _, tail := range sp.tails {
					for _, lazy := range []bool{true, false} {
						for _, e := range lazyVariants(c, lazy) {
							proto := Point{Cfg: ci, EpsNs: e, D: int64(tail.of(c.Block)), Lazy: lazy, Seq: seq, QDiv: sp.qdiv}
							// same rule as on the plain grid: a production that outlasts both intervals leaves the order of the
							// two timers to the runtime
							reps := 1
							if lazy && proto.maxd() >= proto.idle() {
								reps = g.tieReps
							}
							for rep := 0; rep < reps; rep++ {
								combos(proto.slots(), sp.maxNotif, func(s []int) {
									if len(s) >= sp.minNotif {
										q := proto
										q.Slots, q.Rep = s, rep
										f(q)
									}
								})
							}
						}
					}
				}
				// next word
				i := sp.L - 1
				for ; i >= 0; i-- {
					if word[i]++; word[i] < len(seqAlphabet) {
						break
					}
					word[i] = 0
				}
				if i < 0 {
					break
				}
			}
		}
	}
}

func (g grid) enumerate(f func(p Point)) {
	for ci, c := range cfgs {
		for _, d := range g.durations(c.Block) {
			for _, lazy := range []bool{true, false} {
				for _, e := range lazyVariants(c, lazy) {
					// a production that outlasts BOTH intervals re-arms both timers to "end + 1 ms": the order in which
					// select serves them is the runtime's pseudo-random pick, not ours; those points are run g.tieReps times
					reps := 1
					if lazy && d >= c.Idle+time.Duration(e) {
						reps = g.tieReps
					}
					for rep := 0; rep < reps; rep++ {
						combos(nslots(c), g.maxNotif, func(s []int) {
							f(Point{Cfg: ci, EpsNs: e, D: int64(d), Lazy: lazy, Slots: s, Rep: rep})
						})
					}
				}
				if lazy {
					combos(nslots(c), g.maxNotifReaper, func(s []int) {
						if len(s) > 0 {
							f(Point{Cfg: ci, D: int64(d), Lazy: true, Reaper: true, Slots: s})
						}
					})
				}
			}
		}
	}
}

func shard() (i, n int) {
	if sp := os.Getenv("VERIF_SHARD"); sp != "" {
		var a, b int
		if _, err := fmt.Sscanf(sp, "%d/%d", &a, &b); err == nil && b > 0 {
			return a, b
		}
	}
	return 0, 1
}

func TestCheck(t *testing.T) {
	r := vf.Start("C17", "exploration")
	if r.RunShards(16) { // bubble-heavy: one process per shard of the grid
		return
	}
	g := grid{
		maxNotif:       vf.Pick(r, 3, 4),
		maxNotifReaper: vf.Pick(r, 2, 3),
		tieReps:        4,
		durations: func(B time.Duration) []time.Duration {
			ds := []time.Duration{0, B / 2, B, 3 * B / 2}
			// 1½ block intervals minus 1 ms: the catch-up timer (end of production + 1 ms) then falls ON a grid instant,
			// so notifications land 1 ns before / after it
			ds = append(ds, 3*B/2-time.Millisecond)
			return ds
		},
	}
	// production durations that VARY within one run (a history: e.g. one overrun, then short productions again)
	if r.Thorough() {
		g.seq = []seqPass{
			{L: 4, tails: []frac{{0, 1}, {3, 10}}, minNotif: 0, maxNotif: 1, qdiv: 4},
			{L: 3, tails: []frac{{0, 1}}, minNotif: 2, maxNotif: 2, qdiv: 2},
		}
	} else {
		g.seq = []seqPass{{L: 3, tails: []frac{{0, 1}}, minNotif: 0, maxNotif: 1, qdiv: 4}}
	}
	// START HISTORIES (start_test.go): the loop's start relative to the last stored block / the genesis time, restarts
	blockAnchors := []frac{{-longAgo, 1}, {-3, 2}, {-1, 1}, {-7, 10}, {-3, 10}, {0, 1}}
	genesisAnchors := []frac{{-1, 1}, {-3, 10}, {0, 1}, {1, 2}, {2, 1}}
	if r.Thorough() {
		g.start = []startPass{{durations: []frac{{0, 1}, {1, 2}, {1, 1}, {3, 2}}, blockAnchors: blockAnchors, genesisAnchors: genesisAnchors,
			stopAfter: []int{1, 2, 3}, stopAfterNewM: []int{1, 2, 3}, restartOffs: []frac{{0, 1}, {3, 10}, {1, 1}, {2, 1}}, maxNotif: 1, allIdleEps: true, qdiv: 4, tieReps: 2}}
	} else {
		g.start = []startPass{{durations: []frac{{0, 1}, {1, 2}, {3, 2}}, blockAnchors: blockAnchors, genesisAnchors: genesisAnchors,
			stopAfter: []int{1, 2}, stopAfterNewM: []int{1}, restartOffs: []frac{{0, 1}, {3, 10}, {1, 1}}, maxNotif: 1, qdiv: 2, tieReps: 1}}
	}
	r.Assume = []string{
		"virtual time (testing/synctest); a production takes exactly the chosen virtual duration (one duration d per run on the plain grid; in the duration-history part the i-th production of the run takes the i-th duration of the word and every later one the tail duration); everything else the loop does takes no virtual time",
		"normal mode after an overrun: 'produced once per block interval' is read as: the interval that follows a production shorter than the block interval is exactly one block interval whatever happened before it, and no two productions ever start less than one block interval apart (no catch-up burst); after a production of d >= one block interval the next one starts between d and d + one block interval later",
		"plain grid and duration histories: genesis time = start of the run minus one block interval on an empty store, so the loop's start-up delay is 0 and the loop is started once. START HISTORIES part: the start-up delay is a dimension (see bounds.start_histories); there the production function is the real publishBlock wrapped by the recorder, the sequencing double stamps each batch with the current virtual time (as sequencers/single does), so block time = instant the production starts, and the height / State.LastBlockTime that a (re)started loop reads are the ones the real code stored",
		"'never faster than one per block interval' is read across loop starts: the first production of a (re)started loop is the successor of the block already in the store, and the first block of a chain is the successor of the genesis state, whose LastBlockTime the code itself sets to the genesis time; so it may not start earlier than (stored last block time | genesis time) + one block interval. The liveness clauses of a loop are counted from the instant it is started or that earliest allowed instant, whichever is later; no obligation is derived from a notification delivered while no loop runs or whose deadline lies at or after the cancellation of the first loop",
		"restart = cancel the loop's context at the instant its k-th production returns, wait until AggregationLoop has returned, start AggregationLoop again on the same Manager and store (Manager fields such as txsAvailable and a token in the notification channel survive, as does lastState), or — restart_with_new_manager — on a new block.Manager built over the persisted store image, which is what a restart of the process does (in-memory fields are gone, lastState is read back from the store)",
		"at the start of a lazy loop both timers are armed with 0 (and a notification may be pending): which ready case the first select takes is the runtime's pick; every resolution observed is checked",
		"notifications at grid instants ±1 ns (±100 ns when the idle interval is off by 1 ns): a notification never coincides with a timer of the loop, both orders are separate grid points",
		"when both timers of the lazy loop (or a timer and the notification channel) are ready at the same virtual instant, Go's select picks pseudo-randomly; the variants with idle interval ±1 ns enumerate both orders of idle timer vs block timer deterministically; the remaining ties (both timers re-armed to 'end of production + 1 ms' when a production outlasts BOTH intervals, i.e. block:idle 1:1 with d >= 1 block interval) are resolved by the runtime and every resolution observed is checked",
		"the deadline of a notification that arrives during a production is counted from the end of that production; the bounds for productions that outlast an interval are the weakest ones (next start within one block interval after the long production ends)",
	}

	var baseMu sync.Mutex
	baseCache := map[string][]time.Duration{}
	baselineFor := func(p Point) func() []time.Duration {
		return func() []time.Duration {
			q := Point{Cfg: p.Cfg, D: p.D, Lazy: false, Seq: p.Seq, QDiv: p.QDiv, Start: p.Start}
			k := fmt.Sprintf("%d/%d/%v", q.Cfg, q.D, q.Seq)
			if p.Start != nil {
				k += fmt.Sprintf("/%+v", *p.Start)
			}
			baseMu.Lock()
			b, ok := baseCache[k]
			baseMu.Unlock()
			if ok {
				return b
			}
			b = runPoint(t, q).starts
			baseMu.Lock()
			baseCache[k] = b
			baseMu.Unlock()
			return b
		}
	}

	var unchecked, obligations, duringProd, seqEvals, plainSamples, seqSamples atomic.Int64
	var startEvals, startExempt, startWaits, startRestarts, startRestartWaits, startNotifInWait, startSamples atomic.Int64
	evalOne := func(p Point, verbose bool) {
		res := runPoint(t, p)
		if res.err != "" {
			r.EngineError(res.err + " — " + p.describe(res))
			return
		}
		var fails []fail
		var un int
		if p.Start != nil {
			var ex int
			fails, un, ex = oracleStart(p, res, baselineFor(p), res.prodErr != "")
			if res.prodErr != "" {
				if len(fails) == 0 {
					r.EngineError(res.prodErr + " — " + p.describe(res))
					return
				}
				for i := range fails {
					fails[i].msg += "\n   (the run ended early: " + res.prodErr + ")"
				}
			}
			startEvals.Add(1)
			startExempt.Add(int64(ex))
			for j, l := range res.loops {
				ready := max(l.at, l.anchor+p.block())
				if ready > l.at {
					startWaits.Add(1)
					if j == 1 {
						startRestartWaits.Add(1)
					}
					for _, a := range res.notifs {
						if a > l.at && a < ready {
							startNotifInWait.Add(1)
						}
					}
				}
				if j == 1 {
					startRestarts.Add(1)
				}
			}
			if len(fails) == 0 && p.Start.StopAfter > 0 && len(res.loops) != 2 && res.prodErr == "" {
				r.EngineError("a requested restart was not played out within the observation window — " + p.describe(res))
			}
		} else {
			fails, un = oracle(p, res, baselineFor(p))
		}
		unchecked.Add(int64(un))
		obligations.Add(int64(len(res.notifs)))
		for k := range res.notifs {
			if _, ok := inflightEnd(res, p, k); ok {
				duringProd.Add(1)
			}
		}
		if verbose {
			fmt.Println(p.describe(res))
		}
		for _, f := range fails {
			cost := 100*len(p.Slots) + 10*int(4*p.d()/p.block()) + 3*p.Cfg + int(p.EpsNs*p.EpsNs) + map[bool]int{true: 1}[p.Reaper]
			for i := range p.Seq {
				cost += 10 * int(4*p.dur(i)/p.block())
			}
			if st := p.Start; st != nil {
				cost += 5 + 40*st.StopAfter + int(4*st.restart()/p.block())
				if a := st.anchor(); a > -longAgo*p.block() {
					cost += 2 + int(4*(a+2*p.block())/p.block())
				}
			}
			r.Report(vf.Violation{Clause: f.clause, Tags: f.tags, Msg: f.msg, Cost: cost, History: p})
		}
		if len(p.Seq) > 0 && len(fails) == 0 && len(res.starts) <= len(p.Seq) {
			r.EngineError("a duration sequence was not played out within the observation window — " + p.describe(res))
		}
		mode := "N"
		if p.Lazy {
			mode = "L"
		}
		sig := fmt.Sprintf("%s B=%v I=%v d=%v: %s", mode, p.block(), p.idle(), p.d(), fmtTimes(res.starts))
		if len(p.Seq) > 0 {
			// there are a few hundred thousand of these: keep a 64-bit digest of the same signature
			h := fnv.New64a()
			fmt.Fprintf(h, "%v %s", p.Seq, sig)
			sig = fmt.Sprintf("seq:%016x", h.Sum64())
			seqEvals.Add(1)
		}
		if st := p.Start; st != nil {
			h := fnv.New64a()
			fmt.Fprintf(h, "%+v %s", *st, sig)
			sig = fmt.Sprintf("start:%016x", h.Sum64())
			if len(p.Slots) == 1 && p.Lazy && p.Cfg == 1 && p.D > 0 && st.StopAfter == 1 && st.AnchorNs == -int64(3*p.block()/10) && st.RestartNs > 0 && p.Slots[0]%9 == 4 && startSamples.Add(1) <= 3 {
				r.Sample(map[string]any{"point": p, "run": p.describe(res)})
			}
		}
		if len(fails) > 0 {
			sig = "fail:" + fails[0].clause + " " + sig
		}
		r.Outcome(sig)
		if len(p.Seq) > 0 && len(p.Slots) == 1 && p.Cfg == 1 && p.EpsNs == 0 && p.Rep == 0 && p.Seq[0] > p.Seq[1] && p.Seq[1] > p.Seq[2] && p.Seq[2] > 0 && p.Slots[0]%13 == 5 && seqSamples.Add(1) <= 3 {
			r.Sample(map[string]any{"point": p, "run": p.describe(res)})
		}
		if len(p.Slots) == 2 && p.Lazy && p.Cfg == 2 && p.D > 0 && p.Slots[0]%7 == 3 && p.Slots[1]%11 == 5 && plainSamples.Add(1) <= 3 {
			r.Sample(map[string]any{"point": p, "run": p.describe(res)})
		}
	}

	if r.ReplayPath() != "" {
		var p Point
		if _, err := r.LoadReplay(&p); err != nil {
			r.EngineError(err.Error())
		} else if p.Cfg < 0 || p.Cfg >= len(cfgs) || (p.Start != nil && !p.Start.EmptyStore && p.Start.AnchorNs > 0) {
			r.EngineError("replay: bad configuration index")
		} else {
			evalOne(p, true)
		}
		r.Finish(vf.Coverage{Evaluations: 1, DistinctNontrivial: int64(r.DistinctOutcomes())})
		return
	}

	si, sn := shard()
	workers := runtime.GOMAXPROCS(0)
	if w, err := strconv.Atoi(os.Getenv("VERIF_WORKERS")); err == nil && w > 0 {
		workers = w
	}
	work := make(chan Point, 256)
	var wg sync.WaitGroup
	var evals atomic.Int64
	for w := 0; w < workers; w++ {
		wg.Add(1)
		go func() {
			defer wg.Done()
			for p := range work {
				evalOne(p, false)
				evals.Add(1)
			}
		}()
	}
	idx := 0
	total := 0
	perCfg := map[string]int{}
	deal := func(p Point) {
		if idx%sn == si {
			work <- p
		}
		idx++
	}
	g.enumerate(func(p Point) {
		deal(p)
		total++
		perCfg[fmt.Sprintf("%v:%v", p.block(), cfgs[p.Cfg].Idle)]++
	})
	seqTotal, seqNormal, seqWords := 0, 0, map[string]bool{}
	seqPerCfg := map[string]int{}
	g.enumerateSeq(func(p Point) {
		deal(p)
		seqTotal++
		if !p.Lazy {
			seqNormal++
		}
		seqWords[fmt.Sprint(p.Cfg, p.Seq, p.D)] = true
		seqPerCfg[fmt.Sprintf("%v:%v", p.block(), cfgs[p.Cfg].Idle)]++
	})
	startTotal, startLazy, startWithRestart := 0, 0, 0
	startSpecs := map[string]bool{}
	startPerCfg := map[string]int{}
	g.enumerateStart(func(p Point) {
		deal(p)
		startTotal++
		if p.Lazy {
			startLazy++
		}
		if p.Start.StopAfter > 0 {
			startWithRestart++
		}
		startSpecs[fmt.Sprintf("%+v", *p.Start)] = true
		startPerCfg[fmt.Sprintf("%v:%v", p.block(), cfgs[p.Cfg].Idle)]++
	})
	close(work)
	wg.Wait()

	if u := unchecked.Load(); u != 0 {
		r.EngineError(fmt.Sprintf("%d notification obligations fell due after the end of the observation window", u))
	}
	var seqPasses []string
	for _, sp := range g.seq {
		seqPasses = append(seqPasses, sp.describe())
	}
	var startPasses []map[string]any
	for _, sp := range g.start {
		startPasses = append(startPasses, sp.describe())
	}
	ks := make([]string, 0, len(perCfg))
	for k := range perCfg {
		ks = append(ks, k)
	}
	sort.Strings(ks)
	r.Finish(vf.Coverage{
		Evaluations: evals.Load(), DistinctNontrivial: int64(r.DistinctOutcomes()), Transitions: obligations.Load(),
		Rule:       "every grid point is one execution of the real AggregationLoop under virtual time: block:idle interval × production duration × {lazy, normal} × (lazy only) idle interval {exact, +1 ns, -1 ns} × every set of at most max_notifications instants from {k·¼ block interval ± 1 ns, k·¼ block interval <= two idle intervals}, plus (lazy) the same sets up to max_notifications_via_reaper delivered by the real Reaper.SubmitTxs. DURATION HISTORIES (production durations that vary within one run): every word of length duration_sequences.length over duration_sequences.alphabet gives the durations of the first productions of a run, every later production takes the tail duration; × block:idle × {lazy (idle exact, +1 ns, -1 ns), normal} × every set of notification instants of the stated sizes from {k·quantum ± 1 ns <= the instant by which all sequenced productions have run at one per interval (or back to back when longer) plus two further intervals}; the oracle bounds of a gap are those of the production that precedes it (exactly one block interval in normal mode after a production shorter than the interval — in particular after an EARLIER overrun —, never less than one block interval in either mode). START HISTORIES (how the loop is started, and restarted): the store holds one block produced by the real publishBlock whose time is the loop start plus one of start_histories.stored_block_time_minus_loop_start, or is empty with the genesis time at loop start plus one of start_histories.genesis_time_minus_loop_start; × no restart, or the loop is cancelled at the instant its k-th production ends and AggregationLoop is started again on the same Manager/store after each listed offset; × block:idle × production duration × {lazy, normal} × every set of at most start_histories.max_notifications instants from the shifted k·quantum ± 1 ns grid that spans the initial wait, the first loop, the downtime, the second loop's wait and two further intervals. There the recorder wraps the REAL publishBlock (block time = production start, stored height and State.LastBlockTime written by the real code) and the oracle adds to min-spacing: consecutive production starts across the restart are at least one block interval apart and the first production of every loop starts no earlier than (stored last block time | genesis time) + one block interval; the other clauses are applied per loop, counted from the instant the loop is ready; distinct = distinct (mode, configuration, production start times) signatures; transitions = notifications delivered",
		Exhaustive: true,
		Bounds: map[string]any{
			"block:idle":                        []string{"1s:1s", "1s:2s", "1s:3s", "2s:3s"},
			"production_duration_in_blocks":     []string{"0", "1/2", "1", "3/2", "3/2-1ms"},
			"max_notifications":                 g.maxNotif,
			"max_notifications_via_reaper":      g.maxNotifReaper,
			"notification_quantum":              "1/4 block interval, each instant at -1ns and +1ns, up to two idle intervals",
			"grid_points_total":                 total,
			"grid_points_per_block:idle":        perCfg,
			"repetitions_of_runtime_tie_points": g.tieReps,
			"duration_sequences": map[string]any{
				"alphabet_in_blocks":                fmt.Sprint(seqAlphabet),
				"passes":                            seqPasses,
				"distinct_(block:idle,word,tail)":   len(seqWords),
				"grid_points_total":                 seqTotal,
				"grid_points_normal_mode":           seqNormal,
				"grid_points_lazy_mode":             seqTotal - seqNormal,
				"grid_points_per_block:idle":        seqPerCfg,
				"notification_delivery":             "Manager.NotifyNewTransactions only (no Reaper variant in this part)",
				"notification_range_in_this_part":   "sum over the sequenced productions of max(W, duration) + 2W, W = idle interval (lazy) or block interval (normal)",
				"repetitions_of_runtime_tie_points": g.tieReps,
			},
			"start_histories": map[string]any{
				"passes":                             startPasses,
				"distinct_(anchor_ns,restart)_specs": len(startSpecs),
				"grid_points_total":                  startTotal,
				"grid_points_lazy_mode":              startLazy,
				"grid_points_normal_mode":            startTotal - startLazy,
				"grid_points_with_a_restart":         startWithRestart,
				"grid_points_per_block:idle":         startPerCfg,
				"production_function":                "real publishBlock wrapped by the recorder",
				"notification_delivery":              "Manager.NotifyNewTransactions only",
			},
		},
		Extra: map[string]any{"counts_of_the_reporting_shard": map[string]any{
			"note":                                "measured by the process that wrote this record (shard 0 of process_shards, i.e. every 16th grid point, when sharded)",
			"executions":                          evals.Load(),
			"notifications_delivered":             obligations.Load(),
			"notifications_during_a_production":   duringProd.Load(),
			"executions_with_a_duration_sequence": seqEvals.Load(),
			"start_histories": map[string]any{
				"executions":                                        startEvals.Load(),
				"loop_starts_that_had_to_wait":                      startWaits.Load(),
				"restarts_executed":                                 startRestarts.Load(),
				"restarts_that_had_to_wait":                         startRestartWaits.Load(),
				"notifications_delivered_during_a_start_wait":       startNotifInWait.Load(),
				"notifications_exempt_(no_loop_running_or_stopped)": startExempt.Load(),
			},
		}},
	})
}
