package c20

import (
	"context"
	"crypto/sha256"
	"encoding/binary"
	"errors"
	"fmt"
	"math/bits"
	"os"
	"runtime"
	"runtime/debug"
	"sort"
	"strconv"
	"strings"
	"sync"
	"sync/atomic"
	"testing"
	"time"

	logging "github.com/ipfs/go-log/v2"

	coreda "github.com/evstack/ev-node/core/da"
	coresequencer "github.com/evstack/ev-node/core/sequencer"
	"github.com/evstack/ev-node/sequencers/based"

	"verif/harness/explore"
	"verif/harness/vf"
	"verif/harness/world"
)

// C20 — based sequencer: DA-ordered, size-bounded, restart-safe batches.
//
// Explicit-state search over action histories {next batch, DA tip +1, retrieval error on the next DA call, restart}
// against the real based.Sequencer (sequencers/based/sequencer.go, persistent_pending_txs.go) on the logging
// datastore double and a small DA double, for every DA content / size limit / drift within the bounds.
// Reference model: the flat list of all transactions in DA order (height, then position).
//
// The oracle is black box: it looks only at the answers of GetNextBatch, at what the DA double was asked and what it
// answered (which heights were handed over, which were refused as "from the future"), and at the configuration.
// Decision for limits smaller than a single transaction (the statement demands "never releases a batch larger than
// the requested size" and "never drops or reorders a transaction that did not fit"): an oversized transaction must
// never be released and nothing may overtake it; a sequencer that stays stuck on it forever violates no stated clause.
//
// Part 2 (crowded_test.go): DA heights with more transactions than one retrieval batch of types.RetrieveWithHelpers
// (N around every multiple of the measured batch size, alone and between small heights), limits that cut such a
// height into carry-overs, one retrieval error at every DA operation and one restart before every call.
//
// Observation (not a clause of C20): GetNextBatch answers (nil, nil) when it has nothing; the block manager
// (block/manager.go retrieveBatch) tolerates a nil response, so this is counted in the evidence but not reported.

const chainID = "c20"

var (
	logger     = logging.Logger("c20")
	loggerOnce sync.Once
)

// ---------------------------------------------------------------------------------------------------------------
// DA contents

type txInfo struct {
	h    int // 1-based DA height
	pos  int
	data []byte
	id   []byte
}

func (t txInfo) String() string { return fmt.Sprintf("%d%c/%d", t.h, 'a'+t.pos, len(t.data)) }

type content struct {
	sizes [][]int // sizes[h-1] = transaction sizes at DA height h
	flat  []txInfo
	byTx  map[string]int
	atH   [][]int  // atH[h] = flat indices at height h (index 0 unused)
	maskH []uint32 // maskH[h] = bit set of flat indices at height h
	blobs map[string][]byte
}

func mkContent(sizes [][]int) *content {
	c := &content{sizes: sizes, byTx: map[string]int{}, blobs: map[string][]byte{}}
	c.atH = make([][]int, len(sizes)+1)
	c.maskH = make([]uint32, len(sizes)+1)
	for hi, row := range sizes {
		h := hi + 1
		for pos, sz := range row {
			data := make([]byte, sz)
			data[0] = byte(0x10*h + pos + 1) // distinct per (height, position): order is observable
			for k := 1; k < sz; k++ {
				data[k] = byte(0xA0 + k)
			}
			sum := sha256.Sum256(data)
			id := make([]byte, 8+len(sum))
			binary.LittleEndian.PutUint64(id, uint64(h)) // same id layout as core/da DummyDA: coreda.SplitID works
			copy(id[8:], sum[:])
			idx := len(c.flat)
			c.flat = append(c.flat, txInfo{h: h, pos: pos, data: data, id: id})
			c.byTx[string(data)] = idx
			c.atH[h] = append(c.atH[h], idx)
			c.maskH[h] |= 1 << idx
			c.blobs[string(id)] = data
		}
	}
	return c
}

func (c *content) String() string {
	var sb strings.Builder
	for hi, row := range c.sizes {
		fmt.Fprintf(&sb, "h%d=%v ", hi+1, row)
	}
	return strings.TrimSpace(sb.String())
}

func (c *content) visibleMask(tip int) uint32 {
	var m uint32
	for h := 1; h <= tip && h < len(c.maskH); h++ {
		m |= c.maskH[h]
	}
	return m
}

func (c *content) names(idxs []int) string {
	s := make([]string, len(idxs))
	for i, x := range idxs {
		if x < 0 {
			s[i] = "?"
		} else {
			s[i] = c.flat[x].String()
		}
	}
	return "[" + strings.Join(s, " ") + "]"
}

func (c *content) maskNames(m uint32) string {
	var idxs []int
	for m != 0 {
		i := bits.TrailingZeros32(m)
		idxs = append(idxs, i)
		m &^= 1 << i
	}
	return c.names(idxs)
}

// ---------------------------------------------------------------------------------------------------------------
// DA double: per-height ordered blobs prepared in advance, revealed by a tip height; heights above the tip answer
// "given height is from the future", empty heights answer an empty id list (as DummyDA); the next GetIDs can be made
// to fail.

const (
	pOK = iota
	pEmpty
	pFuture
	pError
)

type probe struct {
	h    int
	kind int
}

type daDouble struct {
	c        *content
	tip      int
	errArmed bool
	probes   []probe
}

var _ coreda.DA = (*daDouble)(nil)

func daTime(h uint64) time.Time { return time.Unix(1_700_000_000+int64(h), 0).UTC() }

func (d *daDouble) GetIDs(ctx context.Context, height uint64, ns []byte) (*coreda.GetIDsResult, error) {
	if d.errArmed {
		d.errArmed = false
		d.probes = append(d.probes, probe{int(height), pError})
		return nil, errors.New("injected retrieval failure")
	}
	if height > uint64(d.tip) {
		d.probes = append(d.probes, probe{int(height), pFuture})
		return nil, fmt.Errorf("%w: requested %d, current %d", coreda.ErrHeightFromFuture, height, d.tip)
	}
	if height == 0 || int(height) >= len(d.c.atH) || len(d.c.atH[height]) == 0 {
		d.probes = append(d.probes, probe{int(height), pEmpty})
		return &coreda.GetIDsResult{IDs: []coreda.ID{}, Timestamp: daTime(height)}, nil
	}
	ids := make([]coreda.ID, 0, len(d.c.atH[height]))
	for _, i := range d.c.atH[height] {
		ids = append(ids, append([]byte(nil), d.c.flat[i].id...))
	}
	d.probes = append(d.probes, probe{int(height), pOK})
	return &coreda.GetIDsResult{IDs: ids, Timestamp: daTime(height)}, nil
}

func (d *daDouble) Get(ctx context.Context, ids []coreda.ID, ns []byte) ([]coreda.Blob, error) {
	out := make([]coreda.Blob, 0, len(ids))
	for _, id := range ids {
		b, ok := d.c.blobs[string(id)]
		if !ok {
			return nil, coreda.ErrBlobNotFound
		}
		out = append(out, append([]byte(nil), b...))
	}
	return out, nil
}

func (d *daDouble) GetProofs(ctx context.Context, ids []coreda.ID, ns []byte) ([]coreda.Proof, error) {
	return nil, errors.New("not used")
}
func (d *daDouble) Commit(ctx context.Context, blobs []coreda.Blob, ns []byte) ([]coreda.Commitment, error) {
	return nil, errors.New("not used")
}
func (d *daDouble) Submit(ctx context.Context, blobs []coreda.Blob, gp float64, ns []byte) ([]coreda.ID, error) {
	return nil, errors.New("not used")
}
func (d *daDouble) SubmitWithOptions(ctx context.Context, blobs []coreda.Blob, gp float64, ns []byte, o []byte) ([]coreda.ID, error) {
	return nil, errors.New("not used")
}
func (d *daDouble) Validate(ctx context.Context, ids []coreda.ID, proofs []coreda.Proof, ns []byte) ([]bool, error) {
	return nil, errors.New("not used")
}
func (d *daDouble) GasPrice(ctx context.Context) (float64, error)      { return 1, nil }
func (d *daDouble) GasMultiplier(ctx context.Context) (float64, error) { return 1, nil }

// ---------------------------------------------------------------------------------------------------------------
// one node: the real sequencer on a datastore image, its DA, and the caller's cursor (LastBatchData)

type config struct {
	c     *content
	limit uint64 // request MaxBytes (0 = default)
	drift uint64
}

func (cf *config) effLimit() uint64 {
	if cf.limit == 0 {
		return based.DefaultMaxBlobSize
	}
	return cf.limit
}

func (cf *config) String() string {
	l := fmt.Sprint(cf.limit)
	if cf.limit == 0 {
		l = "0(default)"
	}
	return fmt.Sprintf("DA %s; MaxBytes=%s; maxHeightDrift=%d; DA start height 1, tip starts at 1", cf.c, l, cf.drift)
}

type inst struct {
	cf     *config
	kv     *world.KV
	da     *daDouble
	seq    *based.Sequencer
	cursor [][]byte
	engErr string
}

func newInst(cf *config) *inst {
	in := &inst{cf: cf, kv: world.NewKV(nil), da: &daDouble{c: cf.c, tip: 1}}
	in.open()
	return in
}

func (in *inst) open() {
	seq, err := based.NewSequencer(logger, in.da, []byte(chainID), 1, in.cf.drift, in.kv)
	if err != nil {
		in.engErr = "NewSequencer: " + err.Error()
		return
	}
	in.seq = seq
}

func (in *inst) restart() {
	in.kv = world.NewKV(in.kv.Image())
	in.open()
}

type answer struct {
	idxs    []int // flat indices (-1 = not a DA transaction)
	size    uint64
	nilResp bool
	probes  []probe
}

// next is what block/manager.go retrieveBatch does: LastBatchData = BatchData of the previous non-nil answer.
func (in *inst) next() answer {
	in.da.probes = nil
	resp, err := in.seq.GetNextBatch(context.Background(), coresequencer.GetNextBatchRequest{
		Id: []byte(chainID), LastBatchData: in.cursor, MaxBytes: in.cf.limit,
	})
	a := answer{probes: in.da.probes}
	if err != nil {
		// an error answer is a legitimate way to report a failed retrieval (the manager just tries again later);
		// it releases nothing, so it is an empty answer for the oracle — but only when a retrieval failure was
		// really injected during this call
		injected := false
		for _, p := range in.da.probes {
			if p.kind == pError {
				injected = true
			}
		}
		if !injected {
			in.engErr = "GetNextBatch returned an error although no retrieval failure was injected: " + err.Error()
			return a
		}
		a.nilResp = true
		return a
	}
	if resp == nil || resp.Batch == nil {
		a.nilResp = true
		return a
	}
	for _, tx := range resp.Batch.Transactions {
		i, ok := in.cf.c.byTx[string(tx)]
		if !ok {
			i = -1
		}
		a.idxs = append(a.idxs, i)
		a.size += uint64(len(tx))
	}
	in.cursor = resp.BatchData
	return a
}

func (in *inst) stateString() string {
	var sb strings.Builder
	for _, g := range in.seq.VerifPendingSnapshot() {
		sb.WriteByte('(')
		for _, tx := range g {
			fmt.Fprintf(&sb, "%x,", tx)
		}
		sb.WriteByte(')')
	}
	sb.WriteByte('|')
	sb.WriteString(in.kv.Canon())
	sb.WriteByte('|')
	if n := len(in.cursor); n > 0 {
		// the sequencer reads only the last id of the cursor; keep the whole cursor anyway
		for _, id := range in.cursor {
			fmt.Fprintf(&sb, "%x.", id[:9])
		}
	}
	fmt.Fprintf(&sb, "|%d|%v", in.da.tip, in.da.errArmed)
	return sb.String()
}

// ---------------------------------------------------------------------------------------------------------------
// oracle

const (
	clDup = iota
	clOrder
	clOmission
	clCarry
	clSize
	clRestart
	clUnknown
	nClauses
)

var clauseName = [nClauses]string{"no-duplicate", "da-order", "no-omission", "carry-over-first", "size-bound", "restart-equivalence", "only-da-transactions"}

type oracle struct {
	rel     uint32 // released
	maxRel  int
	skipped uint32 // already reported as jumped over
	seenTx  uint32 // handed to the sequencer by the DA (height retrieved successfully)
	futH    uint32 // heights that were answered "from the future"
	pushH   uint32 // heights at which a retrieved transaction was withheld because it did not fit (size so far + tx > limit)
	eqH     uint32 // heights at which a retrieved transaction was withheld although it fitted exactly (size so far + tx == limit)
	fitH    uint32 // heights at which a retrieved transaction was withheld although it fitted with room to spare
	fired   uint32 // clauses already violated in this history
}

func (o *oracle) key() string {
	return fmt.Sprintf("%x.%d.%x.%x.%x.%x.%x.%x.%x", o.rel, o.maxRel, o.skipped, o.seenTx, o.futH, o.pushH, o.eqH, o.fitH, o.fired)
}

// tagsForTx: narrow triggers tied to the transaction the violation is about.
func (o *oracle) tagsForTx(c *content, i int) []string {
	var t []string
	hb := uint32(1) << c.flat[i].h
	if o.pushH&hb != 0 {
		t = append(t, "pushback-occurred") // at this transaction's height
	}
	if o.eqH&hb != 0 {
		t = append(t, "tx-size-equals-remaining") // at this transaction's height
	}
	if o.fitH&hb != 0 {
		t = append(t, "withheld-though-it-fits") // at this transaction's height
	}
	if o.futH&hb != 0 {
		t = append(t, "scan-hit-future-height") // this transaction's height was asked for while it was above the tip
	}
	return t
}

type finding struct {
	clause int
	tags   []string
	msg    string
}

// observe digests one answer of the instance under test; it returns the clauses violated by this answer.
func (o *oracle) observe(cf *config, a answer) []finding {
	c := cf.c
	var out []finding
	lim := cf.effLimit()
	owedBefore := o.seenTx &^ o.rel

	var ansSet uint32
	for _, i := range a.idxs {
		if i >= 0 {
			ansSet |= 1 << i
		}
	}
	// what the DA handed over / refused in this call
	var scanned []int
	for _, p := range a.probes {
		switch p.kind {
		case pOK:
			o.seenTx |= c.maskH[p.h]
			scanned = append(scanned, c.atH[p.h]...)
		case pFuture:
			if p.h < len(c.maskH) { // heights beyond the prepared ones never become visible
				o.futH |= 1 << p.h
			}
		}
	}
	// history features: first retrieved transaction that is not part of this answer
	for _, i := range scanned {
		if ansSet&(1<<i) != 0 {
			continue
		}
		hb := uint32(1) << c.flat[i].h
		if tot := a.size + uint64(len(c.flat[i].data)); tot > lim {
			o.pushH |= hb
		} else if tot == lim {
			o.eqH |= hb
		} else {
			o.fitH |= hb
		}
		break // only the first withheld transaction tells why the answer ended
	}
	// the DA was queried in a call that left previously handed-over transactions unreleased
	carryScan := len(a.probes) > 0 && owedBefore&^ansSet != 0

	// size-bound
	if a.size > lim {
		out = append(out, finding{clSize, nil, fmt.Sprintf("answer %s has %d bytes, limit %d", c.names(a.idxs), a.size, lim)})
	}
	// sequence clauses
	for _, i := range a.idxs {
		if i < 0 {
			out = append(out, finding{clUnknown, nil, "answer contains a transaction that is not on the DA layer"})
			continue
		}
		b := uint32(1) << i
		if o.rel&b != 0 {
			out = append(out, finding{clDup, o.tagsForTx(c, i), fmt.Sprintf("%s released a second time (answer %s)", c.flat[i], c.names(a.idxs))})
			continue
		}
		if i < o.maxRel {
			out = append(out, finding{clOrder, o.tagsForTx(c, i), fmt.Sprintf("%s released after the later %s (answer %s)", c.flat[i], c.flat[o.maxRel], c.names(a.idxs))})
		}
		if lower := (b - 1) &^ o.rel &^ o.skipped; lower != 0 {
			j := bits.TrailingZeros32(lower)
			o.skipped |= lower
			if o.seenTx&(1<<j) != 0 {
				tg := o.tagsForTx(c, j)
				if carryScan {
					tg = append(tg, "carryover-nonempty-while-scanning")
				}
				out = append(out, finding{clCarry, tg, fmt.Sprintf("%s was handed to the sequencer, was not released, and %s was released before it (answer %s)", c.flat[j], c.flat[i], c.names(a.idxs))})
			} else {
				out = append(out, finding{clOmission, o.tagsForTx(c, j), fmt.Sprintf("%s (visible, never fetched) was jumped over: %s released before it (answer %s)", c.flat[j], c.flat[i], c.names(a.idxs))})
			}
		}
		o.rel |= b
		if i > o.maxRel {
			o.maxRel = i
		}
	}
	return out
}

// drain: with no more errors and a fixed tip, keep asking until tip+2 consecutive answers bring nothing new. Every
// visible transaction must then have been released, unless the first missing one is larger than the limit (stuck, allowed).
// Only the omission question is decided here; the instance is consumed.
func (o *oracle) drain(in *inst) []finding {
	cf := in.cf
	c := cf.c
	in.da.errArmed = false
	rel := o.rel
	seen := o.seenTx
	visible := c.visibleMask(in.da.tip)
	if visible&^rel == 0 {
		return nil
	}
	streak, dupsOnly, calls := 0, false, 0
	for streak < in.da.tip+2 {
		a := in.next()
		calls++
		if in.engErr != "" {
			return nil
		}
		for _, p := range a.probes {
			if p.kind == pOK {
				seen |= c.maskH[p.h]
			}
		}
		fresh := false
		for _, i := range a.idxs {
			if i >= 0 && rel&(1<<i) == 0 {
				rel |= 1 << i
				fresh = true
			}
		}
		if fresh {
			streak = 0
			dupsOnly = false
		} else {
			streak++
			if len(a.idxs) > 0 {
				dupsOnly = true
			}
		}
	}
	missing := visible &^ rel
	if missing == 0 {
		return nil
	}
	j := bits.TrailingZeros32(missing)
	if rel&((1<<j)-1) == (uint32(1)<<j)-1 && uint64(len(c.flat[j].data)) > cf.effLimit() {
		return nil // stuck on a transaction larger than the limit: nothing released out of order, nothing oversized
	}
	tags := o.tagsForTx(c, j)
	if dupsOnly {
		tags = append(tags, "only-duplicates-while-draining")
	}
	msg := fmt.Sprintf("after the history, %d further calls (tip fixed at %d, no errors; the last %d brought nothing new) still have not released %s", calls, in.da.tip, in.da.tip+2, c.maskNames(missing))
	if seen&(1<<j) != 0 {
		return []finding{{clCarry, tags, msg + "; " + c.flat[j].String() + " had been handed to the sequencer (dropped carry-over)"}}
	}
	return []finding{{clOmission, tags, msg + "; the height of " + c.flat[j].String() + " was never fetched successfully"}}
}

// ---------------------------------------------------------------------------------------------------------------
// running one history

const (
	aNext = iota
	aGrow
	aErr
	aRestart
	nActions
)

type replay struct {
	Sizes [][]int  `json:"sizes"`
	Limit uint64   `json:"limit"`
	Drift uint64   `json:"drift"`
	Hist  []int    `json:"hist"`
	Trace []string `json:"trace,omitempty"`
	// part 2 (crowded DA heights): if set, the other fields are unused
	Crowded *bigSpec `json:"crowded,omitempty"`
}

type result struct {
	key      string
	prune    bool
	engErr   string
	findings []finding
	trace    []string
	nilNil   int
	pattern  string
}

// drained, if not nil, remembers the states whose drain was already evaluated (the drain depends on the state only).
func runHistory(cf *config, hist []int, drained map[string]bool) result {
	a := newInst(cf)
	// b: the same history without its restarts. It has to be executed only when something follows a restart;
	// for restarts at the very end, b's state is a's state just before them.
	var b *inst
	trailing := len(hist) // index of the first of the trailing restarts
	for trailing > 0 && hist[trailing-1] == aRestart {
		trailing--
	}
	for _, x := range hist[:trailing] {
		if x == aRestart {
			b = newInst(cf)
			break
		}
	}
	beforeTrailing := ""
	o := &oracle{maxRel: -1}
	var res result
	var pat strings.Builder
	var ansA, ansB [][]int
	for step, act := range hist {
		last := step == len(hist)-1
		switch act {
		case aGrow:
			if a.da.tip >= len(cf.c.sizes) {
				return result{prune: true}
			}
			a.da.tip++
			if b != nil {
				b.da.tip++
			}
			res.trace = append(res.trace, fmt.Sprintf("tip→%d", a.da.tip))
			pat.WriteByte('g')
		case aErr:
			if a.da.errArmed {
				return result{prune: true}
			}
			a.da.errArmed = true
			if b != nil {
				b.da.errArmed = true
			}
			res.trace = append(res.trace, "fail-next-retrieval")
			pat.WriteByte('e')
		case aRestart:
			if step > 0 && hist[step-1] == aRestart {
				return result{prune: true} // a restart right after a restart starts from the same image
			}
			if step == trailing && b == nil {
				beforeTrailing = a.stateString()
			}
			a.restart()
			res.trace = append(res.trace, "restart")
			pat.WriteByte('r')
		case aNext:
			ans := a.next()
			if a.engErr != "" {
				return result{engErr: a.engErr}
			}
			if ans.nilResp {
				res.nilNil++
			}
			fs := o.observe(cf, ans)
			ansA = append(ansA, ans.idxs)
			res.trace = append(res.trace, "next→"+cf.c.names(ans.idxs))
			fmt.Fprintf(&pat, "%d", len(ans.idxs))
			if b != nil {
				bn := b.next()
				if b.engErr != "" {
					return result{engErr: b.engErr}
				}
				ansB = append(ansB, bn.idxs)
				if !equalInts(ans.idxs, bn.idxs) {
					fs = append(fs, finding{clRestart, nil, fmt.Sprintf("call %d answers %s; the same history without its restarts answers %s", len(ansA), cf.c.names(ans.idxs), cf.c.names(bn.idxs))})
				}
			}
			for _, f := range fs {
				if o.fired&(1<<f.clause) != 0 {
					continue // first violation of a clause is reported at the history that ends with it
				}
				o.fired |= 1 << f.clause
				if last {
					res.findings = append(res.findings, f)
				}
			}
		}
	}
	if a.engErr != "" {
		return result{engErr: a.engErr}
	}
	as := a.stateString()
	res.key = as + "#" + o.key()
	if b != nil {
		if bs := b.stateString(); bs != as {
			res.key += "#" + bs
		}
	} else if beforeTrailing != "" && beforeTrailing != as {
		res.key += "#" + beforeTrailing
	}
	res.pattern = pat.String()
	dk := as + "#" + o.key()
	if drained != nil && len(hist) > 0 && hist[len(hist)-1] != aErr && !drained[dk] {
		drained[dk] = true
		fs := o.drain(a)
		if a.engErr != "" {
			return result{engErr: a.engErr}
		}
		res.findings = append(res.findings, fs...)
	}
	return res
}

func equalInts(x, y []int) bool {
	if len(x) != len(y) {
		return false
	}
	for i := range x {
		if x[i] != y[i] {
			return false
		}
	}
	return true
}

// ---------------------------------------------------------------------------------------------------------------
// enumeration of DA contents

var txSizes = []int{1, 2, 4}

func heightOptions(maxTx int) [][]int {
	opts := [][]int{{}}
	var rec func(cur []int)
	rec = func(cur []int) {
		if len(cur) > 0 {
			opts = append(opts, append([]int(nil), cur...))
		}
		if len(cur) == maxTx {
			return
		}
		for _, s := range txSizes {
			rec(append(cur, s))
		}
	}
	rec(nil)
	sort.SliceStable(opts, func(i, j int) bool { return len(opts[i]) < len(opts[j]) })
	return opts
}

// allContents: exactly `heights` prepared heights (fewer are covered by never revealing the last ones), each with
// 0..maxTx transactions, at most maxTotal transactions in all; smallest first.
func allContents(heights, maxTx, maxTotal int) [][][]int {
	opts := heightOptions(maxTx)
	var out [][][]int
	var rec func(cur [][]int, total int)
	rec = func(cur [][]int, total int) {
		if len(cur) == heights {
			out = append(out, append([][]int(nil), cur...))
			return
		}
		for _, o := range opts {
			if total+len(o) > maxTotal {
				continue
			}
			rec(append(cur, o), total+len(o))
		}
	}
	rec(nil, 0)
	cnt := func(s [][]int) int {
		n := 0
		for _, r := range s {
			n += len(r)
		}
		return n
	}
	sort.SliceStable(out, func(i, j int) bool { return cnt(out[i]) < cnt(out[j]) })
	return out
}

// ---------------------------------------------------------------------------------------------------------------

func TestCheck(t *testing.T) {
	loggerOnce.Do(func() { _ = logging.SetLogLevel("c20", "FATAL") })
	debug.SetGCPercent(400) // many short-lived instances, tiny live heap
	r := vf.Start("C20", "model_checking")
	heights := vf.Pick(r, 3, 4)
	maxTx := 3
	maxTotal := vf.Pick(r, 4, 5)
	depth := vf.Pick(r, 6, 8)
	deadline := vf.Pick(r, 50*time.Second, 17*time.Minute)
	limits := []uint64{1, 2, 3, 5, 8, 0}
	drifts := []uint64{0, 1, 2}
	r.Assume = []string{
		"datastore contract: a single Put is atomic and durable (modelled by the logging KV double); no crash inside a call (restart = NewSequencer on the image between two calls)",
		"DA contract: a height at or below the tip never changes; heights above the tip answer 'given height is from the future'; empty heights answer an empty id list (as core/da DummyDA)",
		"the caller passes LastBatchData = BatchData of its previous non-nil answer and keeps it across a sequencer restart (block/manager.go retrieveBatch persists it)",
		"one MaxBytes value per configuration (the block manager always passes the same value)",
		"a limit smaller than a transaction: the transaction must never be released and never be overtaken; staying stuck on it is not a violation",
		"part 2 (crowded heights): the DA double is read through the real types.RetrieveWithHelpers (the sequencer calls it itself); the retrieval batch size is measured from the double's call log, not assumed; an injected failure of a listing call or of a blob-fetch call is a legitimate DA error (the sequencer may answer with an error or with what it has, and must retry the height)",
		"part 2: clause batch-data-ids reads 'releases the transactions found on the DA layer' as: the BatchData entry that accompanies a released transaction is that transaction's DA id (the block manager hands BatchData back as LastBatchData and to VerifyBatch)",
	}

	if r.ReplayPath() != "" {
		var rp replay
		if _, err := r.LoadReplay(&rp); err != nil {
			r.EngineError(err.Error())
		} else if rp.Crowded != nil {
			replayCrowded(r, rp.Crowded)
		} else {
			cf := &config{c: mkContent(rp.Sizes), limit: rp.Limit, drift: rp.Drift}
			// replay every prefix so that clauses that fired earlier are shown too
			res := runHistory(cf, rp.Hist, map[string]bool{})
			if res.engErr != "" {
				r.EngineError(res.engErr)
			}
			fmt.Printf("replay: %s\n history: %s\n", cf, strings.Join(res.trace, " ; "))
			for _, f := range res.findings {
				r.Report(vf.Violation{Clause: clauseName[f.clause], Tags: f.tags, Msg: f.msg, History: rp})
			}
		}
		r.Finish(vf.Coverage{Evaluations: 1, DistinctNontrivial: 1})
		return
	}

	contents := allContents(heights, maxTx, maxTotal)
	var cfgs []*config
	for _, s := range contents {
		c := mkContent(s)
		for _, l := range limits {
			for _, d := range drifts {
				cfgs = append(cfgs, &config{c: c, limit: l, drift: d})
			}
		}
	}

	sampled := ""
	if os.Getenv("C20_PART") == "2" { // development aid: part 2 only (reported as a cap)
		sampled = "C20_PART=2: part 1 was not run"
		cfgs = nil
	}
	if n, _ := strconv.Atoi(os.Getenv("C20_SAMPLE")); n > 1 { // development aid: every n-th configuration only (reported as a cap)
		sampled = fmt.Sprintf("C20_SAMPLE=%d: only every %d-th of %d configurations was explored", n, n, len(cfgs))
		var sub []*config
		for i, c := range cfgs {
			if i%n == 0 {
				sub = append(sub, c)
			}
		}
		cfgs = sub
	}
	started := time.Now()
	var (
		mu          sync.Mutex
		states      int64
		transitions int64
		executions  int64
		nilNil      int64
		cfgDone     int64
		cfgCapped   int64
		cfgSkipped  int64
		perLevel    = make([]int64, depth)
		patterns    = map[string]bool{}
		byClass     = map[string]int64{}
		nilNilEx    string
	)
	var nextCfg atomic.Int64
	var wg sync.WaitGroup
	workers := runtime.NumCPU()
	if w, err := strconv.Atoi(os.Getenv("VERIF_WORKERS")); err == nil && w > 0 {
		workers = w
	}
	for w := 0; w < workers; w++ {
		wg.Add(1)
		go func() {
			defer wg.Done()
			best := map[string]int{} // clause|tags -> smallest cost reported with full text by this worker
			lpat := map[string]bool{}
			lclass := map[string]int64{}
			var lexec, lnil int64
			var lnilEx string
			for {
				ci := int(nextCfg.Add(1) - 1)
				if ci >= len(cfgs) {
					break
				}
				cf := cfgs[ci]
				remaining := deadline - time.Since(started)
				if remaining <= 0 {
					atomic.AddInt64(&cfgSkipped, 1)
					continue
				}
				ntx := len(cf.c.flat)
				drained := map[string]bool{}
				sampledCfg := false
				st := explore.BFS(explore.BFSConfig{Depth: depth, Actions: nActions, Workers: 1, Deadline: remaining}, func(hist []int) explore.Step {
					res := runHistory(cf, hist, drained)
					lexec++
					if res.prune {
						return explore.Step{Prune: true}
					}
					if res.engErr != "" {
						r.EngineError(fmt.Sprintf("%s; %s; history %v", res.engErr, cf, hist))
						return explore.Step{Prune: true}
					}
					if res.nilNil > 0 {
						lnil++
						if lnilEx == "" {
							lnilEx = fmt.Sprintf("%s: %s", cf, strings.Join(res.trace, " ; "))
						}
					}
					lpat[res.pattern] = true
					for _, f := range res.findings {
						cost := len(hist)*100 + ntx
						k := clauseName[f.clause] + "|" + strings.Join(f.tags, ",")
						lclass[k]++
						v := vf.Violation{Clause: clauseName[f.clause], Tags: f.tags, Cost: cost}
						if old, ok := best[k]; !ok || cost < old {
							best[k] = cost
							v.Msg = f.msg + "\n config: " + cf.String() + "\n history: " + strings.Join(res.trace, " ; ")
							v.History = replay{Sizes: cf.c.sizes, Limit: cf.limit, Drift: cf.drift, Hist: append([]int(nil), hist...), Trace: res.trace}
						}
						r.Report(v)
					}
					if !sampledCfg && ci%(len(cfgs)/6+1) == len(cfgs)/12 && len(hist) == depth && hist[0] == aNext && hist[1] == aGrow {
						sampledCfg = true
						r.Sample(fmt.Sprintf("%s: %s", cf, strings.Join(res.trace, " ; ")))
					}
					return explore.Step{Key: res.key}
				})
				mu.Lock()
				states += st.States
				transitions += st.Transitions
				if st.Capped != "" {
					cfgCapped++
				} else {
					cfgDone++
				}
				for i, n := range st.PerLevel {
					perLevel[i] += n
				}
				mu.Unlock()
			}
			mu.Lock()
			executions += lexec
			nilNil += lnil
			if nilNilEx == "" || (lnilEx != "" && len(lnilEx) < len(nilNilEx)) {
				nilNilEx = lnilEx
			}
			for k := range lpat {
				patterns[k] = true
			}
			for k, n := range lclass {
				byClass[k] += n
			}
			mu.Unlock()
		}()
	}
	wg.Wait()
	for k := range patterns {
		r.Outcome(k)
	}
	var caps []string
	if sampled != "" {
		caps = append(caps, sampled)
	}
	// part 2: crowded DA heights (crowded_test.go)
	p2 := runCrowdedPart(r, vf.Pick(r, 50*time.Second, 10*time.Minute))
	for k := range p2.patterns {
		r.Outcome(k)
	}
	caps = append(caps, p2.caps...)
	for k, n := range p2.byClass {
		byClass["crowded: "+k] += n
	}
	if cfgCapped > 0 || cfgSkipped > 0 {
		caps = append(caps, fmt.Sprintf("deadline %s: %d configurations completed to depth %d, %d cut short, %d not started", deadline, cfgDone, depth, cfgCapped, cfgSkipped))
	}
	r.Finish(vf.Coverage{
		Evaluations: executions + p2.runs + p2.merged + p2.diverged, DistinctNontrivial: states + int64(len(p2.patterns)), States: states, Transitions: transitions,
		Rule:       "for every configuration (DA contents × MaxBytes × maxHeightDrift) every history over {GetNextBatch with the manager's cursor, tip+1, fail the next DA retrieval, restart on the datastore image} up to the depth bound, each executed from scratch on a fresh real based.Sequencer (plus, when it contains restarts, the same history without them) and followed by a drain (further calls until nothing new comes) that decides omission; histories are merged when the live carry-over queue, the datastore image, the cursor, the tip, the armed error and the oracle's memory (released set, handed-over set, feature flags, clauses already violated) agree — the sequencer has no other state; distinct = distinct merged states summed over configurations. Part 2 (crowded DA heights, crowded_test.go): the retrieval batch size b of types.RetrieveWithHelpers is measured (largest id list of one blob-fetch call for a height with 1024 transactions); then for every configuration (height layout from bounds.crowded.layouts with N transactions at the crowded height, N from bounds.crowded.N × transaction-size pattern × MaxBytes = k·unit for k from bounds.crowded.txs_per_answer_k × maxHeightDrift × tip mode) the real based.Sequencer (reading the DA double through the real helper) is called with the manager's cursor until H+2 calls in a row bring nothing new: once without fault and once for EVERY DA operation q of the fault-free run (listing call or any blob-fetch chunk) with operation q failing; in every such run a restart (NewSequencer on the datastore image, cursor kept) is tried before EVERY call: if the restarted sequencer's carry-over queue (transactions and ids; the datastore and the cursor are equal by construction) equals the live one the two are merged, otherwise the restarted one is continued in lockstep to the end with its own oracle and its answers are compared with the live ones; oracle as in part 1 plus batch-data-ids; evaluations = part-1 executions + part-2 runs + part-2 restart positions; distinct adds the part-2 outcome classes",
		Exhaustive: len(caps) == 0, Caps: caps,
		Bounds: map[string]any{"depth": depth, "heights": heights, "txs_per_height": "0..3", "total_txs_max": maxTotal, "tx_sizes": txSizes, "max_bytes": limits, "drift": drifts, "configurations": len(cfgs), "da_contents": len(contents), "states_per_level": perLevel, "actions": []string{"next", "tip+1", "fail-next-retrieval", "restart"},
			"crowded": map[string]any{
				"retrieval_batch_size_b": p2.b, "b_how": p2.bHow, "layouts": p2.shapes, "N": p2.ns, "tx_size_patterns": []string{"every transaction 4 bytes (unit 4)", "3..7 bytes cycling with the position (unit 7)"},
				"txs_per_answer_k": p2.ks, "drift": p2.drifts, "tip_modes": []string{"all heights visible from the start", "tip starts at 1, +1 after every call that brought nothing new"},
				"configurations": p2.configs, "faults_per_run": "0 or 1, at every DA operation of the fault-free run", "restarts_per_run": "0 or 1, before every call",
			}},
		Extra: map[string]any{
			"violating_histories_by_clause_and_tags": byClass,
			"histories_with_nil_nil_answer":          nilNil,
			"nil_nil_example":                        nilNilEx,
			"crowded_heights": map[string]any{
				"configurations_completed": p2.configsDone, "runs": p2.runs, "runs_with_an_injected_retrieval_error": p2.faultRuns, "GetNextBatch_calls": p2.calls,
				"restart_positions_merged_with_the_live_sequencer": p2.merged, "restart_positions_continued_separately": p2.diverged, "restart_positions_dropped": p2.dropped,
				"max_blob_fetch_calls_per_listing_call": p2.maxGets, "max_calls_in_a_run": p2.maxCalls, "max_txs_at_one_height": p2.maxN, "nil_nil_answers": p2.nilNil, "wall_s": p2.wall.Seconds(), "cpu_s": p2.cpu.Seconds(),
			},
			"note_nil_nil": "GetNextBatch answers (nil, nil) when it has nothing to release; not a clause of C20 (the block manager tolerates it), counted only",
		},
	})
}
